(* ApiFacts.v — facts about the API shape REGENERATED from the sources (gen/ApiGen.v, translator T3):
   finite statements about generated tables, decided by computation. *)
From SV Require Import Base Lit.
From SV.gen Require Import ApiGen ConstGen.
Local Open Scope bool_scope.

Definition strs_eqb (a b : list str) : bool :=
  Nat.eqb (length a) (length b) && forallb (fun xy => str_eqb (fst xy) (snd xy)) (combine a b).

(* every module-level query function forwards pattern, namespaces, flags AND custom to compile(),
   then calls the same-named method *)
Definition wrapper_ok (w : str * (list str * (str * list str))) : bool :=
  let '(name, (fw, (meth, margs))) := w in
  strs_eqb fw [A_select; A_namespaces; A_flags; A_custom] && str_eqb meth name.
Lemma wrappers_forward : forallb wrapper_ok wrappers = true /\ length wrappers = 6%nat.
Proof. split; vm_compute; reflexivity. Qed.

Definition wrapper_margs_ok (w : str * (list str * (str * list str))) : bool :=
  let '(name, (fw, (meth, margs))) := w in
  strs_eqb margs [A_tag] || strs_eqb margs [A_iterable] || strs_eqb margs [A_tag; A_limit].
Lemma wrappers_pass_target : forallb wrapper_margs_ok wrappers = true.
Proof. vm_compute. reflexivity. Qed.

(* the cache is keyed on all four arguments, bounded by _MAXCACHE, and purge clears it *)
Lemma cache_key_complete :
  strs_eqb cache_params [A_pattern; A_namespaces; A_custom; A_flags] = true /\
  strs_eqb compile_passes [A_pattern; A_ns_wrap; A_custom_wrap; A_flags] = true /\
  strs_eqb cache_decorators [A_lru] = true /\ strs_eqb purge_body [A_purge] = true.
Proof. repeat split; vm_compute; reflexivity. Qed.

(* compile(compiled) returns the same object and rejects flags / namespaces / custom *)
Lemma passthrough_shape :
  str_eqb passthrough_test A_isinstance = true /\
  strs_eqb passthrough_rejects [A_flags; A_rej_ns; A_rej_custom] = true /\
  str_eqb passthrough_returns A_return_pattern = true.
Proof. repeat split; vm_compute; reflexivity. Qed.

(* every immutable class: __slots__ = constructor keywords ++ [_hash], the positional __init__ order is the
   slot order (so pickling by slots[:-1] round-trips), and no subclass overrides the equality / hash /
   mutation-blocking methods of Immutable, which defines all of them *)
Definition has (l : list str) (x : str) : bool := existsb (str_eqb x) l.
Definition class_ok (c : str * (option (list str) * (option (list str) * (option (list str) * list str)))) : bool :=
  let '(name, (slots, (kw, (ip, dunders)))) := c in
  if str_eqb name A_Immutable then
    has dunders A_setattr && has dunders A_delattr && has dunders A_eq && has dunders A_ne && has dunders A_hashm
  else
    negb (has dunders A_setattr || has dunders A_delattr || has dunders A_eq || has dunders A_ne || has dunders A_hashm) &&
    match slots, kw, ip with
    | Some s, Some k, Some i => strs_eqb s (k ++ [A_hash]) && strs_eqb i k
    | None, Some k, Some i => strs_eqb k [] && strs_eqb i []          (* SelectorNull: inherits ('_hash',) *)
    | _, _, _ => false
    end.
Lemma immutable_classes_ok : forallb class_ok immutable_classes = true /\ length immutable_classes = 10%nat.
Proof. split; vm_compute; reflexivity. Qed.
