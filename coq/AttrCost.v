(* AttrCost.v — the attribute patterns the parser builds at run time (AttrPat.attr_template, for EVERY selector value v,
   operator and flag) carry the DetCost certificate, with a degree that does not depend on v (C07). *)
From SV Require Import Base Regex RegexFacts RegexCost RunFacts DetCost AttrPat.
Local Open Scope bool_scope.

Lemma cert_seq_list l : forallb cert l = true -> cert (seq_list l) = true.
Proof.
  induction l as [|x l IH]; intros H; [reflexivity|]. cbn [forallb] in H. apply andb_true_iff in H as [Hx Hl].
  destruct l as [|y l']; [exact Hx|]. change (seq_list (x :: y :: l')) with (Seq x (seq_list (y :: l'))). cbn [cert]. rewrite Hx, (IH Hl). reflexivity.
Qed.

Lemma deg_seq_list l : deg (seq_list l) = list_sum (map deg l).
Proof.
  induction l as [|x l IH]; [reflexivity|]. destruct l as [|y l']; [cbn; lia|].
  change (seq_list (x :: y :: l')) with (Seq x (seq_list (y :: l'))). cbn [deg]. rewrite IH. reflexivity.
Qed.

Lemma cert_lits ic v : forallb cert (map (lit_chr ic) v) = true.
Proof. induction v as [|c v IH]; [reflexivity|]. cbn [map forallb]. rewrite IH. reflexivity. Qed.
Lemma deg_lits ic v : list_sum (map deg (map (lit_chr ic) v)) = 0.
Proof. induction v as [|c v IH]; [reflexivity|]. change (list_sum (map deg (map (lit_chr ic) (c :: v)))) with (0 + list_sum (map deg (map (lit_chr ic) v))). rewrite IH. reflexivity. Qed.

Lemma forallb_app_true {A} (f : A -> bool) a b : forallb f a = true -> forallb f b = true -> forallb f (a ++ b) = true.
Proof. intros Ha Hb. rewrite forallb_app, Ha, Hb. reflexivity. Qed.

Theorem attr_template_certified op v ic dotall : cert (attr_template op v ic dotall) = true.
Proof.
  unfold attr_template. destruct op.
  - apply cert_seq_list. apply forallb_app_true; [reflexivity|]. apply forallb_app_true; [apply cert_lits | reflexivity].
  - apply cert_seq_list. apply forallb_app_true; [destruct dotall; reflexivity|].
    apply forallb_app_true; [|destruct dotall; reflexivity].
    destruct (match v with [] => true | _ :: _ => false end || has_ws v); [reflexivity | apply cert_lits].
  - apply cert_seq_list. apply forallb_app_true; [reflexivity|]. apply forallb_app_true; [apply cert_lits | destruct dotall; reflexivity].
  - destruct v; [reflexivity|]. apply cert_seq_list. apply forallb_app_true; [reflexivity|]. apply forallb_app_true; [apply cert_lits | destruct dotall; reflexivity].
  - destruct v; [reflexivity|]. apply cert_seq_list. apply forallb_app_true; [destruct dotall; reflexivity|]. apply forallb_app_true; [apply cert_lits | reflexivity].
  - destruct v; [reflexivity|]. apply cert_seq_list. apply forallb_app_true; [destruct dotall; reflexivity|]. apply forallb_app_true; [apply cert_lits | destruct dotall; reflexivity].
Qed.

Theorem attr_template_degree op v ic dotall : deg (attr_template op v ic dotall) <= 8.
Proof.
  unfold attr_template. destruct op.
  - rewrite deg_seq_list, !map_app, !list_sum_app, deg_lits. cbn. lia.
  - rewrite deg_seq_list, !map_app, !list_sum_app.
    destruct (match v with [] => true | _ :: _ => false end || has_ws v); [|rewrite deg_lits]; destruct dotall; cbn; lia.
  - rewrite deg_seq_list, !map_app, !list_sum_app, deg_lits. destruct dotall; cbn; lia.
  - destruct v; [cbn; lia|]. rewrite deg_seq_list, !map_app, !list_sum_app, deg_lits. destruct dotall; cbn; lia.
  - destruct v; [cbn; lia|]. rewrite deg_seq_list, !map_app, !list_sum_app, deg_lits. destruct dotall; cbn; lia.
  - destruct v; [cbn; lia|]. rewrite deg_seq_list, !map_app, !list_sum_app, deg_lits. destruct dotall; cbn; lia.
Qed.

(* hence: whatever the selector value, matching an attribute pattern against ANY attribute value searches at most (n+2)^8 ends *)
Corollary attr_template_bound op v ic dotall st c :
  length (ends (attr_template op v ic dotall) st c) <= (length (after st) + 2) ^ 8.
Proof.
  etransitivity; [apply cert_bound, attr_template_certified|]. etransitivity; [apply bnd_poly|].
  apply Nat.pow_le_mono_r; [lia | apply attr_template_degree].
Qed.
Print Assumptions attr_template_bound.
