(* AttrFacts.v — what the attribute-operator patterns built by the parser (AttrPat.attr_template, validated AST-for-AST
   against the live parser on every run) accept: the CSS meaning of [a=v], [a^=v], [a$=v], [a*=v], [a|=v] (C01). *)
From SV Require Import Base Regex RunFacts AttrPat.
Local Open Scope bool_scope.

(* one pattern character against one subject character (exact, or up to the regenerated case closure) *)
Definition ceq (ic : bool) (c x : cp) : bool := cs_mem x (if ic then icase_cs c else [(c, c)]%N).

Lemma ceq_exact c x : ceq false c x = (x =? c)%N.
Proof. unfold ceq. apply mem_single. Qed.

(* v is a prefix of a, character by character; returns what follows *)
Fixpoint strip_prefix (ic : bool) (v a : str) : option str :=
  match v, a with
  | [], _ => Some a
  | c :: v', x :: a' => if ceq ic c x then strip_prefix ic v' a' else None
  | _ :: _, [] => None
  end.

Fixpoint adv_many (r : str) (st : state) : state :=
  match r with [] => st | x :: r' => adv_many r' (St (S (pos st)) (x :: before st) (tl (after st))) end.

Lemma ends_lit_chr ic ch p b a c :
  ends (lit_chr ic ch) (St p b a) c =
  match a with x :: a' => if ceq ic ch x then [(St (S p) (x :: b) a', c)] else [] | [] => [] end.
Proof. destruct a; reflexivity. Qed.

(* a literal followed by a (non-empty) continuation K *)
Lemma ends_lits ic v : forall (K : list re) p b a c, K <> [] ->
  ends (seq_list (map (lit_chr ic) v ++ K)) (St p b a) c =
  match strip_prefix ic v a with
  | Some rest => ends (seq_list K) (St (p + length v) (rev (firstn (length v) a) ++ b) rest) c
  | None => []
  end.
Proof.
  induction v as [|ch v IH]; intros K p b a c HK.
  - cbn [map app strip_prefix length firstn rev]. rewrite Nat.add_0_r. reflexivity.
  - cbn [map app].
    assert (Hne : map (lit_chr ic) v ++ K <> []) by (intros H; apply app_eq_nil in H as [_ H]; exact (HK H)).
    destruct (map (lit_chr ic) v ++ K) as [|r0 l0] eqn:El; [congruence|].
    change (ends (seq_list (lit_chr ic ch :: r0 :: l0)) (St p b a) c)
      with (flat_map (fun sc => ends (seq_list (r0 :: l0)) (fst sc) (snd sc)) (ends (lit_chr ic ch) (St p b a) c)).
    rewrite <- El. rewrite ends_lit_chr. cbn [strip_prefix].
    destruct a as [|x a]; [reflexivity|]. destruct (ceq ic ch x); [|reflexivity].
    cbn [flat_map fst snd]. rewrite app_nil_r. rewrite (IH K (S p) (x :: b) a c HK).
    destruct (strip_prefix ic v a); [|reflexivity]. cbn [length firstn rev]. rewrite <- app_assoc. cbn [app].
    replace (S p + length v) with (p + S (length v)) by lia. reflexivity.
Qed.

Definition accepts (r : re) (x : str) : bool := match rmatch r x 0 with Some _ => true | None => false end.

Lemma accepts_ends r x : accepts r x = match ends r (st_init x) [] with [] => false | _ :: _ => true end.
Proof.
  unfold accepts, rmatch, rmatch_st, st_at. cbn [st_skip].
  destruct (ends r (st_init x) []) as [|[st c] l]; reflexivity.
Qed.

Lemma seq_list_cons r l : l <> [] -> seq_list (r :: l) = Seq r (seq_list l).
Proof. destruct l; [congruence | reflexivity]. Qed.

(* exact comparison *)
Lemma strip_exact_all v : forall a, strip_prefix false v a = Some [] <-> a = v.
Proof.
  induction v as [|c v IH]; intros a; cbn [strip_prefix].
  - split; [intros H; injection H as ->; reflexivity | intros ->; reflexivity].
  - destruct a as [|x a]; [split; intros H; discriminate H|].
    rewrite ceq_exact. destruct (N.eqb_spec x c) as [->|Hne].
    + rewrite IH. split; [intros ->; reflexivity | intros H; injection H as ->; reflexivity].
    + split; [intros H; discriminate H | intros H; injection H as H1 _; congruence].
Qed.
Lemma strip_exact_prefix v : forall a, (exists rest, strip_prefix false v a = Some rest) <-> prefixb v a = true.
Proof.
  induction v as [|c v IH]; intros a; cbn [strip_prefix prefixb].
  - split; [reflexivity | intros _; exists a; reflexivity].
  - destruct a as [|x a]; [split; [intros [r H]; discriminate H | discriminate]|].
    rewrite ceq_exact. rewrite N.eqb_sym. destruct (c =? x)%N; cbn [andb]; [apply IH | split; [intros [r H]; discriminate H | discriminate]].
Qed.

(* [a=v]: the value equals v *)
Theorem op_eq_spec v x dotall : accepts (attr_template OpEq v false dotall) x = true <-> x = v.
Proof.
  rewrite accepts_ends. unfold attr_template. cbn [app].
  rewrite seq_list_cons by (intros H; apply app_eq_nil in H as [_ H]; discriminate H).
  cbn [ends st_init pos flat_map fst snd]. rewrite app_nil_r. unfold st_init.
  rewrite (ends_lits false v [AtEndStrict] 0 [] x []) by discriminate.
  rewrite <- strip_exact_all. destruct (strip_prefix false v x) as [rest|]; [|split; intros H; discriminate H].
  cbn [seq_list ends after]. destruct rest; split; intros H; try reflexivity; try discriminate H.
Qed.

(* the greedy `.*` always has an end *)
Lemma star_nonempty cs st c : ends (Rep true 0 None (Chr cs)) st c <> [].
Proof.
  rewrite ends_rep. destruct st as [p b a]. rewrite rep_ends_run by (cbn; lia).
  destruct a as [|y a]; cbn [run_ends].
  - discriminate.
  - destruct (cs_mem y cs && negb (mx_zero None)); [|discriminate].
    intros H. apply app_eq_nil in H as [_ H]. discriminate H.
Qed.

(* [a^=v]: v is not empty and the value starts with v *)
Theorem op_prefix_spec v x dotall : accepts (attr_template OpPrefix v false dotall) x = true <-> v <> [] /\ prefixb v x = true.
Proof.
  rewrite accepts_ends. unfold attr_template. destruct v as [|c0 v0].
  - cbn [ends st_init st_adv after]. destruct x as [|y x]; cbn; split; try (intros H; discriminate H); intros [H _]; congruence.
  - set (v := c0 :: v0). cbn [app].
    rewrite seq_list_cons by (intros H; apply app_eq_nil in H as [_ H]; discriminate H).
    cbn [ends st_init pos flat_map fst snd]. rewrite app_nil_r. unfold st_init.
    rewrite (ends_lits false v _ 0 [] x []) by discriminate.
    rewrite <- strip_exact_prefix. destruct (strip_prefix false v x) as [rest|].
    + cbn [seq_list]. pose proof (star_nonempty (if dotall then cs_any else cs_any_nonl) (St (0 + length v) (rev (firstn (length v) x) ++ []) rest) []) as Hs.
      destruct (ends _ _ _); [congruence|]. split; [intros _; split; [discriminate | exists rest; reflexivity] | reflexivity].
    + split; [intros H; discriminate H | intros [_ [r H]]; discriminate H].
Qed.
Print Assumptions op_prefix_spec.

(* ---- the lazy `.*?` in front of a literal: every start position is tried, left to right ---- *)
Fixpoint lazy_ends (cs : cset) (p : nat) (b a : str) (c : caps) : mres :=
  (St p b a, c) :: match a with x :: a' => if cs_mem x cs then lazy_ends cs (S p) (x :: b) a' c else [] | [] => [] end.

Lemma rep_ends_lazy cs : forall a fuel p b c, length a < fuel ->
  rep_ends (ends (Chr cs)) false fuel 0 None (St p b a) c = lazy_ends cs p b a c.
Proof.
  induction a as [|x a IH]; intros fuel p b c Hf; (destruct fuel as [|f]; [simpl in Hf; lia|]).
  - reflexivity.
  - cbn [rep_ends lazy_ends ends st_adv after pos before]. destruct (cs_mem x cs); [|reflexivity].
    cbn [flat_map fst snd pos]. replace (p <? S p) with true by (symmetry; apply Nat.ltb_lt; lia).
    rewrite app_nil_r. rewrite IH by (simpl in Hf; lia). reflexivity.
Qed.

Definition valid_str (s : str) : Prop := Forall (fun ch => (ch <= 1114111)%N) s.
Lemma any_mem ch : (ch <= 1114111)%N -> cs_mem ch cs_any = true.
Proof. intros H. unfold cs_mem, cs_any. cbn [existsb fst snd]. rewrite orb_false_r. apply andb_true_iff. split; apply N.leb_le; lia. Qed.

(* a continuation whose success depends on the remaining subject only *)
Section Lazy.
Variable K : state -> caps -> mres.
Variable Q : str -> bool.
Hypothesis HK : forall p b a c, (K (St p b a) c <> []) <-> Q a = true.

Fixpoint somewhere (a : str) : bool := Q a || match a with _ :: a' => somewhere a' | [] => false end.

Lemma lazy_any : forall a p b c, valid_str a ->
  (flat_map (fun sc => K (fst sc) (snd sc)) (lazy_ends cs_any p b a c) <> []) <-> somewhere a = true.
Proof.
  induction a as [|x a IH]; intros p b c Hv; cbn [lazy_ends flat_map fst snd somewhere].
  - rewrite app_nil_r, orb_false_r. apply HK.
  - inversion Hv as [|? ? Hx Hv']; subst. rewrite (any_mem x Hx). rewrite orb_true_iff. rewrite <- (IH (S p) (x :: b) c Hv'), <- (HK p b (x :: a) c).
    split.
    + intros H. destruct (K (St p b (x :: a)) c) eqn:E; [right; exact H | left; discriminate].
    + intros [H|H] H2; apply app_eq_nil in H2 as [H3 H4]; [exact (H H3) | exact (H H4)].
Qed.
End Lazy.

Lemma somewhere_spec Q a : somewhere Q a = true <-> exists l r, a = l ++ r /\ Q r = true.
Proof.
  induction a as [|x a IH]; cbn [somewhere].
  - rewrite orb_false_r. split; [intros H; exists [], []; split; [reflexivity | exact H] | intros (l & r & H & HQ)].
    symmetry in H. apply app_eq_nil in H as [-> ->]. exact HQ.
  - rewrite orb_true_iff, IH. split.
    + intros [H | (l & r & -> & HQ)]; [exists [], (x :: a); split; [reflexivity | exact H] | exists (x :: l), r; split; [reflexivity | exact HQ]].
    + intros ([|y l] & r & H & HQ); [left; cbn in H; subst r; exact HQ | right]. cbn in H. injection H as <- ->. exists l, r. split; [reflexivity | exact HQ].
Qed.

(* [a$=v]: v is not empty and the value ends with v *)
Theorem op_suffix_spec v x : valid_str x ->
  accepts (attr_template OpSuffix v false true) x = true <-> v <> [] /\ exists l, x = l ++ v.
Proof.
  intros Hv. rewrite accepts_ends. unfold attr_template. destruct v as [|c0 v0].
  - cbn [ends st_init st_adv after]. destruct x as [|y x]; cbn; split; try (intros H; discriminate H); intros [H _]; congruence.
  - set (v := c0 :: v0). cbn [app].
    rewrite seq_list_cons by (intros H; apply app_eq_nil in H as [_ H]; discriminate H).
    rewrite ends_seq, ends_rep. unfold st_init. cbn [after]. rewrite rep_ends_lazy by lia.
    set (K := fun st c => ends (seq_list (map (lit_chr false) v ++ [AtEndStrict])) st c).
    set (Q := fun a : str => match strip_prefix false v a with Some [] => true | _ => false end).
    assert (HK : forall p b a c, (K (St p b a) c <> []) <-> Q a = true).
    { intros p b a c. unfold K, Q. rewrite (ends_lits false v [AtEndStrict] p b a c) by discriminate.
      destruct (strip_prefix false v a) as [[|r rs]|]; cbn [seq_list ends after]; split; intros H; try discriminate H; try congruence. }
    pose proof (lazy_any K Q HK x 0 [] [] Hv) as HL.
    assert (Hgoal : match flat_map (fun sc => K (fst sc) (snd sc)) (lazy_ends cs_any 0 [] x []) with [] => false | _ :: _ => true end = true
                    <-> somewhere Q x = true).
    { rewrite <- HL. destruct (flat_map _ _); split; intros H; try reflexivity; try discriminate H; congruence. }
    rewrite Hgoal, somewhere_spec. split.
    + intros (l & r & -> & HQ). split; [discriminate|]. exists l. f_equal. unfold Q in HQ.
      destruct (strip_prefix false v r) as [[|? ?]|] eqn:E; try discriminate HQ. apply strip_exact_all. exact E.
    + intros [_ [l ->]]. exists l, v. split; [reflexivity|]. unfold Q. replace (strip_prefix false v v) with (Some (@nil cp)); [reflexivity|].
      symmetry. apply strip_exact_all. reflexivity.
Qed.

(* [a*=v]: v is not empty and occurs in the value *)
Theorem op_substr_spec v x : valid_str x ->
  accepts (attr_template OpSubstr v false true) x = true <-> v <> [] /\ exists l r, x = l ++ v ++ r.
Proof.
  intros Hv. rewrite accepts_ends. unfold attr_template. destruct v as [|c0 v0].
  - cbn [ends st_init st_adv after]. destruct x as [|y x]; cbn; split; try (intros H; discriminate H); intros [H _]; congruence.
  - set (v := c0 :: v0). cbn [app].
    rewrite seq_list_cons by (intros H; apply app_eq_nil in H as [_ H]; discriminate H).
    rewrite ends_seq, ends_rep. unfold st_init. cbn [after]. rewrite rep_ends_lazy by lia.
    set (K := fun st c => ends (seq_list (map (lit_chr false) v ++ [Rep true 0 None (Chr cs_any)])) st c).
    set (Q := fun a : str => match strip_prefix false v a with Some _ => true | None => false end).
    assert (HK : forall p b a c, (K (St p b a) c <> []) <-> Q a = true).
    { intros p b a c. unfold K, Q. rewrite (ends_lits false v _ p b a c) by discriminate.
      destruct (strip_prefix false v a) as [rest|]; cbn [seq_list]; [|split; intros H; [congruence | discriminate H]].
      split; [reflexivity | intros _; apply star_nonempty]. }
    pose proof (lazy_any K Q HK x 0 [] [] Hv) as HL.
    assert (Hgoal : match flat_map (fun sc => K (fst sc) (snd sc)) (lazy_ends cs_any 0 [] x []) with [] => false | _ :: _ => true end = true
                    <-> somewhere Q x = true).
    { rewrite <- HL. destruct (flat_map _ _); split; intros H; try reflexivity; try discriminate H; congruence. }
    rewrite Hgoal, somewhere_spec. split.
    + intros (l & r & -> & HQ). split; [discriminate|]. unfold Q in HQ.
      destruct (strip_prefix false v r) as [rest|] eqn:E; [|discriminate HQ].
      assert (Hp : prefixb v r = true) by (apply strip_exact_prefix; exists rest; exact E).
      apply prefixb_spec in Hp as [r' ->]. exists l, r'. reflexivity.
    + intros [_ (l & r & ->)]. exists l, (v ++ r). split; [reflexivity|]. unfold Q.
      assert (Hp : prefixb v (v ++ r) = true) by (apply prefixb_spec; exists r; reflexivity).
      apply strip_exact_prefix in Hp as [rest ->]. reflexivity.
Qed.
Print Assumptions op_substr_spec.

(* the greedy `.*` reaches the end of a valid subject *)
Lemma star_reaches_end : forall a p b c, valid_str a ->
  exists st', In (st', c) (run_ends cs_any 0 None p b a c) /\ after st' = [].
Proof.
  induction a as [|x a IH]; intros p b c Hv; cbn [run_ends].
  - exists (St p b []). split; [left; reflexivity | reflexivity].
  - inversion Hv as [|? ? Hx Hv']; subst. rewrite (any_mem x Hx). cbn [andb mx_zero negb pred pred_opt].
    destruct (IH (S p) (x :: b) c Hv') as (st' & Hin & He). exists st'. split; [apply in_or_app; left; exact Hin | exact He].
Qed.

Lemma filter_end_nonempty (l : mres) : (exists st' c', In (st', c') l /\ after st' = []) <->
  flat_map (fun sc => ends AtEndStrict (fst sc) (snd sc)) l <> [].
Proof.
  induction l as [|[st c] l IH]; cbn [flat_map fst snd ends].
  - split; [intros (? & ? & [] & _) | congruence].
  - destruct (after st) eqn:E.
    + split; [discriminate | intros _; exists st, c; split; [left; reflexivity | exact E]].
    + cbn [app]. rewrite <- IH. split.
      * intros (st' & c' & [H|H] & He); [injection H as <- <-; congruence | exists st', c'; split; assumption].
      * intros (st' & c' & H & He). exists st', c'. split; [right; exact H | exact He].
Qed.

Lemma strip_exact_app v : forall x rest, strip_prefix false v x = Some rest -> x = v ++ rest.
Proof.
  induction v as [|c v IH]; intros x rest H; cbn [strip_prefix app] in *; [congruence|].
  destruct x as [|y x]; [discriminate|]. rewrite ceq_exact in H. destruct (N.eqb_spec y c) as [->|]; [|discriminate].
  f_equal. exact (IH _ _ H).
Qed.

Lemma run_ends_pos cs : forall a mn mx p b c st' c', In (st', c') (run_ends cs mn mx p b a c) -> p <= pos st'.
Proof.
  induction a as [|z r IH]; intros mn mx p b c st' c' Hin; cbn [run_ends] in Hin.
  - destruct mn; [destruct Hin as [H|[]]; injection H as <- _; cbn; lia | destruct Hin].
  - destruct (cs_mem z cs && negb (mx_zero mx)).
    + apply in_app_or in Hin as [H|H]; [specialize (IH _ _ _ _ _ _ _ H); lia|].
      destruct mn; [destruct H as [H|[]]; injection H as <- _; cbn; lia | destruct H].
    + destruct mn; [destruct Hin as [H|[]]; injection H as <- _; cbn; lia | destruct Hin].
Qed.

Lemma ends_chr cs p b a c :
  ends (Chr cs) (St p b a) c = match a with y :: r => if cs_mem y cs then [(St (S p) (y :: b) r, c)] else [] | [] => [] end.
Proof. destruct a; reflexivity. Qed.

(* [a|=v]: the value is v, or starts with v followed by '-' *)
Theorem op_dash_spec v x : valid_str x ->
  accepts (attr_template OpDash v false true) x = true <-> x = v \/ exists r, x = v ++ [45%N] ++ r.
Proof.
  intros Hv. rewrite accepts_ends. unfold attr_template. cbn [app].
  rewrite seq_list_cons by (intros H; apply app_eq_nil in H as [_ H]; discriminate H).
  cbn [ends st_init pos flat_map fst snd]. rewrite app_nil_r. unfold st_init.
  rewrite (ends_lits false v _ 0 [] x []) by discriminate.
  destruct (strip_prefix false v x) as [rest|] eqn:E.
  - assert (Hx : x = v ++ rest) by (apply strip_exact_app; exact E).
    assert (Hvr : valid_str rest) by (subst x; unfold valid_str in *; apply Forall_app in Hv as [_ H]; exact H).
    set (st := St (0 + length v) (rev (firstn (length v) x) ++ []) rest).
    change (seq_list [Rep true 0 (Some 1) (Seq (Chr [(45, 45)]%N) (Rep true 0 None (Chr cs_any))); AtEndStrict])
      with (Seq (Rep true 0 (Some 1) (Seq (Chr [(45, 45)]%N) (Rep true 0 None (Chr cs_any)))) AtEndStrict).
    rewrite ends_seq.
    assert (Hne : flat_map (fun sc => ends AtEndStrict (fst sc) (snd sc))
                    (ends (Rep true 0 (Some 1) (Seq (Chr [(45, 45)]%N) (Rep true 0 None (Chr cs_any)))) st []) <> []
                  <-> rest = [] \/ exists r, rest = 45%N :: r).
    { rewrite <- filter_end_nonempty. rewrite ends_rep. unfold st. cbn [after]. cbn [rep_ends]. cbn [pos].
      destruct rest as [|y rest'].
      - cbn [ends st_adv after flat_map app]. split; [intros _; left; reflexivity | intros _; eexists _, _; split; [left; reflexivity | reflexivity]].
      - rewrite ends_seq, ends_chr, mem_single.
        destruct (N.eqb_spec y 45) as [->|Hne].
        + cbn [flat_map fst snd]. rewrite app_nil_r. rewrite ends_rep. cbn [after]. rewrite rep_ends_run by (cbn [length]; lia).
          pose proof (Forall_inv_tail Hvr) as Hvr'.
          destruct (star_reaches_end rest' (S (0 + length v)) (45%N :: rev (firstn (length v) x) ++ []) [] Hvr') as (st' & Hin & He).
          split; [intros _; right; exists rest'; reflexivity|]. intros _. exists st', []. split; [|exact He].
          apply in_or_app. left. apply in_flat_map. exists (st', []). split; [exact Hin|]. cbn [fst snd pos].
          assert (Hpos : (0 + length v <? pos st') = true) by (apply Nat.ltb_lt; pose proof (run_ends_pos _ _ _ _ _ _ _ _ _ Hin); lia).
          rewrite Hpos. destruct (length rest'); left; reflexivity.
        + cbn [flat_map app]. split.
          * intros (st' & c' & [H|[]] & He). injection H as <- <-. discriminate He.
          * intros [H | [r H]]; [discriminate H | injection H as -> _; congruence]. }
    assert (Hgoal : match flat_map (fun sc => ends AtEndStrict (fst sc) (snd sc))
                            (ends (Rep true 0 (Some 1) (Seq (Chr [(45, 45)]%N) (Rep true 0 None (Chr cs_any)))) st []) with [] => false | _ :: _ => true end = true
                    <-> rest = [] \/ exists r, rest = 45%N :: r).
    { rewrite <- Hne. destruct (flat_map _ _); split; intros H; try reflexivity; try discriminate H; congruence. }
    rewrite Hgoal. subst x. split.
    + intros [-> | [r ->]]; [left; apply app_nil_r | right; exists r; reflexivity].
    + intros [H | [r H]].
      * left. rewrite <- (app_nil_r v) in H at 2. apply app_inv_head in H. exact H.
      * right. apply app_inv_head in H. exists r. exact H.
  - split; [intros H; discriminate H|]. intros [-> | [r ->]].
    + assert (H : strip_prefix false v v = Some []) by (apply strip_exact_all; reflexivity). congruence.
    + assert (Hp : prefixb v (v ++ [45%N] ++ r) = true) by (apply prefixb_spec; eexists; reflexivity).
      apply strip_exact_prefix in Hp as [rest H]. cbn [app] in *. rewrite H in E. discriminate E.
Qed.
Print Assumptions op_dash_spec.

(* ---- [a~=v]: v is one of the white-space separated words of the value ---- *)
Section Lazy2.
Variable K : state -> caps -> mres.
Variable Q : str -> str -> bool.          (* what lies before (most recent first), what remains *)
Hypothesis HK : forall b a c, (K (St (length b) b a) c <> []) <-> Q b a = true.

Fixpoint somewhere2 (b a : str) : bool := Q b a || match a with x :: a' => somewhere2 (x :: b) a' | [] => false end.

Lemma lazy_any2 : forall a b c, valid_str a ->
  (flat_map (fun sc => K (fst sc) (snd sc)) (lazy_ends cs_any (length b) b a c) <> []) <-> somewhere2 b a = true.
Proof.
  induction a as [|x a IH]; intros b c Hv; cbn [lazy_ends flat_map fst snd somewhere2].
  - rewrite app_nil_r, orb_false_r. apply HK.
  - pose proof (Forall_inv Hv) as Hx. pose proof (Forall_inv_tail Hv) as Hv'. cbn beta in Hx.
    rewrite (any_mem x Hx). rewrite orb_true_iff. change (S (length b)) with (length (x :: b)).
    rewrite <- (IH (x :: b) c Hv'), <- (HK b (x :: a) c). split.
    + intros H. destruct (K (St (length b) b (x :: a)) c) eqn:E; [right; exact H | left; discriminate].
    + intros [H|H] H2; apply app_eq_nil in H2 as [H3 H4]; [exact (H H3) | exact (H H4)].
Qed.
End Lazy2.

Lemma somewhere2_spec Q : forall a b, somewhere2 Q b a = true <-> exists l r, a = l ++ r /\ Q (rev l ++ b) r = true.
Proof.
  induction a as [|x a IH]; intros b; cbn [somewhere2].
  - rewrite orb_false_r. split; [intros H; exists [], []; split; [reflexivity | exact H] | intros (l & r & H & HQ)].
    symmetry in H. apply app_eq_nil in H as [-> ->]. exact HQ.
  - rewrite orb_true_iff, IH. split.
    + intros [H | (l & r & -> & HQ)]; [exists [], (x :: a); split; [reflexivity | exact H]|].
      exists (x :: l), r. split; [reflexivity|]. cbn [rev]. rewrite <- app_assoc. exact HQ.
    + intros ([|y l] & r & H & HQ); [left; cbn in H; subst r; exact HQ | right]. cbn in H. injection H as <- ->. exists l, r.
      split; [reflexivity|]. cbn [rev] in HQ. rewrite <- app_assoc in HQ. exact HQ.
Qed.

Definition is_ws (ch : cp) : bool := cs_mem ch cs_ws.
Definition ws_or_edge (l : str) : bool := match l with [] => true | ch :: _ => is_ws ch end.

Theorem op_word_spec v x : valid_str x ->
  accepts (attr_template OpWord v false true) x = true <->
  v <> [] /\ has_ws v = false /\ exists l r, x = l ++ v ++ r /\ ws_or_edge (rev l) = true /\ ws_or_edge r = true.
Proof.
  intros Hv. rewrite accepts_ends. unfold attr_template.
  set (body := if match v with [] => true | _ :: _ => false end || has_ws v then [Chr cs_never] else map (lit_chr false) v).
  cbn [app]. rewrite seq_list_cons by (destruct body; discriminate).
  rewrite ends_seq, ends_rep. unfold st_init. cbn [after]. rewrite rep_ends_lazy by lia.
  set (tail := [Look false (Alt (Chr cs_ws) AtEnd); Rep true 0 None (Chr cs_any)]).
  set (K := fun st c => ends (seq_list (Alt BehindStart (Behind false cs_ws) :: body ++ tail)) st c).
  set (Q := fun b a : str => negb (match v with [] => true | _ :: _ => false end || has_ws v) && ws_or_edge b &&
                             match strip_prefix false v a with Some rest => ws_or_edge rest | None => false end).
  assert (HK : forall b a c, (K (St (length b) b a) c <> []) <-> Q b a = true).
  { intros b a c. unfold K, Q. rewrite seq_list_cons by (destruct body; discriminate). rewrite ends_seq.
    assert (Hbeh : ends (Alt BehindStart (Behind false cs_ws)) (St (length b) b a) c = if ws_or_edge b then [(St (length b) b a, c)] else []).
    { cbn [ends pos before]. destruct b as [|ch b']; [reflexivity|]. cbn [length ws_or_edge app xorb]. unfold is_ws. destruct (cs_mem ch cs_ws); reflexivity. }
    rewrite Hbeh. destruct (ws_or_edge b); cbn [flat_map fst snd andb]; [rewrite app_nil_r | rewrite andb_false_r; split; [congruence | discriminate]].
    unfold body. destruct (match v with [] => true | _ :: _ => false end || has_ws v) eqn:Ebad; cbn [negb andb].
    - cbn [app]. rewrite seq_list_cons by discriminate. rewrite ends_seq, ends_chr.
      destruct a as [|y a']; cbn [flat_map cs_mem cs_never existsb]; split; (congruence || discriminate).
    - rewrite (ends_lits false v tail (length b) b a c) by discriminate.
      destruct (strip_prefix false v a) as [rest|]; [|split; [congruence | discriminate]].
      unfold tail. rewrite seq_list_cons by discriminate. rewrite ends_seq.
      set (st1 := St (length b + length v) (rev (firstn (length v) a) ++ b) rest).
      assert (Hlook : ends (Look false (Alt (Chr cs_ws) AtEnd)) st1 c = if ws_or_edge rest then [(st1, c)] else []).
      { unfold st1. destruct rest as [|y r']; [reflexivity|]. cbn [ends st_adv after pos before ws_or_edge]. unfold is_ws.
        destruct (cs_mem y cs_ws) eqn:Ey; [reflexivity|]. cbn [app at_end_b]. destruct r' as [|z r'']; [|reflexivity].
        assert (y <> 10%N) by (intros ->; discriminate Ey). replace (y =? 10)%N with false by (symmetry; apply N.eqb_neq; assumption). reflexivity. }
      rewrite Hlook. destruct (ws_or_edge rest); cbn [flat_map fst snd seq_list]; [rewrite app_nil_r | split; [congruence | discriminate]].
      split; [reflexivity | intros _; apply star_nonempty]. }
  pose proof (lazy_any2 K Q HK x [] [] Hv) as HL. cbn [length] in HL.
  assert (Hgoal : match flat_map (fun sc => K (fst sc) (snd sc)) (lazy_ends cs_any 0 [] x []) with [] => false | _ :: _ => true end = true
                  <-> somewhere2 Q [] x = true).
  { rewrite <- HL. destruct (flat_map _ _); split; intros H; try reflexivity; try discriminate H; congruence. }
  rewrite Hgoal, somewhere2_spec. unfold Q. split.
  - intros (l & r & -> & HQ). rewrite app_nil_r in HQ.
    apply andb_true_iff in HQ as [HQ1 HQ3]. apply andb_true_iff in HQ1 as [HQ1 HQ2]. apply negb_true_iff in HQ1. apply orb_false_iff in HQ1 as [Hne Hws].
    destruct (strip_prefix false v r) as [rest|] eqn:E; [|discriminate HQ3].
    repeat split; [destruct v; [discriminate | discriminate] | exact Hws | ].
    exists l, rest. rewrite (strip_exact_app _ _ _ E). repeat split; assumption.
  - intros (Hne & Hws & l & r & -> & Hl & Hr). exists l, (v ++ r). split; [reflexivity|]. rewrite app_nil_r.
    assert (Hp : prefixb v (v ++ r) = true) by (apply prefixb_spec; exists r; reflexivity).
    apply strip_exact_prefix in Hp as [rest E]. pose proof (strip_exact_app _ _ _ E) as Happ. apply app_inv_head in Happ. subst rest.
    rewrite E, Hl, Hr, Hws. destruct v; [congruence | reflexivity].
Qed.
Print Assumptions op_word_spec.
