(* AttrFactsIC.v — the attribute-operator patterns with or without the `i` flag: what they accept, for every v and every
   value, up to the character relation of the pattern (exact, or the case closure table regenerated from `re`). *)
From SV Require Import Base Regex RunFacts AttrPat AttrFacts.
Local Open Scope bool_scope.

(* w is v character by character, up to the pattern's character relation *)
Definition sim (ic : bool) (v w : str) : Prop := Forall2 (fun c y => ceq ic c y = true) v w.

Lemma sim_exact v w : sim false v w <-> w = v.
Proof.
  unfold sim. split.
  - induction 1 as [|c y v w H _ IH]; [reflexivity|]. rewrite ceq_exact in H. apply N.eqb_eq in H. subst. reflexivity.
  - intros ->. induction v as [|c v IH]; constructor; [rewrite ceq_exact; apply N.eqb_refl | exact IH].
Qed.
Lemma sim_length ic v w : sim ic v w -> length w = length v.
Proof. induction 1; cbn; congruence. Qed.

Lemma strip_sim ic v : forall a rest, strip_prefix ic v a = Some rest <-> exists pre, a = pre ++ rest /\ sim ic v pre.
Proof.
  induction v as [|c v IH]; intros a rest; cbn [strip_prefix].
  - split.
    + intros H. injection H as ->. exists []. split; [reflexivity | constructor].
    + intros (pre & -> & Hs). inversion Hs. reflexivity.
  - destruct a as [|x a].
    + split; [discriminate|]. intros (pre & H & Hs). inversion Hs; subst. discriminate H.
    + destruct (ceq ic c x) eqn:E.
      * rewrite IH. split.
        -- intros (pre & -> & Hs). exists (x :: pre). split; [reflexivity | constructor; assumption].
        -- intros (pre & H & Hs). inversion Hs as [|? y ? pre' Hc Hs']; subst. cbn in H. injection H as -> ->. exists pre'. split; [reflexivity | exact Hs'].
      * split; [discriminate|]. intros (pre & H & Hs). inversion Hs as [|? y ? pre' Hc Hs']; subst. cbn in H. injection H as -> _. congruence.
Qed.
Lemma strip_sim_all ic v a : strip_prefix ic v a = Some [] <-> sim ic v a.
Proof.
  rewrite strip_sim. split.
  - intros (pre & -> & Hs). rewrite app_nil_r. exact Hs.
  - intros Hs. exists a. split; [symmetry; apply app_nil_r | exact Hs].
Qed.

Lemma app_eq_len {A} (a b c d : list A) : a ++ b = c ++ d -> length a = length c -> a = c /\ b = d.
Proof.
  revert c. induction a as [|x a IH]; intros [|y c] H Hl; cbn in *; try lia; [auto|]. injection H as -> H. destruct (IH c H) as [-> ->]; [lia | auto].
Qed.

(* [a=v] / [a=v i] *)
Theorem op_eq_ic ic v x dotall : accepts (attr_template OpEq v ic dotall) x = true <-> sim ic v x.
Proof.
  rewrite accepts_ends. unfold attr_template. cbn [app].
  rewrite seq_list_cons by (intros H; apply app_eq_nil in H as [_ H]; discriminate H).
  cbn [ends st_init pos flat_map fst snd]. rewrite app_nil_r. unfold st_init.
  rewrite (ends_lits ic v [AtEndStrict] 0 [] x []) by discriminate.
  rewrite <- strip_sim_all. destruct (strip_prefix ic v x) as [rest|]; [|split; intros H; discriminate H].
  cbn [seq_list ends after]. destruct rest; split; intros H; try reflexivity; try discriminate H.
Qed.
Print Assumptions op_eq_ic.

(* [a^=v] *)
Theorem op_prefix_ic ic v x dotall :
  accepts (attr_template OpPrefix v ic dotall) x = true <-> v <> [] /\ exists w r, x = w ++ r /\ sim ic v w.
Proof.
  rewrite accepts_ends. unfold attr_template. destruct v as [|c0 v0].
  - cbn [ends st_init st_adv after]. destruct x as [|y x]; cbn; split; try (intros H; discriminate H); intros [H _]; congruence.
  - set (v := c0 :: v0). cbn [app].
    rewrite seq_list_cons by (intros H; apply app_eq_nil in H as [_ H]; discriminate H).
    cbn [ends st_init pos flat_map fst snd]. rewrite app_nil_r. unfold st_init.
    rewrite (ends_lits ic v _ 0 [] x []) by discriminate.
    destruct (strip_prefix ic v x) as [rest|] eqn:E.
    + cbn [seq_list]. pose proof (star_nonempty (if dotall then cs_any else cs_any_nonl) (St (0 + length v) (rev (firstn (length v) x) ++ []) rest) []) as Hs.
      destruct (ends _ _ _); [congruence|]. split; [|reflexivity]. intros _. split; [discriminate|].
      apply strip_sim in E as (pre & -> & Hsim). exists pre, rest. auto.
    + split; [intros H; discriminate H|]. intros [_ (w & r & -> & Hsim)].
      assert (H : strip_prefix ic v (w ++ r) = Some r) by (apply strip_sim; exists w; auto). congruence.
Qed.
Print Assumptions op_prefix_ic.

(* [a$=v] *)
Theorem op_suffix_ic ic v x : valid_str x ->
  accepts (attr_template OpSuffix v ic true) x = true <-> v <> [] /\ exists l w, x = l ++ w /\ sim ic v w.
Proof.
  intros Hv. rewrite accepts_ends. unfold attr_template. destruct v as [|c0 v0].
  - cbn [ends st_init st_adv after]. destruct x as [|y x]; cbn; split; try (intros H; discriminate H); intros [H _]; congruence.
  - set (v := c0 :: v0). cbn [app].
    rewrite seq_list_cons by (intros H; apply app_eq_nil in H as [_ H]; discriminate H).
    rewrite ends_seq, ends_rep. unfold st_init. cbn [after]. rewrite rep_ends_lazy by lia.
    set (K := fun st c => ends (seq_list (map (lit_chr ic) v ++ [AtEndStrict])) st c).
    set (Q := fun a : str => match strip_prefix ic v a with Some [] => true | _ => false end).
    assert (HK : forall p b a c, (K (St p b a) c <> []) <-> Q a = true).
    { intros p b a c. unfold K, Q. rewrite (ends_lits ic v [AtEndStrict] p b a c) by discriminate.
      destruct (strip_prefix ic v a) as [[|r rs]|]; cbn [seq_list ends after]; split; intros H; try discriminate H; try congruence. }
    pose proof (lazy_any K Q HK x 0 [] [] Hv) as HL.
    assert (Hgoal : match flat_map (fun sc => K (fst sc) (snd sc)) (lazy_ends cs_any 0 [] x []) with [] => false | _ :: _ => true end = true
                    <-> somewhere Q x = true).
    { rewrite <- HL. destruct (flat_map _ _); split; intros H; try reflexivity; try discriminate H; congruence. }
    rewrite Hgoal, somewhere_spec. split.
    + intros (l & r & -> & HQ). split; [discriminate|]. exists l, r. split; [reflexivity|]. unfold Q in HQ.
      destruct (strip_prefix ic v r) as [[|? ?]|] eqn:E; try discriminate HQ. apply strip_sim_all. exact E.
    + intros [_ (l & w & -> & Hs)]. exists l, w. split; [reflexivity|]. unfold Q.
      replace (strip_prefix ic v w) with (Some (@nil cp)); [reflexivity|]. symmetry. apply strip_sim_all. exact Hs.
Qed.
Print Assumptions op_suffix_ic.

(* [a*=v] *)
Theorem op_substr_ic ic v x : valid_str x ->
  accepts (attr_template OpSubstr v ic true) x = true <-> v <> [] /\ exists l w r, x = l ++ w ++ r /\ sim ic v w.
Proof.
  intros Hv. rewrite accepts_ends. unfold attr_template. destruct v as [|c0 v0].
  - cbn [ends st_init st_adv after]. destruct x as [|y x]; cbn; split; try (intros H; discriminate H); intros [H _]; congruence.
  - set (v := c0 :: v0). cbn [app].
    rewrite seq_list_cons by (intros H; apply app_eq_nil in H as [_ H]; discriminate H).
    rewrite ends_seq, ends_rep. unfold st_init. cbn [after]. rewrite rep_ends_lazy by lia.
    set (K := fun st c => ends (seq_list (map (lit_chr ic) v ++ [Rep true 0 None (Chr cs_any)])) st c).
    set (Q := fun a : str => match strip_prefix ic v a with Some _ => true | None => false end).
    assert (HK : forall p b a c, (K (St p b a) c <> []) <-> Q a = true).
    { intros p b a c. unfold K, Q. rewrite (ends_lits ic v _ p b a c) by discriminate.
      destruct (strip_prefix ic v a) as [rest|]; cbn [seq_list]; [|split; intros H; [congruence | discriminate H]].
      split; [reflexivity | intros _; apply star_nonempty]. }
    pose proof (lazy_any K Q HK x 0 [] [] Hv) as HL.
    assert (Hgoal : match flat_map (fun sc => K (fst sc) (snd sc)) (lazy_ends cs_any 0 [] x []) with [] => false | _ :: _ => true end = true
                    <-> somewhere Q x = true).
    { rewrite <- HL. destruct (flat_map _ _); split; intros H; try reflexivity; try discriminate H; congruence. }
    rewrite Hgoal, somewhere_spec. split.
    + intros (l & r & -> & HQ). split; [discriminate|]. unfold Q in HQ.
      destruct (strip_prefix ic v r) as [rest|] eqn:E; [|discriminate HQ].
      apply strip_sim in E as (pre & -> & Hs). exists l, pre, rest. auto.
    + intros [_ (l & w & r & -> & Hs)]. exists l, (w ++ r). split; [reflexivity|]. unfold Q.
      assert (H : strip_prefix ic v (w ++ r) = Some r) by (apply strip_sim; exists w; auto). rewrite H. reflexivity.
Qed.
Print Assumptions op_substr_ic.

(* [a|=v]: the value is v, or starts with v followed by '-' *)
Theorem op_dash_ic ic v x : valid_str x ->
  accepts (attr_template OpDash v ic true) x = true <-> sim ic v x \/ exists w r, x = w ++ [45%N] ++ r /\ sim ic v w.
Proof.
  intros Hv. rewrite accepts_ends. unfold attr_template. cbn [app].
  rewrite seq_list_cons by (intros H; apply app_eq_nil in H as [_ H]; discriminate H).
  cbn [ends st_init pos flat_map fst snd]. rewrite app_nil_r. unfold st_init.
  rewrite (ends_lits ic v _ 0 [] x []) by discriminate.
  destruct (strip_prefix ic v x) as [rest|] eqn:E.
  - destruct (proj1 (strip_sim ic v x rest) E) as (pre & Hx & Hpre).
    assert (Hvr : valid_str rest) by (subst x; unfold valid_str in *; apply Forall_app in Hv as [_ H]; exact H).
    set (st := St (0 + length v) (rev (firstn (length v) x) ++ []) rest).
    change (seq_list [Rep true 0 (Some 1) (Seq (Chr [(45, 45)]%N) (Rep true 0 None (Chr cs_any))); AtEndStrict])
      with (Seq (Rep true 0 (Some 1) (Seq (Chr [(45, 45)]%N) (Rep true 0 None (Chr cs_any)))) AtEndStrict).
    rewrite ends_seq.
    assert (Hne : flat_map (fun sc => ends AtEndStrict (fst sc) (snd sc))
                    (ends (Rep true 0 (Some 1) (Seq (Chr [(45, 45)]%N) (Rep true 0 None (Chr cs_any)))) st []) <> []
                  <-> rest = [] \/ exists r, rest = 45%N :: r).
    { rewrite <- filter_end_nonempty. rewrite ends_rep. unfold st. cbn [after]. cbn [rep_ends]. cbn [pos].
      destruct rest as [|y rest'].
      - cbn [ends st_adv after flat_map app]. split; [intros _; left; reflexivity | intros _; eexists _, _; split; [left; reflexivity | reflexivity]].
      - rewrite ends_seq, ends_chr, mem_single.
        destruct (N.eqb_spec y 45) as [->|Hne].
        + cbn [flat_map fst snd]. rewrite app_nil_r. rewrite ends_rep. cbn [after]. rewrite rep_ends_run by (cbn [length]; lia).
          pose proof (Forall_inv_tail Hvr) as Hvr'.
          destruct (star_reaches_end rest' (S (0 + length v)) (45%N :: rev (firstn (length v) x) ++ []) [] Hvr') as (st' & Hin & He).
          split; [intros _; right; exists rest'; reflexivity|]. intros _. exists st', []. split; [|exact He].
          apply in_or_app. left. apply in_flat_map. exists (st', []). split; [exact Hin|]. cbn [fst snd pos].
          assert (Hpos : (0 + length v <? pos st') = true) by (apply Nat.ltb_lt; pose proof (run_ends_pos _ _ _ _ _ _ _ _ _ Hin); lia).
          rewrite Hpos. destruct (length rest'); left; reflexivity.
        + cbn [flat_map app]. split.
          * intros (st' & c' & [H|[]] & He). injection H as <- <-. discriminate He.
          * intros [H | [r H]]; [discriminate H | injection H as -> _; congruence]. }
    assert (Hgoal : match flat_map (fun sc => ends AtEndStrict (fst sc) (snd sc))
                            (ends (Rep true 0 (Some 1) (Seq (Chr [(45, 45)]%N) (Rep true 0 None (Chr cs_any)))) st []) with [] => false | _ :: _ => true end = true
                    <-> rest = [] \/ exists r, rest = 45%N :: r).
    { rewrite <- Hne. destruct (flat_map _ _); split; intros H; try reflexivity; try discriminate H; congruence. }
    rewrite Hgoal. subst x. split.
    + intros [-> | [r ->]]; [left; rewrite app_nil_r; exact Hpre | right; exists pre, r; auto].
    + intros [Hs | (w & r & Hw & Hs)].
      * left. apply sim_length in Hs. apply sim_length in Hpre. rewrite app_length in Hs. destruct rest; [reflexivity | cbn in Hs; lia].
      * right. apply app_eq_len in Hw as [_ Hr]; [|apply sim_length in Hs; apply sim_length in Hpre; lia]. exists r. exact Hr.
  - split; [intros H; discriminate H|]. intros [Hs | (w & r & -> & Hs)].
    + apply strip_sim_all in Hs. congruence.
    + assert (H : strip_prefix ic v (w ++ [45%N] ++ r) = Some ([45%N] ++ r)) by (apply strip_sim; exists w; auto). cbn [app] in H, E. rewrite H in E. discriminate E.
Qed.
Print Assumptions op_dash_ic.

(* [a~=v]: v is one of the white-space separated words of the value *)
Theorem op_word_ic ic v x : valid_str x ->
  accepts (attr_template OpWord v ic true) x = true <->
  v <> [] /\ has_ws v = false /\ exists l w r, x = l ++ w ++ r /\ sim ic v w /\ ws_or_edge (rev l) = true /\ ws_or_edge r = true.
Proof.
  intros Hv. rewrite accepts_ends. unfold attr_template.
  set (body := if match v with [] => true | _ :: _ => false end || has_ws v then [Chr cs_never] else map (lit_chr ic) v).
  cbn [app]. rewrite seq_list_cons by (destruct body; discriminate).
  rewrite ends_seq, ends_rep. unfold st_init. cbn [after]. rewrite rep_ends_lazy by lia.
  set (tail := [Look false (Alt (Chr cs_ws) AtEnd); Rep true 0 None (Chr cs_any)]).
  set (K := fun st c => ends (seq_list (Alt BehindStart (Behind false cs_ws) :: body ++ tail)) st c).
  set (Q := fun b a : str => negb (match v with [] => true | _ :: _ => false end || has_ws v) && ws_or_edge b &&
                             match strip_prefix ic v a with Some rest => ws_or_edge rest | None => false end).
  assert (HK : forall b a c, (K (St (length b) b a) c <> []) <-> Q b a = true).
  { intros b a c. unfold K, Q. rewrite seq_list_cons by (destruct body; discriminate). rewrite ends_seq.
    assert (Hbeh : ends (Alt BehindStart (Behind false cs_ws)) (St (length b) b a) c = if ws_or_edge b then [(St (length b) b a, c)] else []).
    { cbn [ends pos before]. destruct b as [|ch b']; [reflexivity|]. cbn [length ws_or_edge app xorb]. unfold is_ws. destruct (cs_mem ch cs_ws); reflexivity. }
    rewrite Hbeh. destruct (ws_or_edge b); cbn [flat_map fst snd andb]; [rewrite app_nil_r | rewrite andb_false_r; split; [congruence | discriminate]].
    unfold body. destruct (match v with [] => true | _ :: _ => false end || has_ws v) eqn:Ebad; cbn [negb andb].
    - cbn [app]. rewrite seq_list_cons by discriminate. rewrite ends_seq, ends_chr.
      destruct a as [|y a']; cbn [flat_map cs_mem cs_never existsb]; split; (congruence || discriminate).
    - rewrite (ends_lits ic v tail (length b) b a c) by discriminate.
      destruct (strip_prefix ic v a) as [rest|]; [|split; [congruence | discriminate]].
      unfold tail. rewrite seq_list_cons by discriminate. rewrite ends_seq.
      set (st1 := St (length b + length v) (rev (firstn (length v) a) ++ b) rest).
      assert (Hlook : ends (Look false (Alt (Chr cs_ws) AtEnd)) st1 c = if ws_or_edge rest then [(st1, c)] else []).
      { unfold st1. destruct rest as [|y r']; [reflexivity|]. cbn [ends st_adv after pos before ws_or_edge]. unfold is_ws.
        destruct (cs_mem y cs_ws) eqn:Ey; [reflexivity|]. cbn [app at_end_b]. destruct r' as [|z r'']; [|reflexivity].
        assert (y <> 10%N) by (intros ->; discriminate Ey). replace (y =? 10)%N with false by (symmetry; apply N.eqb_neq; assumption). reflexivity. }
      rewrite Hlook. destruct (ws_or_edge rest); cbn [flat_map fst snd seq_list]; [rewrite app_nil_r | split; [congruence | discriminate]].
      split; [reflexivity | intros _; apply star_nonempty]. }
  pose proof (lazy_any2 K Q HK x [] [] Hv) as HL. cbn [length] in HL.
  assert (Hgoal : match flat_map (fun sc => K (fst sc) (snd sc)) (lazy_ends cs_any 0 [] x []) with [] => false | _ :: _ => true end = true
                  <-> somewhere2 Q [] x = true).
  { rewrite <- HL. destruct (flat_map _ _); split; intros H; try reflexivity; try discriminate H; congruence. }
  rewrite Hgoal, somewhere2_spec. unfold Q. split.
  - intros (l & r & -> & HQ). rewrite app_nil_r in HQ.
    apply andb_true_iff in HQ as [HQ1 HQ3]. apply andb_true_iff in HQ1 as [HQ1 HQ2]. apply negb_true_iff in HQ1. apply orb_false_iff in HQ1 as [Hne Hws].
    destruct (strip_prefix ic v r) as [rest|] eqn:E; [|discriminate HQ3].
    repeat split; [destruct v; [discriminate | discriminate] | exact Hws | ].
    apply strip_sim in E as (pre & -> & Hs). exists l, pre, rest. repeat split; assumption.
  - intros (Hne & Hws & l & w & r & -> & Hs & Hl & Hr). exists l, (w ++ r). split; [reflexivity|]. rewrite app_nil_r.
    assert (E : strip_prefix ic v (w ++ r) = Some r) by (apply strip_sim; exists w; auto).
    rewrite E, Hl, Hr, Hws. destruct v; [congruence | reflexivity].
Qed.
Print Assumptions op_word_ic.
