(* AttrPat.v — definitions only: the regular expressions css_parser.parse_attribute_selector builds
   for the attribute operators, as ASTs in the shape translator T1 produces for them.
   The harness compares, for every attribute selector it generates, this AST with the translation of
   the pattern object the real parser compiled (translation validation of this file). *)
From SV Require Export Base Regex.
From SV.gen Require Import ConstGen.

Inductive aop := OpEq | OpWord | OpDash | OpPrefix | OpSuffix | OpSubstr.

Definition cs_any : cset := [(0, 1114111)]%N.
Definition cs_any_nonl : cset := [(0, 9); (11, 1114111)]%N.
Definition cs_ws : cset := [(9, 10); (12, 13); (32, 32)]%N.
Definition cs_never : cset := [].

(* the case-insensitive closure of a literal, from the table regenerated out of `re` (ASCII only) *)
Definition icase_cs (c : cp) : cset :=
  match find (fun e => N.eqb (fst e) c) icase_table with
  | Some e => snd e
  | None => [(c, c)]
  end.
Definition lit_chr (ic : bool) (c : cp) : re := Chr (if ic then icase_cs c else [(c, c)]).

Fixpoint seq_list (l : list re) : re :=
  match l with
  | [] => Eps
  | [x] => x
  | x :: l' => Seq x (seq_list l')
  end.

Definition has_ws (v : str) : bool := existsb (fun c => cs_mem c cs_ws) v.

(* dotall = false only for the copy compiled without flags (xml_type_pattern) *)
Definition attr_template (op : aop) (v : str) (ic dotall : bool) : re :=
  let lits := map (lit_chr ic) v in
  let dot := if dotall then cs_any else cs_any_nonl in
  let star := Rep true 0 None (Chr dot) in
  let lazy := Rep false 0 None (Chr dot) in
  match op with
  | OpEq => seq_list ([AtStart] ++ lits ++ [AtEndStrict])
  | OpDash => seq_list ([AtStart] ++ lits ++ [Rep true 0 (Some 1) (Seq (Chr [(45, 45)]%N) star); AtEndStrict])
  | OpPrefix => match v with [] => Chr cs_never | _ => seq_list ([AtStart] ++ lits ++ [star]) end
  | OpSuffix => match v with [] => Chr cs_never | _ => seq_list ([lazy] ++ lits ++ [AtEndStrict]) end
  | OpSubstr => match v with [] => Chr cs_never | _ => seq_list ([lazy] ++ lits ++ [star]) end
  | OpWord =>
    let body := if (match v with [] => true | _ => false end) || has_ws v then [Chr cs_never] else lits in
    seq_list ([lazy; Alt BehindStart (Behind false cs_ws)] ++ body ++ [Look false (Alt (Chr cs_ws) AtEnd); star])
  end.
