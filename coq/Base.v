(* Base.v — code points, strings, Python-style results.  Definitions + small lemmas. *)
From Coq Require Export List Bool Arith NArith ZArith Lia.
Export ListNotations.

(* A code point is an N (0 .. 0x10FFFF, and deliberately beyond: a CSS escape can
   denote a larger number before it is clamped).  A string is a list of them. *)
Definition cp := N.
Definition str := list cp.

Inductive exn :=
| SelectorSyntaxError (pos : option nat)
| NotImplementedError | KeyError | TypeError | ValueError | IndexError
| AttributeError | UnicodeDecodeError | RecursionError | OutOfFuel.

Inductive res (A : Type) := Ok (a : A) | Raise (e : exn).
Arguments Ok {A} a.
Arguments Raise {A} e.

Definition bind {A B} (r : res A) (f : A -> res B) : res B :=
  match r with Ok a => f a | Raise e => Raise e end.
Notation "'do' x <- r ;; k" := (bind r (fun x => k)) (at level 200, x name, r at level 100, k at level 200).

Definition is_ok {A} (r : res A) : bool := match r with Ok _ => true | Raise _ => false end.

(* string equality *)
Fixpoint str_eqb (a b : str) : bool :=
  match a, b with
  | [], [] => true
  | x :: a', y :: b' => N.eqb x y && str_eqb a' b'
  | _, _ => false
  end.

Lemma str_eqb_eq a b : str_eqb a b = true <-> a = b.
Proof.
  revert b; induction a as [|x a IH]; intros [|y b]; simpl; split; intros H; try easy.
  - apply andb_true_iff in H as [H1 H2]. apply N.eqb_eq in H1. apply IH in H2. now subst.
  - injection H as -> ->. rewrite N.eqb_refl. simpl. now apply IH.
Qed.

Lemma str_eqb_refl a : str_eqb a a = true.
Proof. now apply str_eqb_eq. Qed.

(* util.lower : ASCII A-Z only *)
Definition lower_cp (c : cp) : cp := if (65 <=? c)%N && (c <=? 90)%N then (c + 32)%N else c.
Definition lower (s : str) : str := map lower_cp s.

Lemma lower_idem s : lower (lower s) = lower s.
Proof.
  unfold lower. rewrite map_map. apply map_ext. intros c. unfold lower_cp.
  destruct ((65 <=? c)%N && (c <=? 90)%N) eqn:E.
  - apply andb_true_iff in E as [E1 E2]. apply N.leb_le in E1, E2.
    replace ((c + 32 <=? 90)%N) with false by (symmetry; apply N.leb_gt; lia).
    now rewrite andb_false_r.
  - now rewrite E.
Qed.

Definition is_digit (c : cp) : bool := (48 <=? c)%N && (c <=? 57)%N.
Definition digit_val (c : cp) : Z := Z.of_N c - 48.

(* int(s, 10) on a string of ASCII digits (callers guarantee the shape) *)
Definition int10 (s : str) : Z := fold_left (fun acc c => acc * 10 + digit_val c)%Z s 0%Z.

(* prefix / suffix / substring on strings, as Python's startswith / endswith / in *)
Fixpoint prefixb (p s : str) : bool :=
  match p, s with
  | [], _ => true
  | x :: p', y :: s' => N.eqb x y && prefixb p' s'
  | _ :: _, [] => false
  end.

Fixpoint substrb (p s : str) : bool :=
  prefixb p s || match s with [] => false | _ :: s' => substrb p s' end.

Definition suffixb (p s : str) : bool := prefixb (rev p) (rev s).

Lemma prefixb_spec p s : prefixb p s = true <-> exists r, s = p ++ r.
Proof.
  revert s; induction p as [|x p IH]; intros s; simpl.
  - split; [intros _; now exists s | easy].
  - destruct s as [|y s]; [split; [easy | intros [r H]; easy]|].
    rewrite andb_true_iff, N.eqb_eq, IH. split.
    + intros [-> [r ->]]. now exists r.
    + intros [r H]. injection H as -> ->. split; [easy | now exists r].
Qed.

Lemma substrb_spec p s : substrb p s = true <-> exists l r, s = l ++ p ++ r.
Proof.
  induction s as [|y s IH]; simpl.
  - rewrite orb_false_r, prefixb_spec. split.
    + intros [r H]. exists [], r. exact H.
    + intros [l [r H]]. destruct l; simpl in H; [now exists r|easy].
  - rewrite orb_true_iff, prefixb_spec, IH. split.
    + intros [[r H] | [l [r H]]]; [exists [], r; exact H | exists (y :: l), r; now rewrite H].
    + intros [[|z l] [r H]]; simpl in H; [left; now exists r|].
      injection H as -> ->. right. now exists l, r.
Qed.

(* ASCII literals for readability: "date" as a list of code points *)
From Coq Require Import Ascii.
From Coq Require String.
Import String (string, EmptyString, String).
Fixpoint s2l (s : string) : str :=
  match s with
  | EmptyString => []
  | String a s' => N_of_ascii a :: s2l s'
  end.
