(* Cache.v — definitions only: functools.lru_cache(maxsize) as a most-recent-first association list.
   (lru_cache itself is trusted to behave like this; the correspondence run compares hits, misses and
   sizes of the real cache with this model on every history.) *)
From SV Require Export Base.

Section LRU.
Variables (K V : Type) (keq : K -> K -> bool) (fresh : K -> V) (maxsize : nat).

Definition cache := list (K * V).
Inductive op := Compile (k : K) | Purge.
Inductive out := Hit (v : V) | Miss (v : V) | Purged.

Fixpoint lookup (k : K) (c : cache) : option V :=
  match c with
  | [] => None
  | (k', v) :: c' => if keq k k' then Some v else lookup k c'
  end.
Fixpoint remove (k : K) (c : cache) : cache :=
  match c with
  | [] => []
  | (k', v) :: c' => if keq k k' then c' else (k', v) :: remove k c'
  end.
Definition step (c : cache) (o : op) : cache * out :=
  match o with
  | Purge => ([], Purged)
  | Compile k =>
    match lookup k c with
    | Some v => ((k, v) :: remove k c, Hit v)
    | None => let v := fresh k in (firstn maxsize ((k, v) :: c), Miss v)
    end
  end.
Fixpoint run (c : cache) (ops : list op) : cache * list out :=
  match ops with
  | [] => (c, [])
  | o :: ops' => let '(c1, r) := step c o in let '(c2, rs) := run c1 ops' in (c2, r :: rs)
  end.
Definition out_value (o : out) : option V := match o with Hit v | Miss v => Some v | Purged => None end.
End LRU.
Arguments Compile {K} k.
Arguments Purge {K}.
Arguments Hit {V} v.
Arguments Miss {V} v.
Arguments Purged {V}.

(* instance used by the correspondence run: keys are numbered, the value is irrelevant *)
Definition lru_trace (maxsize : nat) (ops : list (option nat)) : list nat * nat :=
  let '(c, outs) := run nat nat Nat.eqb (fun k => k) maxsize []
                        (map (fun o => match o with Some k => Compile k | None => Purge end) ops) in
  (map (fun o => match o with Miss _ => 0 | Hit _ => 1 | Purged => 2 end) outs, length c).
