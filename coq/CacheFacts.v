(* CacheFacts.v — the pattern cache is transparent (C15). *)
From SV Require Import Base Cache.

Section LRU.
Variables (K V : Type) (keq : K -> K -> bool) (fresh : K -> V) (maxsize : nat).
Hypothesis keq_eq : forall a b, keq a b = true <-> a = b.

Notation cache := (cache K V).
Notation step := (step K V keq fresh maxsize).
Notation run := (run K V keq fresh maxsize).

(* every stored value is what a fresh compile of its key gives; never more than maxsize entries *)
Definition inv (c : cache) : Prop :=
  (forall k v, In (k, v) c -> v = fresh k) /\ length c <= maxsize.

Lemma lookup_in k c v : lookup K V keq k c = Some v -> In (k, v) c.
Proof.
  induction c as [|[k' v'] c IH]; [discriminate|]. cbn [lookup].
  destruct (keq k k') eqn:E.
  - intros H. injection H as ->. apply keq_eq in E. subst k'. now left.
  - intros H. right. exact (IH H).
Qed.
Lemma remove_incl k c x : In x (remove K V keq k c) -> In x c.
Proof.
  induction c as [|[k' v'] c IH]; [tauto|]. cbn [remove]. destruct (keq k k').
  - intros H. now right.
  - intros [H|H]; [now left | right; exact (IH H)].
Qed.
Lemma remove_length k c v : lookup K V keq k c = Some v -> S (length (remove K V keq k c)) = length c.
Proof.
  induction c as [|[k' v'] c IH]; [discriminate|]. cbn [lookup remove].
  destruct (keq k k'); [reflexivity|]. intros H. cbn [length]. rewrite (IH H). reflexivity.
Qed.
Lemma firstn_in {A} n (l : list A) x : In x (firstn n l) -> In x l.
Proof. revert l. induction n; intros [|y l]; cbn; try tauto. intros [H|H]; [now left | right; now apply IHn]. Qed.

Theorem inv_init : inv [].
Proof. split; [intros k v []| cbn; lia]. Qed.

Theorem inv_step c o : inv c -> inv (fst (step c o)).
Proof.
  intros [Hv Hl]. destruct o as [k|]; [|apply inv_init].
  cbn [Cache.step]. destruct (lookup K V keq k c) as [v|] eqn:E; cbn [fst].
  - split.
    + intros k' v' [H|H]; [injection H as <- <-; apply Hv; now apply lookup_in | apply Hv; now apply remove_incl in H].
    + cbn [length]. rewrite (remove_length k c v E). exact Hl.
  - split.
    + intros k' v' H. apply firstn_in in H as [H|H]; [injection H as <- <-; reflexivity | now apply Hv].
    + rewrite firstn_length. lia.
Qed.

(* what compile returns is a fresh parse of its key, whatever the cache holds *)
Theorem step_output c k : inv c -> out_value V (snd (step c (Compile k))) = Some (fresh k).
Proof.
  intros [Hv _]. cbn [Cache.step]. destruct (lookup K V keq k c) as [v|] eqn:E; cbn [snd out_value]; [|reflexivity].
  f_equal. apply Hv. now apply lookup_in.
Qed.

Lemma inv_run c ops : inv c -> inv (fst (run c ops)).
Proof.
  revert c. induction ops as [|o ops IH]; intros c H; [exact H|].
  cbn [Cache.run]. pose proof (inv_step c o H) as H1. destruct (step c o) as [c1 r]. cbn [fst] in H1.
  specialize (IH c1 H1). destruct (run c1 ops) as [c2 rs]. exact IH.
Qed.

(* after ANY history of compile and purge calls *)
Theorem transparent ops k :
  let c := fst (run [] ops) in
  out_value V (snd (step c (Compile k))) = Some (fresh k) /\ length c <= maxsize.
Proof.
  cbn zeta. pose proof (inv_run [] ops inv_init) as H. split; [apply step_output; exact H | exact (proj2 H)].
Qed.

Theorem purge_empties c : fst (step c Purge) = [].
Proof. reflexivity. Qed.

(* every output of every history is a fresh parse *)
Theorem run_outputs ops c : inv c ->
  Forall (fun o => match o with Hit v | Miss v => exists k, v = fresh k | Purged => True end) (snd (run c ops)).
Proof.
  revert c. induction ops as [|o ops IH]; intros c H; [constructor|].
  cbn [Cache.run]. pose proof (inv_step c o H) as H1.
  assert (Ho : match snd (step c o) with Hit v | Miss v => exists k, v = fresh k | Purged => True end).
  { destruct o as [k|]; [|exact I]. pose proof (step_output c k H) as E.
    destruct (snd (step c (Compile k))) as [v|v|]; cbn in E; try discriminate; injection E as ->; now exists k. }
  destruct (step c o) as [c1 r]. cbn [fst snd] in *. specialize (IH c1 H1).
  destruct (run c1 ops) as [c2 rs]. constructor; assumption.
Qed.
End LRU.
