(* Calendar.v — definitions only: calendar specification (proleptic Gregorian, ISO 8601
   weeks) and the hand-written part of the model of css_match.Inputs.
   The field validators themselves are NOT here: they are regenerated from the source
   into gen/PureGen.v on every run (translator T4). *)
From SV Require Export Base.
Local Open Scope Z_scope.

(* ------------------------------------------------------------------ specification *)

Definition is_leap (y : Z) : bool :=
  ((y mod 4 =? 0) && negb (y mod 100 =? 0)) || (y mod 400 =? 0).

Definition days_in_year (y : Z) : Z := if is_leap y then 366 else 365.

(* Number of days before 1 January of year y, counted from 1 January of year 1
   (proleptic Gregorian).  Specification by summation over the years ... *)
Fixpoint days_before_year_nat (n : nat) : Z :=   (* n = y - 1 *)
  match n with
  | O => 0
  | S k => days_before_year_nat k + days_in_year (Z.of_nat (S k))
  end.
(* ... and the closed form used in proofs (shown equal in CalendarFacts). *)
Definition days_before_year (y : Z) : Z :=
  365 * (y - 1) + (y - 1) / 4 - (y - 1) / 100 + (y - 1) / 400.

(* 1 January of year 1 is a Monday; weekday 0 = Monday ... 6 = Sunday. *)
Definition weekday_of_ordinal (d : Z) : Z := d mod 7.

Definition days_in_month (y m : Z) : Z :=
  if m =? 2 then (if is_leap y then 29 else 28)
  else if (m =? 4) || (m =? 6) || (m =? 9) || (m =? 11) then 30 else 31.

Definition days_before_month (y m : Z) : Z :=
  match m with
  | 1 => 0 | 2 => 31 | 3 => 59 | 4 => 90 | 5 => 120 | 6 => 151 | 7 => 181
  | 8 => 212 | 9 => 243 | 10 => 273 | 11 => 304 | 12 => 334 | _ => 0
  end + (if (3 <=? m) && is_leap y then 1 else 0).

(* 0-based ordinal of a calendar date *)
Definition ordinal (y m d : Z) : Z := days_before_year y + days_before_month y m + (d - 1).

(* ISO 8601: week 1 of a year is the week (Monday..Sunday) containing 4 January. *)
Definition week1_start (y : Z) : Z :=
  let j := days_before_year y + 3 in j - j mod 7.
(* Number of ISO weeks of year y: distance between consecutive week-1 starts. *)
Definition iso_weeks (y : Z) : Z := (week1_start (y + 1) - week1_start y) / 7.
(* 0-based ordinal of the Monday of ISO week w of ISO year y *)
Definition week_ordinal (y w : Z) : Z := week1_start y + 7 * (w - 1).

(* ----------------------------------------------- model of the stdlib call the code makes *)
(* datetime.strptime(f"12-31-{year}", "%m-%d-%Y").isocalendar()[1]
   - "%Y" accepts exactly four digits: ValueError unless 1000 <= year <= 9999
   - .isocalendar()[1] is the ISO week number of 31 December of that year. *)
Definition iso_week_of_ordinal_in_year (y n : Z) : Z :=
  let th := n - n mod 7 + 3 in                    (* the Thursday of n's week *)
  if days_before_year (y + 1) <=? th then 1       (* belongs to next ISO year *)
  else if th <? days_before_year y then          (* belongs to previous ISO year (not for Dec 31) *)
         (th - days_before_year (y - 1)) / 7 + 1
  else (th - days_before_year y) / 7 + 1.

Definition py_isoweek_dec31 (year : Z) : res Z :=
  if (1000 <=? year) && (year <=? 9999)
  then Ok (iso_week_of_ordinal_in_year year (days_before_year (year + 1) - 1))
  else Raise ValueError.

(* ------------------------------------------------------------------ tuple ordering *)
(* Python compares the parsed tuples lexicographically. *)
Fixpoint tuple_ltb (a b : list Z) : bool :=
  match a, b with
  | [], [] => false
  | [], _ :: _ => true
  | _ :: _, [] => false
  | x :: a', y :: b' => (x <? y) || ((x =? y) && tuple_ltb a' b')
  end.
Definition tuple_gtb (a b : list Z) : bool := tuple_ltb b a.
