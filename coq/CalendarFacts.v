(* CalendarFacts.v — proofs about the calendar model and the REGENERATED validators. *)
From SV Require Import Base Calendar.
From SV.gen Require Import PureGen.
From Coq Require Import ZifyBool.
Local Open Scope Z_scope.
Ltac Zify.zify_post_hook ::= Z.to_euclidean_division_equations.

(* ---- closed form of days_before_year equals the sum of the year lengths ---- *)
Lemma days_before_year_step k : 1 <= k ->
  days_before_year (k + 1) = days_before_year k + days_in_year k.
Proof.
  intros Hk. unfold days_before_year, days_in_year, is_leap.
  replace (k + 1 - 1) with k by lia.
  destruct (k mod 4 =? 0) eqn:E4; destruct (k mod 100 =? 0) eqn:E100;
    destruct (k mod 400 =? 0) eqn:E400; cbn [andb orb negb]; lia.
Qed.

Theorem days_before_year_closed n :
  days_before_year_nat n = days_before_year (Z.of_nat n + 1).
Proof.
  induction n as [|n IH].
  - reflexivity.
  - cbn [days_before_year_nat]. rewrite IH.
    replace (Z.of_nat (S n) + 1) with ((Z.of_nat n + 1) + 1) by lia.
    rewrite (days_before_year_step (Z.of_nat n + 1)) by lia.
    replace (Z.of_nat (S n)) with (Z.of_nat n + 1) by lia. reflexivity.
Qed.

(* ---- days ---- *)
Theorem validate_day_spec y m d :
  validate_day y m d = (1 <=? d) && (d <=? days_in_month y m).
Proof.
  unfold validate_day, days_in_month, is_leap, inb, c_FEB, c_MONTHS_30, c_LONG_MONTH,
    c_SHORT_MONTH, c_FEB_LEAP_MONTH, c_FEB_MONTH.
  cbn [existsb].
  destruct (m =? 2) eqn:E2; [reflexivity|].
  rewrite orb_false_r.
  rewrite <- !orb_assoc.
  destruct (m =? 4); destruct (m =? 6); destruct (m =? 9); destruct (m =? 11); reflexivity.
Qed.

Lemma days_in_month_range y m : 28 <= days_in_month y m <= 31.
Proof.
  unfold days_in_month.
  destruct (m =? 2); [destruct (is_leap y); lia|].
  destruct ((m =? 4) || (m =? 6) || (m =? 9) || (m =? 11)); lia.
Qed.

(* ---- ISO weeks ---- *)
Definition jan1_weekday (y : Z) : Z := weekday_of_ordinal (days_before_year y).

Theorem iso_weeks_closed y : 1 <= y ->
  iso_weeks y = if (jan1_weekday y =? 3) || (is_leap y && (jan1_weekday y =? 2)) then 53 else 52.
Proof.
  intros Hy. unfold iso_weeks, week1_start, jan1_weekday, weekday_of_ordinal.
  rewrite (days_before_year_step y Hy). unfold days_in_year.
  generalize (days_before_year y) as j. intros j.
  destruct (is_leap y); cbn [andb];
  destruct (j mod 7 =? 3) eqn:E3; destruct (j mod 7 =? 2) eqn:E2; cbn [orb]; lia.
Qed.

Corollary iso_weeks_52_53 y : 1 <= y -> iso_weeks y = 52 \/ iso_weeks y = 53.
Proof.
  intros Hy. rewrite (iso_weeks_closed y Hy).
  destruct ((jan1_weekday y =? 3) || (is_leap y && (jan1_weekday y =? 2))); lia.
Qed.

(* 31 December lies in ISO week 1 of the following year iff it is a Mon, Tue or Wed *)
Definition dec31_weekday (y : Z) : Z := weekday_of_ordinal (days_before_year (y + 1) - 1).
Definition dec31_in_week1 (y : Z) : bool := dec31_weekday y <=? 2.

(* What the stdlib call returns: the week of 31 December is 1 in those years,
   and otherwise it is the number of ISO weeks of the year. *)
Lemma isoweek_dec31_value y : 1 <= y ->
  iso_week_of_ordinal_in_year y (days_before_year (y + 1) - 1)
  = if dec31_in_week1 y then 1 else iso_weeks y.
Proof.
  intros Hy. unfold iso_week_of_ordinal_in_year, dec31_in_week1, dec31_weekday,
    weekday_of_ordinal, iso_weeks, week1_start.
  rewrite (days_before_year_step y Hy). unfold days_in_year.
  generalize (days_before_year y) as j. intros j.
  destruct (is_leap y).
  - destruct ((j + 366 - 1) mod 7 <=? 2) eqn:E;
    destruct (j + 366 <=? j + 366 - 1 - (j + 366 - 1) mod 7 + 3) eqn:E1; try lia;
    destruct (j + 366 - 1 - (j + 366 - 1) mod 7 + 3 <? j) eqn:E2; try lia.
  - destruct ((j + 365 - 1) mod 7 <=? 2) eqn:E;
    destruct (j + 365 <=? j + 365 - 1 - (j + 365 - 1) mod 7 + 3) eqn:E1; try lia;
    destruct (j + 365 - 1 - (j + 365 - 1) mod 7 + 3 <? j) eqn:E2; try lia.
Qed.

(* The regenerated validate_week, characterised completely. *)
Theorem validate_week_char y w : 1000 <= y <= 9999 ->
  validate_week y w
  = Ok ((1 <=? w) && (w <=? (if dec31_in_week1 y then 53 else iso_weeks y))).
Proof.
  intros Hy. unfold validate_week, py_isoweek_dec31.
  replace ((1000 <=? y) && (y <=? 9999)) with true by lia.
  rewrite isoweek_dec31_value by lia.
  destruct (dec31_in_week1 y); cbn [Z.eqb].
  - reflexivity.
  - destruct (iso_weeks_52_53 y ltac:(lia)) as [-> | ->]; reflexivity.
Qed.

Theorem validate_week_raises y w : ~ (1000 <= y <= 9999) ->
  validate_week y w = Raise ValueError.
Proof.
  intros Hy. unfold validate_week, py_isoweek_dec31.
  replace ((1000 <=? y) && (y <=? 9999)) with false by lia. reflexivity.
Qed.

(* The HTML / ISO 8601 specification of a valid week number *)
Definition week_spec (y w : Z) : bool := (1 <=? w) && (w <=? iso_weeks y).

(* Every deviation of the code from the specification is of one shape. *)
Theorem validate_week_deviation y w b : 1 <= y ->
  validate_week y w = Ok b ->
  b = week_spec y w \/ (w = 53 /\ dec31_in_week1 y = true /\ iso_weeks y = 52 /\ b = true).
Proof.
  intros Hy H.
  destruct (Z_le_dec 1000 y) as [H1|H1]; [destruct (Z_le_dec y 9999) as [H2|H2]|].
  - rewrite validate_week_char in H by lia. injection H as <-.
    unfold week_spec. destruct (dec31_in_week1 y) eqn:E; [|now left].
    destruct (iso_weeks_52_53 y Hy) as [Hw | Hw]; rewrite Hw.
    + destruct (Z.eq_dec w 53) as [-> | Hne]; [right; repeat split; reflexivity|].
      left. lia.
    + now left.
  - rewrite validate_week_raises in H by lia. discriminate.
  - rewrite validate_week_raises in H by lia. discriminate.
Qed.

(* ---- ordering: lexicographic order of the parsed tuples is calendar order ---- *)
Lemma days_before_month_bounds y m : 1 <= m <= 12 ->
  0 <= days_before_month y m /\
  (m < 12 -> days_before_month y (m + 1) = days_before_month y m + days_in_month y m) /\
  (m = 12 -> days_before_month y m + days_in_month y m = days_in_year y).
Proof.
  intros Hm. unfold days_before_month, days_in_month, days_in_year.
  assert (m = 1 \/ m = 2 \/ m = 3 \/ m = 4 \/ m = 5 \/ m = 6 \/ m = 7 \/ m = 8 \/ m = 9 \/
          m = 10 \/ m = 11 \/ m = 12) as Hc by lia.
  destruct (is_leap y);
  repeat (destruct Hc as [-> | Hc]; [cbn; lia|]); subst; cbn; lia.
Qed.

Lemma days_before_month_mono y m m' : 1 <= m -> m < m' -> m' <= 12 ->
  days_before_month y m + days_in_month y m <= days_before_month y m'.
Proof.
  intros H1 H2 H3.
  assert (m = 1 \/ m = 2 \/ m = 3 \/ m = 4 \/ m = 5 \/ m = 6 \/ m = 7 \/ m = 8 \/ m = 9 \/
          m = 10 \/ m = 11) as Hc by lia.
  assert (m' = 2 \/ m' = 3 \/ m' = 4 \/ m' = 5 \/ m' = 6 \/ m' = 7 \/ m' = 8 \/ m' = 9 \/
          m' = 10 \/ m' = 11 \/ m' = 12) as Hc' by lia.
  unfold days_before_month, days_in_month.
  destruct (is_leap y);
  repeat (destruct Hc as [-> | Hc]); subst;
  repeat (destruct Hc' as [-> | Hc']); subst; cbn; try lia.
Qed.

Lemma days_before_year_mono y y' : 1 <= y -> y < y' ->
  days_before_year y + days_in_year y <= days_before_year y'.
Proof.
  intros H1 H2. rewrite <- days_before_year_step by lia.
  unfold days_before_year. lia.
Qed.

Definition valid_date (y m d : Z) : Prop :=
  1 <= y /\ 1 <= m <= 12 /\ 1 <= d <= days_in_month y m.

Theorem date_order y m d y' m' d' : valid_date y m d -> valid_date y' m' d' ->
  tuple_ltb [y; m; d] [y'; m'; d'] = (ordinal y m d <? ordinal y' m' d').
Proof.
  intros (Hy & Hm & Hd) (Hy' & Hm' & Hd'). unfold ordinal. cbn [tuple_ltb].
  rewrite andb_false_r, orb_false_r.
  destruct (Z.ltb_spec y y') as [Hlt|Hge].
  - cbn [orb]. symmetry. apply Z.ltb_lt.
    pose proof (days_before_year_mono y y' Hy Hlt).
    pose proof (days_before_month_bounds y m Hm) as (B0 & B1 & B2).
    pose proof (days_before_month_bounds y' m' Hm') as (B0' & _ & _).
    assert (days_before_month y m + days_in_month y m <= days_in_year y).
    { destruct (Z.eq_dec m 12) as [->|Hne]; [rewrite (B2 eq_refl); lia|].
      pose proof (days_before_month_mono y m 12 ltac:(lia) ltac:(lia) ltac:(lia)).
      pose proof (days_before_month_bounds y 12 ltac:(lia)) as (_ & _ & B12).
      specialize (B12 eq_refl). pose proof (days_in_month_range y 12). lia. }
    lia.
  - cbn [orb]. destruct (Z.eqb_spec y y') as [->|Hne].
    + cbn [andb]. destruct (Z.ltb_spec m m') as [Hmlt|Hmge].
      * cbn [orb]. symmetry. apply Z.ltb_lt.
        pose proof (days_before_month_mono y' m m' ltac:(lia) Hmlt ltac:(lia)). lia.
      * cbn [orb]. destruct (Z.eqb_spec m m') as [->|Hmne].
        -- cbn [andb]. destruct (Z.ltb_spec d d'); symmetry; [apply Z.ltb_lt|apply Z.ltb_ge]; lia.
        -- cbn [andb]. symmetry. apply Z.ltb_ge.
           pose proof (days_before_month_mono y' m' m ltac:(lia) ltac:(lia) ltac:(lia)). lia.
    + cbn [andb]. symmetry. apply Z.ltb_ge.
      pose proof (days_before_year_mono y' y Hy' ltac:(lia)).
      pose proof (days_before_month_bounds y m Hm) as (B0 & _ & _).
      pose proof (days_before_month_bounds y' m' Hm') as (B0' & B1' & B2').
      assert (days_before_month y' m' + days_in_month y' m' <= days_in_year y').
      { destruct (Z.eq_dec m' 12) as [->|Hne12]; [rewrite (B2' eq_refl); lia|].
        pose proof (days_before_month_mono y' m' 12 ltac:(lia) ltac:(lia) ltac:(lia)).
        pose proof (days_before_month_bounds y' 12 ltac:(lia)) as (_ & _ & B12).
        specialize (B12 eq_refl). pose proof (days_in_month_range y' 12). lia. }
      lia.
Qed.

(* weeks: (year, week) tuples are ordered as the Mondays of those weeks *)
Theorem week_order y w y' w' : 1 <= y -> 1 <= y' ->
  1 <= w <= iso_weeks y -> 1 <= w' <= iso_weeks y' ->
  tuple_ltb [y; w] [y'; w'] = (week_ordinal y w <? week_ordinal y' w').
Proof.
  intros Hy Hy' Hw Hw'. cbn [tuple_ltb]. rewrite andb_false_r, orb_false_r.
  unfold week_ordinal.
  assert (Hstep : forall k, 1 <= k -> week1_start (k + 1) = week1_start k + 7 * iso_weeks k).
  { intros k Hk. unfold iso_weeks, week1_start. lia. }
  assert (Hmono : forall a b, 1 <= a -> a < b -> week1_start a + 7 * iso_weeks a <= week1_start b).
  { intros a b Ha Hab. rewrite <- Hstep by lia.
    unfold week1_start, days_before_year. lia. }
  destruct (Z.ltb_spec y y') as [Hlt|Hge]; cbn [orb].
  - symmetry. apply Z.ltb_lt. pose proof (Hmono y y' Hy Hlt). lia.
  - destruct (Z.eqb_spec y y') as [->|Hne]; cbn [andb].
    + destruct (Z.ltb_spec w w'); symmetry; [apply Z.ltb_lt|apply Z.ltb_ge]; lia.
    + symmetry. apply Z.ltb_ge. pose proof (Hmono y' y Hy' ltac:(lia)). lia.
Qed.

(* time of day: (hour, minutes) ordered as minutes since midnight *)
Theorem time_order h m h' m' : 0 <= m <= 59 -> 0 <= m' <= 59 ->
  tuple_ltb [h; m] [h'; m'] = (h * 60 + m <? h' * 60 + m').
Proof.
  intros Hm Hm'. cbn [tuple_ltb]. rewrite andb_false_r, orb_false_r.
  destruct (Z.ltb_spec h h'); cbn [orb].
  - symmetry. apply Z.ltb_lt. lia.
  - destruct (Z.eqb_spec h h') as [->|]; cbn [andb].
    + destruct (Z.ltb_spec m m'); symmetry; [apply Z.ltb_lt|apply Z.ltb_ge]; lia.
    + symmetry. apply Z.ltb_ge. lia.
Qed.
