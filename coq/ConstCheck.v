(* ConstCheck.v — the constants the hand-written model uses are the ones the source defines
   (ConstGen.v is regenerated from the live modules on every run). *)
From SV Require Import Base IR Lit Match.
From SV.gen Require Import ConstGen.

Lemma sel_flags_agree :
  g_SEL_EMPTY = SEL_EMPTY /\ g_SEL_ROOT = SEL_ROOT /\ g_SEL_DEFAULT = SEL_DEFAULT /\
  g_SEL_INDETERMINATE = SEL_INDETERMINATE /\ g_SEL_SCOPE = SEL_SCOPE /\ g_SEL_DIR_LTR = SEL_DIR_LTR /\
  g_SEL_DIR_RTL = SEL_DIR_RTL /\ g_SEL_IN_RANGE = SEL_IN_RANGE /\ g_SEL_OUT_OF_RANGE = SEL_OUT_OF_RANGE /\
  g_SEL_DEFINED = SEL_DEFINED /\ g_SEL_PLACEHOLDER_SHOWN = SEL_PLACEHOLDER_SHOWN.
Proof. repeat split; reflexivity. Qed.

Lemma rel_strings_agree :
  g_REL_PARENT = REL_PARENT /\ g_REL_CLOSE_PARENT = REL_CLOSE_PARENT /\ g_REL_SIBLING = REL_SIBLING /\
  g_REL_CLOSE_SIBLING = REL_CLOSE_SIBLING /\ g_REL_HAS_PARENT = REL_HAS_PARENT /\
  g_REL_HAS_CLOSE_PARENT = REL_HAS_CLOSE_PARENT /\ g_REL_HAS_SIBLING = REL_HAS_SIBLING /\
  g_REL_HAS_CLOSE_SIBLING = REL_HAS_CLOSE_SIBLING /\ g_NS_XHTML = NS_XHTML /\ g_NS_XML = NS_XML.
Proof. repeat split; vm_compute; reflexivity. Qed.
