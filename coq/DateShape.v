(* DateShape.v — the date / month / week / time / datetime-local patterns of css_match.Inputs accept exactly the strings
   of the HTML shapes, and parse_value reads their fields (C18): end to end, for every string. *)
From SV Require Import Base Regex RunFacts Lit Inputs Calendar CalendarFacts.
From SV.gen Require Import RegexGen PureGen.
Local Open Scope bool_scope.

Definition DIG : cset := [(48, 57)]%N.
Definition all_in (cs : cset) (r : str) : Prop := forall x, In x r -> cs_mem x cs = true.

(* run_to = "the maximal run r of class characters, of admissible length, then the rest" *)
Lemma run_to_spec cs : forall a mn mx p b st',
  run_to cs mn mx p b a = Some st' ->
  exists r rest, a = r ++ rest /\ all_in cs r /\ mn <= length r /\ (forall m, mx = Some m -> length r <= m) /\
                 match rest with x :: _ => cs_mem x cs = false | [] => True end /\
                 st' = St (p + length r) (rev r ++ b) rest.
Proof.
  induction a as [|x a IH]; intros mn mx p b st' H; cbn [run_to] in H.
  - destruct mn; [|discriminate]. injection H as <-. exists [], [].
    refine (conj eq_refl (conj _ (conj (le_n _) (conj _ (conj I _))))).
    + intros y [].
    + intros m _. cbn. lia.
    + cbn. rewrite Nat.add_0_r. reflexivity.
  - destruct (cs_mem x cs) eqn:Ex.
    + destruct (mx_zero mx) eqn:Ez; [discriminate|].
      destruct (IH _ _ _ _ _ H) as (r & rest & -> & Hin & Hmn & Hmx & Hrest & ->).
      exists (x :: r), rest. cbn [app length].
      refine (conj eq_refl (conj _ (conj _ (conj _ (conj Hrest _))))).
      * intros y [<-|Hy]; [exact Ex | exact (Hin y Hy)].
      * lia.
      * intros m ->. destruct m as [|m]; [discriminate|]. specialize (Hmx m eq_refl). lia.
      * cbn [rev]. rewrite <- app_assoc. cbn [app]. f_equal. lia.
    + destruct mn; [|discriminate]. injection H as <-. exists [], (x :: a).
      refine (conj eq_refl (conj _ (conj (le_n _) (conj _ (conj Ex _))))).
      * intros y [].
      * intros m _. cbn. lia.
      * cbn. rewrite Nat.add_0_r. reflexivity.
Qed.

Lemma run_to_complete cs : forall r rest mn mx p b, all_in cs r -> mn <= length r -> (forall m, mx = Some m -> length r <= m) ->
  match rest with x :: _ => cs_mem x cs = false | [] => True end ->
  run_to cs mn mx p b (r ++ rest) = Some (St (p + length r) (rev r ++ b) rest).
Proof.
  induction r as [|x r IH]; intros rest mn mx p b Hin Hmn Hmx Hrest.
  - cbn [app length rev] in *. rewrite Nat.add_0_r. destruct rest as [|y rest]; cbn [run_to].
    + destruct mn; [reflexivity | lia].
    + rewrite Hrest. destruct mn; [reflexivity | lia].
  - cbn [app run_to]. rewrite (Hin x (or_introl eq_refl)).
    assert (Hz : mx_zero mx = false). { destruct mx as [[|m]|]; try reflexivity. specialize (Hmx 0 eq_refl). cbn in Hmx. lia. }
    rewrite Hz. rewrite IH.
    + cbn [length rev]. rewrite <- app_assoc. cbn [app]. f_equal. f_equal. lia.
    + intros y Hy. apply Hin. right. exact Hy.
    + cbn [length] in Hmn. lia.
    + intros m Hm. destruct mx as [[|m']|]; cbn [pred_opt] in Hm; try discriminate. injection Hm as <-.
      specialize (Hmx (S m') eq_refl). cbn [length] in Hmx. lia.
    + exact Hrest.
Qed.

(* ---- the fields a run/literal pattern reads from a string, by a plain left-to-right split ---- *)
Fixpoint span (cs : cset) (a : str) : str * str :=
  match a with
  | x :: a' => if cs_mem x cs then let '(r, rest) := span cs a' in (x :: r, rest) else ([], a)
  | [] => ([], [])
  end.
Definition len_ok (mn : nat) (mx : option nat) (n : nat) : bool :=
  Nat.leb mn n && match mx with Some m => Nat.leb n m | None => true end.

Fixpoint fields (p : list item) (a : str) : option (list str) :=
  match p with
  | [] => match a with [] => Some [] | _ :: _ => None end
  | Lit ch :: p' => match a with x :: a' => if (x =? ch)%N then fields p' a' else None | [] => None end
  | Run g mn mx cs :: p' =>
    let '(r, rest) := span cs a in
    if len_ok mn mx (length r) then match fields p' rest with Some fs => Some (r :: fs) | None => None end else None
  end.
Fixpoint groups (p : list item) : list nat :=
  match p with [] => [] | Run g _ _ _ :: p' => g :: groups p' | Lit _ :: p' => groups p' end.

Lemma span_spec cs a : let '(r, rest) := span cs a in
  a = r ++ rest /\ all_in cs r /\ match rest with x :: _ => cs_mem x cs = false | [] => True end.
Proof.
  induction a as [|x a IH]; cbn [span]; [repeat split; intros ? []|].
  destruct (cs_mem x cs) eqn:Ex.
  - destruct (span cs a) as [r rest]. destruct IH as (-> & Hin & Hrest). repeat split; [|exact Hrest].
    intros y [<-|Hy]; [exact Ex | exact (Hin y Hy)].
  - repeat split; [intros ? [] | exact Ex].
Qed.

Lemma run_to_span cs mn mx p b a :
  run_to cs mn mx p b a = let '(r, rest) := span cs a in
                          if len_ok mn mx (length r) then Some (St (p + length r) (rev r ++ b) rest) else None.
Proof.
  pose proof (span_spec cs a) as H. destruct (span cs a) as [r rest]. destruct H as (-> & Hin & Hrest).
  unfold len_ok. destruct (Nat.leb_spec mn (length r)) as [Hmn|Hmn]; cbn [andb].
  - destruct (match mx with Some m => Nat.leb (length r) m | None => true end) eqn:Emx.
    + apply run_to_complete; try assumption. intros m ->. apply Nat.leb_le. exact Emx.
    + destruct (run_to cs mn mx p b (r ++ rest)) as [st'|] eqn:E; [|reflexivity].
      destruct (run_to_spec _ _ _ _ _ _ _ E) as (r' & rest' & Heq & Hin' & _ & Hmx' & Hrest' & _).
      assert (r' = r).
      { clear - Heq Hin Hin' Hrest Hrest'. revert r' Heq Hin'. induction r as [|x r IH]; intros [|y r'] Heq Hin'.
        - reflexivity.
        - cbn in Heq. subst rest. cbn in Hrest. rewrite (Hin' y (or_introl eq_refl)) in Hrest. discriminate.
        - cbn in Heq. subst rest'. cbn in Hrest'. rewrite (Hin x (or_introl eq_refl)) in Hrest'. discriminate.
        - cbn in Heq. injection Heq as <- Heq. f_equal. apply IH; [intros z Hz; apply Hin; right; exact Hz | exact Heq | intros z Hz; apply Hin'; right; exact Hz]. }
      subst r'. destruct mx as [m|]; [|discriminate]. specialize (Hmx' m eq_refl). apply Nat.leb_gt in Emx. lia.
  - destruct (run_to cs mn mx p b (r ++ rest)) as [st'|] eqn:E; [|reflexivity].
    destruct (run_to_spec _ _ _ _ _ _ _ E) as (r' & rest' & Heq & Hin' & Hmn' & _ & Hrest' & _).
    assert (r' = r).
    { clear - Heq Hin Hin' Hrest Hrest'. revert r' Heq Hin'. induction r as [|x r IH]; intros [|y r'] Heq Hin'.
      - reflexivity.
      - cbn in Heq. subst rest. cbn in Hrest. rewrite (Hin' y (or_introl eq_refl)) in Hrest. discriminate.
      - cbn in Heq. subst rest'. cbn in Hrest'. rewrite (Hin x (or_introl eq_refl)) in Hrest'. discriminate.
      - cbn in Heq. injection Heq as <- Heq. f_equal. apply IH; [intros z Hz; apply Hin; right; exact Hz | exact Heq | intros z Hz; apply Hin'; right; exact Hz]. }
    subst r'. lia.
Qed.

(* the subject seen from a state *)
Definition inv (s : str) (st : state) : Prop := s = rev (before st) ++ after st /\ pos st = length (before st).

Lemma substr_mid (x r y : str) : substr (x ++ r ++ y) (length x) (length x + length r) = r.
Proof.
  unfold substr. replace (length x + length r - length x) with (length r) by lia.
  rewrite skipn_app, skipn_all, Nat.sub_diag. cbn [skipn app]. rewrite firstn_app, firstn_all, Nat.sub_diag. cbn [firstn]. apply app_nil_r.
Qed.

(* new captures are put in front of the old ones and belong to the pattern's groups *)
Lemma scan_caps p : forall st c st' c', scan_items p st c = Some (st', c') ->
  exists newc, c' = newc ++ c /\ forall g, In g (map fst newc) -> In g (groups p).
Proof.
  induction p as [|[g mn mx cs|ch] p' IH]; intros st c st' c' H; cbn [scan_items] in H.
  - destruct (after st); [|discriminate]. injection H as <- <-. exists []. split; [reflexivity | intros ? []].
  - destruct (run_to cs mn mx (pos st) (before st) (after st)) as [st1|]; [|discriminate].
    destruct (IH _ _ _ _ H) as (newc & -> & Hg). exists (newc ++ [(g, (pos st, pos st1))]). split.
    + rewrite <- app_assoc. reflexivity.
    + intros g' Hin. rewrite map_app in Hin. apply in_app_or in Hin as [Hin|[<-|[]]]; [right; apply Hg; exact Hin | left; reflexivity].
  - destruct (st_adv st) as [[x st1]|]; [|discriminate]. destruct (x =? ch)%N; [|discriminate]. exact (IH _ _ _ _ H).
Qed.

Lemma cap_get_app_notin g newc c : ~ In g (map fst newc) -> cap_get g (newc ++ c) = cap_get g c.
Proof.
  induction newc as [|[g' se] newc IH]; intros Hn; [reflexivity|]. cbn [app cap_get].
  destruct (Nat.eqb_spec g g') as [->|Hne]; [exfalso; apply Hn; left; reflexivity|]. apply IH. intros H. apply Hn. right. exact H.
Qed.

(* the scan succeeds exactly when the split does, and then every group of the pattern holds its field *)
Theorem scan_fields s p : NoDup (groups p) -> forall st c, inv s st ->
  match scan_items p st c, fields p (after st) with
  | Some (st', c'), Some fs => map (group s c') (groups p) = map Some fs
  | None, None => True
  | _, _ => False
  end.
Proof.
  induction p as [|[g mn mx cs|ch] p' IH]; intros Hnd st c [Hs Hp]; cbn [scan_items fields groups].
  - destruct (after st); [reflexivity | exact I].
  - apply NoDup_cons_iff in Hnd as [Hnotin Hnd']. rewrite run_to_span.
    pose proof (span_spec cs (after st)) as Hsp. destruct (span cs (after st)) as [r rest]. destruct Hsp as (Ha & _ & _).
    destruct (len_ok mn mx (length r)); [|exact I].
    set (st1 := St (pos st + length r) (rev r ++ before st) rest).
    assert (Hinv1 : inv s st1). { unfold st1, inv. cbn [before after pos]. split; [rewrite rev_app_distr, rev_involutive, <- app_assoc, <- Ha; exact Hs | rewrite app_length, rev_length; lia]. }
    specialize (IH Hnd' st1 ((g, (pos st, pos st1)) :: c) Hinv1). change (after st1) with rest in IH.
    destruct (scan_items p' st1 ((g, (pos st, pos st1)) :: c)) as [[st' c']|] eqn:E; destruct (fields p' rest) as [fs|]; try exact IH.
    cbn [map]. f_equal; [|exact IH].
    destruct (scan_caps _ _ _ _ _ E) as (newc & -> & Hg).
    unfold group. rewrite cap_get_app_notin by (intros Hin; apply Hnotin, Hg, Hin).
    cbn [cap_get]. rewrite Nat.eqb_refl. f_equal. cbn [pos st1].
    rewrite Hs, Ha, Hp. rewrite <- (rev_length (before st)). apply substr_mid.
  - destruct st as [p0 b a]. cbn [after before pos] in *. destruct a as [|x a]; cbn [st_adv after pos before]; [exact I|]. destruct (x =? ch)%N; [|exact I].
    apply (IH Hnd). unfold inv. cbn [before after pos]. split; [cbn [rev]; rewrite <- app_assoc; exact Hs | cbn [length]; lia].
Qed.

Lemma fields_length p : forall a fs, fields p a = Some fs -> length fs = length (groups p).
Proof.
  induction p as [|[g mn mx cs|ch] p' IH]; intros a fs H; cbn [fields groups] in *.
  - destruct a; [injection H as <-; reflexivity | discriminate].
  - destruct (span cs a) as [r rest]. destruct (len_ok mn mx (length r)); [|discriminate].
    destruct (fields p' rest) as [fs'|] eqn:E; [|discriminate]. injection H as <-. cbn [length]. f_equal. exact (IH _ _ E).
  - destruct a as [|x a]; [discriminate|]. destruct (x =? ch)%N; [exact (IH _ _ H) | discriminate].
Qed.

(* an anchored pattern at the start of the subject *)
Lemma rmatch_anchored p s : wf p = true ->
  rmatch (Seq AtStart (to_re p)) s 0 =
  match scan_items p (st_init s) [] with Some (st, c) => Some (pos st, c) | None => None end.
Proof.
  intros Hwf. unfold rmatch, rmatch_st, st_at. cbn [st_skip]. rewrite ends_seq. cbn [ends st_init pos flat_map fst snd].
  rewrite app_nil_r. rewrite (ends_items p Hwf). unfold st_init. destruct (scan_items p (St 0 [] s) []) as [[st c]|]; reflexivity.
Qed.

Lemma inv_init s : inv s (st_init s).
Proof. split; reflexivity. Qed.

(* the groups of a successful anchored match are the fields of the split, in order *)
Lemma anchored_groups p s : wf p = true -> NoDup (groups p) ->
  match rmatch (Seq AtStart (to_re p)) s 0, fields p s with
  | Some (_, c), Some fs => map (group s c) (groups p) = map Some fs
  | None, None => True
  | _, _ => False
  end.
Proof.
  intros Hwf Hnd. rewrite (rmatch_anchored p s Hwf).
  pose proof (scan_fields s p Hnd (st_init s) [] (inv_init s)) as H. cbn [st_init after] in H.
  destruct (scan_items p (st_init s) []) as [[st c]|]; exact H.
Qed.

(* ---- the five patterns, as REGENERATED from css_match.py ---- *)
Definition date_items : list item := [Run 1 4 None DIG; Lit 45%N; Run 2 2 (Some 2) DIG; Lit 45%N; Run 3 2 (Some 2) DIG].
Definition month_items : list item := [Run 1 4 None DIG; Lit 45%N; Run 2 2 (Some 2) DIG].
Definition week_items : list item := [Run 1 4 None DIG; Lit 45%N; Lit 87%N; Run 2 2 (Some 2) DIG].
Definition time_items : list item := [Run 1 2 (Some 2) DIG; Lit 58%N; Run 2 2 (Some 2) DIG].
Definition datetime_items : list item :=
  [Run 1 4 None DIG; Lit 45%N; Run 2 2 (Some 2) DIG; Lit 45%N; Run 3 2 (Some 2) DIG; Lit 84%N; Run 4 2 (Some 2) DIG; Lit 58%N; Run 5 2 (Some 2) DIG].

Lemma shapes :
  cm_RE_DATE = Seq AtStart (to_re date_items) /\ cm_RE_MONTH = Seq AtStart (to_re month_items) /\
  cm_RE_WEEK = Seq AtStart (to_re week_items) /\ cm_RE_TIME = Seq AtStart (to_re time_items) /\
  cm_RE_DATETIME = Seq AtStart (to_re datetime_items).
Proof. repeat split; reflexivity. Qed.

Ltac nodup := repeat (constructor; [cbn; intuition discriminate|]); constructor.

Ltac use_groups items Hshape s :=
  let H := fresh "H" in
  pose proof (anchored_groups items s eq_refl ltac:(cbn [groups items]; nodup)) as H; rewrite <- Hshape in H.

(* parse_value for type=date: the year-month-day split, then the validators *)
Theorem parse_date s :
  parse_value T_date s =
  match fields date_items s with
  | Some [ys; ms; ds] =>
    ok_if (validate_year (int10 ys) && validate_month (int10 ms) && validate_day (int10 ys) (int10 ms) (int10 ds))
          (PTuple [int10 ys; int10 ms; int10 ds])
  | _ => Ok None
  end.
Proof.
  unfold parse_value. replace (str_eqb T_date T_date) with true by (symmetry; apply str_eqb_refl).
  destruct shapes as (Hd & _). use_groups date_items Hd s.
  destruct (rmatch cm_RE_DATE s 0) as [[n c]|]; destruct (fields date_items s) as [fs|] eqn:Ef; try contradiction; [|reflexivity].
  pose proof (fields_length _ _ _ Ef) as Hl. cbn [groups date_items length] in Hl.
  destruct fs as [|ys [|ms [|ds [|? ?]]]]; try discriminate Hl.
  cbn [map groups date_items] in H. injection H as H1 H2 H3.
  unfold grp_int. change cm_RE_DATE_g_year with 1. change cm_RE_DATE_g_month with 2. change cm_RE_DATE_g_day with 3.
  rewrite H1, H2, H3. reflexivity.
Qed.
Print Assumptions parse_date.

Ltac parse_tac Hshape items s :=
  unfold parse_value; cbn [str_eqb T_date T_month T_week T_time T_datetime s2l];
  use_groups items Hshape s.

Theorem parse_month s :
  parse_value T_month s =
  match fields month_items s with
  | Some [ys; ms] => ok_if (validate_year (int10 ys) && validate_month (int10 ms)) (PTuple [int10 ys; int10 ms])
  | _ => Ok None
  end.
Proof.
  destruct shapes as (_ & Hm & _). unfold parse_value.
  replace (str_eqb T_month T_date) with false by reflexivity. replace (str_eqb T_month T_month) with true by reflexivity.
  use_groups month_items Hm s.
  destruct (rmatch cm_RE_MONTH s 0) as [[n c]|]; destruct (fields month_items s) as [fs|] eqn:Ef; try contradiction; [|reflexivity].
  pose proof (fields_length _ _ _ Ef) as Hl. cbn [groups month_items length] in Hl.
  destruct fs as [|ys [|ms [|? ?]]]; try discriminate Hl.
  cbn [map groups month_items] in H. injection H as H1 H2.
  unfold grp_int. change cm_RE_MONTH_g_year with 1. change cm_RE_MONTH_g_month with 2. rewrite H1, H2. reflexivity.
Qed.

Theorem parse_week s :
  parse_value T_week s =
  match fields week_items s with
  | Some [ys; ws] =>
    if validate_year (int10 ys) then (do b <- validate_week (int10 ys) (int10 ws) ;; ok_if b (PTuple [int10 ys; int10 ws])) else Ok None
  | _ => Ok None
  end.
Proof.
  destruct shapes as (_ & _ & Hw & _). unfold parse_value.
  replace (str_eqb T_week T_date) with false by reflexivity. replace (str_eqb T_week T_month) with false by reflexivity.
  replace (str_eqb T_week T_week) with true by reflexivity.
  use_groups week_items Hw s.
  destruct (rmatch cm_RE_WEEK s 0) as [[n c]|]; destruct (fields week_items s) as [fs|] eqn:Ef; try contradiction; [|reflexivity].
  pose proof (fields_length _ _ _ Ef) as Hl. cbn [groups week_items length] in Hl.
  destruct fs as [|ys [|ws [|? ?]]]; try discriminate Hl.
  cbn [map groups week_items] in H. injection H as H1 H2.
  unfold grp_int. change cm_RE_WEEK_g_year with 1. change cm_RE_WEEK_g_week with 2. rewrite H1, H2. reflexivity.
Qed.

Theorem parse_time s :
  parse_value T_time s =
  match fields time_items s with
  | Some [hs; ms] => ok_if (validate_hour (int10 hs) && validate_minutes (int10 ms)) (PTuple [int10 hs; int10 ms])
  | _ => Ok None
  end.
Proof.
  destruct shapes as (_ & _ & _ & Ht & _). unfold parse_value.
  replace (str_eqb T_time T_date) with false by reflexivity. replace (str_eqb T_time T_month) with false by reflexivity.
  replace (str_eqb T_time T_week) with false by reflexivity. replace (str_eqb T_time T_time) with true by reflexivity.
  use_groups time_items Ht s.
  destruct (rmatch cm_RE_TIME s 0) as [[n c]|]; destruct (fields time_items s) as [fs|] eqn:Ef; try contradiction; [|reflexivity].
  pose proof (fields_length _ _ _ Ef) as Hl. cbn [groups time_items length] in Hl.
  destruct fs as [|hs [|ms [|? ?]]]; try discriminate Hl.
  cbn [map groups time_items] in H. injection H as H1 H2.
  unfold grp_int. change cm_RE_TIME_g_hour with 1. change cm_RE_TIME_g_minutes with 2. rewrite H1, H2. reflexivity.
Qed.

Theorem parse_datetime s :
  parse_value T_datetime s =
  match fields datetime_items s with
  | Some [ys; ms; ds; hs; mis] =>
    ok_if (validate_year (int10 ys) && validate_month (int10 ms) && validate_day (int10 ys) (int10 ms) (int10 ds) &&
           validate_hour (int10 hs) && validate_minutes (int10 mis))
          (PTuple [int10 ys; int10 ms; int10 ds; int10 hs; int10 mis])
  | _ => Ok None
  end.
Proof.
  destruct shapes as (_ & _ & _ & _ & Hdt). unfold parse_value.
  replace (str_eqb T_datetime T_date) with false by reflexivity. replace (str_eqb T_datetime T_month) with false by reflexivity.
  replace (str_eqb T_datetime T_week) with false by reflexivity. replace (str_eqb T_datetime T_time) with false by reflexivity.
  replace (str_eqb T_datetime T_datetime) with true by reflexivity.
  use_groups datetime_items Hdt s.
  destruct (rmatch cm_RE_DATETIME s 0) as [[n c]|]; destruct (fields datetime_items s) as [fs|] eqn:Ef; try contradiction; [|reflexivity].
  pose proof (fields_length _ _ _ Ef) as Hl. cbn [groups datetime_items length] in Hl.
  destruct fs as [|ys [|ms [|ds [|hs [|mis [|? ?]]]]]]; try discriminate Hl.
  cbn [map groups datetime_items] in H. injection H as H1 H2 H3 H4 H5.
  unfold grp_int. change cm_RE_DATETIME_g_year with 1. change cm_RE_DATETIME_g_month with 2. change cm_RE_DATETIME_g_day with 3.
  change cm_RE_DATETIME_g_hour with 4. change cm_RE_DATETIME_g_minutes with 5. rewrite H1, H2, H3, H4, H5. reflexivity.
Qed.
Print Assumptions parse_datetime.

(* ---- the split, declaratively ---- *)
Definition digits (r : str) : Prop := all_in DIG r.

Lemma fields_date_sound s ys ms ds : fields date_items s = Some [ys; ms; ds] ->
  s = ys ++ [45%N] ++ ms ++ [45%N] ++ ds /\ digits ys /\ digits ms /\ digits ds /\
  4 <= length ys /\ length ms = 2 /\ length ds = 2.
Proof.
  unfold date_items. cbn [fields].
  pose proof (span_spec DIG s) as H1. destruct (span DIG s) as [r1 a1]. destruct H1 as (-> & Hd1 & _).
  destruct (len_ok 4 None (length r1)) eqn:L1; [|discriminate].
  destruct a1 as [|x1 a1]; [discriminate|]. destruct (N.eqb_spec x1 45) as [->|]; [|discriminate].
  pose proof (span_spec DIG a1) as H2. destruct (span DIG a1) as [r2 a2]. destruct H2 as (-> & Hd2 & _).
  destruct (len_ok 2 (Some 2) (length r2)) eqn:L2; [|discriminate].
  destruct a2 as [|x2 a2]; [discriminate|]. destruct (N.eqb_spec x2 45) as [->|]; [|discriminate].
  pose proof (span_spec DIG a2) as H3. destruct (span DIG a2) as [r3 a3]. destruct H3 as (-> & Hd3 & _).
  destruct (len_ok 2 (Some 2) (length r3)) eqn:L3; [|discriminate].
  destruct a3; [|discriminate]. intros H. injection H as <- <- <-.
  unfold len_ok in *. apply andb_true_iff in L1 as [L1 _]. apply andb_true_iff in L2 as [L2 L2']. apply andb_true_iff in L3 as [L3 L3'].
  apply Nat.leb_le in L1, L2, L2', L3, L3'. rewrite app_nil_r. repeat split; try assumption; try lia.
Qed.

(* End to end, for EVERY string: type=date accepts s and reads (y, m, d) exactly when s is a valid HTML date string:
   four or more digits, '-', two digits, '-', two digits, nothing else; year >= 1, month 1..12, day 1..days_in_month. *)
Theorem date_end_to_end s y m d :
  parse_value T_date s = Ok (Some (PTuple [y; m; d])) ->
  exists ys ms ds, s = ys ++ [45%N] ++ ms ++ [45%N] ++ ds /\ digits ys /\ digits ms /\ digits ds /\
                   4 <= length ys /\ length ms = 2 /\ length ds = 2 /\
                   y = int10 ys /\ m = int10 ms /\ d = int10 ds /\ valid_date y m d.
Proof.
  rewrite parse_date. destruct (fields date_items s) as [fs|] eqn:Ef; [|discriminate].
  destruct fs as [|ys [|ms [|ds [|? ?]]]]; try discriminate.
  unfold ok_if. destruct (validate_year (int10 ys) && validate_month (int10 ms) && validate_day (int10 ys) (int10 ms) (int10 ds)) eqn:Ev; [|discriminate].
  intros H. injection H as <- <- <-.
  destruct (fields_date_sound _ _ _ _ Ef) as (Hs & H1 & H2 & H3 & L1 & L2 & L3).
  exists ys, ms, ds. repeat split; try assumption; try reflexivity.
  - apply andb_true_iff in Ev as [Ev _]. apply andb_true_iff in Ev as [Ev _]. unfold validate_year in Ev. lia.
  - apply andb_true_iff in Ev as [Ev _]. apply andb_true_iff in Ev as [_ Ev]. unfold validate_month in Ev. lia.
  - apply andb_true_iff in Ev as [Ev _]. apply andb_true_iff in Ev as [_ Ev]. unfold validate_month in Ev. lia.
  - apply andb_true_iff in Ev as [_ Ev]. rewrite validate_day_spec in Ev. lia.
  - apply andb_true_iff in Ev as [_ Ev]. rewrite validate_day_spec in Ev. lia.
Qed.
Print Assumptions date_end_to_end.

Lemma span_app cs r rest : all_in cs r -> match rest with x :: _ => cs_mem x cs = false | [] => True end ->
  span cs (r ++ rest) = (r, rest).
Proof.
  induction r as [|x r IH]; intros Hin Hrest; cbn [app span].
  - destruct rest as [|y rest]; [reflexivity|]. cbn [span]. rewrite Hrest. reflexivity.
  - rewrite (Hin x (or_introl eq_refl)). rewrite IH; [reflexivity | intros y Hy; apply Hin; right; exact Hy | exact Hrest].
Qed.

Theorem date_complete ys ms ds : digits ys -> digits ms -> digits ds -> 4 <= length ys -> length ms = 2 -> length ds = 2 ->
  valid_date (int10 ys) (int10 ms) (int10 ds) ->
  parse_value T_date (ys ++ [45%N] ++ ms ++ [45%N] ++ ds) = Ok (Some (PTuple [int10 ys; int10 ms; int10 ds])).
Proof.
  intros H1 H2 H3 L1 L2 L3 (Hy & Hm & Hd). rewrite parse_date. unfold date_items. cbn [fields].
  rewrite (span_app DIG ys) by (try exact H1; reflexivity).
  replace (len_ok 4 None (length ys)) with true by (unfold len_ok; symmetry; apply andb_true_iff; split; [apply Nat.leb_le; lia | reflexivity]).
  cbn [app]. rewrite N.eqb_refl.
  rewrite (span_app DIG ms) by (try exact H2; reflexivity).
  replace (len_ok 2 (Some 2) (length ms)) with true by (rewrite L2; reflexivity).
  cbn [app]. rewrite N.eqb_refl.
  replace ds with (ds ++ []) at 1 by apply app_nil_r. rewrite (span_app DIG ds) by (try exact H3; exact I).
  replace (len_ok 2 (Some 2) (length ds)) with true by (rewrite L3; reflexivity).
  unfold ok_if. rewrite validate_day_spec. unfold validate_year, validate_month.
  replace ((1 <=? int10 ys)%Z && ((1 <=? int10 ms)%Z && (int10 ms <=? 12)%Z) && ((1 <=? int10 ds)%Z && (int10 ds <=? days_in_month (int10 ys) (int10 ms))%Z)) with true; [reflexivity|].
  symmetry. repeat (apply andb_true_iff; split); apply Z.leb_le; lia.
Qed.
Print Assumptions date_complete.
