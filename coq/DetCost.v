(* DetCost.v — a polynomial bound on the backtracking search for expressions that are deterministic GIVEN WHAT FOLLOWS
   (one character of look-ahead): among the ends of a sub-expression at most one can be continued by what comes next.
   This certifies the token patterns whose repetition bodies have several ends of which all but one are dead ends
   (the star run that closes a comment, a white-space run before a value, the optional sign, bounded hex runs). *)
From SV Require Import Base Regex RegexFacts RegexCost RunFacts.
Local Open Scope bool_scope.

(* ---- where an end can be: the subject is only ever advanced ---- *)
Definition reach (st st' : state) : Prop :=
  exists pre, after st = pre ++ after st' /\ pos st' = pos st + length pre /\ before st' = rev pre ++ before st.

Lemma reach_refl st : reach st st.
Proof. exists []. cbn. repeat split; lia. Qed.
Lemma reach_trans a b c : reach a b -> reach b c -> reach a c.
Proof.
  intros (p1 & A1 & P1 & B1) (p2 & A2 & P2 & B2). exists (p1 ++ p2). rewrite A1, A2, P2, P1, B2, B1, app_length, rev_app_distr, !app_assoc.
  repeat split; lia.
Qed.
Lemma reach_adv st ch st' : st_adv st = Some (ch, st') -> reach st st'.
Proof.
  unfold st_adv. destruct st as [p b a]. cbn [after pos before]. destruct a as [|x a]; [discriminate|].
  intros H. injection H as _ <-. exists [x]. cbn. repeat split; lia.
Qed.
Lemma reach_same st st' : reach st st' -> pos st' = pos st -> st' = st.
Proof.
  intros (pre & A & P & B) E. destruct pre as [|x pre]; [|cbn in P; lia]. cbn in A, B, P. destruct st, st'. cbn in *. subst. f_equal. lia.
Qed.
Lemma reach_after_nil st st' : reach st st' -> after st = [] -> st' = st.
Proof.
  intros (pre & A & P & B) E. rewrite E in A. destruct pre as [|x pre]; [|discriminate]. cbn in *. destruct st, st'. cbn in *. subst. f_equal. lia.
Qed.

Section RepReach.
Variable body : state -> caps -> mres.
Hypothesis body_reach : forall st c st' c', In (st', c') (body st c) -> reach st st'.
Lemma rep_ends_reach g fuel : forall mn mx st c st' c',
  In (st', c') (rep_ends body g fuel mn mx st c) -> reach st st'.
Proof.
  induction fuel as [|f IH]; intros mn mx st c st' c' H.
  - cbn in H. destruct mn; [destruct H as [H|[]]; injection H as <- _; apply reach_refl | contradiction].
  - cbn [rep_ends] in H.
    assert (Hmore : forall l, l = (match mx with
                 | Some 0 => []
                 | _ => flat_map (fun sc => if Nat.ltb (pos st) (pos (fst sc))
                                            then rep_ends body g f (Nat.pred mn)
                                                   match mx with Some (S m) => Some m | _ => None end (fst sc) (snd sc)
                                            else []) (body st c)
                 end) -> In (st', c') l -> reach st st').
    { intros l -> Hin. destruct mx as [[|m]|]; try contradiction;
      apply in_flat_map in Hin as [[s1 c1] [H1 H2]]; cbn [fst snd] in H2;
      destruct (Nat.ltb (pos st) (pos s1)); try contradiction;
      (eapply reach_trans; [exact (body_reach _ _ _ _ H1) | exact (IH _ _ _ _ _ _ H2)]). }
    destruct mn.
    + destruct g.
      * apply in_app_or in H as [H|[H|[]]]; [eapply Hmore; [reflexivity | exact H] | injection H as <- _; apply reach_refl].
      * destruct H as [H|H]; [injection H as <- _; apply reach_refl | eapply Hmore; [reflexivity | exact H]].
    + eapply Hmore; [reflexivity | exact H].
Qed.
End RepReach.

Lemma ends_reach r : forall st c st' c', In (st', c') (ends r st c) -> reach st st'.
Proof.
  induction r as [|cs|a IHa b IHb|a IHa b IHb|g mn mx r IH|neg r IH|neg cs| | | | |g r IH]; intros st c st' c' H; cbn [ends] in H.
  - destruct H as [H|[]]. injection H as <- _. apply reach_refl.
  - destruct (st_adv st) as [[ch s1]|] eqn:E; [|contradiction]. destruct (cs_mem ch cs); [|contradiction].
    destruct H as [H|[]]. injection H as <- _. eapply reach_adv; exact E.
  - apply in_flat_map in H as [[s1 c1] [H1 H2]]. cbn [fst snd] in H2. eapply reach_trans; [eapply IHa; exact H1 | eapply IHb; exact H2].
  - apply in_app_or in H as [H|H]; [eapply IHa | eapply IHb]; exact H.
  - eapply rep_ends_reach; [|exact H]. intros; eapply IH; eassumption.
  - destruct (ends r st c) as [|[s1 c1] l]; destruct neg; try contradiction; destruct H as [H|[]]; injection H as <- _; apply reach_refl.
  - destruct (before st) as [|ch l]; [destruct neg; try contradiction | destruct (xorb neg (cs_mem ch cs)); try contradiction];
      destruct H as [H|[]]; injection H as <- _; apply reach_refl.
  - destruct (pos st); [|contradiction]. destruct H as [H|[]]; injection H as <- _; apply reach_refl.
  - destruct (pos st); [|contradiction]. destruct H as [H|[]]; injection H as <- _; apply reach_refl.
  - destruct (at_end_b (after st)); [|contradiction]. destruct H as [H|[]]; injection H as <- _; apply reach_refl.
  - destruct (after st); [|contradiction]. destruct H as [H|[]]; injection H as <- _; apply reach_refl.
  - apply in_map_iff in H as [[s1 c1] [E H]]. cbn [fst snd] in E. injection E as <- _. eapply IH; exact H.
Qed.

(* ---- first characters (an over-approximation that is total) ---- *)
Fixpoint firsts (r : re) : cset :=
  match r with
  | Chr cs => cs
  | Seq a b => if nullable a then firsts a ++ firsts b else firsts a
  | Alt a b => firsts a ++ firsts b
  | Rep _ _ _ r' => firsts r'
  | Grp _ r' => firsts r'
  | _ => []
  end.

Lemma starts_in_app_l st a b : starts_in st a -> starts_in st (a ++ b).
Proof. unfold starts_in. destruct (after st); [auto|]. intros H. rewrite cs_mem_app, H. reflexivity. Qed.
Lemma starts_in_app_r st a b : starts_in st b -> starts_in st (a ++ b).
Proof. unfold starts_in. destruct (after st); [auto|]. intros H. rewrite cs_mem_app, H. apply orb_true_r. Qed.

Lemma rep_first (body : state -> caps -> mres) g f mn mx st c st' c' :
  In (st', c') (rep_ends body g (S f) mn mx st c) ->
  st' = st \/ exists s1 c1, In (s1, c1) (body st c) /\ pos st < pos s1.
Proof.
  cbn [rep_ends]. intros H.
  assert (Hmore : forall l, l = (match mx with
               | Some 0 => []
               | _ => flat_map (fun sc => if Nat.ltb (pos st) (pos (fst sc))
                                          then rep_ends body g f (Nat.pred mn)
                                                 match mx with Some (S m) => Some m | _ => None end (fst sc) (snd sc)
                                          else []) (body st c)
               end) -> In (st', c') l -> exists s1 c1, In (s1, c1) (body st c) /\ pos st < pos s1).
  { intros l -> Hin. destruct mx as [[|m]|]; try contradiction;
    apply in_flat_map in Hin as [[s1 c1] [H1 H2]]; cbn [fst snd] in H2;
    destruct (Nat.ltb (pos st) (pos s1)) eqn:El; try contradiction; exists s1, c1; (split; [exact H1 | apply Nat.ltb_lt; exact El]). }
  destruct mn.
  - destruct g.
    + apply in_app_or in H as [H|[H|[]]]; [right; eapply Hmore; [reflexivity | exact H] | left; injection H as <- _; reflexivity].
    + destruct H as [H|H]; [left; injection H as <- _; reflexivity | right; eapply Hmore; [reflexivity | exact H]].
  - right. eapply Hmore; [reflexivity | exact H].
Qed.

Lemma firsts_sound r : forall st c st' c', In (st', c') (ends r st c) -> st' = st \/ starts_in st (firsts r).
Proof.
  induction r as [|cs|a IHa b IHb|a IHa b IHb|g mn mx r IH|neg r IH|neg cs| | | | |g r IH]; intros st c st' c' H; cbn [firsts].
  - cbn [ends] in H. destruct H as [H|[]]. injection H as <- _. now left.
  - right. cbn [ends] in H. unfold starts_in, st_adv in *. destruct (after st) as [|ch l]; [contradiction|].
    destruct (cs_mem ch cs) eqn:E; [reflexivity | contradiction].
  - cbn [ends] in H. apply in_flat_map in H as [[s1 c1] [H1 H2]]. cbn [fst snd] in H2.
    destruct (nullable a) eqn:Na.
    + destruct (IHa _ _ _ _ H1) as [->|Hs]; [|right; apply starts_in_app_l; exact Hs].
      destruct (IHb _ _ _ _ H2) as [->|Hs]; [now left | right; apply starts_in_app_r; exact Hs].
    + destruct (IHa _ _ _ _ H1) as [->|Hs]; [|right; exact Hs].
      pose proof (ends_progress a Na _ _ _ _ H1). lia.
  - cbn [ends] in H. apply in_app_or in H as [H|H].
    + destruct (IHa _ _ _ _ H) as [->|Hs]; [now left | right; apply starts_in_app_l; exact Hs].
    + destruct (IHb _ _ _ _ H) as [->|Hs]; [now left | right; apply starts_in_app_r; exact Hs].
  - cbn [ends] in H. apply rep_first in H as [->|(s1 & c1 & H1 & Hl)]; [now left|].
    destruct (IH _ _ _ _ H1) as [->|Hs]; [lia | right; exact Hs].
  - left. pose proof (ends_reach (Look neg r) _ _ _ _ H) as Hr. cbn [ends] in H.
    destruct (ends r st c) as [|[s1 c1] l]; destruct neg; try contradiction; destruct H as [H|[]]; now injection H as <- _.
  - left. cbn [ends] in H. destruct (before st) as [|ch l]; [destruct neg; try contradiction | destruct (xorb neg (cs_mem ch cs)); try contradiction];
      destruct H as [H|[]]; now injection H as <- _.
  - left. cbn [ends] in H. destruct (pos st); [|contradiction]. destruct H as [H|[]]; now injection H as <- _.
  - left. cbn [ends] in H. destruct (pos st); [|contradiction]. destruct H as [H|[]]; now injection H as <- _.
  - left. cbn [ends] in H. destruct (at_end_b (after st)); [|contradiction]. destruct H as [H|[]]; now injection H as <- _.
  - left. cbn [ends] in H. destruct (after st); [|contradiction]. destruct H as [H|[]]; now injection H as <- _.
  - cbn [ends] in H. apply in_map_iff in H as [[s1 c1] [E H]]. cbn [fst snd] in E. injection E as <- _. eapply IH; exact H.
Qed.

(* ---- what may follow: None = anything; Some (cs, eoi) = a character of cs, or (eoi) the end of the subject ---- *)
Definition follow := option (cset * bool).
Definition viable (F : follow) (e : state) : bool :=
  match F with
  | None => true
  | Some (cs, eoi) => match after e with [] => eoi | ch :: _ => cs_mem ch cs end
  end.
Definition nv (F : follow) (l : mres) : nat := length (filter (fun sc => viable F (fst sc)) l).

Lemma nv_app F a b : nv F (a ++ b) = nv F a + nv F b.
Proof. unfold nv. rewrite filter_app, app_length. reflexivity. Qed.
Lemma nv_le F l : nv F l <= length l.
Proof. unfold nv. induction l as [|x l IH]; cbn; [lia|]. destruct (viable F (fst x)); cbn; lia. Qed.
Lemma nv_none l : nv None l = length l.
Proof. unfold nv. induction l as [|x l IH]; cbn; [reflexivity|]. f_equal. exact IH. Qed.
Lemma nv_zero F l : (forall x, In x l -> viable F (fst x) = false) -> nv F l = 0.
Proof. unfold nv. induction l as [|x l IH]; intros H; cbn; [reflexivity|]. rewrite (H x (or_introl eq_refl)). apply IH. intros y Hy. apply H. now right. Qed.
Lemma nv_pos F l : 0 < nv F l -> exists x, In x l /\ viable F (fst x) = true.
Proof.
  unfold nv. induction l as [|x l IH]; cbn; [lia|]. destruct (viable F (fst x)) eqn:E.
  - intros _. exists x. auto.
  - intros H. destruct (IH H) as (y & Hy & Hv). exists y. auto.
Qed.

Lemma nv_flat_map F G (g : state * caps -> mres) l :
  (forall x, In x l -> viable G (fst x) = false -> nv F (g x) = 0) ->
  (forall x, In x l -> nv F (g x) <= 1) ->
  nv G l <= 1 -> nv F (flat_map g l) <= 1.
Proof.
  induction l as [|x l IH]; intros Hd H1 HG; cbn [flat_map]; [cbn; lia|]. rewrite nv_app.
  unfold nv in HG. cbn [filter] in HG. destruct (viable G (fst x)) eqn:Ev.
  - cbn [length] in HG. assert (Hz : nv F (flat_map g l) = 0).
    { apply nv_zero. intros y Hy. apply in_flat_map in Hy as (z & Hz & Hy).
      destruct (viable F (fst y)) eqn:Evy; [|reflexivity]. exfalso.
      assert (Hvz : viable G (fst z) = false).
      { destruct (viable G (fst z)) eqn:E; [|reflexivity]. exfalso.
        assert (0 < length (filter (fun sc => viable G (fst sc)) l)).
        { clear -Hz E. induction l as [|w l IH]; [contradiction|]. cbn [filter]. destruct Hz as [->|Hz]; [rewrite E; cbn; lia|].
          destruct (viable G (fst w)); cbn; [lia | apply IH; exact Hz]. }
        lia. }
      pose proof (Hd z (or_intror Hz) Hvz) as H0. unfold nv in H0.
      assert (0 < length (filter (fun sc => viable F (fst sc)) (g z))).
      { clear -Hy Evy. induction (g z) as [|w l0 IH]; [contradiction|]. cbn [filter]. destruct Hy as [->|Hy]; [rewrite Evy; cbn; lia|].
        destruct (viable F (fst w)); cbn; [lia | apply IH; exact Hy]. }
      lia. }
    rewrite Hz. specialize (H1 x (or_introl eq_refl)). lia.
  - rewrite (Hd x (or_introl eq_refl) Ev). apply IH.
    + intros y Hy. apply Hd. now right.
    + intros y Hy. apply H1. now right.
    + exact HG.
Qed.

Lemma nv_map_fst F (h : state * caps -> state * caps) l : (forall x, fst (h x) = fst x) -> nv F (map h l) = nv F l.
Proof. intros Hh. unfold nv. induction l as [|x l IH]; cbn; [reflexivity|]. rewrite Hh. destruct (viable F (fst x)); cbn; rewrite IH; reflexivity. Qed.

(* what an end of `a` must look like for `b` (followed by F) to go on from it *)
Definition fol1 (b : re) (F : follow) : follow :=
  if nullable b then match F with None => None | Some (cs, eoi) => Some (firsts b ++ cs, eoi) end
  else Some (firsts b, false).
Fixpoint fol (b : re) (F : follow) : follow :=
  match b with
  | AtEnd => Some ([(10, 10)]%N, true)
  | AtEndStrict => Some ([], true)
  | Seq b1 b2 => fol b1 (fol b2 F)
  | Grp _ b' => fol b' F
  | _ => fol1 b F
  end.

Lemma viable_starts cs eoi e : starts_in e cs -> viable (Some (cs, eoi)) e = true.
Proof. unfold starts_in, viable. destruct (after e); [contradiction | auto]. Qed.
Lemma viable_sub fs cs eoi x : viable (Some (cs, eoi)) x = true -> viable (Some (fs ++ cs, eoi)) x = true.
Proof. unfold viable. destruct (after x); [auto|]. intros H. rewrite cs_mem_app, H. apply orb_true_r. Qed.

Lemma fol1_key b F e c1 : 0 < nv F (ends b e c1) -> viable (fol1 b F) e = true.
Proof.
  intros H. apply nv_pos in H as ([e' c'] & Hin & Hv). cbn [fst] in Hv.
  destruct (firsts_sound b _ _ _ _ Hin) as [->|Hs]; unfold fol1; destruct (nullable b) eqn:Nb.
  - destruct F as [[cs eoi]|]; [apply viable_sub; exact Hv | reflexivity].
  - pose proof (ends_progress b Nb _ _ _ _ Hin). lia.
  - destruct F as [[cs eoi]|]; [|reflexivity]. apply viable_starts, starts_in_app_l. exact Hs.
  - apply viable_starts. exact Hs.
Qed.

Lemma nv_in F l x : In x l -> viable F (fst x) = true -> 0 < nv F l.
Proof.
  unfold nv. induction l as [|w l IH]; [contradiction|]. cbn [filter]. intros [->|H] Hv; [rewrite Hv; cbn; lia|].
  destruct (viable F (fst w)); cbn; [lia | apply IH; assumption].
Qed.

Lemma fol_key b : forall F e c1, 0 < nv F (ends b e c1) -> viable (fol b F) e = true.
Proof.
  induction b as [|cs|b1 IH1 b2 IH2|b1 _ b2 _|g mn mx r _|neg r _|neg cs| | | | |g r IH]; intros F e c1 H; cbn [fol];
    try (apply (fol1_key _ _ _ _ H)).
  - apply nv_pos in H as ([e' c'] & Hin & Hv). rewrite ends_seq in Hin. apply in_flat_map in Hin as ([s1 k1] & H1 & H2). cbn [fst snd] in *.
    apply (IH1 _ _ c1). apply (nv_in _ _ (s1, k1) H1). cbn [fst]. apply (IH2 _ _ k1). apply (nv_in _ _ (e', c') H2). exact Hv.
  - apply nv_pos in H as ([e' c'] & Hin & _). cbn [ends] in Hin. unfold viable, at_end_b in *.
    destruct (after e) as [|ch [|x l]]; [reflexivity | | contradiction].
    unfold cs_mem. cbn [existsb fst snd]. destruct (N.eqb_spec ch 10) as [E|]; [subst ch; reflexivity | contradiction].
  - apply nv_pos in H as ([e' c'] & Hin & _). cbn [ends] in Hin. unfold viable. destruct (after e); [reflexivity | contradiction].
  - apply (IH F e c1). rewrite ends_grp in H. rewrite nv_map_fst in H by reflexivity. exact H.
Qed.

(* ---- syntactic equality, all constructors ---- *)
Definition onat_eqb (a b : option nat) : bool :=
  match a, b with Some x, Some y => Nat.eqb x y | None, None => true | _, _ => false end.
Fixpoint req (a b : re) : bool :=
  match a, b with
  | Eps, Eps | BehindStart, BehindStart | AtStart, AtStart | AtEnd, AtEnd | AtEndStrict, AtEndStrict => true
  | Chr x, Chr y => cset_eqb x y
  | Seq a1 a2, Seq b1 b2 | Alt a1 a2, Alt b1 b2 => req a1 b1 && req a2 b2
  | Rep g1 m1 x1 r1, Rep g2 m2 x2 r2 => Bool.eqb g1 g2 && Nat.eqb m1 m2 && onat_eqb x1 x2 && req r1 r2
  | Look n1 r1, Look n2 r2 => Bool.eqb n1 n2 && req r1 r2
  | Behind n1 c1, Behind n2 c2 => Bool.eqb n1 n2 && cset_eqb c1 c2
  | Grp g1 r1, Grp g2 r2 => Nat.eqb g1 g2 && req r1 r2
  | _, _ => false
  end.
Lemma req_eq a : forall b, req a b = true -> a = b.
Proof.
  induction a; intros b H; destruct b; try discriminate; try reflexivity; cbn [req] in H.
  - f_equal. now apply cset_eqb_eq.
  - apply andb_true_iff in H as [H1 H2]. f_equal; auto.
  - apply andb_true_iff in H as [H1 H2]. f_equal; auto.
  - apply andb_true_iff in H as [H H4]. apply andb_true_iff in H as [H H3]. apply andb_true_iff in H as [H1 H2].
    apply Bool.eqb_prop in H1. apply Nat.eqb_eq in H2. subst.
    assert (mx = mx0) by (destruct mx, mx0; try discriminate; [apply Nat.eqb_eq in H3; congruence | reflexivity]). subst. f_equal. auto.
  - apply andb_true_iff in H as [H1 H2]. apply Bool.eqb_prop in H1. subst. f_equal. auto.
  - apply andb_true_iff in H as [H1 H2]. apply Bool.eqb_prop in H1. apply cset_eqb_eq in H2. subst. reflexivity.
  - apply andb_true_iff in H as [H1 H2]. apply Nat.eqb_eq in H1. subst. f_equal. auto.
Qed.

(* ---- alternatives that exclude each other ---- *)
(* `d?X | dY` with X, Y not starting alike and X not starting with d: decided by the second character *)
Definition excl_opt (a b : re) : bool :=
  match a, b with
  | Seq (Rep true 0 (Some 1) (Chr d)) X, Seq (Chr d') Y =>
      cset_eqb d d' && negb (nullable X) && negb (nullable Y) && cs_disjoint (firsts X) d && cs_disjoint (firsts X) (firsts Y)
  | _, _ => false
  end.

Lemma opt_ends r st c :
  ends (Rep true 0 (Some 1) r) st c =
  flat_map (fun sc => if Nat.ltb (pos st) (pos (fst sc)) then [sc] else []) (ends r st c) ++ [(st, c)].
Proof.
  rewrite ends_rep. destruct (after st) as [|x a] eqn:Ea; cbn [length rep_ends].
  - f_equal. apply flat_map_ext. intros [st' c']. cbn [fst snd]. destruct (Nat.ltb (pos st) (pos st')); reflexivity.
  - f_equal. apply flat_map_ext. intros [st' c']. cbn [fst snd]. destruct (Nat.ltb (pos st) (pos st')); [|reflexivity].
    destruct (length a); reflexivity.
Qed.

Lemma excl_opt_sound a b : excl_opt a b = true -> forall st c, ends a st c = [] \/ ends b st c = [].
Proof.
  unfold excl_opt. intros H st c.
  destruct a as [| |a1 X| | | | | | | | |]; try discriminate.
  destruct a1 as [| | | |g mn mx a10| | | | | | |]; try discriminate. destruct g; [|discriminate]. destruct mn; [|discriminate].
  destruct mx as [[|[|m]]|]; try discriminate. destruct a10 as [|d| | | | | | | | | |]; try discriminate.
  destruct b as [| |b1 Y| | | | | | | | |]; try discriminate. destruct b1 as [|d'| | | | | | | | | |]; try discriminate.
  apply andb_true_iff in H as [H D2]. apply andb_true_iff in H as [H D1]. apply andb_true_iff in H as [H NY]. apply andb_true_iff in H as [Ed NX].
  apply cset_eqb_eq in Ed. subst d'. apply negb_true_iff in NX, NY.
  destruct (ends (Seq (Rep true 0 (Some 1) (Chr d)) X) st c) as [|[e1 k1] la] eqn:Ea; [now left|].
  destruct (ends (Seq (Chr d) Y) st c) as [|[e2 k2] lb] eqn:Eb; [now right|]. exfalso.
  assert (Ia : In (e1, k1) (ends (Seq (Rep true 0 (Some 1) (Chr d)) X) st c)) by (rewrite Ea; now left).
  assert (Ib : In (e2, k2) (ends (Seq (Chr d) Y) st c)) by (rewrite Eb; now left).
  rewrite ends_seq in Ia, Ib. apply in_flat_map in Ia as ([x kx] & Hx & HX). apply in_flat_map in Ib as ([y ky] & Hy & HY). cbn [fst snd] in *.
  destruct (firsts_sound X _ _ _ _ HX) as [->|SX]; [pose proof (ends_progress X NX _ _ _ _ HX); lia|].
  destruct (firsts_sound Y _ _ _ _ HY) as [->|SY]; [pose proof (ends_progress Y NY _ _ _ _ HY); lia|].
  (* y is st advanced over a character of d *)
  cbn [ends] in Hy. destruct (st_adv st) as [[ch s1]|] eqn:Eadv; [|contradiction]. destruct (cs_mem ch d) eqn:Ech; [|contradiction].
  destruct Hy as [Hy|[]]. injection Hy as <- <-.
  rewrite opt_ends in Hx. apply in_app_or in Hx as [Hx|[Hx|[]]].
  - apply in_flat_map in Hx as ([z kz] & Hz & Hz2). cbn [fst snd] in Hz2. destruct (Nat.ltb (pos st) (pos z)); [|contradiction].
    destruct Hz2 as [Hz2|[]]. injection Hz2 as <- <-. cbn [ends] in Hz. rewrite Eadv, Ech in Hz. destruct Hz as [Hz|[]]. injection Hz as <- _.
    unfold starts_in in *. destruct (after s1) as [|c2 l]; [contradiction|]. rewrite (cs_disjoint_sound _ _ c2 D2 SX) in SY. discriminate.
  - injection Hx as <- _. unfold starts_in, st_adv in *. destruct (after st) as [|c1 l]; [discriminate|]. injection Eadv as <- _.
    rewrite (cs_disjoint_sound _ _ c1 D1 SX) in Ech. discriminate.
Qed.

Definition excl1 (a b : re) : bool :=
  (negb (nullable a) && negb (nullable b) && cs_disjoint (firsts a) (firsts b))
  || excl_opt a b
  || match b with
     | Seq (Look true a') _ => req a a'
     | Look true a' => req a a'
     | AtEnd => negb (nullable a) && negb (cs_mem 10%N (firsts a))
     | _ => false
     end.
Fixpoint excl (a b : re) : bool :=
  match b with
  | Alt b1 b2 => excl a b1 && excl a b2
  | _ => excl1 a b
  end.

Lemma excl1_sound a b : excl1 a b = true -> forall st c, ends a st c = [] \/ ends b st c = [].
Proof.
  unfold excl1. intros H st c. apply orb_true_iff in H as [H|H]; [apply orb_true_iff in H as [H|H]; [|apply excl_opt_sound; exact H]|].
  - apply andb_true_iff in H as [H Hd]. apply andb_true_iff in H as [Na Nb]. apply negb_true_iff in Na, Nb.
    destruct (ends a st c) as [|[s1 c1] la] eqn:Ea; [now left|]. destruct (ends b st c) as [|[s2 c2] lb] eqn:Eb; [now right|]. exfalso.
    assert (I1 : In (s1, c1) (ends a st c)) by (rewrite Ea; now left). assert (I2 : In (s2, c2) (ends b st c)) by (rewrite Eb; now left).
    destruct (firsts_sound a _ _ _ _ I1) as [->|S1]; [pose proof (ends_progress a Na _ _ _ _ I1); lia|].
    destruct (firsts_sound b _ _ _ _ I2) as [->|S2]; [pose proof (ends_progress b Nb _ _ _ _ I2); lia|].
    unfold starts_in in *. destruct (after st) as [|ch l]; [contradiction|]. rewrite (cs_disjoint_sound _ _ ch Hd S1) in S2. discriminate.
  - destruct (ends a st c) as [|[s1 c1] la] eqn:Ea; [now left|]. right.
    destruct b as [| |b1 b2| | |neg a'| | | | | |]; try discriminate.
    + destruct b1 as [| | | | |neg a'| | | | | |]; try discriminate. destruct neg; [|discriminate].
      apply req_eq in H. subst a'. cbn [ends]. rewrite Ea. reflexivity.
    + destruct neg; [|discriminate]. apply req_eq in H. subst a'. cbn [ends]. rewrite Ea. reflexivity.
    + apply andb_true_iff in H as [Na H]. apply negb_true_iff in Na, H.
      assert (I1 : In (s1, c1) (ends a st c)) by (rewrite Ea; now left).
      destruct (firsts_sound a _ _ _ _ I1) as [->|S1]; [pose proof (ends_progress a Na _ _ _ _ I1); lia|].
      cbn [ends]. unfold starts_in in S1. unfold at_end_b. destruct (after st) as [|ch l]; [contradiction|].
      destruct l; [|reflexivity]. destruct (N.eqb_spec ch 10) as [->|]; [congruence | reflexivity].
Qed.

Lemma excl_sound a b : excl a b = true -> forall st c, ends a st c = [] \/ ends b st c = [].
Proof.
  induction b as [|cs|b1 IH1 b2 IH2|b1 IH1 b2 IH2|g mn mx r IH|neg r IH|neg cs| | | | |g r IH]; intros H st c; cbn [excl] in H;
    try (apply excl1_sound; exact H).
  apply andb_true_iff in H as [H1 H2]. destruct (IH1 H1 st c) as [E|E1]; [now left|]. destruct (IH2 H2 st c) as [E|E2]; [now left|].
  right. change (ends (Alt b1 b2) st c) with (ends b1 st c ++ ends b2 st c). rewrite E1, E2. reflexivity.
Qed.

(* ---- n class characters, or fewer when no class character follows ---- *)
Fixpoint prefix_in (cs : cset) (k : nat) (a : str) : bool :=
  match k, a with
  | O, _ => true
  | S k', x :: a' => cs_mem x cs && prefix_in cs k' a'
  | S _, [] => false
  end.
Lemma prefix_mono cs : forall n k a, k <= n -> prefix_in cs n a = true -> prefix_in cs k a = true.
Proof.
  induction n as [|n IH]; intros k a Hk H; [replace k with 0 by lia; reflexivity|]. destruct k as [|k]; [reflexivity|].
  destruct a as [|x a]; [discriminate|]. cbn [prefix_in] in *. apply andb_true_iff in H as [H1 H2]. rewrite H1. apply (IH k a); [lia | exact H2].
Qed.
Lemma run_ends_prefix cs : forall a mn mx p b c, run_ends cs mn mx p b a c <> [] -> prefix_in cs mn a = true.
Proof.
  induction a as [|x a IH]; intros mn mx p b c H; cbn [run_ends] in H.
  - destruct mn; [reflexivity | contradiction].
  - destruct mn as [|m]; [reflexivity|]. cbn [prefix_in]. destruct (cs_mem x cs && negb (mx_zero mx)) eqn:E; [|contradiction].
    apply andb_true_iff in E as [E _]. rewrite E. cbn [andb]. rewrite app_nil_r in H. cbn [pred] in H. eapply IH. exact H.
Qed.
Lemma run_to_none cs : forall mx a mn p b, prefix_in cs (S mx) a = true -> run_to cs mn (Some mx) p b a = None.
Proof.
  induction mx as [|m IH]; intros a mn p b H; (destruct a as [|x a]; [discriminate|]); cbn [prefix_in] in H;
    apply andb_true_iff in H as [H1 H2]; cbn [run_to]; rewrite H1; cbn [mx_zero pred_opt]; [reflexivity|]. apply IH. exact H2.
Qed.

Definition is_hexrun (a b : re) : bool :=
  match a, b with
  | Rep true n (Some n') (Chr cs), Seq (Rep true _ (Some mx) (Chr cs1)) (Look true (Chr cs2)) =>
      Nat.eqb n n' && cset_eqb cs cs1 && cset_eqb cs cs2 && Nat.ltb mx n
  | _, _ => false
  end.

Lemma look_dead cs : dead (ends (Look true (Chr cs))) cs.
Proof. intros p b x a c H. cbn [ends st_adv after]. rewrite H. reflexivity. Qed.

Lemma hexrun_sound a b : is_hexrun a b = true -> forall st c, length (ends (Alt a b) st c) <= 1.
Proof.
  unfold is_hexrun. intros H st c.
  destruct a as [| | | |g n mx0 a0| | | | | | |]; try discriminate. destruct g; [|discriminate]. destruct mx0 as [n'|]; [|discriminate].
  destruct a0 as [|cs| | | | | | | | | |]; try discriminate.
  destruct b as [| |b1 b2| | | | | | | | |]; try discriminate.
  destruct b1 as [| | | |g1 mn mx1 b10| | | | | | |]; try discriminate. destruct g1; [|discriminate]. destruct mx1 as [mx|]; [|discriminate].
  destruct b10 as [|cs1| | | | | | | | | |]; try discriminate.
  destruct b2 as [| | | | |neg b20| | | | | |]; try discriminate. destruct neg; [|discriminate].
  destruct b20 as [|cs2| | | | | | | | | |]; try discriminate.
  apply andb_true_iff in H as [H Hlt]. apply andb_true_iff in H as [H E2]. apply andb_true_iff in H as [En E1].
  apply Nat.eqb_eq in En. apply cset_eqb_eq in E1, E2. apply Nat.ltb_lt in Hlt. subst n' cs1 cs2.
  destruct st as [p b0 a0]. change (ends (Alt ?x ?y) ?s ?k) with (ends x s k ++ ends y s k). rewrite ends_seq, !ends_rep. cbn [after]. rewrite !rep_ends_run by lia.
  rewrite (flat_run _ cs (look_dead cs)). rewrite app_length.
  assert (H1 : length (run_ends cs n (Some n) p b0 a0 c) <= 1).
  { rewrite <- (rep_ends_run cs a0 (S (length a0))) by lia.
    apply (se_sound (Rep true n (Some n) (Chr cs))). cbn [se]. rewrite Nat.eqb_refl. reflexivity. }
  destruct (run_ends cs n (Some n) p b0 a0 c) as [|e l] eqn:Er.
  - cbn [length]. destruct (run_to cs mn (Some mx) p b0 a0) as [st'|]; [|cbn; lia].
    apply (se_sound (Look true (Chr cs))). reflexivity.
  - assert (Hp : prefix_in cs n a0 = true) by (apply (run_ends_prefix cs a0 n (Some n) p b0 c); rewrite Er; discriminate).
    rewrite (run_to_none cs mx a0 mn p b0) by (apply (prefix_mono cs n); [lia | exact Hp]). cbn [length] in *. lia.
Qed.

Lemma flat_map_nil {A B} (f : A -> list B) l : (forall x, In x l -> f x = []) -> flat_map f l = [].
Proof. induction l as [|x l IH]; intros H; [reflexivity|]. cbn [flat_map]. rewrite (H x (or_introl eq_refl)). apply IH. intros y Hy. apply H. now right. Qed.

(* ---- deterministic given what follows ---- *)
Fixpoint sef (r : re) (F : follow) : bool :=
  match r with
  | Seq a b => sef a (fol b F) && sef b F
  | Alt a b => is_hexrun a b || (sef a F && sef b F && excl a b)
  | Rep _ mn mx r' =>
      (match mx with Some m => Nat.eqb mn m | None => false end && sef r' None)
      || match F with
         | Some (cs, eoi) => negb (nullable r') && cs_disjoint (firsts r') cs && sef r' (Some (firsts r' ++ cs, eoi))
         | None => false
         end
  | Grp _ r' => sef r' F
  | _ => true
  end.

Section RepSef.
Variable r' : re.
Variable cs : cset.
Variable eoi : bool.
Let F : follow := Some (cs, eoi).
Let F' : follow := Some (firsts r' ++ cs, eoi).
Hypothesis Hn : nullable r' = false.
Hypothesis Hd : cs_disjoint (firsts r') cs = true.
Hypothesis Hb : forall st c, nv F' (ends r' st c) <= 1.

Lemma rep_dead g x : viable F' x = false -> forall fuel mn mx c, nv F (rep_ends (ends r') g fuel mn mx x c) = 0.
Proof.
  intros Hx fuel mn mx c. apply nv_zero. intros [e c'] Hin. cbn [fst].
  assert (Hvx : viable F x = false).
  { destruct (viable F x) eqn:E; [|reflexivity]. apply (viable_sub (firsts r')) in E. unfold F' in Hx. congruence. }
  destruct fuel as [|f].
  - cbn in Hin. destruct mn; [|contradiction]. destruct Hin as [Hin|[]]. injection Hin as <- _. exact Hvx.
  - apply rep_first in Hin as [->|(s1 & c1 & H1 & Hl)]; [exact Hvx|]. exfalso.
    destruct (firsts_sound r' _ _ _ _ H1) as [->|Hs]; [lia|].
    apply (viable_starts _ eoi), (starts_in_app_l _ _ cs) in Hs || idtac.
    assert (viable F' x = true) by (apply viable_starts, starts_in_app_l; exact Hs). congruence.
Qed.

Lemma rep_sef g : forall fuel mn mx st c, nv F (rep_ends (ends r') g fuel mn mx st c) <= 1.
Proof.
  induction fuel as [|f IH]; intros mn mx st c.
  - cbn [rep_ends]. destruct mn; [etransitivity; [apply nv_le | cbn; lia] | cbn; lia].
  - cbn [rep_ends].
    set (more := match mx with
                 | Some 0 => []
                 | _ => flat_map (fun sc => if Nat.ltb (pos st) (pos (fst sc))
                                            then rep_ends (ends r') g f (Nat.pred mn)
                                                   match mx with Some (S m) => Some m | _ => None end (fst sc) (snd sc)
                                            else []) (ends r' st c)
                 end).
    destruct (viable F st) eqn:Ev.
    + assert (Hm : more = []).
      { assert (Hno : forall s1 c1, In (s1, c1) (ends r' st c) -> Nat.ltb (pos st) (pos s1) = false).
        { intros s1 c1 H1. destruct (Nat.ltb (pos st) (pos s1)) eqn:El; [|reflexivity]. exfalso. apply Nat.ltb_lt in El.
          destruct (firsts_sound r' _ _ _ _ H1) as [->|Hs]; [lia|].
          unfold starts_in in Hs. unfold F, viable in Ev. destruct (after st) as [|ch l]; [contradiction|].
          rewrite (cs_disjoint_sound _ _ ch Hd Hs) in Ev. discriminate. }
        unfold more. destruct mx as [[|m]|]; [reflexivity | |];
          (apply flat_map_nil; intros [s1 c1] H1; cbn [fst snd]; rewrite (Hno s1 c1 H1); reflexivity). }
      rewrite Hm. destruct mn; [destruct g|]; cbn [app]; (etransitivity; [apply nv_le | cbn; lia]).
    + assert (Hm : nv F more <= 1).
      { unfold more. destruct mx as [[|m]|]; [cbn; lia | |];
          (apply (nv_flat_map F F');
           [ intros [s1 c1] _ Hv; cbn [fst snd] in *; destruct (Nat.ltb (pos st) (pos s1)); [apply rep_dead; exact Hv | reflexivity]
           | intros [s1 c1] _; cbn [fst snd]; destruct (Nat.ltb (pos st) (pos s1)); [apply IH | cbn; lia]
           | apply Hb ]). }
      assert (H0 : nv F [(st, c)] = 0) by (unfold nv; cbn [filter fst]; rewrite Ev; reflexivity).
      destruct mn; [destruct g|]; [rewrite nv_app, H0; lia | change ((st, c) :: more) with ([(st, c)] ++ more); rewrite nv_app, H0; lia | exact Hm].
Qed.
End RepSef.

Theorem sef_sound r : forall F, sef r F = true -> forall st c, nv F (ends r st c) <= 1.
Proof.
  induction r as [|cs|a IHa b IHb|a IHa b IHb|g mn mx r IH|neg r IH|neg cs| | | | |g r IH]; intros F Hs st c; cbn [sef] in Hs;
    try (etransitivity; [apply nv_le | apply se_sound; reflexivity]).
  - apply andb_true_iff in Hs as [Ha Hb]. rewrite ends_seq. apply (nv_flat_map F (fol b F)).
    + intros [s1 c1] _ Hv. cbn [fst snd] in *. destruct (nv F (ends b s1 c1)) eqn:E; [reflexivity|].
      assert (H0 : 0 < nv F (ends b s1 c1)) by lia. apply fol_key in H0. congruence.
    + intros [s1 c1] _. cbn [fst snd]. apply IHb. exact Hb.
    + apply IHa. exact Ha.
  - apply orb_true_iff in Hs as [Hs|Hs].
    + etransitivity; [apply nv_le | apply hexrun_sound; exact Hs].
    + apply andb_true_iff in Hs as [Hs He]. apply andb_true_iff in Hs as [Ha Hb].
      change (ends (Alt a b) st c) with (ends a st c ++ ends b st c). rewrite nv_app.
      destruct (excl_sound a b He st c) as [E|E]; rewrite E; cbn; [specialize (IHb F Hb st c) | specialize (IHa F Ha st c)]; unfold nv in *; cbn; lia.
  - rewrite ends_rep. apply orb_true_iff in Hs as [Hs|Hs].
    + apply andb_true_iff in Hs as [He Hr]. destruct mx as [m|]; [|discriminate]. apply Nat.eqb_eq in He. subst m.
      etransitivity; [apply nv_le|]. apply rep_fixed_se. intros s1 c1. rewrite <- nv_none. apply IH. exact Hr.
    + destruct F as [[cs eoi]|]; [|discriminate]. apply andb_true_iff in Hs as [Hs Hr]. apply andb_true_iff in Hs as [Hn Hd].
      apply negb_true_iff in Hn. apply rep_sef; [exact Hd | intros; apply IH; exact Hr].
  - rewrite ends_grp. rewrite nv_map_fst by reflexivity. apply IH. exact Hs.
Qed.

(* ================================================================== the certificate and the bound *)
Definition fb (r : re) : follow := Some (firsts r, false).

(* every unbounded repetition is deterministic from one iteration to the next: at most one end of its body can be
   continued by another iteration (one character of look-ahead) *)
Fixpoint cert (r : re) : bool :=
  match r with
  | Seq a b | Alt a b => cert a && cert b
  | Rep _ _ None r' => cert r' && sef r' (fb r')
  | Rep _ _ (Some _) r' => cert r'
  | Grp _ r' | Look _ r' => cert r'
  | _ => true
  end.

Fixpoint bnd (r : re) (n : nat) : nat :=
  match r with
  | Seq a b => bnd a n * bnd b n
  | Alt a b => bnd a n + bnd b n
  | Rep _ _ None r' => (n + 1) * (1 + bnd r' n)
  | Rep _ _ (Some m) r' => (1 + bnd r' n) ^ m
  | Grp _ r' => bnd r' n
  | _ => 1
  end.

Lemma bnd_mono r : forall n m, n <= m -> bnd r n <= bnd r m.
Proof.
  induction r as [|cs|a IHa b IHb|a IHa b IHb|g mn mx r IH|neg r IH|neg cs| | | | |g r IH]; intros n m H; cbn [bnd]; try lia.
  - apply Nat.mul_le_mono; auto.
  - apply Nat.add_le_mono; auto.
  - destruct mx as [k|].
    + apply Nat.pow_le_mono_l. specialize (IH n m H). lia.
    + apply Nat.mul_le_mono; [lia|]. specialize (IH n m H). lia.
  - auto.
Qed.

Lemma flat_map_len_le {A B} (g : A -> list B) l M : (forall x, In x l -> length (g x) <= M) -> length (flat_map g l) <= length l * M.
Proof.
  induction l as [|x l IH]; intros H; cbn [flat_map length]; [lia|]. rewrite app_length.
  specialize (H x (or_introl eq_refl)) as Hx. assert (length (flat_map g l) <= length l * M) by (apply IH; intros y Hy; apply H; now right). lia.
Qed.

Lemma flat_map_one G (g : state * caps -> mres) l M :
  (forall x, In x l -> viable G (fst x) = false -> length (g x) <= 1) ->
  (forall x, In x l -> length (g x) <= M) ->
  nv G l <= 1 -> length (flat_map g l) <= length l + M.
Proof.
  induction l as [|x l IH]; intros Hd HM HG; cbn [flat_map length]; [lia|]. rewrite app_length.
  unfold nv in HG. cbn [filter] in HG. destruct (viable G (fst x)) eqn:Ev.
  - cbn [length] in HG. assert (Hz : length (flat_map g l) <= length l * 1).
    { apply flat_map_len_le. intros y Hy. apply Hd; [now right|].
      destruct (viable G (fst y)) eqn:E; [|reflexivity]. exfalso.
      assert (0 < nv G l) by (apply (nv_in _ _ y Hy E)). unfold nv in *. lia. }
    specialize (HM x (or_introl eq_refl)). lia.
  - pose proof (Hd x (or_introl eq_refl) Ev) as Hx.
    assert (length (flat_map g l) <= length l + M).
    { apply IH; [intros y Hy Hv; apply Hd; [now right | exact Hv] | intros y Hy; apply HM; now right | exact HG]. }
    lia.
Qed.

Lemma adv_shorter r st c s1 c1 : In (s1, c1) (ends r st c) -> pos st < pos s1 -> length (after s1) < length (after st).
Proof. intros H Hl. pose proof (ends_total _ _ _ _ _ H) as Ht. unfold total in Ht. lia. Qed.

Section RepBounded.
Variable r' : re.
Variables N BN : nat.
Hypothesis Hb : forall st c, length (after st) <= N -> length (ends r' st c) <= BN.

Lemma rep_bounded g : forall fuel m mn st c, length (after st) <= N ->
  length (rep_ends (ends r') g fuel mn (Some m) st c) <= (1 + BN) ^ m.
Proof.
  assert (Hp : forall k, 1 <= (1 + BN) ^ k) by (intros k; apply Nat.neq_0_lt_0, Nat.pow_nonzero; lia).
  induction fuel as [|f IH]; intros m mn st c Hst.
  - cbn [rep_ends]. specialize (Hp m). destruct mn; cbn [length]; lia.
  - cbn [rep_ends]. destruct m as [|m'].
    + destruct mn; [destruct g|]; cbn; lia.
    + set (more := flat_map _ (ends r' st c)).
      assert (Hm : length more <= BN * (1 + BN) ^ m').
      { unfold more. etransitivity; [apply (flat_map_len_le _ _ ((1 + BN) ^ m'))|].
        - intros [s1 c1] H1. cbn [fst snd]. destruct (Nat.ltb (pos st) (pos s1)); [|cbn; specialize (Hp m'); lia].
          apply IH. pose proof (ends_after_le _ _ _ _ _ H1). lia.
        - apply Nat.mul_le_mono_r. apply Hb. exact Hst. }
      specialize (Hp m'). cbn [Nat.pow].
      destruct mn; [destruct g|]; rewrite ?app_length; cbn [length]; nia.
Qed.
End RepBounded.

Section RepDet.
Variable r' : re.
Variables N BN : nat.
Hypothesis Hb : forall st c, length (after st) <= N -> length (ends r' st c) <= BN.
Hypothesis Hs : forall st c, nv (fb r') (ends r' st c) <= 1.

Lemma rep_det_dead g x : viable (fb r') x = false -> forall fuel mn mx c, length (rep_ends (ends r') g fuel mn mx x c) <= 1.
Proof.
  intros Hx fuel mn mx c. destruct fuel as [|f]; [cbn; destruct mn; cbn; lia|]. cbn [rep_ends].
  assert (Hm : forall mx', flat_map (fun sc => if Nat.ltb (pos x) (pos (fst sc)) then rep_ends (ends r') g f (Nat.pred mn) mx' (fst sc) (snd sc) else [])
                      (ends r' x c) = []).
  { intros mx'. apply flat_map_nil. intros [s1 c1] H1. cbn [fst snd]. destruct (Nat.ltb (pos x) (pos s1)) eqn:El; [|reflexivity]. exfalso.
    apply Nat.ltb_lt in El. destruct (firsts_sound r' _ _ _ _ H1) as [->|Hst]; [lia|].
    unfold fb in Hx. rewrite (viable_starts _ false _ Hst) in Hx. discriminate. }
  destruct mx as [[|m]|]; rewrite ?Hm; destruct mn; try destruct g; cbn; lia.
Qed.

Lemma rep_det g : forall fuel mn mx st c, length (after st) <= N ->
  length (rep_ends (ends r') g fuel mn mx st c) <= (length (after st) + 1) * (1 + BN).
Proof.
  induction fuel as [|f IH]; intros mn mx st c Hst.
  - cbn [rep_ends]. destruct mn; cbn [length]; nia.
  - cbn [rep_ends].
    set (more := match mx with
                 | Some 0 => []
                 | _ => flat_map (fun sc => if Nat.ltb (pos st) (pos (fst sc))
                                            then rep_ends (ends r') g f (Nat.pred mn)
                                                   match mx with Some (S m) => Some m | _ => None end (fst sc) (snd sc)
                                            else []) (ends r' st c)
                 end).
    assert (Hm : length more <= BN + length (after st) * (1 + BN)).
    { unfold more. destruct mx as [[|m]|]; [cbn; lia | |];
        (etransitivity; [apply (flat_map_one (fb r') _ _ (length (after st) * (1 + BN)))|];
         [ intros [s1 c1] _ Hv; cbn [fst snd] in *; destruct (Nat.ltb (pos st) (pos s1)); [apply rep_det_dead; exact Hv | cbn; lia]
         | intros [s1 c1] H1; cbn [fst snd]; destruct (Nat.ltb (pos st) (pos s1)) eqn:El; [|cbn; lia];
           apply Nat.ltb_lt in El; pose proof (adv_shorter _ _ _ _ _ H1 El) as Hsh;
           etransitivity; [apply IH; lia|]; apply Nat.mul_le_mono_r; lia
         | apply Hs
         | specialize (Hb st c Hst); lia ]). }
    destruct mn; [destruct g|]; rewrite ?app_length; cbn [length]; nia.
Qed.
End RepDet.

Theorem cert_bound r : cert r = true -> forall st c, length (ends r st c) <= bnd r (length (after st)).
Proof.
  induction r as [|cs|a IHa b IHb|a IHa b IHb|g mn mx r IH|neg r IH|neg cs| | | | |g r IH]; intros Hc st c; cbn [cert] in Hc; cbn [bnd];
    try (apply se_sound; reflexivity).
  - apply andb_true_iff in Hc as [Ha Hb]. rewrite ends_seq.
    etransitivity; [apply (flat_map_len_le _ _ (bnd b (length (after st))))|].
    + intros [s1 c1] H1. cbn [fst snd]. etransitivity; [apply IHb; exact Hb|]. apply bnd_mono. eapply ends_after_le. exact H1.
    + apply Nat.mul_le_mono_r. apply IHa. exact Ha.
  - apply andb_true_iff in Hc as [Ha Hb]. change (ends (Alt a b) st c) with (ends a st c ++ ends b st c). rewrite app_length.
    specialize (IHa Ha st c). specialize (IHb Hb st c). lia.
  - rewrite ends_rep. destruct mx as [m|].
    + apply (rep_bounded r (length (after st))); [|lia]. intros s1 c1 H1. etransitivity; [apply IH; exact Hc|]. apply bnd_mono. exact H1.
    + apply andb_true_iff in Hc as [Hc Hsf].
      apply (rep_det r (length (after st))); [| |lia].
      * intros s1 c1 H1. etransitivity; [apply IH; exact Hc|]. apply bnd_mono. exact H1.
      * intros s1 c1. apply sef_sound. exact Hsf.
  - rewrite ends_grp, map_length. apply IH. exact Hc.
Qed.
Print Assumptions cert_bound.

(* the bound is a polynomial in the subject length: degree deg r *)
Fixpoint deg (r : re) : nat :=
  match r with
  | Seq a b => deg a + deg b
  | Alt a b => deg a + deg b + 1
  | Rep _ _ None r' => deg r' + 2
  | Rep _ _ (Some m) r' => (deg r' + 1) * m
  | Grp _ r' => deg r'
  | _ => 0
  end.

Lemma pow_ge1 n k : 1 <= (n + 2) ^ k.
Proof. apply Nat.neq_0_lt_0, Nat.pow_nonzero. lia. Qed.
Lemma one_plus_pow n d : 1 + (n + 2) ^ d <= (n + 2) ^ (d + 1).
Proof. rewrite Nat.pow_add_r, Nat.pow_1_r. pose proof (pow_ge1 n d). nia. Qed.

Theorem bnd_poly r n : bnd r n <= (n + 2) ^ deg r.
Proof.
  induction r as [|cs|a IHa b IHb|a IHa b IHb|g mn mx r IH|neg r IH|neg cs| | | | |g r IH]; cbn [bnd deg]; try (cbn; lia); try exact IH.
  - rewrite Nat.pow_add_r. apply Nat.mul_le_mono; assumption.
  - rewrite !Nat.pow_add_r, Nat.pow_1_r. pose proof (pow_ge1 n (deg a)). pose proof (pow_ge1 n (deg b)). nia.
  - destruct mx as [m|].
    + rewrite Nat.pow_mul_r. apply Nat.pow_le_mono_l. etransitivity; [|apply one_plus_pow]. lia.
    + replace (deg r + 2) with (1 + (deg r + 1)) by lia. rewrite (Nat.pow_add_r _ 1), Nat.pow_1_r.
      apply Nat.mul_le_mono; [lia|]. etransitivity; [|apply one_plus_pow]. lia.
Qed.
Print Assumptions bnd_poly.

(* the certificate is hereditary: every sub-expression (look-around bodies included) of a certified expression is
   certified, so the bound holds for the search started at ANY sub-expression at ANY position - also inside a branch
   that fails later *)
Fixpoint subexprs (r : re) : list re :=
  r :: match r with
       | Seq a b | Alt a b => subexprs a ++ subexprs b
       | Rep _ _ _ r' | Grp _ r' | Look _ r' => subexprs r'
       | _ => []
       end.

Lemma cert_sub r : cert r = true -> forall r', In r' (subexprs r) -> cert r' = true.
Proof.
  induction r as [|cs|a IHa b IHb|a IHa b IHb|g mn mx r IH|neg r IH|neg cs| | | | |g r IH]; intros Hc r' Hin; cbn [subexprs] in Hin;
    destruct Hin as [<-|Hin]; try exact Hc; try contradiction.
  - cbn [cert] in Hc. apply andb_true_iff in Hc as [Ha Hb]. apply in_app_or in Hin as [H|H]; [apply IHa | apply IHb]; assumption.
  - cbn [cert] in Hc. apply andb_true_iff in Hc as [Ha Hb]. apply in_app_or in Hin as [H|H]; [apply IHa | apply IHb]; assumption.
  - cbn [cert] in Hc. destruct mx as [m|]; [apply IH; assumption|]. apply andb_true_iff in Hc as [Hc _]. apply IH; assumption.
  - cbn [cert] in Hc. apply IH; assumption.
  - cbn [cert] in Hc. apply IH; assumption.
Qed.

Corollary cert_bound_everywhere r : cert r = true -> forall r', In r' (subexprs r) ->
  forall st c, length (ends r' st c) <= (length (after st) + 2) ^ deg r'.
Proof. intros Hc r' Hin st c. etransitivity; [apply cert_bound; eapply cert_sub; eassumption | apply bnd_poly]. Qed.
Print Assumptions cert_bound_everywhere.
