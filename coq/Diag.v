(* Diag.v — definitions only: util.get_pattern_context (offset -> context, line, column) over the
   REGENERATED line-split pattern, and pretty.pretty's token loop over its REGENERATED token patterns. *)
From SV Require Export Base Regex.
From SV.gen Require Import RegexGen.
Local Open Scope Z_scope.

Definition spaces (n : Z) : str := repeat 32%N (Z.to_nat n).
Definition L_arrow : str := [45; 45; 62; 32]%N.
Definition L_4sp : str := [32; 32; 32; 32]%N.

(* the loop body over the finditer matches; state: last, current_line, col, text (non-empty?), line *)
Fixpoint gpc_loop (pattern : str) (index : Z) (ms : list (nat * nat * caps))
         (last : nat) (current_line : Z) (col : Z) (text : str) (started : bool) (line : Z) : str * Z * Z :=
  match ms with
  | [] => (text, line, col)
  | (a, b, _) :: ms' =>
    let linetext := substr pattern last a in
    let empty_m := Nat.eqb a b in
    let zlast := Z.of_nat last in
    let '(indent, offset, col') :=
        if empty_m && negb started then ([], Some (-1), index - zlast + 1)
        else if ((zlast <=? index) && (index <? Z.of_nat b)) || (empty_m && (index =? Z.of_nat b))
             then (L_arrow, Some ((if index >? Z.of_nat a then -1 else 0) + 3), index - zlast + 1)
             else (L_4sp, None, col) in
    let text1 := (if started then text ++ [10%N] else text) ++ indent ++ linetext in
    let '(text2, line') :=
        match offset with
        | Some o => (text1 ++ [10%N] ++ spaces (col' + o) ++ [94%N], current_line)
        | None => (text1, line)
        end in
    gpc_loop pattern index ms' b (current_line + 1) col' text2 true line'
  end.
Definition get_pattern_context (pattern : str) (index : Z) : str * Z * Z :=
  gpc_loop pattern index (finditer util_RE_PATTERN_LINE_SPLIT pattern) 0 1 1 [] false 1.

(* the specification: line = 1 + number of line breaks wholly before the offset,
   column = offset - start of that line + 1;  a line break is \r\n, \n or \r *)
Fixpoint line_col_from (s : str) (i : nat) (line : Z) (line_start pos : nat) : Z * Z :=
  match i with
  | O => (line, Z.of_nat pos - Z.of_nat line_start + 1)
  | S i' =>
    match s with
    | [] => (line, Z.of_nat pos + Z.of_nat i - Z.of_nat line_start + 1)
    | 13%N :: 10%N :: s' =>
      match i' with
      | O => (line, Z.of_nat (S pos) - Z.of_nat line_start + 1)        (* between \r and \n: still this line *)
      | S i'' => line_col_from s' i'' (line + 1) (pos + 2) (pos + 2)
      end
    | c :: s' =>
      if (c =? 10)%N || (c =? 13)%N then line_col_from s' i' (line + 1) (S pos) (S pos)
      else line_col_from s' i' line line_start (S pos)
    end
  end.
Definition line_col (s : str) (i : nat) : Z * Z := line_col_from s i 1 0 0.

(* ---- pretty.pretty: the token loop.  Token kinds in TOKENS order. *)
Inductive pkind := PK_open | PK_copy | PK_close | PK_sep | PK_dsep.
Definition pretty_tokens : list (pkind * re) :=
  [(PK_open, pretty_RE_CLASS); (PK_copy, pretty_RE_PARAM); (PK_copy, pretty_RE_EMPTY); (PK_open, pretty_RE_LSTRT);
   (PK_open, pretty_RE_DSTRT); (PK_open, pretty_RE_TSTRT); (PK_close, pretty_RE_LEND); (PK_close, pretty_RE_DEND);
   (PK_close, pretty_RE_TEND); (PK_copy, pretty_RE_SQSTR); (PK_sep, pretty_RE_SEP); (PK_dsep, pretty_RE_DSEP);
   (PK_copy, pretty_RE_INT); (PK_copy, pretty_RE_KWORD); (PK_copy, pretty_RE_DQSTR)].

Fixpoint first_token (sel : str) (index : nat) (l : list (pkind * re)) : option (pkind * nat * caps) :=
  match l with
  | [] => None
  | (k, r) :: l' => match rmatch r sel index with
                    | Some (j, c) => Some (k, j, c)
                    | None => first_token sel index l'
                    end
  end.
Fixpoint pretty_loop (fuel : nat) (sel : str) (index : nat) (indent : Z) (out : str) : option str :=
  match fuel with
  | O => None                           (* did not terminate within fuel *)
  | S f =>
    if Nat.leb (length sel) index then Some out
    else match first_token sel index pretty_tokens with
         | Some (k, j, c) =>
           let text := substr sel index j in
           let g1 := match group sel c 1 with Some g => g | None => [] end in
           if Nat.eqb j index then None      (* an empty token match: the real loop would spin *)
           else match k with
           | PK_open => pretty_loop f sel j (indent + 4) (out ++ text ++ [10%N] ++ spaces (indent + 4))
           | PK_copy => pretty_loop f sel j indent (out ++ text)
           | PK_close => pretty_loop f sel j (indent - 4) (out ++ text)
           | PK_sep => pretty_loop f sel j indent (out ++ g1 ++ [10%N] ++ spaces indent)
           | PK_dsep => pretty_loop f sel j indent (out ++ g1 ++ [32%N])
           end
         | None => match nth_error sel index with
                   | Some ch => pretty_loop f sel (S index) indent (out ++ [ch])
                   | None => Some out
                   end
         end
  end.
Definition pretty (sel : str) : option str := pretty_loop (S (length sel)) sel 0 0 [].
