(* DiagFacts.v — diagnostics (C20): pretty() terminates; get_pattern_context vs the line/column specification. *)
From SV Require Import Base Regex RegexFacts RegexCost Diag ParserFacts.
From SV.gen Require Import RegexGen.
Local Open Scope bool_scope.

Lemma st_skip_total n : forall st, total (st_skip n st) = total st.
Proof.
  induction n as [|n IH]; intros st; [reflexivity|]. cbn [st_skip].
  destruct (st_adv st) as [[ch st']|] eqn:E; [|reflexivity]. rewrite IH. eapply st_adv_total; exact E.
Qed.
Lemma rmatch_end_le r s i j c : rmatch r s i = Some (j, c) -> j <= length s.
Proof.
  intros H. unfold rmatch, rmatch_st in H.
  destruct (ends r (st_at s i) []) as [|[st' c'] l] eqn:E; [discriminate|]. cbn in H. injection H as <- _.
  assert (Hin : In (st', c') (ends r (st_at s i) [])) by (rewrite E; now left).
  pose proof (ends_total _ _ _ _ _ Hin) as Ht. unfold st_at in Ht. rewrite st_skip_total in Ht.
  unfold total in Ht. cbn in Ht. lia.
Qed.

(* ---- pretty: every token pattern consumes at least one character, so the loop with its fallback terminates ---- *)
Lemma pretty_tokens_not_nullable : forallb (fun kr => negb (nullable (snd kr))) pretty_tokens = true.
Proof. vm_compute. reflexivity. Qed.

Lemma first_token_progress sel index l k j c : index <= length sel ->
  forallb (fun kr => negb (nullable (snd kr))) l = true ->
  first_token sel index l = Some (k, j, c) -> index < j <= length sel.
Proof.
  intros Hi. induction l as [|[k0 r] l IH]; intros Hn H; [discriminate|].
  cbn [forallb snd] in Hn. apply andb_true_iff in Hn as [Hr Hl]. cbn [first_token] in H.
  destruct (rmatch r sel index) as [[j' c']|] eqn:E.
  - injection H as _ <- _. apply negb_true_iff in Hr. pose proof (rmatch_progress r sel index _ _ Hr E) as Hp.
    rewrite st_at_pos in Hp by exact Hi. split; [exact Hp | eapply rmatch_end_le; exact E].
  - exact (IH Hl H).
Qed.

Theorem pretty_loop_total fuel : forall sel index indent out,
  index <= length sel -> length sel - index < fuel -> exists o, pretty_loop fuel sel index indent out = Some o.
Proof.
  induction fuel as [|f IH]; intros sel index indent out Hi Hf; [lia|].
  cbn [pretty_loop]. destruct (Nat.leb (length sel) index) eqn:El; [eexists; reflexivity|].
  apply Nat.leb_gt in El.
  destruct (first_token sel index pretty_tokens) as [[[k j] c]|] eqn:Et.
  - destruct (first_token_progress _ _ _ _ _ _ Hi pretty_tokens_not_nullable Et) as [H1 H2].
    destruct (Nat.eqb j index) eqn:Ej; [apply Nat.eqb_eq in Ej; lia|].
    destruct k; apply IH; lia.
  - destruct (nth_error sel index) as [ch|] eqn:En.
    + apply IH; lia.
    + apply nth_error_None in En. lia.
Qed.

Theorem pretty_total sel : exists o, pretty sel = Some o.
Proof. unfold pretty. apply pretty_loop_total; lia. Qed.

(* get_pattern_context against its specification: LineFacts.v (for every string, no bound) *)
