(* DirFacts.v — :dir(ltr) and :dir(rtl) partition the HTML elements of a rooted document (C17). *)
From SV Require Import Base Regex Tree IR Lit Inputs Match.
Local Open Scope bool_scope.

Section D.
Variable bidi : cp -> N.
Variable cx : ctx.
Notation t := (c_tree cx).

Definition is_dirval (d : N) : Prop := d = SEL_DIR_LTR \/ d = SEL_DIR_RTL.

Lemma dirval_compl d : is_dirval d -> N.eqb d SEL_DIR_LTR = negb (N.eqb d SEL_DIR_RTL).
Proof. intros [-> | ->]; reflexivity. Qed.

Lemma first_strong_dirval s d : first_strong bidi s = Some d -> is_dirval d.
Proof.
  induction s as [|c s IH]; [discriminate|]. cbn [first_strong].
  destruct (bidi c) as [|q]; [exact IH|].
  destruct q as [[q|q|]|[q|q|]|]; try exact IH; intros H; injection H as <-; [right | right | left]; reflexivity.
Qed.

Lemma find_bidi_dirval fuel : forall p d, find_bidi bidi cx fuel p = Ok (Some d) -> is_dirval d.
Proof.
  induction fuel as [|f IH]; intros p d; [discriminate|]. cbn [find_bidi].
  generalize (children t p). intros l. induction l as [|[q n] l IHl]; [discriminate|].
  destruct n as [? ? ? ? ?|k s].
  - unfold bind. destruct (attr_default cx q L_dir (inl [])) as [dv|]; [|discriminate].
    destruct (lower_nval dv) as [dl|]; [|discriminate].
    destruct (_ || _ || _); [exact IHl|].
    destruct (find_bidi bidi cx f q) as [[d'|]|] eqn:E; [|exact IHl|discriminate].
    intros H. injection H as <-. exact (IH q d' E).
  - destruct k; try exact IHl. destruct (first_strong bidi s) as [d'|] eqn:E; [|exact IHl].
    intros H. injection H as <-. exact (first_strong_dirval s d' E).
Qed.

Lemma dir_of_cases v d : dir_of v = Some d -> d = 0%N \/ is_dirval d.
Proof.
  unfold dir_of. destruct (str_eqb v L_ltr); [intros H; injection H as <-; right; left; reflexivity|].
  destruct (str_eqb v L_rtl); [intros H; injection H as <-; right; right; reflexivity|].
  destruct (str_eqb v L_auto); [intros H; injection H as <-; left; reflexivity | discriminate].
Qed.

(* "rooted": walking up through HTML ancestors (dir_parent) ends at an element that is a root *)
Inductive reaches_root : path -> Prop :=
  | RR_root p : is_root cx p = true -> reaches_root p
  | RR_up p pp : dir_parent cx (length p) p = Some pp -> reaches_root pp -> reaches_root p.

Lemma dir_parent_html fuel : forall p pp, dir_parent cx fuel p = Some pp -> is_html_tag cx pp = true.
Proof.
  induction fuel as [|f IH]; intros p pp; cbn [dir_parent]; destruct (get_parent cx p true) as [q|]; try discriminate;
  destruct (is_html_tag cx q) eqn:E; try discriminate; try (intros H; injection H as <-; exact E).
  apply IH.
Qed.

(* the list form of a value (a multi-valued attribute): same shape of answer *)
Lemma go_compl (l : list str) a b :
  (fix go (l : list str) : res bool :=
     match l with
     | [] => Ok (N.eqb SEL_DIR_LTR SEL_DIR_LTR)
     | [c] :: l' => match first_strong bidi [c] with Some d' => Ok (N.eqb d' SEL_DIR_LTR) | None => go l' end
     | _ :: _ => Raise TypeError
     end) l = Ok a ->
  (fix go (l : list str) : res bool :=
     match l with
     | [] => Ok (N.eqb SEL_DIR_LTR SEL_DIR_RTL)
     | [c] :: l' => match first_strong bidi [c] with Some d' => Ok (N.eqb d' SEL_DIR_RTL) | None => go l' end
     | _ :: _ => Raise TypeError
     end) l = Ok b -> a = negb b.
Proof.
  induction l as [|x l IH]; [intros H1 H2; injection H1 as <-; injection H2 as <-; reflexivity|].
  destruct x as [|c [|c' x]]; try discriminate.
  destruct (first_strong bidi [c]) as [d'|] eqn:E; [|exact IH].
  intros H1 H2. injection H1 as <-. injection H2 as <-. apply dirval_compl. exact (first_strong_dirval _ _ E).
Qed.

Tactic Notation "dbind" ident(x) := match goal with |- bind ?X _ = _ -> _ => destruct X as [x|] eqn:?; cbn [bind]; [|intros HH; discriminate HH] end.
Ltac fin := let H1 := fresh in let H2 := fresh in intros H1 H2; injection H1 as <-; injection H2 as <-.

Theorem dir_partition fuel : forall p a b, reaches_root p -> is_html_tag cx p = true ->
  match_dir bidi cx fuel (Some p) SEL_DIR_LTR = Ok a -> match_dir bidi cx fuel (Some p) SEL_DIR_RTL = Ok b -> a = negb b.
Proof.
  induction fuel as [|f IH]; intros p a b Hr Hh; [discriminate|]. cbn [match_dir].
  replace (has_flag SEL_DIR_LTR SEL_DIR_LTR && has_flag SEL_DIR_LTR SEL_DIR_RTL) with false by reflexivity.
  replace (has_flag SEL_DIR_RTL SEL_DIR_LTR && has_flag SEL_DIR_RTL SEL_DIR_RTL) with false by reflexivity.
  rewrite Hh. cbn [negb].
  dbind dv. dbind dl.
  assert (Hup : is_root cx p = false -> forall a b,
            match_dir bidi cx f (dir_parent cx (length p) p) SEL_DIR_LTR = Ok a ->
            match_dir bidi cx f (dir_parent cx (length p) p) SEL_DIR_RTL = Ok b -> a = negb b).
  { intros Hnr a' b'. inversion Hr as [q Hroot | q pp Hdp Hrp]; subst; [congruence|].
    rewrite Hdp. apply IH; [exact Hrp | exact (dir_parent_html _ _ _ Hdp)]. }
  destruct (dir_of dl) as [d|] eqn:Ed.
  - destruct (dir_of_cases _ _ Ed) as [-> | Hd].
    + cbn [N.eqb negb]. dbind itype.
      destruct ((str_eqb (get_tag cx p) L_input && existsb (str_eqb itype) text_inputs) || str_eqb (get_tag cx p) L_textarea).
      * dbind value.
        destruct (nval_truthy value).
        -- destruct value as [s|l].
           ++ destruct (first_strong bidi s) as [d'|] eqn:E.
              ** fin. apply dirval_compl. exact (first_strong_dirval _ _ E).
              ** fin. reflexivity.
           ++ apply go_compl.
        -- destruct (is_root cx p) eqn:Er; [fin; reflexivity|]. apply Hup. reflexivity.
      * dbind fb. destruct fb as [d'|].
        -- fin. apply dirval_compl. eapply find_bidi_dirval. eassumption.
        -- destruct (is_root cx p) eqn:Er; [fin; reflexivity|]. apply Hup. reflexivity.
    + assert (N.eqb d 0 = false) as -> by (destruct Hd as [-> | ->]; reflexivity). cbn [negb].
      fin. apply dirval_compl. exact Hd.
  - destruct (is_root cx p) eqn:Er; [fin; reflexivity|].
    dbind itype.
    destruct (str_eqb (get_tag cx p) L_input && str_eqb itype L_tel); [fin; reflexivity|].
    destruct (str_eqb (get_tag cx p) L_bdi); [|apply Hup; reflexivity].
    dbind fb. destruct fb as [d'|].
    + fin. apply dirval_compl. eapply find_bidi_dirval. eassumption.
    + apply Hup. reflexivity.
Qed.
End D.
Print Assumptions dir_partition.
