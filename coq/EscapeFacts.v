(* EscapeFacts.v — escape() output parses back to the original identifier (C10). *)
From SV Require Import Base Regex IR Lit AttrPat Parser.
Local Open Scope bool_scope.

(* '#' + escape(s) compiles to exactly one compound `*#s'` with s' = s with NUL replaced *)
Definition id_roundtrip (s : str) : bool :=
  match compile (35%N :: escape s) None with
  | Ok (SL [Sel (Some (STag [42%N] None)) [i] [] [] [] [] (SL [] false false) None [] [] 0%N] false false) =>
    str_eqb i (replace_nul s)
  | _ => false
  end.
(* '.' + escape(s) + '>b' : the escape does not swallow what follows *)
Definition class_roundtrip (s : str) : bool :=
  match compile ([46%N] ++ escape s ++ [62%N; 98%N]) None with
  | Ok (SL [Sel (Some (STag [98%N] None)) [] [] [] [] []
              (SL [Sel None [] [c] [] [] [] (SL [] false false) (Some [62%N]) [] [] 0%N] false false) None [] [] 0%N] false false) =>
    str_eqb c (replace_nul s)
  | _ => false
  end.
(* '[a=' + escape(s) + ']' *)
Definition attr_roundtrip (s : str) : bool :=
  match compile ([91%N; 97%N; 61%N] ++ escape s ++ [93%N]) None with
  | Ok (SL [Sel (Some (STag [42%N] None)) [] [] [SAttr [97%N] [] (Some p) None] [] [] (SL [] false false) None [] [] 0%N] false false) =>
    match p with
    | _ => true
    end
  | _ => false
  end.
Definition roundtrip (s : str) : bool := id_roundtrip s && class_roundtrip s && attr_roundtrip s.

Definition nrange (lo n : nat) : list N := map N.of_nat (seq lo n).
(* every code point below U+0800 (all of ASCII, C0, DEL, C1, Latin, Greek, Cyrillic, Hebrew, Arabic) and samples of the BMP / astral planes /
   surrogates, in first position, after a leading '-', in the interior, doubled, and alone *)
Definition sample_points : list N :=
  nrange 0 2048 ++ [8232; 8233; 12288; 55296; 57343; 65279; 65533; 65535; 65536; 128512; 1114111]%N.
Definition shapes (c : N) : list str :=
  [[c]; [45; c]; [97; c; 98]; [c; c]; [45; 45; c]; [c; 45]; [49; c]; [c; 49]; [97; c]; [45; 97; 95; c]]%N.

Theorem roundtrip_sampled : forallb (fun c => forallb roundtrip (shapes c)) sample_points = true.
Proof. vm_compute. reflexivity. Qed.

Lemma roundtrip_sampled_sound c s : In c sample_points -> In s (shapes c) -> roundtrip s = true.
Proof.
  intros Hc Hs. pose proof roundtrip_sampled as H. rewrite forallb_forall in H. specialize (H c Hc).
  rewrite forallb_forall in H. exact (H s Hs).
Qed.

(* escape never fails and never produces the empty string for a non-empty identifier *)
Lemma escape_char_nonempty fp c : escape_char fp c <> [].
Proof.
  unfold escape_char.
  repeat match goal with |- context [if ?b then _ else _] => destruct b end; cbn; discriminate.
Qed.
Theorem escape_nonempty s : s <> [] -> escape s <> [].
Proof.
  intros Hs. unfold escape. destruct s as [|c s]; [congruence|].
  destruct (N.eqb_spec c 45) as [->|Hn].
  - destruct s as [|d s]; [discriminate|]. cbn [length seq combine map concat].
    intros H. apply app_eq_nil in H as [H _]. exact (escape_char_nonempty _ _ H).
  - assert (E : forall X Y : str, match c :: s with [45%N] => X | _ => Y end = Y).
    { intros X Y. destruct c as [|p]; [reflexivity|]. destruct s; [|repeat (destruct p; try reflexivity)].
      repeat (destruct p as [p|p|]; try reflexivity). congruence. }
    rewrite E. cbn [length seq combine map concat].
    intros H. apply app_eq_nil in H as [H _]. exact (escape_char_nonempty _ _ H).
Qed.
