(* FormFacts.v — the definitions behind :default and :indeterminate (C17), stated without loops. *)
From SV Require Import Base Regex Tree IR Lit Inputs Match.
Local Open Scope bool_scope.

Section F.
Variable cx : ctx.

(* is this element a submit button: <input> or <button> whose type attribute is "submit" (ASCII case-insensitive) *)
Definition submit_of (c : path) : res bool :=
  if str_eqb (get_tag cx c) L_input || str_eqb (get_tag cx c) L_button then
    do v <- attr_default cx c L_type (inl []) ;;
    if nval_truthy v then (do vl <- lower_nval v ;; Ok (str_eqb vl L_submit)) else Ok false
  else Ok false.

Fixpoint before_form (l : list path) : list path :=
  match l with
  | [] => []
  | c :: l' => if str_eqb (get_tag cx c) L_form then [] else c :: before_form l'
  end.

(* the scan of a form's descendants finds the FIRST submit button in document order, looking no further than the
   first nested <form> (whatever attribute values the other controls carry, as long as reading them does not raise) *)
Theorem default_scan_first l :
  (forall c, In c (before_form l) -> exists b, submit_of c = Ok b) ->
  default_scan cx l = Ok (find (fun c => match submit_of c with Ok true => true | _ => false end) (before_form l)).
Proof.
  induction l as [|c l IH]; intros Hn; [reflexivity|]. cbn [default_scan before_form] in *.
  destruct (str_eqb (get_tag cx c) L_form) eqn:Ef; [reflexivity|]. cbn [find].
  destruct (Hn c (or_introl eq_refl)) as [b Hb]. rewrite Hb.
  assert (IH' := IH (fun c' Hc' => Hn c' (or_intror Hc'))).
  unfold submit_of in Hb. destruct (str_eqb (get_tag cx c) L_input || str_eqb (get_tag cx c) L_button).
  - unfold bind in *. destruct (attr_default cx c L_type (inl [])) as [v|]; [|discriminate].
    destruct (nval_truthy v).
    + destruct (lower_nval v) as [vl|]; [|discriminate]. injection Hb as <-.
      destruct (str_eqb vl L_submit); [reflexivity | exact IH'].
    + injection Hb as <-. exact IH'.
  - injection Hb as <-. exact IH'.
Qed.

(* the verdict cached per (form, group name): does the form own a checked radio button of that name?
   It does not mention the element that asked. *)
Theorem indet_scan_exists form name l :
  (forall c, In c l -> str_eqb (get_tag cx c) L_input = true ->
             exists b, indet_attrs cx c form name (attrs_at cx c) false false false = Ok b) ->
  indet_scan cx form name l =
  Ok (existsb (fun c => str_eqb (get_tag cx c) L_input &&
                        match indet_attrs cx c form name (attrs_at cx c) false false false with Ok true => true | _ => false end) l).
Proof.
  induction l as [|c l IH]; intros Hn; [reflexivity|]. cbn [indet_scan existsb].
  assert (IH' := IH (fun c' Hc' => Hn c' (or_intror Hc'))).
  destruct (str_eqb (get_tag cx c) L_input) eqn:Ei; cbn [andb orb]; [|exact IH'].
  destruct (Hn c (or_introl eq_refl) Ei) as [b Hb]. rewrite Hb. cbn [bind]. destruct b; [reflexivity | exact IH'].
Qed.
End F.
Print Assumptions default_scan_first.
Print Assumptions indet_scan_exists.
