(* FuelFacts.v — the matcher's recursion fuel is an artefact of the model: once an answer (a value or a Python
   exception) is produced, more fuel produces the same answer. *)
From SV Require Import Base Regex Tree IR Lit Inputs Match.
Local Open Scope bool_scope.

Section F.
Variable bidi : cp -> N.
Variable cx : ctx.
Notation t := (c_tree cx).

(* c1 below c2: wherever c1 does not run out of fuel, c2 does exactly the same *)
Definition le {A} (c1 c2 : M A) : Prop := forall m, c1 m = Raise OutOfFuel \/ c1 m = c2 m.

Lemma le_refl {A} (c : M A) : le c c.
Proof. intros m. right. reflexivity. Qed.
Lemma le_raise {A} (c : M A) : le (raise OutOfFuel) c.
Proof. intros m. left. reflexivity. Qed.
Lemma le_bind {A B} (c1 c2 : M A) (k1 k2 : A -> M B) : le c1 c2 -> (forall a, le (k1 a) (k2 a)) -> le (bindM c1 k1) (bindM c2 k2).
Proof.
  intros Hc Hk m. unfold bindM. destruct (Hc m) as [H|H].
  - left. rewrite H. reflexivity.
  - rewrite <- H. destruct (c1 m) as [[a m']|e]; [apply Hk | right; reflexivity].
Qed.
Lemma le_existsM {A} (f1 f2 : A -> M bool) l : (forall x, le (f1 x) (f2 x)) -> le (existsM f1 l) (existsM f2 l).
Proof.
  intros Hf. induction l as [|x l IH]; [apply le_refl|]. cbn [existsM].
  apply le_bind; [apply Hf|]. intros [|]; [apply le_refl | exact IH].
Qed.
Lemma le_forallM {A} (f1 f2 : A -> M bool) l : (forall x, le (f1 x) (f2 x)) -> le (forallM f1 l) (forallM f2 l).
Proof.
  intros Hf. induction l as [|x l IH]; [apply le_refl|]. cbn [forallM].
  apply le_bind; [apply Hf|]. intros [|]; [exact IH | apply le_refl].
Qed.
Lemma le_allM {A} (f1 f2 : A -> M bool) l : (forall x, le (f1 x) (f2 x)) -> le (allM_noshort f1 l) (allM_noshort f2 l).
Proof.
  intros Hf. induction l as [|x l IH]; [apply le_refl|]. cbn [allM_noshort].
  apply le_bind; [apply Hf|]. intros b. apply le_bind; [exact IH|]. intros r. apply le_refl.
Qed.
Lemma le_sl_loop mc1 mc2 is_not nonempty ss : (forall s, le (mc1 s) (mc2 s)) -> le (sl_loop mc1 is_not nonempty ss) (sl_loop mc2 is_not nonempty ss).
Proof.
  intros Hmc. induction ss as [|s ss IH]; [apply le_refl|]. cbn [sl_loop].
  destruct s; [exact IH|]. apply le_bind; [apply Hmc|]. intros [|]; [apply le_refl | exact IH].
Qed.
Lemma le_nth_inner {X} (c1 c2 : X -> M (bool * bool)) rest : (forall x, le (c1 x) (c2 x)) ->
  forall rel idx, le (nth_inner c1 rest rel idx) (nth_inner c2 rest rel idx).
Proof.
  intros Hc. induction rest as [|x rest IH]; intros rel idx; [apply le_refl|]. cbn [nth_inner].
  apply le_bind; [apply Hc|]. intros [counted is_el]. destruct counted; cbn [negb]; [|apply IH].
  destruct (rel + 1 =? idx)%Z; [apply le_refl|]. destruct is_el; [apply le_refl | apply IH].
Qed.
Lemma le_nth_outer {X} (c1 c2 : X -> M (bool * bool)) a b var L incr : (forall x, le (c1 x) (c2 x)) ->
  forall fuel count rest rel idx, le (nth_outer c1 fuel a b var L count incr rest rel idx) (nth_outer c2 fuel a b var L count incr rest rel idx).
Proof.
  intros Hc. induction fuel as [|f IH]; intros count rest rel idx; [apply le_refl|]. cbn [nth_outer].
  destruct ((1 <=? idx)%Z && (idx <=? L + 1)%Z); [|apply le_refl].
  apply le_bind; [apply le_nth_inner; exact Hc|]. intros [[[rest' rel'] matched] hit].
  destruct hit; [apply le_refl|]. destruct (count + incr <? 0)%Z; [apply le_refl|].
  destruct (nth_idx a b var (count + incr) =? idx)%Z; [apply le_refl | apply IH].
Qed.
Lemma le_nth_core {X} (c1 c2 : X -> M (bool * bool)) a b var n walk : (forall x, le (c1 x) (c2 x)) ->
  le (nth_core c1 a b var n walk) (nth_core c2 a b var n walk).
Proof.
  intros Hc. unfold nth_core. destruct var; [|apply le_nth_outer; exact Hc].
  apply le_bind; [apply le_refl|]. intros c1'. apply le_bind; [apply le_refl|]. intros lo. apply le_nth_outer; exact Hc.
Qed.

Ltac le_step :=
  match goal with
  | |- le ?c ?c => apply le_refl
  | |- le (raise OutOfFuel) _ => apply le_raise
  | |- le (existsM _ _) (existsM _ _) => apply le_existsM; intros ?
  | |- le (forallM _ _) (forallM _ _) => apply le_forallM; intros ?
  | |- le (allM_noshort _ _) (allM_noshort _ _) => apply le_allM; intros ?
  | |- le (sl_loop _ _ _ _) (sl_loop _ _ _ _) => apply le_sl_loop; intros ?
  | |- le (nth_core _ _ _ _ _ _) (nth_core _ _ _ _ _ _) => apply le_nth_core; intros ?
  | |- le (bindM _ _) (bindM _ _) => apply le_bind; [| intros ?]
  | H : forall e p l, le (match_selectors _ _ _ e p l) _ |- le (match_selectors _ _ _ _ _ _) _ => apply H
  | H : forall e p r, le (match_relations _ _ _ e p r) _ |- le (match_relations _ _ _ _ _ _) _ => apply H
  | H : forall e p n, le (match_nth1 _ _ _ e p n) _ |- le (match_nth1 _ _ _ _ _ _) _ => apply H
  | H : forall e p tag ids classes attrs nth subs relation contains lang flags, le (match_compound _ _ _ e p tag ids classes attrs nth subs relation contains lang flags) _
    |- le (match_compound _ _ _ _ _ _ _ _ _ _ _ _ _ _ _) _ => apply H
  | |- le (if ?b then _ else _) (if ?b then _ else _) => destruct b
  | |- le (match ?x with _ => _ end) (match ?x with _ => _ end) => destruct x
  | |- le (let '(_, _) := ?x in _) _ => destruct x
  end.

Ltac unf1 := cbn [match_selectors match_compound match_relations match_nth1];
             fold (match_compound bidi cx) (match_selectors bidi cx) (match_relations bidi cx) (match_nth1 bidi cx).
(* unfold each side exactly once: the left one while the right one is hidden, then the right one with its inner fuel abstracted *)
Ltac unf f :=
  match goal with |- le ?L ?R => let r := fresh "r" in set (r := R); unf1; subst r end;
  let g := fresh "g" in let Hg := fresh "Hg" in remember (S f) as g eqn:Hg; unf1; subst g.

Theorem fuel_step : forall fuel,
  (forall e p l, le (match_selectors bidi cx fuel e p l) (match_selectors bidi cx (S fuel) e p l)) /\
  (forall e p tag ids classes attrs nth subs relation contains lang flags,
     le (match_compound bidi cx fuel e p tag ids classes attrs nth subs relation contains lang flags)
        (match_compound bidi cx (S fuel) e p tag ids classes attrs nth subs relation contains lang flags)) /\
  (forall e p relation, le (match_relations bidi cx fuel e p relation) (match_relations bidi cx (S fuel) e p relation)) /\
  (forall e p n, le (match_nth1 bidi cx fuel e p n) (match_nth1 bidi cx (S fuel) e p n)).
Proof.
  induction fuel as [|f (IHs & IHc & IHr & IHn)].
  - repeat split; intros; apply le_raise.
  - split; [|split; [|split]].
    + intros e p l. unf f. repeat le_step.
    + intros. unf f. repeat le_step.
    + intros e p relation. unf f.
      destruct (sl_sels relation) as [|[|? ? ? ? ? ? ? rt ? ? ?] ?]; try apply le_refl.
      destruct rt as [r|]; [|apply le_refl].
      destruct (str_eqb r REL_PARENT).
      { repeat le_step.
        match goal with |- le (?F ?n ?q) (?G ?n ?q) => generalize q; generalize n end.
        intros n. induction n as [|n IHup]; intros q; [apply le_refl|].
        cbv beta iota. repeat le_step. apply IHup. }
      repeat le_step.
    + intros e p n. unf f. destruct n as [a var b of_type last s].
      repeat le_step.
Qed.

(* any amount of extra fuel *)
Theorem fuel_irrelevant fuel k e p l m :
  match_selectors bidi cx fuel e p l m <> Raise OutOfFuel ->
  match_selectors bidi cx (fuel + k) e p l m = match_selectors bidi cx fuel e p l m.
Proof.
  intros H. induction k as [|k IH]; [now rewrite Nat.add_0_r|].
  rewrite Nat.add_succ_r. destruct (proj1 (fuel_step (fuel + k)) e p l m) as [Hr | Hr].
  - rewrite IH in Hr. contradiction.
  - rewrite <- Hr. exact IH.
Qed.
End F.
Print Assumptions fuel_irrelevant.
