(* HistFacts.v — history-freedom of the whole matcher (C04): with ANY consistent memo the matcher returns
   the value (or raises the exception) it returns with the empty memo, and leaves a consistent memo. *)
From SV Require Import Base Regex Tree IR Lit Inputs Match MemoFacts.
Local Open Scope bool_scope.

Section Hist.
Variable bidi : cp -> N.
Variable cx : ctx.
Notation t := (c_tree cx).

(* ---- what a consistent memo is ---- *)
Definition search_cond (root : path) : bool :=
  negb (c_is_xml cx) || (has_html_ns cx root && str_eqb (name_at cx root) L_html).
Definition lang_scan (root : path) : option (res (option nval)) :=
  match find_child_tag cx root L_html with
  | None => None
  | Some h => match find_child_tag cx h L_head with
              | None => None
              | Some hd => Some (meta_scan cx hd (children t hd))
              end
  end.
Definition lang_ok (m : memo) : Prop :=
  forall key r, In (key, r) (m_lang m) -> search_cond key = true /\ lang_scan key = Some (Ok r).
Definition indet_ok (m : memo) : Prop :=
  forall f name mt, In (f, name, mt) (m_indet m) ->
    indet_scan cx f name (get_tag_descendants cx f true) = Ok (negb mt).
Definition good (m : memo) : Prop := lang_ok m /\ default_ok cx m /\ indet_ok m.

Lemma good_memo0 : good memo0.
Proof. split; [|split]; [intros key r H | intros f b H | intros f name mt H]; contradiction. Qed.

(* ---- deterministic computations ---- *)
Definition det {A} (c : M A) : Prop :=
  exists r : res A, forall m, good m ->
    match r with
    | Ok v => exists m', c m = Ok (v, m') /\ good m'
    | Raise e => c m = Raise e
    end.

Lemma det_ret {A} (a : A) : det (ret a).
Proof. exists (Ok a). intros m Hm. exists m. split; [reflexivity | exact Hm]. Qed.
Lemma det_raise {A} e : det (@raise A e).
Proof. exists (Raise e). intros m Hm. reflexivity. Qed.
Lemma det_lift {A} (r : res A) : det (lift r).
Proof. exists r. intros m Hm. destruct r; [exists m; split; [reflexivity | exact Hm] | reflexivity]. Qed.
Lemma det_bind {A B} (c : M A) (f : A -> M B) : det c -> (forall a, det (f a)) -> det (bindM c f).
Proof.
  intros [r Hr] Hf. destruct r as [v|e].
  - destruct (Hf v) as [r2 Hr2]. exists r2. intros m Hm. destruct (Hr m Hm) as (m' & Hc & Hm').
    unfold bindM. rewrite Hc. exact (Hr2 m' Hm').
  - exists (Raise e). intros m Hm. unfold bindM. rewrite (Hr m Hm). reflexivity.
Qed.
Lemma det_bind_lift {A B} (r : res A) (f : A -> M B) : (forall a, r = Ok a -> det (f a)) -> det (bindM (lift r) f).
Proof.
  intros Hf. destruct r as [v|e].
  - destruct (Hf v eq_refl) as [r2 Hr2]. exists r2. intros m Hm. exact (Hr2 m Hm).
  - exists (Raise e). intros m Hm. reflexivity.
Qed.
Lemma det_existsM {A} (f : A -> M bool) l : (forall x, det (f x)) -> det (existsM f l).
Proof.
  intros Hf. induction l as [|x l IH]; [apply det_ret|]. cbn [existsM].
  apply det_bind; [apply Hf|]. intros [|]; [apply det_ret | exact IH].
Qed.
Lemma det_forallM {A} (f : A -> M bool) l : (forall x, det (f x)) -> det (forallM f l).
Proof.
  intros Hf. induction l as [|x l IH]; [apply det_ret|]. cbn [forallM].
  apply det_bind; [apply Hf|]. intros [|]; [exact IH | apply det_ret].
Qed.
Lemma det_allM {A} (f : A -> M bool) l : (forall x, det (f x)) -> det (allM_noshort f l).
Proof.
  intros Hf. induction l as [|x l IH]; [apply det_ret|]. cbn [allM_noshort].
  apply det_bind; [apply Hf|]. intros b. apply det_bind; [exact IH|]. intros r. apply det_ret.
Qed.
Lemma det_sl_loop mc is_not nonempty ss : (forall s, det (mc s)) -> det (sl_loop mc is_not nonempty ss).
Proof.
  intros Hmc. induction ss as [|s ss IH]; [apply det_ret|]. cbn [sl_loop].
  destruct s; [exact IH|]. apply det_bind; [apply Hmc|]. intros [|]; [apply det_ret | exact IH].
Qed.

(* the value a deterministic computation has is the value it has from the empty memo *)
Lemma det_memo0 {A} (c : M A) : det c -> forall m, good m ->
  match c m, c memo0 with
  | Ok (v, m'), Ok (v0, _) => v = v0 /\ good m'
  | Raise e, Raise e0 => e = e0
  | _, _ => False
  end.
Proof.
  intros [r Hr] m Hm. pose proof (Hr m Hm) as H1. pose proof (Hr memo0 good_memo0) as H0. destruct r as [v|e].
  - destruct H1 as (m1 & -> & Hg). destruct H0 as (m0 & -> & _). split; [reflexivity | exact Hg].
  - rewrite H1, H0. reflexivity.
Qed.

(* ---- the three memoised predicates ---- *)
Lemma det_default p : det (match_default cx p).
Proof.
  unfold match_default. destruct (find_form cx (length p) (get_parent cx p true)) as [form|]; [|apply det_ret].
  destruct (default_scan cx (get_tag_descendants cx form true)) as [[b|]|e] eqn:Es.
  - exists (Ok (path_eqb b p)). intros m (Hl & Hd & Hi).
    destruct (find (fun ft => path_eqb (fst ft) form) (m_default m)) as [[f b']|] eqn:Ef.
    + apply find_some in Ef as [Hin Heq]. cbn [fst] in Heq. apply path_eqb_eq in Heq. subst f.
      pose proof (Hd form b' Hin) as Hb. rewrite Es in Hb. injection Hb as <-. cbn [snd].
      exists m. split; [reflexivity | exact (conj Hl (conj Hd Hi))].
    + eexists. split; [reflexivity|]. split; [exact Hl | split; [| exact Hi]].
      intros f' b' Hin. cbn [m_default] in Hin.
      apply in_app_or in Hin as [Hin | [Heq | []]]; [exact (Hd f' b' Hin)|]. injection Heq as <- <-. exact Es.
  - exists (Ok false). intros m (Hl & Hd & Hi).
    destruct (find (fun ft => path_eqb (fst ft) form) (m_default m)) as [[f b']|] eqn:Ef.
    + apply find_some in Ef as [Hin Heq]. cbn [fst] in Heq. apply path_eqb_eq in Heq. subst f.
      pose proof (Hd form b' Hin) as Hb. rewrite Es in Hb. discriminate.
    + exists m. split; [reflexivity | exact (conj Hl (conj Hd Hi))].
  - exists (Raise e). intros m (Hl & Hd & Hi).
    destruct (find (fun ft => path_eqb (fst ft) form) (m_default m)) as [[f b']|] eqn:Ef; [|reflexivity].
    apply find_some in Ef as [Hin Heq]. cbn [fst] in Heq. apply path_eqb_eq in Heq. subst f.
    pose proof (Hd form b' Hin) as Hb. rewrite Es in Hb. discriminate.
Qed.

Lemma strs_eq (x y : list str) : length x = length y ->
  forallb (fun xy => str_eqb (fst xy) (snd xy)) (combine x y) = true -> x = y.
Proof.
  revert y. induction x as [|a x IH]; intros [|b y] Hl H; try discriminate; [reflexivity|].
  cbn in H. apply andb_true_iff in H as [H1 H2]. apply str_eqb_eq in H1. subst b.
  f_equal. apply IH; [simpl in Hl; lia | exact H2].
Qed.
Lemma nval_eqb_eq (a b : nval) : nval_eqb a b = true -> a = b.
Proof.
  destruct a as [x|x], b as [y|y]; cbn; try discriminate.
  - intros H. apply str_eqb_eq in H. now subst.
  - intros H. apply andb_true_iff in H as [H1 H2]. apply Nat.eqb_eq in H1. f_equal. now apply strs_eq.
Qed.
Lemma onval_eqb_eq (a b : option nval) : onval_eqb a b = true -> a = b.
Proof. destruct a, b; cbn; try discriminate; [intros H; f_equal; now apply nval_eqb_eq | reflexivity]. Qed.

Lemma det_indeterminate p : det (match_indeterminate cx p).
Proof.
  unfold match_indeterminate. apply det_bind_lift. intros name _. apply det_bind_lift. intros [f|] _; [|apply det_ret].
  destruct (indet_scan cx f name (get_tag_descendants cx f true)) as [checked|e] eqn:Es.
  - exists (Ok (negb checked)). intros m (Hl & Hd & Hi).
    destruct (find (fun e => path_eqb (fst (fst e)) f && onval_eqb (snd (fst e)) name) (m_indet m)) as [[[f' n'] mt]|] eqn:Ef.
    + apply find_some in Ef as [Hin Heq]. cbn [fst snd] in Heq. apply andb_true_iff in Heq as [H1 H2].
      apply path_eqb_eq in H1. apply onval_eqb_eq in H2. subst f' n'.
      pose proof (Hi f name mt Hin) as Hb. rewrite Es in Hb. injection Hb as Hb. cbn [snd].
      exists m. split; [|exact (conj Hl (conj Hd Hi))]. f_equal. f_equal. subst checked. now rewrite negb_involutive.
    + eexists. split; [reflexivity|]. split; [exact Hl | split; [exact Hd|]].
      intros f' n' mt Hin. cbn [m_indet] in Hin.
      apply in_app_or in Hin as [Hin | [Heq | []]]; [exact (Hi f' n' mt Hin)|]. injection Heq as <- <- <-.
      rewrite negb_involutive. exact Es.
  - exists (Raise e). intros m (Hl & Hd & Hi).
    destruct (find (fun e => path_eqb (fst (fst e)) f && onval_eqb (snd (fst e)) name) (m_indet m)) as [[[f' n'] mt]|] eqn:Ef; [|reflexivity].
    apply find_some in Ef as [Hin Heq]. cbn [fst snd] in Heq. apply andb_true_iff in Heq as [H1 H2].
    apply path_eqb_eq in H1. apply onval_eqb_eq in H2. subst f' n'.
    pose proof (Hi f name mt Hin) as Hb. rewrite Es in Hb. discriminate.
Qed.

Lemma lang_walk_none_top fuel p last at_top : lang_walk cx fuel p = Ok (None, last, at_top) -> at_top = true.
Proof.
  revert p. induction fuel as [|f IH]; intros p; cbn [lang_walk]; unfold bind;
  destruct (lang_attr _ _ _) as [[v|]|e]; intros H; try discriminate H;
  destruct (get_parent cx p (c_is_html cx)); try discriminate H; try (injection H as _ <-; reflexivity).
  exact (IH _ H).
Qed.

Lemma lang_lookup_in (r : path) (l : list (path * option nval)) acc c :
  fold_left (fun acc e => if path_eqb (fst e) r then Some (snd e) else acc) l acc = Some c ->
  acc = Some c \/ In (r, c) l.
Proof.
  revert acc. induction l as [|[k v] l IH]; intros acc H; [left; exact H|]. cbn [fold_left fst snd] in H.
  destruct (IH _ H) as [Hacc|Hin]; [|right; right; exact Hin].
  destruct (path_eqb k r) eqn:E; [|left; exact Hacc].
  apply path_eqb_eq in E. subst k. injection Hacc as ->. right. left. reflexivity.
Qed.

Lemma det_lang p langs : det (match_lang cx p langs).
Proof.
  unfold match_lang. apply det_bind_lift. intros [[found0 last] at_top] Hw.
  destruct found0 as [v|].
  - exists (lang_matches langs v). intros m Hm. cbn.
    destruct (lang_matches langs v); [exists m; split; [reflexivity | exact Hm] | reflexivity].
  - apply lang_walk_none_top in Hw. subst at_top.
    set (aft := fun found : option nval => match found with Some v => lang_matches langs v | None => Ok false end).
    exists (if search_cond last then
              match lang_scan last with None => Ok false | Some (Raise e) => Raise e | Some (Ok r0) => aft r0 end
            else Ok false).
    intros m (Hl & Hd & Hi). cbn beta iota zeta.
    destruct (fold_left (fun acc e => if path_eqb (fst e) last then Some (snd e) else acc) (m_lang m) None) as [c|] eqn:Ec.
    + apply lang_lookup_in in Ec as [Ec|Hin]; [discriminate|]. destruct (Hl last c Hin) as [Hs Hscan].
      rewrite Hs, Hscan. destruct c as [v|]; cbn.
      * destruct (lang_matches langs v); [exists m; split; [reflexivity | exact (conj Hl (conj Hd Hi))] | reflexivity].
      * exists m; split; [reflexivity | exact (conj Hl (conj Hd Hi))].
    + cbn [negb andb]. fold (search_cond last). destruct (search_cond last) eqn:Hs; cbn [negb].
      * unfold lang_scan. destruct (find_child_tag cx last L_html) as [h|] eqn:Eh0; [|exists m; split; [reflexivity | exact (conj Hl (conj Hd Hi))]].
        destruct (find_child_tag cx h L_head) as [hd|] eqn:Eh; [|exists m; split; [reflexivity | exact (conj Hl (conj Hd Hi))]].
        destruct (meta_scan cx hd (children t hd)) as [r0|e] eqn:Em; [|reflexivity].
        assert (Hg : good (Memo (m_lang m ++ [(last, r0)]) (m_default m) (m_indet m))).
        { split; [|exact (conj Hd Hi)]. intros key r Hin. cbn [m_lang] in Hin.
          apply in_app_or in Hin as [Hin | [Heq | []]]; [exact (Hl key r Hin)|]. injection Heq as <- <-.
          split; [exact Hs|]. unfold lang_scan. rewrite Eh0, Eh, Em. reflexivity. }
        destruct r0 as [v|]; cbn.
        -- destruct (lang_matches langs v); [eexists; split; [reflexivity | exact Hg] | reflexivity].
        -- eexists; split; [reflexivity | exact Hg].
      * exists m; split; [reflexivity | exact (conj Hl (conj Hd Hi))].
Qed.

(* ---- the positional walk with a deterministic classifier ---- *)
Lemma det_nth_inner {X} (classify : X -> M (bool * bool)) rest : (forall x, det (classify x)) ->
  forall rel idx, det (nth_inner classify rest rel idx).
Proof.
  intros Hc. induction rest as [|x rest IH]; intros rel idx; [apply det_ret|]. cbn [nth_inner].
  apply det_bind; [apply Hc|]. intros [counted is_el]. destruct counted; cbn [negb]; [|apply IH].
  destruct (rel + 1 =? idx)%Z; [destruct is_el; apply det_ret|]. destruct is_el; [apply det_ret | apply IH].
Qed.
Lemma det_nth_outer {X} (classify : X -> M (bool * bool)) a b var L incr : (forall x, det (classify x)) ->
  forall fuel count rest rel idx, det (nth_outer classify fuel a b var L count incr rest rel idx).
Proof.
  intros Hc. induction fuel as [|f IH]; intros count rest rel idx; [apply det_raise|]. cbn [nth_outer].
  destruct ((1 <=? idx)%Z && (idx <=? L + 1)%Z); [|apply det_ret].
  apply det_bind; [apply det_nth_inner; exact Hc|]. intros [[[rest' rel'] matched] hit].
  destruct hit; [apply det_ret|]. destruct (count + incr <? 0)%Z; [apply det_ret|].
  destruct (nth_idx a b var (count + incr) =? idx)%Z; [apply det_ret | apply IH].
Qed.
Lemma det_nth_core {X} (classify : X -> M (bool * bool)) a b var n walk : (forall x, det (classify x)) ->
  det (nth_core classify a b var n walk).
Proof.
  intros Hc. unfold nth_core. destruct var; [|apply det_nth_outer; exact Hc].
  apply det_bind_lift. intros c1 _. apply det_bind_lift. intros lo _. apply det_nth_outer; exact Hc.
Qed.

(* ---- the whole matcher ---- *)
Ltac det_step :=
  match goal with
  | |- det (ret _) => apply det_ret
  | |- det (raise _) => apply det_raise
  | |- det (lift _) => apply det_lift
  | |- det (match_default _ _) => apply det_default
  | |- det (match_indeterminate _ _) => apply det_indeterminate
  | |- det (match_lang _ _ _) => apply det_lang
  | |- det (existsM _ _) => apply det_existsM; intros ?
  | |- det (forallM _ _) => apply det_forallM; intros ?
  | |- det (allM_noshort _ _) => apply det_allM; intros ?
  | |- det (sl_loop _ _ _ _) => apply det_sl_loop; intros ?
  | |- det (nth_core _ _ _ _ _ _) => apply det_nth_core; intros ?
  | |- det (bindM _ _) => apply det_bind; [| intros ?]
  | H : forall e p l, det (match_selectors _ _ _ e p l) |- det (match_selectors _ _ _ _ _ _) => apply H
  | H : forall e p r, det (match_relations _ _ _ e p r) |- det (match_relations _ _ _ _ _ _) => apply H
  | H : forall e p n, det (match_nth1 _ _ _ e p n) |- det (match_nth1 _ _ _ _ _ _) => apply H
  | H : forall e p tag ids classes attrs nth subs relation contains lang flags, det (match_compound _ _ _ e p tag ids classes attrs nth subs relation contains lang flags)
    |- det (match_compound _ _ _ _ _ _ _ _ _ _ _ _ _ _ _) => apply H
  | |- det (if ?b then _ else _) => destruct b
  | |- det (match ?x with _ => _ end) => destruct x
  | |- det (let '(_, _) := ?x in _) => destruct x
  end.

Theorem det_matcher : forall fuel,
  (forall e p l, det (match_selectors bidi cx fuel e p l)) /\
  (forall e p tag ids classes attrs nth subs relation contains lang flags,
     det (match_compound bidi cx fuel e p tag ids classes attrs nth subs relation contains lang flags)) /\
  (forall e p relation, det (match_relations bidi cx fuel e p relation)) /\
  (forall e p n, det (match_nth1 bidi cx fuel e p n)).
Proof.
  induction fuel as [|f (IHs & IHc & IHr & IHn)].
  - repeat split; intros; apply det_raise.
  - split; [|split; [|split]].
    + intros e p l. cbn [match_selectors match_compound match_relations match_nth1]; fold (match_compound bidi cx) (match_selectors bidi cx) (match_relations bidi cx) (match_nth1 bidi cx). repeat det_step.
    + intros. cbn [match_selectors match_compound match_relations match_nth1]; fold (match_compound bidi cx) (match_selectors bidi cx) (match_relations bidi cx) (match_nth1 bidi cx). repeat det_step.
    + intros e p relation. cbn [match_selectors match_compound match_relations match_nth1]; fold (match_compound bidi cx) (match_selectors bidi cx) (match_relations bidi cx) (match_nth1 bidi cx).
      destruct (sl_sels relation) as [|[|? ? ? ? ? ? ? rt ? ? ?] ?]; try apply det_ret.
      destruct rt as [r|]; [|apply det_ret].
      destruct (str_eqb r REL_PARENT).
      { repeat det_step.
        match goal with |- det (?F ?n ?q) => generalize q; generalize n end.
        intros n. induction n as [|n IHup]; intros q; [apply det_ret|].
        cbv beta iota. repeat det_step. apply IHup. }
      repeat det_step.
    + intros e p n. cbn [match_selectors match_compound match_relations match_nth1]; fold (match_compound bidi cx) (match_selectors bidi cx) (match_relations bidi cx) (match_nth1 bidi cx). destruct n as [a var b of_type last s].
      repeat det_step.
Qed.

Lemma det_match_el fuel e sels q : det (match_el bidi cx fuel e sels q).
Proof. unfold match_el. destruct (negb (is_doc_path t q) && is_tag_path t q); [apply det_matcher | apply det_ret]. Qed.

(* ---- what select / filter / closest return, stated without any memo ---- *)
(* the answer for ONE element asked on its own (a fresh matcher: the empty memo) *)
Definition fresh (fuel : nat) (e : env) (sels : sellist) (q : path) : res bool :=
  match match_el bidi cx fuel e sels q memo0 with Ok (b, _) => Ok b | Raise ex => Raise ex end.

Fixpoint select_pure (fuel : nat) (e : env) (sels : sellist) (l : list path) (lim : option nat) : res (list path) :=
  match l with
  | [] => Ok []
  | q :: l' =>
    do b <- fresh fuel e sels q ;;
    if b then
      match lim with
      | Some (S O) | Some O => Ok [q]
      | Some (S k) => do r <- select_pure fuel e sels l' (Some k) ;; Ok (q :: r)
      | None => do r <- select_pure fuel e sels l' None ;; Ok (q :: r)
      end
    else select_pure fuel e sels l' lim
  end.

Lemma fresh_any fuel e sels q m : good m ->
  match match_el bidi cx fuel e sels q m with
  | Ok (b, m') => fresh fuel e sels q = Ok b /\ good m'
  | Raise ex => fresh fuel e sels q = Raise ex
  end.
Proof.
  intros Hm. pose proof (det_memo0 _ (det_match_el fuel e sels q) m Hm) as H. unfold fresh.
  destruct (match_el bidi cx fuel e sels q m) as [[b m']|ex], (match_el bidi cx fuel e sels q memo0) as [[b0 m0]|ex0];
    try contradiction; [destruct H as [-> Hg]; split; [reflexivity | exact Hg] | subst; reflexivity].
Qed.

(* select / filter: whatever consistent memo the loop starts from, and whatever it accumulates on the way,
   the result is built from the per-element fresh answers, in document order, up to the limit;
   the first exception (in document order) is the exception raised *)
Theorem select_history_free fuel e sels l : forall lim m, good m ->
  match select_loop bidi cx fuel e sels l lim m with
  | Ok (r, m') => select_pure fuel e sels l lim = Ok r /\ good m'
  | Raise ex => select_pure fuel e sels l lim = Raise ex
  end.
Proof.
  induction l as [|q l IH]; intros lim m Hm; [split; [reflexivity | exact Hm]|].
  cbn [select_loop select_pure]. unfold bindM at 1. pose proof (fresh_any fuel e sels q m Hm) as Hq.
  destruct (match_el bidi cx fuel e sels q m) as [[b m1]|ex]; [destruct Hq as [-> Hg1] | rewrite Hq; reflexivity].
  cbn [bind]. destruct b; [|exact (IH lim m1 Hg1)].
  destruct lim as [[|[|k]]|]; try (split; [reflexivity | exact Hg1]).
  - unfold bindM. pose proof (IH (Some (S k)) m1 Hg1) as H.
    destruct (select_loop bidi cx fuel e sels l (Some (S k)) m1) as [[r m2]|ex]; [destruct H as [-> Hg2]; split; [reflexivity | exact Hg2] | rewrite H; reflexivity].
  - unfold bindM. pose proof (IH None m1 Hg1) as H.
    destruct (select_loop bidi cx fuel e sels l None m1) as [[r m2]|ex]; [destruct H as [-> Hg2]; split; [reflexivity | exact Hg2] | rewrite H; reflexivity].
Qed.

(* without a limit and without exceptions that is exactly the sub-list of elements whose own answer is True:
   independent of the order and of what else was asked *)
Theorem select_pure_filter fuel e sels l r : select_pure fuel e sels l None = Ok r ->
  r = filter (fun q => match fresh fuel e sels q with Ok true => true | _ => false end) l.
Proof.
  revert r. induction l as [|q l IH]; intros r H; cbn [select_pure filter] in *; [now injection H as <-|].
  destruct (fresh fuel e sels q) as [[|]|ex]; cbn [bind] in H; [| exact (IH r H) | discriminate].
  destruct (select_pure fuel e sels l None) as [r'|ex]; cbn [bind] in H; [|discriminate].
  injection H as <-. f_equal. exact (IH r' eq_refl).
Qed.

Fixpoint closest_pure (fuel : nat) (e : env) (sels : sellist) (n : nat) (p : path) : res (option path) :=
  do b <- fresh fuel e sels p ;;
  if b then Ok (Some p)
  else match n with
       | O => Ok None
       | S k => match parent_path p with Some pp => closest_pure fuel e sels k pp | None => Ok None end
       end.
Theorem closest_history_free fuel e sels n : forall p m, good m ->
  match closest_loop bidi cx fuel e sels n p m with
  | Ok (r, m') => closest_pure fuel e sels n p = Ok r /\ good m'
  | Raise ex => closest_pure fuel e sels n p = Raise ex
  end.
Proof.
  induction n as [|n IH]; intros p m Hm; cbn [closest_loop closest_pure]; unfold bindM;
  pose proof (fresh_any fuel e sels p m Hm) as Hq;
  (destruct (match_el bidi cx fuel e sels p m) as [[b m1]|ex]; [destruct Hq as [-> Hg1] | rewrite Hq; reflexivity]);
  cbn [bind]; (destruct b; [split; [reflexivity | exact Hg1]|]).
  - split; [reflexivity | exact Hg1].
  - destruct (parent_path p) as [pp|]; [exact (IH pp m1 Hg1) | split; [reflexivity | exact Hg1]].
Qed.
Lemma det_match_nth_list fuel e p nth : det (match_nth bidi cx fuel e p nth).
Proof. unfold match_nth. apply det_forallM. intros n. apply det_matcher. Qed.
End Hist.

(* ---- API level: each call builds a fresh matcher, so NOTHING is carried from call to call; within a call
   the memo only ever holds facts of the (immutable) tree ---- *)
Theorem api_select_history_free bidi t ns sels p limit : valid_target t p = true ->
  let cx := mk_ctx t p in
  api_select bidi t ns sels p limit =
  select_pure bidi cx (api_fuel sels) (Env ns false) sels (get_tag_descendants cx p false)
              (if (limit <? 1)%Z then None else Some (Z.to_nat limit)).
Proof.
  intros Hv cx. unfold api_select. rewrite Hv. cbn [negb]. fold cx.
  pose proof (select_history_free bidi cx (api_fuel sels) (Env ns false) sels (get_tag_descendants cx p false)
                (if (limit <? 1)%Z then None else Some (Z.to_nat limit)) memo0 (good_memo0 cx)) as H.
  destruct (select_loop _ _ _ _ _ _ _ _) as [[r m']|ex]; [destruct H as [H _]|]; symmetry; exact H.
Qed.
Theorem api_filter_history_free bidi t ns sels p : valid_target t p = true ->
  let cx := mk_ctx t p in
  api_filter bidi t ns sels p = select_pure bidi cx (api_fuel sels) (Env ns false) sels (elem_children t p) None.
Proof.
  intros Hv cx. unfold api_filter. rewrite Hv. cbn [negb]. fold cx.
  pose proof (select_history_free bidi cx (api_fuel sels) (Env ns false) sels (elem_children t p) None memo0 (good_memo0 cx)) as H.
  destruct (select_loop _ _ _ _ _ _ _ _) as [[r m']|ex]; [destruct H as [H _]|]; symmetry; exact H.
Qed.
Theorem api_closest_history_free bidi t ns sels p : valid_target t p = true ->
  let cx := mk_ctx t p in
  api_closest bidi t ns sels p = closest_pure bidi cx (api_fuel sels) (Env ns false) sels (length p) p.
Proof.
  intros Hv cx. unfold api_closest. rewrite Hv. cbn [negb]. fold cx.
  pose proof (closest_history_free bidi cx (api_fuel sels) (Env ns false) sels (length p) p memo0 (good_memo0 cx)) as H.
  destruct (closest_loop _ _ _ _ _ _ _ _) as [[r m']|ex]; [destruct H as [H _]|]; symmetry; exact H.
Qed.
(* and match() is by definition the fresh answer *)
Theorem api_match_is_fresh bidi t ns sels p : valid_target t p = true ->
  api_match bidi t ns sels p = fresh bidi (mk_ctx t p) (api_fuel sels) (Env ns false) sels p.
Proof. intros Hv. unfold api_match, fresh. rewrite Hv. reflexivity. Qed.
Print Assumptions api_select_history_free.
