(* IR.v — definitions only: mirror of soupsieve.css_types (the compiled selector structure).
   Compiled attribute patterns are carried as the regex AST the code built (translated by T1). *)
From SV Require Export Base Regex.

Record stag := STag { tg_name : str; tg_prefix : option str }.
Record sattr := SAttr { at_name : str; at_prefix : str; at_pat : option re; at_xml_pat : option re }.
Record scontains := SContains { ct_text : list str; ct_own : bool }.

Inductive sel :=
| SNull
| Sel (tag : option stag) (ids classes : list str) (attrs : list sattr)
      (nth : list snth) (subs : list sellist) (relation : sellist) (rel_type : option str)
      (contains : list scontains) (lang : list (list str)) (flags : N)
with sellist := SL (sels : list sel) (is_not is_html : bool)
with snth := SNth (a : Z) (n : bool) (b : Z) (of_type last : bool) (s : sellist).

Definition sl_sels (l : sellist) := match l with SL s _ _ => s end.
Definition sl_is_not (l : sellist) := match l with SL _ b _ => b end.
Definition sl_is_html (l : sellist) := match l with SL _ _ b => b end.
Definition sl_empty : sellist := SL [] false false.

(* flag bits: css_types.SEL_* (checked against the live module by the harness) *)
Definition SEL_EMPTY : N := 1.
Definition SEL_ROOT : N := 2.
Definition SEL_DEFAULT : N := 4.
Definition SEL_INDETERMINATE : N := 8.
Definition SEL_SCOPE : N := 16.
Definition SEL_DIR_LTR : N := 32.
Definition SEL_DIR_RTL : N := 64.
Definition SEL_IN_RANGE : N := 128.
Definition SEL_OUT_OF_RANGE : N := 256.
Definition SEL_DEFINED : N := 512.
Definition SEL_PLACEHOLDER_SHOWN : N := 1024.
Definition has_flag (flags bit : N) : bool := negb (N.eqb (N.land flags bit) 0).

(* nesting depth of the structure: the fuel the matcher needs *)
Fixpoint sel_depth (s : sel) : nat :=
  match s with
  | SNull => 1
  | Sel _ _ _ _ nth subs rel _ _ _ _ =>
    S (Nat.max (fold_right (fun n acc => Nat.max (nth_depth n) acc) 0 nth)
      (Nat.max (fold_right (fun l acc => Nat.max (sl_depth l) acc) 0 subs) (sl_depth rel)))
  end
with sl_depth (l : sellist) : nat :=
  match l with SL ss _ _ => S (fold_right (fun s acc => Nat.max (sel_depth s) acc) 0 ss) end
with nth_depth (n : snth) : nat :=
  match n with SNth _ _ _ _ _ s => S (sl_depth s) end.
