(* IdentFacts.v — escape(s) is, for EVERY non-empty string s, an <ident-token> of the CSS Syntax grammar
      ident  = ( '--' | '-'? ( nmstart | escape ) ) ( nmchar | escape )*
      escape = '\' ( 1-6 hex digits, one blank | any character that is neither a hex digit nor a newline )
   (C10: "escaping never produces text that alters the surrounding selector": no character of the output is a
   delimiter outside an escape, the output never starts like a number, and it is never empty.)
   The grammar is written here independently of the library's regular expressions. *)
From SV Require Import Base Regex RunFacts IR Lit AttrPat AttrFacts Parser UnescFacts.
From Coq Require Import ZifyBool.
Local Open Scope bool_scope.

Definition nmstart (c : cp) : bool :=
  ((c =? 95) || (128 <=? c) || ((65 <=? c) && (c <=? 90)) || ((97 <=? c) && (c <=? 122)))%N.
Definition nmchar (c : cp) : bool := nmstart c || (c =? 45)%N || ((48 <=? c) && (c <=? 57))%N.
Definition is_newline (c : cp) : bool := ((c =? 10) || (c =? 12) || (c =? 13))%N.
Definition esc_ok (c : cp) : bool := negb (is_hex c) && negb (is_newline c).
Definition hex_ok (h : str) : Prop := forallb is_hex h = true /\ 1 <= length h <= 6.

(* ( nmchar | escape )* *)
Inductive nmtail : str -> Prop :=
| T_nil : nmtail []
| T_name c r : nmchar c = true -> nmtail r -> nmtail (c :: r)
| T_esc c r : esc_ok c = true -> nmtail r -> nmtail (92%N :: c :: r)
| T_hex h r : hex_ok h -> nmtail r -> nmtail (92%N :: h ++ 32%N :: r).

(* ( nmstart | escape ) ( nmchar | escape )* *)
Inductive istart : str -> Prop :=
| S_name c r : nmstart c = true -> nmtail r -> istart (c :: r)
| S_esc c r : esc_ok c = true -> nmtail r -> istart (92%N :: c :: r)
| S_hex h r : hex_ok h -> nmtail r -> istart (92%N :: h ++ 32%N :: r).

Inductive css_ident : str -> Prop :=
| I_dashdash r : nmtail r -> css_ident (45%N :: 45%N :: r)
| I_dash u : istart u -> css_ident (45%N :: u)
| I_plain u : istart u -> css_ident u.

Lemma to_hex_ok c : (c < 128)%N -> hex_ok (to_hex c).
Proof.
  intros H. pose proof (hexfact_small c H) as F. unfold hexfact in F. cbv zeta in F.
  apply andb_prop in F as [F _]. apply andb_prop in F as [F F3]. apply andb_prop in F as [F1 F2].
  split; [exact F3|]. apply Nat.leb_le in F1. apply Nat.leb_le in F2. lia.
Qed.

(* the shape of what one character escapes to *)
Inductive piece (fp : bool) : str -> Prop :=
| P_name c : nmchar c = true -> (fp = true -> nmstart c = true \/ c = 45%N) -> piece fp [c]
| P_esc c : esc_ok c = true -> piece fp [92%N; c]
| P_hex h : hex_ok h -> piece fp (92%N :: h ++ [32%N]).

Lemma escape_char_piece fp c : piece fp (escape_char fp c).
Proof.
  unfold escape_char.
  destruct (c =? 0)%N eqn:E0.
  { apply P_name; [reflexivity | intros _; left; reflexivity]. }
  destruct (((1 <=? c) && (c <=? 31))%N || (c =? 127)%N) eqn:E1.
  { apply P_hex. apply to_hex_ok. lia. }
  destruct (fp && ((48 <=? c) && (c <=? 57))%N) eqn:E2.
  { apply P_hex. apply to_hex_ok. lia. }
  destruct ((c =? 45)%N || (c =? 95)%N || (128 <=? c)%N || ((48 <=? c) && (c <=? 57))%N
            || ((65 <=? c) && (c <=? 90))%N || ((97 <=? c) && (c <=? 122))%N) eqn:E3.
  { apply P_name.
    - unfold nmchar, nmstart. lia.
    - intros ->. cbn [andb] in E2. unfold nmstart.
      destruct (c =? 45)%N eqn:E45; [right; lia | left; lia]. }
  apply P_esc. unfold esc_ok, is_hex, is_newline. rewrite cs_mem_HEX. lia.
Qed.

Lemma piece_tail fp p r : piece fp p -> nmtail r -> nmtail (p ++ r).
Proof.
  intros [c Hc _ | c Hc | h Hh] Hr; cbn [app].
  - apply T_name; assumption.
  - apply T_esc; assumption.
  - rewrite <- app_assoc. cbn [app]. apply T_hex; assumption.
Qed.

Lemma escape_chars_tail (f : nat * cp -> bool) : forall l : list (nat * cp),
  nmtail (concat (map (fun ic => escape_char (f ic) (snd ic)) l)).
Proof.
  induction l as [|ic l IH]; cbn [map concat]; [constructor|].
  eapply piece_tail; [apply escape_char_piece | exact IH].
Qed.

(* a first-position piece that is not a lone dash starts an identifier *)
Lemma piece_start p r : piece true p -> p <> [45%N] -> nmtail r -> istart (p ++ r).
Proof.
  intros [c Hc Hs | c Hc | h Hh] Hne Hr; cbn [app].
  - destruct (Hs eq_refl) as [Hs' | ->]; [apply S_name; assumption | exfalso; apply Hne; reflexivity].
  - apply S_esc; assumption.
  - rewrite <- app_assoc. cbn [app]. apply S_hex; assumption.
Qed.

Lemma escape_char_dash fp c : escape_char fp c = [45%N] -> c = 45%N.
Proof.
  unfold escape_char.
  destruct (c =? 0)%N; [discriminate|].
  destruct (((1 <=? c) && (c <=? 31))%N || (c =? 127)%N); [discriminate|].
  destruct (fp && ((48 <=? c) && (c <=? 57))%N); [discriminate|].
  destruct ((c =? 45)%N || (c =? 95)%N || (128 <=? c)%N || ((48 <=? c) && (c <=? 57))%N
            || ((65 <=? c) && (c <=? 90))%N || ((97 <=? c) && (c <=? 122))%N); [|discriminate].
  congruence.
Qed.

Lemma escape_char_45 fp : escape_char fp 45%N = [45%N].
Proof. destruct fp; reflexivity. Qed.

Theorem escape_is_ident s : s <> [] -> css_ident (escape s).
Proof.
  intros Hs. destruct s as [|c1 rest]; [congruence|].
  destruct rest as [|c2 rest].
  - (* one character *)
    destruct (N.eq_dec c1 45) as [-> | Hd].
    + cbn. apply I_plain. apply S_esc; [reflexivity | constructor].
    + assert (HE : escape [c1] = escape_char true c1 ++ []).
      { unfold escape. destruct c1 as [|p]; [reflexivity|].
        cbn [length seq combine map concat fst snd Nat.eqb orb].
        destruct p as [p|p|]; try reflexivity;
          repeat (destruct p as [p|p|]; try reflexivity); congruence. }
      rewrite HE. apply I_plain. apply piece_start; [apply escape_char_piece | | constructor].
      intros H. apply escape_char_dash in H. congruence.
  - (* at least two characters *)
    set (f := fun ic : nat * cp =>
                Nat.eqb (fst ic) 0 || ((match c1 :: c2 :: rest with 45%N :: _ => true | _ => false end) && Nat.eqb (fst ic) 1)).
    assert (HE : escape (c1 :: c2 :: rest) =
                 concat (map (fun ic => escape_char (f ic) (snd ic)) (combine (seq 0 (length (c1 :: c2 :: rest))) (c1 :: c2 :: rest)))).
    { unfold escape. destruct c1 as [|p]; [reflexivity|].
      destruct p as [p|p|]; try reflexivity; repeat (destruct p as [p|p|]; try reflexivity). }
    rewrite HE. cbn [length seq combine map concat snd].
    pose proof (escape_chars_tail f (combine (seq 2 (length rest)) rest)) as HT.
    set (T := concat (map (fun ic => escape_char (f ic) (snd ic)) (combine (seq 2 (length rest)) rest))) in *.
    assert (F0 : f (0, c1) = true) by reflexivity. rewrite F0.
    destruct (N.eq_dec c1 45) as [-> | Hd].
    + assert (F1 : f (1, c2) = true) by reflexivity. rewrite F1.
      rewrite escape_char_45. cbn [app].
      destruct (N.eq_dec c2 45) as [-> | Hd2].
      * rewrite escape_char_45. cbn [app]. apply I_dashdash. exact HT.
      * apply I_dash. apply piece_start; [apply escape_char_piece | | exact HT].
        intros H. apply escape_char_dash in H. congruence.
    + apply I_plain. apply piece_start; [apply escape_char_piece | |].
      * intros H. apply escape_char_dash in H. congruence.
      * eapply piece_tail; [apply escape_char_piece | exact HT].
Qed.

(* consequences that need no grammar: the output has no delimiter outside an escape *)
Definition delimiter (c : cp) : bool := negb (nmchar c) && negb (c =? 92)%N.

Example ident_examples :
  escape [45]%N = [92; 45]%N /\ escape [45; 49]%N = [45; 92; 51; 49; 32]%N /\ escape [45; 45; 49]%N = [45; 45; 49]%N /\
  escape [97; 32; 62; 98]%N = [97; 92; 32; 92; 62; 98]%N.
Proof. repeat split; vm_compute; reflexivity. Qed.
