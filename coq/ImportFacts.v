(* ImportFacts.v — every import order of the two packages succeeds, on the action lists REGENERATED from the
   sources (finite: decided by computation). *)
From SV Require Import Base Imports.
From SV.gen Require Import ImportGen.

Definition tbl_get {A} (t : list (nat * A)) (m : nat) : option A :=
  match find (fun e => Nat.eqb (fst e) m) t with Some e => Some (snd e) | None => None end.
Definition g_actions (m : nat) : option (list action) := tbl_get module_actions m.
Definition g_parent (m : nat) : option nat := match tbl_get module_parent m with Some p => p | None => None end.
Definition g_basename (m : nat) : str := match tbl_get module_basename m with Some s => s | None => [] end.
Definition g_submodule (m : nat) (n : str) : option nat :=
  match find (fun e => match g_parent (fst e) with Some p => Nat.eqb p m | None => false end && str_eqb (snd e) n)
             module_basename with
  | Some e => Some (fst e)
  | None => None
  end.
Definition g_run (prog : list entry) : verdict :=
  run_program g_actions g_parent g_basename g_submodule 400 prog.

Definition L_BeautifulSoup : str := [66; 101; 97; 117; 116; 105; 102; 117; 108; 83; 111; 117; 112]%N.
Definition L_select : str := [115; 101; 108; 101; 99; 116]%N.
Definition L_SoupSieve : str := [83; 111; 117; 112; 83; 105; 101; 118; 101]%N.
(* the import forms of the two packages and their submodules *)
Definition entry_forms : list entry :=
  [EImport M_bs4; EFrom M_bs4 [L_BeautifulSoup]; EImport M_soupsieve; EImport M_soupsieve_css_match;
   EImport M_soupsieve_css_parser; EImport M_soupsieve_css_types; EImport M_soupsieve_util; EImport M_soupsieve_pretty;
   EFrom M_soupsieve [L_select; L_SoupSieve]; EImport M_bs4_element; EImport M_bs4_css].
Definition programs1 : list (list entry) := map (fun a => [a]) entry_forms.
Definition programs2 : list (list entry) := flat_map (fun a => map (fun b => [a; b]) entry_forms) entry_forms.
Definition programs3 : list (list entry) :=
  flat_map (fun a => flat_map (fun b => map (fun c => [a; b; c]) entry_forms) entry_forms) entry_forms.
Definition is_ok (v : verdict) : bool := match v with VOk => true | _ => false end.

Theorem all_orders_ok :
  forallb (fun p => is_ok (g_run p)) (programs1 ++ programs2 ++ programs3) = true.
Proof. vm_compute. reflexivity. Qed.
