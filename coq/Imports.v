(* Imports.v — definitions only: an abstract machine for Python's import protocol, restricted to what
   matters for circular imports between the packages bs4 and soupsieve.
   sys.modules maps a module to Absent | Partial (names defined so far) | Done (names defined).
   The action lists are REGENERATED from the sources (gen/ImportGen.v, translator T5). *)
From SV Require Export Base.

Inductive action :=
| AImport (m : nat)
| AFrom (m : nat) (names : list str)
| ADefine (n : str)
| AUse (m : nat) (a : str)
| ADynUse (m : nat)
| ATry (body handler : list action).

Inductive mstate := Absent | Partial (defined : list str) | Done (defined : list str).
Inductive ierr := EImportError | EAttributeError | EOutOfFuel.

(* what a run observed besides success/failure *)
Record obs := Obs { swallowed : nat;      (* ImportErrors caught by a try/except inside the two packages *)
                    dynuses : nat;        (* getattr/hasattr on a module that was only partially initialised *)
                    partial_uses : nat }. (* attribute uses that succeeded on a partially initialised module *)
Definition obs0 := Obs 0 0 0.

Definition sysmods := list (nat * mstate).
Fixpoint sm_get (s : sysmods) (m : nat) : mstate :=
  match s with [] => Absent | (k, v) :: s' => if Nat.eqb k m then v else sm_get s' m end.
Definition sm_set (s : sysmods) (m : nat) (v : mstate) : sysmods := (m, v) :: s.

Section Machine.
Variable actions_of : nat -> option (list action).     (* None: outside the two packages, always importable *)
Variable parent_of : nat -> option nat.
Variable basename_of : nat -> str.
Variable submodule : nat -> str -> option nat.          (* submodule m name: the module m.name if it exists *)

Definition defined_of (st : mstate) : list str :=
  match st with Absent => [] | Partial d | Done d => d end.
Definition has_name (st : mstate) (n : str) : bool := existsb (str_eqb n) (defined_of st).
Definition add_name (s : sysmods) (cur : nat) (n : str) : sysmods :=
  match sm_get s cur with
  | Partial d => sm_set s cur (Partial (n :: d))
  | Done d => sm_set s cur (Done (n :: d))
  | Absent => s
  end.

Inductive rres := ROk (s : sysmods) (o : obs) | RErr (e : ierr) (s : sysmods) (o : obs).

(* load m (and its parent packages first); run its body if it is Absent *)
Fixpoint load (fuel : nat) (s : sysmods) (o : obs) (m : nat) : rres :=
  match fuel with
  | O => RErr EOutOfFuel s o
  | S f =>
    let after_parent :=
        match parent_of m with
        | Some p => load f s o p
        | None => ROk s o
        end in
    match after_parent with
    | RErr e s1 o1 => RErr e s1 o1
    | ROk s1 o1 =>
      match sm_get s1 m with
      | Partial _ | Done _ => ROk s1 o1
      | Absent =>
        match actions_of m with
        | None => ROk (sm_set s1 m (Done [])) o1
        | Some acts =>
          match run f (sm_set s1 m (Partial [])) o1 m acts with
          | ROk s2 o2 =>
            (* finished: mark Done and bind the submodule as an attribute of its parent package *)
            let s3 := sm_set s2 m (Done (defined_of (sm_get s2 m))) in
            ROk (match parent_of m with Some p => add_name s3 p (basename_of m) | None => s3 end) o2
          | RErr e s2 o2 => RErr e (sm_set s2 m Absent) o2       (* a failed import is removed from sys.modules *)
          end
        end
      end
    end
  end
with run (fuel : nat) (s : sysmods) (o : obs) (cur : nat) (acts : list action) : rres :=
  match fuel with
  | O => RErr EOutOfFuel s o
  | S f =>
    match acts with
    | [] => ROk s o
    | a :: rest =>
      let r :=
        match a with
        | AImport m => load f s o m
        | AFrom m names =>
          match load f s o m with
          | RErr e s1 o1 => RErr e s1 o1
          | ROk s1 o1 =>
            (fix each (ns : list str) (s : sysmods) (o : obs) : rres :=
               match ns with
               | [] => ROk s o
               | n :: ns' =>
                 if has_name (sm_get s m) n then each ns' s o
                 else match submodule m n with
                      | Some sub => match load f s o sub with
                                    | ROk s' o' => each ns' s' o'
                                    | RErr e s' o' => RErr e s' o'
                                    end
                      | None =>
                        match actions_of m with
                        | None => each ns' s o                         (* external module: assumed to provide it *)
                        | Some _ => RErr EImportError s o              (* cannot import name (partially initialised) *)
                        end
                      end
               end) names s1 o1
          end
        | ADefine n => ROk (add_name s cur n) o
        | AUse m a =>
          match actions_of m with
          | None => ROk s o
          | Some _ =>
            match sm_get s m with
            | Absent => RErr EAttributeError s o
            | st => if has_name st a
                    then ROk s (match st with Partial _ => Obs (swallowed o) (dynuses o) (S (partial_uses o)) | _ => o end)
                    else RErr EAttributeError s o
            end
          end
        | ADynUse m =>
          match sm_get s m with
          | Done _ => ROk s o
          | _ => ROk s (Obs (swallowed o) (S (dynuses o)) (partial_uses o))
          end
        | ATry body handler =>
          match run f s o cur body with
          | ROk s1 o1 => ROk s1 o1
          | RErr EImportError s1 o1 => run f s1 (Obs (S (swallowed o1)) (dynuses o1) (partial_uses o1)) cur handler
          | RErr e s1 o1 => RErr e s1 o1
          end
        end in
      match r with
      | ROk s1 o1 => run f s1 o1 cur rest
      | RErr e s1 o1 => RErr e s1 o1
      end
    end
  end.

(* an entry program: a sequence of top-level import statements in a fresh interpreter *)
Inductive entry := EImport (m : nat) | EFrom (m : nat) (names : list str).
Definition entry_action (e : entry) : action := match e with EImport m => AImport m | EFrom m n => AFrom m n end.

Inductive verdict := VOk | VFail (e : ierr) | VDegraded (o : obs).
Definition run_program (fuel : nat) (prog : list entry) : verdict :=
  (* the program itself is a pseudo-module numbered by a value outside the table *)
  match run fuel [] obs0 4999 (map entry_action prog) with
  | ROk _ o => match o with
               | Obs 0 0 _ => VOk
               | _ => VDegraded o
               end
  | RErr e _ _ => VFail e
  end.
End Machine.
