(* Inputs.v — definitions only: model of css_match.Inputs.parse_value and of the decision
   part of CSSMatch.match_range.  The shapes are the REGENERATED regexes (T1), the field
   validators are the REGENERATED functions (T4); what is hand-written is the glue:
   group extraction, int(), the tuple construction and the comparisons. *)
From SV Require Export Base Regex Calendar Lit.
From SV.gen Require Import PureGen RegexGen.
Local Open Scope Z_scope.

(* a parsed value: a tuple of integers, or a number (mantissa / 10^scale, exact) *)
Inductive pv := PTuple (l : list Z) | PNum (mant : Z) (scale : Z).

(* int(m.group(g), 10); int(None) is a TypeError *)
Definition grp_int (s : str) (c : caps) (g : nat) : res Z :=
  match group s c g with Some d => Ok (int10 d) | None => Raise TypeError end.

(* float(str) of the RE_NUM shape  -?(D+(.D+)?|.D+)([eE][-+]?D+)?  as an exact decimal
   mant * 10^(-scale) *)
Fixpoint dec_parse (s : str) (seen_dot : bool) (mant : Z) (scale : Z) : Z * Z :=
  match s with
  | [] => (mant, scale)
  | c :: s' =>
    if N.eqb c 46 then dec_parse s' true mant scale
    else if N.eqb c 101 || N.eqb c 69 then        (* e / E : exponent *)
      match s' with
      | 45%N :: d => (mant, scale + int10 d)
      | 43%N :: d => (mant, scale - int10 d)
      | d => (mant, scale - int10 d)
      end
    else dec_parse s' seen_dot (mant * 10 + digit_val c) (if seen_dot then scale + 1 else scale)
  end.
Definition float_of (s : str) : pv :=
  match s with
  | 45%N :: s' => let '(m, k) := dec_parse s' false 0 0 in PNum (- m) k
  | _ => let '(m, k) := dec_parse s false 0 0 in PNum m k
  end.

Definition ok_if (b : bool) (v : pv) : res (option pv) := Ok (if b then Some v else None).

(* Inputs.parse_value(itype, value) with value a str (None is handled by the caller) *)
Definition parse_value (itype : str) (s : str) : res (option pv) :=
  if str_eqb itype T_date then
    match rmatch cm_RE_DATE s 0 with
    | None => Ok None
    | Some (_, c) =>
      do y <- grp_int s c cm_RE_DATE_g_year ;; do m <- grp_int s c cm_RE_DATE_g_month ;;
      do d <- grp_int s c cm_RE_DATE_g_day ;;
      ok_if (validate_year y && validate_month m && validate_day y m d) (PTuple [y; m; d])
    end
  else if str_eqb itype T_month then
    match rmatch cm_RE_MONTH s 0 with
    | None => Ok None
    | Some (_, c) =>
      do y <- grp_int s c cm_RE_MONTH_g_year ;; do m <- grp_int s c cm_RE_MONTH_g_month ;;
      ok_if (validate_year y && validate_month m) (PTuple [y; m])
    end
  else if str_eqb itype T_week then
    match rmatch cm_RE_WEEK s 0 with
    | None => Ok None
    | Some (_, c) =>
      do y <- grp_int s c cm_RE_WEEK_g_year ;; do w <- grp_int s c cm_RE_WEEK_g_week ;;
      if validate_year y
      then (do b <- validate_week y w ;; ok_if b (PTuple [y; w]))
      else Ok None
    end
  else if str_eqb itype T_time then
    match rmatch cm_RE_TIME s 0 with
    | None => Ok None
    | Some (_, c) =>
      do h <- grp_int s c cm_RE_TIME_g_hour ;; do mi <- grp_int s c cm_RE_TIME_g_minutes ;;
      ok_if (validate_hour h && validate_minutes mi) (PTuple [h; mi])
    end
  else if str_eqb itype T_datetime then
    match rmatch cm_RE_DATETIME s 0 with
    | None => Ok None
    | Some (_, c) =>
      do y <- grp_int s c cm_RE_DATETIME_g_year ;; do m <- grp_int s c cm_RE_DATETIME_g_month ;;
      do d <- grp_int s c cm_RE_DATETIME_g_day ;; do h <- grp_int s c cm_RE_DATETIME_g_hour ;;
      do mi <- grp_int s c cm_RE_DATETIME_g_minutes ;;
      ok_if (validate_year y && validate_month m && validate_day y m d &&
             validate_hour h && validate_minutes mi) (PTuple [y; m; d; h; mi])
    end
  else if str_eqb itype T_number || str_eqb itype T_range then
    match rmatch cm_RE_NUM s 0 with
    | None => Ok None
    | Some (_, c) =>
      match group s c cm_RE_NUM_g_value with
      | Some v => Ok (Some (float_of v))
      | None => Raise TypeError
      end
    end
  else Ok None.

Definition parse_opt (itype : str) (v : option str) : res (option pv) :=
  match v with None => Ok None | Some s => parse_value itype s end.

(* Python's  a < b  on the parsed values (same shape by construction; a shape mismatch
   between a tuple and a number would be a TypeError) *)
Definition pv_ltb (a b : pv) : res bool :=
  match a, b with
  | PTuple x, PTuple y => Ok (tuple_ltb x y)
  | PNum m1 k1, PNum m2 k2 =>
    let K := Z.max k1 k2 in Ok (m1 * 10 ^ (K - k1) <? m2 * 10 ^ (K - k2))
  | _, _ => Raise TypeError
  end.
Definition pv_gtb (a b : pv) : res bool := pv_ltb b a.

(* The decision part of CSSMatch.match_range: itype is the lowered type attribute,
   mn/mx/value the raw attribute strings (None = attribute absent).
   in_range = (condition & SEL_IN_RANGE) != 0. *)
Definition is_time (itype : str) : bool := str_eqb itype T_time.
Definition is_linear (itype : str) : bool :=
  str_eqb itype T_date || str_eqb itype T_datetime || str_eqb itype T_month ||
  str_eqb itype T_week || str_eqb itype T_number || str_eqb itype T_range.

Definition out_of_range_linear (mn mx : option pv) (v : pv) : res bool :=
  do lo <- match mn with Some m => pv_ltb v m | None => Ok false end ;;
  if lo then Ok true
  else match mx with Some m => pv_gtb v m | None => Ok false end.

(* the decision on parsed values (at least one of mn, mx is Some) *)
Definition range_decide (itype : str) (mn mx value : option pv) (in_range : bool) : res bool :=
  do out <-
    match value with
    | None => Ok false
    | Some v =>
      if is_linear itype then out_of_range_linear mn mx v
      else if is_time itype then
        match mn, mx with
        | Some a, Some b =>
          do rev <- pv_gtb a b ;;
          if rev then (do x <- pv_ltb v a ;; do y <- pv_gtb v b ;; Ok (x && y))
          else out_of_range_linear mn mx v
        | _, _ => out_of_range_linear mn mx v
        end
      else Ok false
    end ;;
  Ok (if in_range then negb out else out).

Definition match_range (itype : str) (mn_s mx_s value_s : option str) (in_range : bool) : res bool :=
  do mn <- parse_opt itype mn_s ;;
  do mx <- parse_opt itype mx_s ;;
  match mn, mx with
  | None, None => Ok false
  | _, _ => do value <- parse_opt itype value_s ;; range_decide itype mn mx value in_range
  end.
