(* LangFacts.v — the language-range filter of match_lang against RFC 4647 section 3.3.2. *)
From SV Require Import Base Regex Tree IR Lit Inputs Match.

(* RFC 4647 3.3.2, steps 3-4, on the remaining range subtags (wildcards already removed, as the
   code does with RE_WILD_STRIP) and the remaining subtags of the language tag. *)
Inductive ext_rest : list str -> list str -> Prop :=
| ER_done : forall ss, ext_rest [] ss
| ER_match : forall r rs ss, r <> [] -> ext_rest rs ss -> ext_rest (r :: rs) (r :: ss)
| ER_skip : forall r rs s ss, r <> [] -> s <> r -> length s <> 1%nat ->
    ext_rest (r :: rs) ss -> ext_rest (r :: rs) (s :: ss).

Lemma str_eqb_false a b : str_eqb a b = false <-> a <> b.
Proof.
  split.
  - intros H E. apply str_eqb_eq in E. congruence.
  - intros H. destruct (str_eqb a b) eqn:E; [apply str_eqb_eq in E; contradiction | reflexivity].
Qed.

Lemma elf_loop_sound fuel rs ss : (length rs + length ss < fuel)%nat ->
  elf_loop fuel rs ss = true -> ext_rest rs ss.
Proof.
  revert rs ss. induction fuel as [|f IH]; intros rs ss Hf H; [lia|].
  destruct rs as [|r rs]; [constructor|].
  cbn [elf_loop] in H. destruct ss as [|s ss]; [discriminate|].
  destruct (str_eqb r []) eqn:Er; [discriminate|]. apply str_eqb_false in Er.
  destruct (str_eqb s r) eqn:Es.
  - apply str_eqb_eq in Es. subst s. apply ER_match; [exact Er|]. apply IH; [simpl in Hf; lia | exact H].
  - apply str_eqb_false in Es. destruct (Nat.eqb (length s) 1) eqn:El; [discriminate|].
    apply Nat.eqb_neq in El. apply ER_skip; try assumption. apply IH; [simpl in *; lia | exact H].
Qed.

Lemma elf_loop_complete fuel rs ss : (length rs + length ss < fuel)%nat ->
  ext_rest rs ss -> elf_loop fuel rs ss = true.
Proof.
  intros Hf H. revert fuel Hf. induction H as [ss | r rs ss Hr H IH | r rs s ss Hr Hs Hl H IH]; intros fuel Hf.
  - destruct fuel; reflexivity.
  - destruct fuel as [|f]; [lia|]. cbn [elf_loop].
    apply str_eqb_false in Hr. rewrite Hr, str_eqb_refl. apply IH. simpl in *. lia.
  - destruct fuel as [|f]; [lia|]. cbn [elf_loop].
    apply str_eqb_false in Hr. rewrite Hr. apply str_eqb_false in Hs. rewrite Hs.
    apply Nat.eqb_neq in Hl. rewrite Hl. apply IH. simpl in *. lia.
Qed.

(* The whole decision on subtag lists. *)
Definition elf_spec (ranges subtags : list str) : Prop :=
  match ranges, subtags with
  | r :: rs, s :: ss =>
    (rs = [] /\ ss = [] /\ r = [] /\ s = []) \/
    (((r = L_star /\ ~ (ss = [] /\ s = [])) \/ (r <> L_star /\ r <> [] /\ r = s)) /\ ext_rest rs ss)
  | _, _ => False
  end.

Theorem elf_core_spec ranges subtags : elf_core ranges subtags = true <-> elf_spec ranges subtags.
Proof.
  unfold elf_core, elf_spec. destruct ranges as [|r rs]; [split; [discriminate | tauto]|].
  destruct subtags as [|s ss]; [split; [discriminate | tauto]|].
  cbn [length].
  destruct (Nat.eqb (S (length rs)) 1 && Nat.eqb (S (length ss)) 1 && str_eqb r [] && str_eqb r s) eqn:E0.
  - apply andb_true_iff in E0 as [E0 E4]. apply andb_true_iff in E0 as [E0 E3].
    apply andb_true_iff in E0 as [E1 E2].
    apply Nat.eqb_eq in E1, E2. apply str_eqb_eq in E3, E4.
    destruct rs; [|discriminate]. destruct ss; [|discriminate]. subst. split; [intros _; left; auto | auto].
  - destruct (str_eqb r L_star) eqn:Estar.
    + apply str_eqb_eq in Estar. subst r. cbn [negb andb orb].
      replace (str_eqb L_star []) with false by reflexivity. rewrite orb_false_r.
      destruct (Nat.eqb (S (length ss)) 1 && str_eqb s []) eqn:E1.
      * apply andb_true_iff in E1 as [E1 E2]. apply Nat.eqb_eq in E1. apply str_eqb_eq in E2.
        destruct ss; [|discriminate]. subst s. split; [discriminate|].
        intros [(_ & _ & H & _) | [[[_ H] | [H _]] _]]; [discriminate H | exfalso; apply H; auto | congruence].
      * split.
        -- intros H. right. split.
           ++ left. split; [reflexivity|]. intros [-> ->]. simpl in E1. discriminate.
           ++ apply elf_loop_sound with (fuel := (length rs + length ss + 1)%nat); [lia | exact H].
        -- intros [(_ & _ & H & _) | [_ H]]; [discriminate H|].
           apply elf_loop_complete; [lia | exact H].
    + cbn [negb andb orb].
      destruct (str_eqb r s) eqn:Ers; cbn [negb orb].
      * apply str_eqb_eq in Ers. subst s. apply str_eqb_false in Estar.
        destruct (str_eqb r []) eqn:Er.
        -- apply str_eqb_eq in Er. subst r. split; [discriminate|].
           intros [(-> & -> & _ & _) | [[[H _] | (_ & H & _)] _]]; [simpl in E0; discriminate | congruence | congruence].
        -- apply str_eqb_false in Er. split.
           ++ intros H. right. split; [right; auto|].
              apply elf_loop_sound with (fuel := (length rs + length ss + 1)%nat); [lia | exact H].
           ++ intros [(-> & -> & -> & _) | [_ H]].
              ** congruence.
              ** apply elf_loop_complete; [lia | exact H].
      * apply str_eqb_false in Ers. apply str_eqb_false in Estar. split; [discriminate|].
        intros [(_ & _ & -> & ->) | [[[H _] | (_ & _ & H)] _]]; congruence.
Qed.
