(* LangWalk.v — which attribute carries an element's language, and where the walk stops (C13, second half). *)
From SV Require Import Base Regex Tree IR Lit Inputs Match.
Local Open Scope bool_scope.

Section L.
Variable cx : ctx.
Notation t := (c_tree cx).

(* the language attribute of an element: `lang` (compared as a whole name; case-insensitively in HTML) when the tree
   is not namespace-aware or the element is in the XHTML namespace, `xml:lang` (XML namespace + local name) otherwise *)
Definition is_lang_key (has_ns html_ns : bool) (k : akey) : bool :=
  let kk := if c_is_xml cx then k_full k else lower (k_full k) in
  let an := match k_name k with Some a => Some (if c_is_xml cx then a else lower a) | None => None end in
  ((negb has_ns || html_ns) && str_eqb kk L_lang)
  || (has_ns && negb html_ns && opt_str_eqb (k_ns k) NS_XML && opt_str_eqb an L_lang).

(* the loop returns the (normalised) value of the FIRST such attribute, None if there is none *)
Theorem lang_attr_first has_ns html_ns l :
  (forall kv, In kv l -> exists v, normalize_value (snd kv) = Ok v) ->
  lang_attr cx has_ns html_ns l =
  match find (fun kv => is_lang_key has_ns html_ns (fst kv)) l with
  | Some kv => match normalize_value (snd kv) with Ok v => Ok (Some v) | Raise e => Raise e end
  | None => Ok None
  end.
Proof.
  induction l as [|[k v0] l IH]; intros Hn; [reflexivity|]. cbn [lang_attr find fst snd].
  destruct (Hn (k, v0) (or_introl eq_refl)) as [v Hv]. cbn [snd] in Hv. rewrite Hv. cbn [bind].
  fold (is_lang_key has_ns html_ns k). destruct (is_lang_key has_ns html_ns k); [cbn [snd]; rewrite Hv; reflexivity|].
  apply IH. intros kv Hin. apply Hn. right. exact Hin.
Qed.

(* the language an element inherits: its own language attribute, else its parent's language, within its own document
   (get_parent with the iframe restriction of HTML documents); None at the top *)
Inductive lang_of : path -> option nval -> Prop :=
  | LO_here p v : lang_attr cx (supports_namespaces cx) (has_html_ns cx p) (attrs_at cx p) = Ok (Some v) -> lang_of p (Some v)
  | LO_top p : lang_attr cx (supports_namespaces cx) (has_html_ns cx p) (attrs_at cx p) = Ok None ->
               get_parent cx p (c_is_html cx) = None -> lang_of p None
  | LO_up p pp r : lang_attr cx (supports_namespaces cx) (has_html_ns cx p) (attrs_at cx p) = Ok None ->
               get_parent cx p (c_is_html cx) = Some pp -> lang_of pp r -> lang_of p r.

Theorem lang_walk_sound fuel : forall p r last top, lang_walk cx fuel p = Ok (r, last, top) -> lang_of p r.
Proof.
  induction fuel as [|f IH]; intros p r last top; cbn [lang_walk]; unfold bind;
  destruct (lang_attr cx (supports_namespaces cx) (has_html_ns cx p) (attrs_at cx p)) as [[v|]|e] eqn:E; intros H; try discriminate H.
  - destruct (get_parent cx p (c_is_html cx)); injection H as <- _ _; apply LO_here; exact E.
  - destruct (get_parent cx p (c_is_html cx)) eqn:G; [discriminate H|]. injection H as <- _ _. apply LO_top; assumption.
  - destruct (get_parent cx p (c_is_html cx)); injection H as <- _ _; apply LO_here; exact E.
  - destruct (get_parent cx p (c_is_html cx)) as [pp|] eqn:G.
    + eapply LO_up; [exact E | exact G | exact (IH _ _ _ _ H)].
    + injection H as <- _ _. apply LO_top; assumption.
Qed.

(* and the inherited language is unique (the walk is a function of the tree) *)
Theorem lang_of_functional p r1 r2 : lang_of p r1 -> lang_of p r2 -> r1 = r2.
Proof.
  intros H1. revert r2. induction H1 as [p v E | p E G | p pp r E G H IH]; intros r2 H2; inversion H2; subst; try congruence.
  apply IH. congruence.
Qed.
End L.
Print Assumptions lang_walk_sound.
