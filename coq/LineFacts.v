(* LineFacts.v — util.get_pattern_context computes the line and column of every offset of every string (C20). *)
From SV Require Import Base Regex Diag.
From SV.gen Require Import RegexGen.
From Coq Require Import ZifyBool.
Local Open Scope bool_scope.

Notation R := util_RE_PATTERN_LINE_SPLIT.
Definition is_nl (c : cp) : bool := (c =? 10)%N || (c =? 13)%N.

Lemma mem13 c : cs_mem c [(13, 13)]%N = (c =? 13)%N.
Proof. unfold cs_mem. cbn [existsb fst snd]. lia. Qed.
Lemma mem10 c : cs_mem c [(10, 10)]%N = (c =? 10)%N.
Proof. unfold cs_mem. cbn [existsb fst snd]. lia. Qed.
Lemma mem1013 c : cs_mem c [(10, 10); (13, 13)]%N = is_nl c.
Proof. unfold cs_mem, is_nl. cbn [existsb fst snd]. lia. Qed.

(* what the REGENERATED line-split pattern matches at a position: CR LF, a lone CR or LF, or the empty string at the very end *)
Lemma rmatch_R p b a : rmatch_st R (St p b a) =
  match a with
  | [] => Some (St p b [], [])
  | c :: rest =>
    if (c =? 13)%N then
      match rest with
      | d :: rest' => if (d =? 10)%N then Some (St (S (S p)) (d :: c :: b) rest', []) else Some (St (S p) (c :: b) rest, [])
      | [] => Some (St (S p) (c :: b) rest, [])
      end
    else if (c =? 10)%N then Some (St (S p) (c :: b) rest, []) else None
  end.
Proof.
  unfold rmatch_st, R. destruct a as [|c rest]; [reflexivity|].
  cbn [ends st_adv after pos before]. rewrite mem13.
  destruct (N.eqb_spec c 13) as [->|H13].
  - cbn [flat_map app fst snd st_adv after pos before]. destruct rest as [|d rest'].
    + cbn [app flat_map fst snd st_adv after pos before]. rewrite mem1013. reflexivity.
    + cbn [app flat_map fst snd st_adv after pos before]. rewrite mem10.
      destruct (d =? 10)%N; cbn [app flat_map fst snd st_adv after pos before hd_error]; [reflexivity|].
      rewrite mem1013. reflexivity.
  - cbn [flat_map app fst snd st_adv after pos before]. rewrite mem1013. unfold is_nl.
    replace (c =? 13)%N with false by lia. rewrite orb_false_r.
    destruct (N.eqb_spec c 10) as [->|H10]; [reflexivity|].
    cbn [app]. destruct rest as [|d rest']; cbn [at_end_b]; [|reflexivity].
    replace (c =? 10)%N with false by lia. reflexivity.
Qed.

(* ---- the matches finditer yields: one per line break, then the empty match at the end ---- *)
Fixpoint brks (a : str) (p : nat) : list (nat * nat) :=
  match a with
  | [] => [(p, p)]
  | c :: rest =>
    if (c =? 13)%N then
      match rest with
      | d :: rest' => if (d =? 10)%N then (p, S (S p)) :: brks rest' (S (S p)) else (p, S p) :: brks rest (S p)
      | [] => (p, S p) :: brks rest (S p)
      end
    else if (c =? 10)%N then (p, S p) :: brks rest (S p) else brks rest (S p)
  end.

Definition proj (x : state * state * caps) : nat * nat * caps := match x with (a, b, c) => (pos a, pos b, c) end.
Definition tag (ab : nat * nat) : nat * nat * caps := (fst ab, snd ab, []).

(* the first match found by a search starting at (p, b, a), and the state after it *)
Fixpoint scan (p : nat) (b a : str) : state * state :=
  match a with
  | [] => (St p b [], St p b [])
  | c :: rest =>
    if (c =? 13)%N then
      match rest with
      | d :: rest' => if (d =? 10)%N then (St p b a, St (S (S p)) (d :: c :: b) rest') else (St p b a, St (S p) (c :: b) rest)
      | [] => (St p b a, St (S p) (c :: b) rest)
      end
    else if (c =? 10)%N then (St p b a, St (S p) (c :: b) rest) else scan (S p) (c :: b) rest
  end.

Lemma rsearch_R a : forall p b fuel, length a <= fuel ->
  rsearch_st fuel R (St p b a) = Some (fst (scan p b a), snd (scan p b a), []).
Proof.
  induction a as [|c rest IH]; intros p b fuel Hf.
  - destruct fuel; cbn [rsearch_st]; rewrite rmatch_R; reflexivity.
  - destruct fuel as [|f]; [simpl in Hf; lia|]. cbn [rsearch_st scan]. rewrite rmatch_R.
    destruct (c =? 13)%N.
    + destruct rest as [|d rest']; [reflexivity|]. destruct (d =? 10)%N; reflexivity.
    + destruct (c =? 10)%N; [reflexivity|]. cbn [st_adv after pos before]. apply IH. simpl in Hf. lia.
Qed.

Lemma ends_R_end p b : ends R (St p b []) [] = [(St p b [], [])].
Proof. reflexivity. Qed.

Lemma finditer_R n : forall a p b fuel, length a <= n -> n + 2 <= fuel ->
  map proj (finditer_st fuel false R (St p b a)) = map tag (brks a p).
Proof.
  induction n as [n IHn] using lt_wf_ind. intros a p b fuel Hn Hf.
  destruct fuel as [|f]; [lia|]. cbn [finditer_st]. unfold rsearch_from. cbn [after].
  rewrite (rsearch_R a p b (length a) (le_n _)).
  destruct a as [|c rest].
  - cbn [scan fst snd map proj pos brks tag]. rewrite Nat.eqb_refl.
    destruct f as [|f']; [lia|]. cbn [finditer_st]. unfold rsearch_from, rmatch_st_nonempty. rewrite ends_R_end.
    cbn [find fst pos]. rewrite Nat.eqb_refl. cbn [negb st_adv after]. reflexivity.
  - cbn [scan brks]. cbn [length] in Hn.
    destruct (c =? 13)%N.
    + destruct rest as [|d rest'].
      * cbn [fst snd map proj pos tag]. replace (p =? S p) with false by lia. f_equal.
        apply (IHn (n - 1)); cbn [length]; lia.
      * destruct (d =? 10)%N; cbn [fst snd map proj pos tag].
        -- replace (p =? S (S p)) with false by lia. f_equal. cbn [length] in Hn. apply (IHn (n - 2)); lia.
        -- replace (p =? S p) with false by lia. f_equal. apply (IHn (n - 1)); cbn [length] in *; lia.
    + destruct (c =? 10)%N.
      * cbn [fst snd map proj pos tag]. replace (p =? S p) with false by lia. f_equal.
        apply (IHn (n - 1)); lia.
      * (* an ordinary character: the search from here and from the next position find the same match *)
        assert (E : finditer_st (S f) false R (St (S p) (c :: b) rest) =
                    (fst (scan (S p) (c :: b) rest), snd (scan (S p) (c :: b) rest), @nil (nat * (nat * nat)))
                    :: finditer_st f (pos (fst (scan (S p) (c :: b) rest)) =? pos (snd (scan (S p) (c :: b) rest))) R
                                   (snd (scan (S p) (c :: b) rest))).
        { cbn [finditer_st]. unfold rsearch_from. cbn [after]. rewrite (rsearch_R rest (S p) (c :: b) (length rest) (le_n _)). reflexivity. }
        transitivity (map proj (finditer_st (S f) false R (St (S p) (c :: b) rest))); [rewrite E; reflexivity|]. apply (IHn (n - 1)); lia.
Qed.

Theorem finditer_line_split s : finditer R s = map tag (brks s 0).
Proof.
  unfold finditer, st_init. rewrite <- (finditer_R (length s) s 0 [] (S (S (length s)))) by lia.
  apply map_ext. intros [[a b] c]. reflexivity.
Qed.

(* ---- the loop of get_pattern_context, keeping only line and column ---- *)
Local Open Scope Z_scope.
Fixpoint lc_loop (index : Z) (ms : list (nat * nat)) (last : nat) (current_line col : Z) (started : bool) (line : Z) : Z * Z :=
  match ms with
  | [] => (line, col)
  | (a, b) :: ms' =>
    let empty_m := Nat.eqb a b in
    let zlast := Z.of_nat last in
    if empty_m && negb started then lc_loop index ms' b (current_line + 1) (index - zlast + 1) true current_line
    else if ((zlast <=? index) && (index <? Z.of_nat b)) || (empty_m && (index =? Z.of_nat b))
         then lc_loop index ms' b (current_line + 1) (index - zlast + 1) true current_line
         else lc_loop index ms' b (current_line + 1) col true line
  end.

Lemma gpc_loop_lc pattern index ms : forall last cl col text started line,
  let '(_, l, c) := gpc_loop pattern index (map tag ms) last cl col text started line in
  (l, c) = lc_loop index ms last cl col started line.
Proof.
  induction ms as [|[a b] ms IH]; intros last cl col text started line; [reflexivity|].
  cbn [map tag fst snd gpc_loop lc_loop].
  destruct (Nat.eqb a b && negb started); [apply IH|].
  destruct (((Z.of_nat last <=? index) && (index <? Z.of_nat b)) || (Nat.eqb a b && (index =? Z.of_nat b))); apply IH.
Qed.

Ltac case_if := match goal with |- context [if ?b then _ else _] => destruct b eqn:? end.

(* once the offset lies before the start of the current line nothing changes any more *)
Lemma lc_stable index n : forall a p ls cl col line, (length a <= n)%nat -> index < Z.of_nat ls -> (ls <= p)%nat ->
  lc_loop index (brks a p) ls cl col true line = (line, col).
Proof.
  induction n as [n IHn] using lt_wf_ind. intros a p ls cl col line Hn Hi Hp. destruct a as [|c rest].
  - cbn [brks lc_loop]. rewrite Nat.eqb_refl. cbn [negb andb]. case_if; [lia | reflexivity].
  - cbn [brks]. cbn [length] in Hn.
    assert (Hstep : forall k rest', (length rest' <= n - 1)%nat -> (1 <= k)%nat ->
              lc_loop index ((p, (p + k)%nat) :: brks rest' (p + k)%nat) ls cl col true line = (line, col)).
    { intros k rest' Hl Hk. cbn [lc_loop]. replace (Nat.eqb p (p + k)) with false by lia. cbn [andb negb orb].
      case_if; [lia|]. apply (IHn (n - 1)%nat); lia. }
    destruct (c =? 13)%N.
    + destruct rest as [|d rest'].
      * replace (S p) with (p + 1)%nat by lia. apply Hstep; cbn [length]; lia.
      * cbn [length] in Hn. destruct (d =? 10)%N.
        -- replace (S (S p)) with (p + 2)%nat by lia. apply Hstep; lia.
        -- replace (S p) with (p + 1)%nat by lia. apply Hstep; cbn [length]; lia.
    + destruct (c =? 10)%N.
      * replace (S p) with (p + 1)%nat by lia. apply Hstep; lia.
      * apply (IHn (n - 1)%nat); lia.
Qed.

(* the specification's recursion, with its literal patterns spelled as tests *)
Lemma lcf_cons c s' i' line ls pos :
  line_col_from (c :: s') (S i') line ls pos =
  if (c =? 13)%N && match s' with d :: _ => (d =? 10)%N | [] => false end then
    match s', i' with
    | _ :: s'', S i'' => line_col_from s'' i'' (line + 1) (pos + 2) (pos + 2)
    | _, _ => (line, Z.of_nat (S pos) - Z.of_nat ls + 1)
    end
  else if (c =? 10)%N || (c =? 13)%N then line_col_from s' i' (line + 1) (S pos) (S pos)
  else line_col_from s' i' line ls (S pos).
Proof.
  destruct (N.eqb_spec c 13) as [->|Hc].
  - destruct s' as [|d s'']; [reflexivity|]. destruct (N.eqb_spec d 10) as [->|Hd]; [destruct i'; reflexivity|].
    cbn [andb]. destruct d as [|q]; [reflexivity|]. do 4 (destruct q as [q|q|]; try reflexivity). contradiction.
  - cbn [andb]. replace (c =? 13)%N with false by lia. rewrite orb_false_r.
    destruct c as [|q]; [reflexivity|]. do 4 (destruct q as [q|q|]; try reflexivity). contradiction.
Qed.

(* the loop against the specification: ls = start of the current line, p = how far the text has been scanned *)
Lemma lc_spec n : forall a p ls cl col started line index,
  (length a <= n)%nat -> (ls <= p)%nat -> Z.of_nat ls <= index <= Z.of_nat (p + length a) ->
  lc_loop index (brks a p) ls cl col started line =
  if index <? Z.of_nat p then (cl, index - Z.of_nat ls + 1)
  else line_col_from a (Z.to_nat (index - Z.of_nat p)) cl ls p.
Proof.
  induction n as [n IHn] using lt_wf_ind. intros a p ls cl col started line index Hn Hp Hi. destruct a as [|c rest].
  - cbn [brks lc_loop length] in *. rewrite Nat.eqb_refl. cbn [andb].
    assert (Hres : (if index <? Z.of_nat p then (cl, index - Z.of_nat ls + 1)
                    else line_col_from [] (Z.to_nat (index - Z.of_nat p)) cl ls p) = (cl, index - Z.of_nat ls + 1)).
    { case_if; [reflexivity|]. replace (Z.to_nat (index - Z.of_nat p)) with 0%nat by lia. cbn [line_col_from]. f_equal. lia. }
    rewrite Hres. destruct started; cbn [negb]; [|reflexivity]. case_if; [reflexivity | lia].
  - cbn [length] in Hn, Hi.
    (* a line break of k characters at p, followed by rest' *)
    assert (Hbrk : forall k rest', (1 <= k)%nat -> (length rest' + k = S (length rest))%nat ->
              let lhs := lc_loop index ((p, (p + k)%nat) :: brks rest' (p + k)%nat) ls cl col started line in
              (index < Z.of_nat (p + k) -> lhs = (cl, index - Z.of_nat ls + 1)) /\
              (Z.of_nat (p + k) <= index ->
               lhs = line_col_from rest' (Z.to_nat (index - Z.of_nat (p + k))) (cl + 1) (p + k) (p + k))).
    { intros k rest' Hk Hl lhs. subst lhs. cbn [lc_loop]. replace (Nat.eqb p (p + k)) with false by lia. cbn [andb orb].
      destruct ((Z.of_nat ls <=? index) && (index <? Z.of_nat (p + k))) eqn:E; cbn [orb].
      - rewrite (lc_stable index (length rest') rest' (p + k) (p + k)) by lia. split; [reflexivity | lia].
      - rewrite (IHn (length rest') ltac:(lia) rest' (p + k)%nat (p + k)%nat) by lia.
        replace (index <? Z.of_nat (p + k)) with false by lia. split; [lia | reflexivity]. }
    assert (Hord : (c =? 13)%N = false -> (c =? 10)%N = false ->
              lc_loop index (brks rest (S p)) ls cl col started line =
              if index <? Z.of_nat (S p) then (cl, index - Z.of_nat ls + 1)
              else line_col_from rest (Z.to_nat (index - Z.of_nat (S p))) cl ls (S p)).
    { intros _ _. apply (IHn (length rest)); lia. }
    destruct (Z.to_nat (index - Z.of_nat p)) as [|i'] eqn:Ei.
    + (* the offset is at p or before it: the answer is the current line *)
      assert (Hgoal : (if index <? Z.of_nat p then (cl, index - Z.of_nat ls + 1) else line_col_from (c :: rest) 0 cl ls p)
                      = (cl, index - Z.of_nat ls + 1)).
      { case_if; [reflexivity|]. cbn [line_col_from]. f_equal. lia. }
      rewrite Hgoal. cbn [brks].
      destruct (c =? 13)%N eqn:E13.
      * destruct rest as [|d rest'].
        -- replace (S p) with (p + 1)%nat by lia. apply (Hbrk 1%nat []); cbn [length]; lia.
        -- destruct (d =? 10)%N.
           ++ replace (S (S p)) with (p + 2)%nat by lia. apply (Hbrk 2%nat rest'); cbn [length]; lia.
           ++ replace (S p) with (p + 1)%nat by lia. apply (Hbrk 1%nat (d :: rest')); cbn [length]; lia.
      * destruct (c =? 10)%N eqn:E10.
        -- replace (S p) with (p + 1)%nat by lia. apply (Hbrk 1%nat rest); lia.
        -- rewrite (Hord eq_refl eq_refl). replace (index <? Z.of_nat (S p)) with true by lia. reflexivity.
    + (* strictly after p *)
      replace (index <? Z.of_nat p) with false by lia.
      rewrite lcf_cons. cbn [brks].
      destruct (N.eqb_spec c 13) as [->|Hc13].
      * cbn [N.eqb andb orb]. destruct rest as [|d rest'].
        -- cbn [length] in Hi.
           replace (S p) with (p + 1)%nat by lia. destruct (Hbrk 1%nat [] ltac:(lia) ltac:(cbn; lia)) as [_ H2].
           rewrite H2 by lia. cbn [Pos.eqb orb]. replace (Z.to_nat (index - Z.of_nat (p + 1))) with i' by lia.
           replace (p + 1)%nat with (S p) by lia. reflexivity.
        -- destruct (N.eqb_spec d 10) as [->|Hd10].
           ++ replace (S (S p)) with (p + 2)%nat by lia. destruct (Hbrk 2%nat rest' ltac:(lia) ltac:(cbn [length]; lia)) as [H1 H2].
              destruct i' as [|i''].
              ** rewrite H1 by lia. f_equal. lia.
              ** rewrite H2 by lia. f_equal. lia.
           ++ replace (d =? 10)%N with false by lia. cbn [andb].
              replace (S p) with (p + 1)%nat by lia. destruct (Hbrk 1%nat (d :: rest') ltac:(lia) ltac:(cbn [length]; lia)) as [_ H2].
              rewrite H2 by lia. replace (p + 1)%nat with (S p) by lia. cbn [Pos.eqb orb]. f_equal. lia.
      * replace (c =? 13)%N with false by lia. cbn [andb]. rewrite orb_false_r.
        destruct (N.eqb_spec c 10) as [->|Hc10].
        -- replace (S p) with (p + 1)%nat by lia. destruct (Hbrk 1%nat rest ltac:(lia) ltac:(lia)) as [_ H2].
           rewrite H2 by lia. replace (p + 1)%nat with (S p) by lia. f_equal. lia.
        -- rewrite Hord by lia. replace (index <? Z.of_nat (S p)) with false by lia. f_equal. lia.
Qed.

(* ---- the theorem: for EVERY string and EVERY offset in it, get_pattern_context's line and column are the
   specification's (line = 1 + number of line breaks wholly before the offset; column counted from the line start;
   CR LF, CR and LF are line breaks) ---- *)
Theorem gpc_line_col s i : (i <= length s)%nat ->
  let '(_, line, col) := get_pattern_context s (Z.of_nat i) in (line, col) = line_col s i.
Proof.
  intros Hi. unfold get_pattern_context. rewrite finditer_line_split.
  pose proof (gpc_loop_lc s (Z.of_nat i) (brks s 0) 0%nat 1 1 [] false 1) as H.
  destruct (gpc_loop s (Z.of_nat i) (map tag (brks s 0)) 0 1 1 [] false 1) as [[txt l] c]. rewrite H.
  rewrite (lc_spec (length s) s 0%nat 0%nat 1 1 false 1 (Z.of_nat i)) by lia.
  replace (Z.of_nat i <? Z.of_nat 0) with false by lia. unfold line_col. f_equal. lia.
Qed.
Print Assumptions gpc_line_col.
