(* Lit.v — ASCII string literals used by the model, as code-point lists.
   (Kept in one file so that Coq's String library is imported nowhere else.) *)
From SV Require Import Base.
From Coq Require Import String.
Local Open Scope string_scope.
Definition T_date := s2l "date".
Definition T_month := s2l "month".
Definition T_week := s2l "week".
Definition T_time := s2l "time".
Definition T_datetime := s2l "datetime-local".
Definition T_number := s2l "number".
Definition T_range := s2l "range".

Definition NS_XHTML := s2l "http://www.w3.org/1999/xhtml".
Definition NS_XML := s2l "http://www.w3.org/XML/1998/namespace".
Definition L_iframe := s2l "iframe".
Definition L_star := s2l "*".
Definition L_class := s2l "class".
Definition L_id := s2l "id".
Definition L_ltr := s2l "ltr".
Definition L_rtl := s2l "rtl".
Definition L_auto := s2l "auto".
Definition L_bdi := s2l "bdi".
Definition L_script := s2l "script".
Definition L_style := s2l "style".
Definition L_textarea := s2l "textarea".
Definition L_text := s2l "text".
Definition L_search := s2l "search".
Definition L_tel := s2l "tel".
Definition L_url := s2l "url".
Definition L_email := s2l "email".
Definition L_input := s2l "input".
Definition L_type := s2l "type".
Definition L_value := s2l "value".
Definition L_dir := s2l "dir".
Definition L_min := s2l "min".
Definition L_max := s2l "max".
Definition L_lang := s2l "lang".
Definition L_html := s2l "html".
Definition L_head := s2l "head".
Definition L_meta := s2l "meta".
Definition L_http_equiv := s2l "http-equiv".
Definition L_content := s2l "content".
Definition L_content_language := s2l "content-language".
Definition L_form := s2l "form".
Definition L_button := s2l "button".
Definition L_submit := s2l "submit".
Definition L_name := s2l "name".
Definition L_checked := s2l "checked".
Definition L_radio := s2l "radio".
Definition REL_PARENT := s2l " ".
Definition REL_CLOSE_PARENT := s2l ">".
Definition REL_SIBLING := s2l "~".
Definition REL_CLOSE_SIBLING := s2l "+".
Definition REL_HAS_PARENT := s2l ": ".
Definition REL_HAS_CLOSE_PARENT := s2l ":>".
Definition REL_HAS_SIBLING := s2l ":~".
Definition REL_HAS_CLOSE_SIBLING := s2l ":+".
Definition s2l_de := s2l "de".
Definition s2l_DE := s2l "de".
Definition s2l_latn := s2l "latn".
Definition s2l_x := s2l "x".
Definition s2l_range1 := s2l "de-*-DE".
Definition s2l_tag1 := s2l "de-Latn-DE-1996".
