(* Lit.v — ASCII string literals used by the model, as code-point lists.
   (Kept in one file so that Coq's String library is imported nowhere else.) *)
From SV Require Import Base.
From Coq Require Import String.
Local Open Scope string_scope.
Definition T_date := s2l "date".
Definition T_month := s2l "month".
Definition T_week := s2l "week".
Definition T_time := s2l "time".
Definition T_datetime := s2l "datetime-local".
Definition T_number := s2l "number".
Definition T_range := s2l "range".
