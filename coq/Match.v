(* Match.v — definitions only: the matcher (mirror of soupsieve.css_match.CSSMatch and
   _DocumentNav), one function per method, same order of tests.  The three per-call
   memo tables are an explicit state threaded through every function (monad M);
   Python exceptions are explicit (`Raise`).  Recursion into nested selector lists
   consumes `fuel` (IR.sl_depth bounds it); tree walks are structural. *)
From SV Require Export Base Regex Tree IR Lit Inputs.
From SV.gen Require Import RegexGen.
Local Open Scope bool_scope.

(* ------------------------------------------------------------------ the state monad *)
Record memo := Memo {
  m_lang : list (path * option (str + list str));     (* cached_meta_lang: (root, language) *)
  m_default : list (path * path);                     (* cached_default_forms: (form, button) *)
  m_indet : list (path * option (str + list str) * bool)  (* cached_indeterminate_forms *)
}.
Definition memo0 : memo := Memo [] [] [].

Definition M (A : Type) := memo -> res (A * memo).
Definition ret {A} (a : A) : M A := fun m => Ok (a, m).
Definition raise {A} (e : exn) : M A := fun _ => Raise e.
Definition bindM {A B} (c : M A) (f : A -> M B) : M B :=
  fun m => match c m with Ok (a, m') => f a m' | Raise e => Raise e end.
Definition lift {A} (r : res A) : M A := fun m => match r with Ok a => Ok (a, m) | Raise e => Raise e end.
Notation "'mdo' x <- c ;;; k" := (bindM c (fun x => k)) (at level 200, x name, c at level 100, k at level 200).

(* `for x in l: if f(x): found; break` *)
Fixpoint existsM {A} (f : A -> M bool) (l : list A) : M bool :=
  match l with
  | [] => ret false
  | x :: l' => mdo b <- f x ;;; if b then ret true else existsM f l'
  end.
(* evaluate all, no short-circuit (match_subselectors) *)
Fixpoint allM_noshort {A} (f : A -> M bool) (l : list A) : M bool :=
  match l with
  | [] => ret true
  | x :: l' => mdo b <- f x ;;; mdo r <- allM_noshort f l' ;;; ret (b && r)
  end.
(* `for x in l: if not f(x): return False` *)
Fixpoint forallM {A} (f : A -> M bool) (l : list A) : M bool :=
  match l with
  | [] => ret true
  | x :: l' => mdo b <- f x ;;; if b then forallM f l' else ret false
  end.

(* ------------------------------------------------------------------ values *)
Definition nval := (str + list str)%type.      (* normalize_value result: str | list[str] *)

(* normalize_value for an item of a list *)
Definition norm_item (v : pyval) : res str :=
  match v with
  | PStr s => Ok s
  | PNone => Ok []
  | PBytes (Some s) => Ok s
  | PBytes None => Raise UnicodeDecodeError
  | PList _ r => Ok r
  | POther r => Ok r
  end.
Fixpoint map_res {A B} (f : A -> res B) (l : list A) : res (list B) :=
  match l with
  | [] => Ok []
  | x :: l' => do y <- f x ;; do ys <- map_res f l' ;; Ok (y :: ys)
  end.
Definition normalize_value (v : pyval) : res nval :=
  match v with
  | PList items _ => do l <- map_res norm_item items ;; Ok (inr l)
  | _ => do s <- norm_item v ;; Ok (inl s)
  end.

(* util.lower on a value that may not be a str: a list is unhashable for the lru_cache *)
Definition lower_nval (v : nval) : res str :=
  match v with inl s => Ok (lower s) | inr _ => Raise TypeError end.
Definition lower_opt_nval (v : option nval) : res str :=
  match v with Some x => lower_nval x | None => Raise TypeError end.
Definition nval_eq_str (v : nval) (s : str) : bool :=
  match v with inl x => str_eqb x s | inr _ => false end.
(* Python truthiness of a str | list *)
Definition nval_truthy (v : nval) : bool :=
  match v with inl [] => false | inr [] => false | _ => true end.

Fixpoint join_sp (l : list str) : str :=
  match l with
  | [] => []
  | [x] => x
  | x :: l' => x ++ [32%N] ++ join_sp l'
  end.

(* str.strip() is non-empty: some character that is not Python whitespace *)
Definition py_isspace (c : cp) : bool :=
  ((9 <=? c) && (c <=? 13) || (28 <=? c) && (c <=? 32) || (c =? 133) || (c =? 160) || (c =? 5760)
   || (8192 <=? c) && (c <=? 8202) || (c =? 8232) || (c =? 8233) || (c =? 8239) || (c =? 8287)
   || (c =? 12288))%N.
Definition strip_nonempty (s : str) : bool := existsb (fun c => negb (py_isspace c)) s.

(* ------------------------------------------------------------------ context *)
Record ctx := Ctx {
  c_tree : tree;
  c_scope : option path;
  c_root : option path;
  c_is_xml : bool;
  c_is_html : bool;
  c_has_html_ns : bool;
}.
(* the two fields match_selectors swaps and restores *)
Record env := Env { e_ns : list (str * str); e_iframe : bool }.

Definition ns_get (ns : list (str * str)) (k : str) : option str :=
  match find (fun kv => str_eqb (fst kv) k) ns with Some kv => Some (snd kv) | None => None end.

Section Matcher.
Variable bidi : cp -> N.     (* unicodedata.bidirectional: 1 = L, 2 = R, 3 = AL, 0 = anything else *)
Variable cx : ctx.
Let t := c_tree cx.

Definition node_at (p : path) : option node := get t p.
Definition name_at (p : path) : str := match node_at p with Some n => match node_name n with Some s => s | None => [] end | None => [] end.
Definition attrs_at (p : path) : list (akey * pyval) := match node_at p with Some n => node_attrs n | None => [] end.

Definition has_html_ns (p : path) : bool :=
  match node_at p with
  | Some n => match node_ns n with Some u => negb (str_eqb u []) && str_eqb u NS_XHTML | None => false end
  | None => false
  end.
Definition supports_namespaces : bool := c_is_xml cx || c_has_html_ns cx.
Definition get_tag_ns (p : path) : str :=
  if supports_namespaces then
    match node_at p with
    | Some n => match node_ns n with Some u => u | None => [] end
    | None => []
    end
  else NS_XHTML.
Definition is_html_tag (p : path) : bool := str_eqb (get_tag_ns p) NS_XHTML.
Definition get_tag (p : path) : str := if c_is_xml cx then name_at p else lower (name_at p).
Definition get_prefix (p : path) : option str :=
  match node_at p with
  | Some n => match node_prefix n with Some s => Some (if c_is_xml cx then s else lower s) | None => None end
  | None => None
  end.
Definition is_iframe (p : path) : bool :=
  str_eqb (if t_xml t then name_at p else lower (name_at p)) L_iframe && is_html_tag p.

Definition get_parent (p : path) (no_iframe : bool) : option path :=
  match parent_path p with
  | Some pp => if no_iframe && is_iframe pp then None else Some pp
  | None => None
  end.
Definition is_root (p : path) : bool :=
  match c_root cx with
  | Some r => if path_eqb r p then true
              else match get_parent p false with
                   | Some pp => c_is_html cx && is_iframe pp
                   | None => false
                   end
  | None => match get_parent p false with
            | Some pp => c_is_html cx && is_iframe pp
            | None => false
            end
  end.

Definition get_contents (p : path) (no_iframe : bool) : list (path * node) :=
  if no_iframe && is_iframe p then [] else children t p.
Definition get_tag_children (p : path) (no_iframe : bool) : list path :=
  map fst (filter (fun pn => is_elem (snd pn)) (get_contents p no_iframe)).

(* descendants in document order; with no_iframe an iframe element is yielded but not entered *)
Fixpoint desc_from (fuel : nat) (no_iframe : bool) (kids : list (path * node)) : list (path * node) :=
  match fuel with
  | O => []
  | S f =>
    flat_map (fun pn =>
                pn :: (if is_elem (snd pn) && negb (no_iframe && is_iframe (fst pn))
                       then desc_from f no_iframe (children t (fst pn)) else []))
             kids
  end.
Definition get_descendants (p : path) (no_iframe : bool) : list (path * node) :=
  if no_iframe && is_iframe p then []
  else match node_at p with
       | Some n => desc_from (node_depth n) no_iframe (children t p)
       | None => []
       end.
Definition get_tag_descendants (p : path) (no_iframe : bool) : list path :=
  map fst (filter (fun pn => is_elem (snd pn)) (get_descendants p no_iframe)).

Definition is_content_string (n : node) : bool := match n with Str KText _ => true | _ => false end.
Definition is_special_string (n : node) : bool :=
  match n with Str KText _ => false | Str _ _ => true | _ => false end.
Definition str_of (n : node) : str := match n with Str _ s => s | _ => [] end.

Definition get_text (p : path) (no_iframe : bool) : str :=
  concat (map (fun pn => str_of (snd pn)) (filter (fun pn => is_content_string (snd pn)) (get_descendants p no_iframe))).
Definition get_own_text (p : path) (no_iframe : bool) : list str :=
  map (fun pn => str_of (snd pn)) (filter (fun pn => is_content_string (snd pn)) (get_contents p no_iframe)).

Definition prev_tag (p : path) : option path :=
  match find (fun pn => is_elem (snd pn)) (siblings_before t p) with Some pn => Some (fst pn) | None => None end.
Definition next_tag (p : path) : option path :=
  match find (fun pn => is_elem (snd pn)) (siblings_after t p) with Some pn => Some (fst pn) | None => None end.
Definition prev_tags (p : path) : list path := map fst (filter (fun pn => is_elem (snd pn)) (siblings_before t p)).
Definition next_tags (p : path) : list path := map fst (filter (fun pn => is_elem (snd pn)) (siblings_after t p)).

(* get_attribute_by_name(el, name): None when absent *)
Fixpoint attr_html (name : str) (l : list (akey * pyval)) : res (option nval) :=
  match l with
  | [] => Ok None
  | (k, v) :: l' => if str_eqb (lower (k_full k)) name
                    then (do x <- normalize_value v ;; Ok (Some x))
                    else attr_html name l'
  end.
Definition get_attribute_by_name (p : path) (name : str) : res (option nval) :=
  if t_xml t then
    match find (fun kv => str_eqb (k_full (fst kv)) name) (attrs_at p) with
    | Some kv => do x <- normalize_value (snd kv) ;; Ok (Some x)
    | None => Ok None
    end
  else attr_html name (attrs_at p).
Definition attr_default (p : path) (name : str) (d : nval) : res nval :=
  do v <- get_attribute_by_name p name ;; Ok (match v with Some x => x | None => d end).

(* RE_NOT_WS.findall *)
Definition findall_not_ws (s : str) : list str :=
  map (fun m => match m with (a, b, _) => substr s a b end) (finditer cm_RE_NOT_WS s).
Definition get_classes (p : path) : res (list str) :=
  do v <- attr_default p L_class (inr []) ;;
  Ok (match v with inl s => findall_not_ws s | inr l => l end).

(* ------------------------------------------------------------------ simple predicates *)
Definition opt_str_eqb (a : option str) (b : str) : bool := match a with Some x => str_eqb x b | None => false end.

Fixpoint man_ns (is_xml : bool) (star : bool) (ns : option str) (attr : str) (l : list (akey * pyval))
  : res (option nval) :=
  match l with
  | [] => Ok None
  | (k, v0) :: l' =>
    do v <- normalize_value v0 ;;
    let whole := if is_xml then str_eqb attr (k_full k) else str_eqb (lower attr) (lower (k_full k)) in
    match ns, star with
    | None, false =>
      (* no prefix given: match the whole attribute name *)
      if whole then Ok (Some v) else man_ns is_xml star ns attr l'
    | _, _ =>
      match k_ns k with
      | None =>
        (* attribute without a namespace: only `*|attr` can match it, by its whole name *)
        if star then (if whole then Ok (Some v) else man_ns is_xml star ns attr l')
        else man_ns is_xml star ns attr l'
      | Some kn =>
        if negb star && negb (match ns with Some u => str_eqb u kn | None => false end)
        then man_ns is_xml star ns attr l'
        else match k_name k with
             | None => if is_xml then man_ns is_xml star ns attr l' else Raise TypeError
             | Some nm =>
               if (if is_xml then str_eqb attr nm else str_eqb (lower attr) (lower nm))
               then Ok (Some v) else man_ns is_xml star ns attr l'
             end
      end
    end
  end.
Fixpoint man_plain (attr : str) (l : list (akey * pyval)) : res (option nval) :=
  match l with
  | [] => Ok None
  | (k, v0) :: l' =>
    do v <- normalize_value v0 ;;
    if str_eqb (lower attr) (lower (k_full k)) then Ok (Some v) else man_plain attr l'
  end.
Definition match_attribute_name (e : env) (p : path) (attr prefix : str) : res (option nval) :=
  if supports_namespaces then
    match prefix with
    | [] => man_ns (c_is_xml cx) false None attr (attrs_at p)
    | _ =>
      let star := str_eqb prefix L_star in
      match ns_get (e_ns e) prefix with
      | None => if star then man_ns (c_is_xml cx) true None attr (attrs_at p) else Ok None
      | Some u => man_ns (c_is_xml cx) star (Some u) attr (attrs_at p)
      end
    end
  else man_plain attr (attrs_at p).

Definition match_one_attribute (e : env) (p : path) (a : sattr) : res bool :=
  do temp <- match_attribute_name e p (at_name a) (at_prefix a) ;;
  let pattern := match at_xml_pat a with
                 | Some x => if c_is_xml cx then Some x else at_pat a
                 | None => at_pat a
                 end in
  match temp with
  | None => Ok false
  | Some v =>
    let value := match v with inl s => s | inr l => join_sp l end in
    match pattern with
    | None => Ok true
    | Some r => Ok (match rmatch r value 0 with Some _ => true | None => false end)
    end
  end.
Fixpoint match_attributes (e : env) (p : path) (l : list sattr) : res bool :=
  match l with
  | [] => Ok true
  | a :: l' => do b <- match_one_attribute e p a ;; if b then match_attributes e p l' else Ok false
  end.

Definition match_namespace (e : env) (p : path) (tg : stag) : bool :=
  let namespace := get_tag_ns p in
  let default_namespace := ns_get (e_ns e) [] in
  match tg_prefix tg with
  | None => match default_namespace with
            | Some d => str_eqb namespace d
            | None => true
            end
  | Some [] => str_eqb namespace []
  | Some pf =>
    if str_eqb pf L_star then true
    else match ns_get (e_ns e) pf with
         | None => false
         | Some u => str_eqb namespace u
         end
  end.
Definition match_tagname (p : path) (tg : stag) : bool :=
  let name := if c_is_xml cx then tg_name tg else lower (tg_name tg) in
  str_eqb name (get_tag p) || str_eqb name L_star.
Definition match_tag (e : env) (p : path) (tg : option stag) : bool :=
  match tg with
  | None => true
  | Some x => match_namespace e p x && match_tagname p x
  end.

Fixpoint match_id (p : path) (ids : list str) : res bool :=
  match ids with
  | [] => Ok true
  | i :: l => do v <- attr_default p L_id (inl []) ;;
              if nval_eq_str v i then match_id p l else Ok false
  end.
Definition match_classes (p : path) (classes : list str) : res bool :=
  do cur <- get_classes p ;;
  Ok (forallb (fun c => existsb (str_eqb c) cur) classes).

(* match_root: el is the root and no sibling is a tag, non-blank text or CDATA *)
Definition root_blocker (n : node) : bool :=
  match n with
  | Elem _ _ _ _ _ => true
  | Str KText s => strip_nonempty s
  | Str KCData _ => true
  | _ => false
  end.
Definition match_root (p : path) : bool :=
  is_root p && negb (existsb (fun pn => root_blocker (snd pn)) (siblings_before t p))
            && negb (existsb (fun pn => root_blocker (snd pn)) (siblings_after t p)).
Definition match_scope (p : path) : bool :=
  match c_scope cx with Some s => path_eqb s p | None => false end.
Definition match_nth_tag_type (p child : path) : bool :=
  str_eqb (get_tag child) (get_tag p) && str_eqb (get_tag_ns child) (get_tag_ns p).

Definition match_empty (p : path) : bool :=
  forallb (fun pn => match snd pn with
                     | Elem _ _ _ _ _ => false
                     | Str KText s => match rsearch cm_RE_NOT_EMPTY s with Some _ => false | None => true end
                     | _ => true
                     end) (children t p).

Definition match_defined (p : path) : bool :=
  let name := get_tag p in
  negb (existsb (N.eqb 45) name) || existsb (N.eqb 58) name
  || match get_prefix p with Some _ => true | None => false end.

Definition match_placeholder_shown (p : path) : bool :=
  let content := get_text p false in
  str_eqb content [] || str_eqb content [10%N].

Definition match_contains_one (p : path) (c : scontains) (own : list str) (full : str) : bool :=
  if ct_own c then existsb (fun tx => existsb (fun o => substrb tx o) own) (ct_text c)
  else existsb (fun tx => substrb tx full) (ct_text c).
Definition match_contains (p : path) (l : list scontains) : bool :=
  forallb (fun c => match_contains_one p c (get_own_text p (c_is_html cx)) (get_text p (c_is_html cx))) l.

(* ------------------------------------------------------------------ direction *)
Definition dir_of (v : str) : option N :=      (* DIR_MAP.get *)
  if str_eqb v L_ltr then Some SEL_DIR_LTR else if str_eqb v L_rtl then Some SEL_DIR_RTL
  else if str_eqb v L_auto then Some 0%N else None.
Fixpoint first_strong (s : str) : option N :=
  match s with
  | [] => None
  | c :: s' => match bidi c with
               | 1%N => Some SEL_DIR_LTR
               | 2%N | 3%N => Some SEL_DIR_RTL
               | _ => first_strong s'
               end
  end.
Definition skip_names : list str := [L_bdi; L_script; L_style; L_textarea; L_iframe].

Fixpoint find_bidi (fuel : nat) (p : path) : res (option N) :=
  match fuel with
  | O => Ok None
  | S f =>
    (fix go (l : list (path * node)) : res (option N) :=
       match l with
       | [] => Ok None
       | (cp_, n) :: l' =>
         match n with
         | Elem _ _ _ _ _ =>
           do dv <- attr_default cp_ L_dir (inl []) ;;
           do dl <- lower_nval dv ;;
           let direction := dir_of dl in
           let name := get_tag cp_ in
           if (negb (str_eqb name []) && existsb (str_eqb name) skip_names)
              || negb (is_html_tag cp_)
              || match direction with Some _ => true | None => false end
           then go l'
           else do v <- find_bidi f cp_ ;;
                match v with Some d => Ok (Some d) | None => go l' end
         | Str KText s => match first_strong s with Some d => Ok (Some d) | None => go l' end
         | Str _ _ => go l'
         end
       end) (children t p)
  end.

Definition text_inputs : list str := [L_text; L_search; L_tel; L_url; L_email].

(* get_dir_parent: the nearest HTML ancestor (direction is inherited through foreign ancestors) *)
Fixpoint dir_parent (fuel : nat) (p : path) : option path :=
  match get_parent p true with
  | None => None
  | Some pp => if is_html_tag pp then Some pp
               else match fuel with O => None | S f => dir_parent f pp end
  end.
Fixpoint match_dir (fuel : nat) (op : option path) (dirn : N) : res bool :=
  match fuel with
  | O => Raise OutOfFuel
  | S f =>
    if has_flag dirn SEL_DIR_LTR && has_flag dirn SEL_DIR_RTL then Ok false
    else match op with
    | None => Ok false
    | Some p =>
      if negb (is_html_tag p) then Ok false else
      do dv <- attr_default p L_dir (inl []) ;;
      do dl <- lower_nval dv ;;
      let direction := dir_of dl in
      match direction with
      | Some d => if negb (N.eqb d 0) then Ok (N.eqb d dirn) else
        (* direction == 0 (auto) *)
        let root := is_root p in
        let name := get_tag p in
        let is_input := str_eqb name L_input in
        let is_textarea := str_eqb name L_textarea in
        do itype <- (if is_input then (do tv <- attr_default p L_type (inl []) ;; lower_nval tv) else Ok []) ;;
        if (is_input && existsb (str_eqb itype) text_inputs) || is_textarea then
          do value <- (if is_textarea
                       then Ok (inl (concat (get_own_text p true)))
                       else attr_default p L_value (inl [])) ;;
          if nval_truthy value then
            match value with
            | inl s => match first_strong s with
                       | Some d' => Ok (N.eqb d' dirn)
                       | None => Ok (N.eqb SEL_DIR_LTR dirn)
                       end
            | inr l =>
              (fix go (l : list str) : res bool :=
                 match l with
                 | [] => Ok (N.eqb SEL_DIR_LTR dirn)
                 | [c] :: l' => match first_strong [c] with
                                | Some d' => Ok (N.eqb d' dirn)
                                | None => go l'
                                end
                 | _ :: _ => Raise TypeError
                 end) l
            end
          else if root then Ok (N.eqb SEL_DIR_LTR dirn)
          else match_dir f (dir_parent (length p) p) dirn
        else
          do fb <- find_bidi (node_depth (match node_at p with Some n => n | None => Str KText [] end)) p ;;
          match fb with
          | Some d' => Ok (N.eqb d' dirn)
          | None => if root then Ok (N.eqb SEL_DIR_LTR dirn) else match_dir f (dir_parent (length p) p) dirn
          end
      | None =>
        let root := is_root p in
        if root then Ok (N.eqb SEL_DIR_LTR dirn) else
        let name := get_tag p in
        let is_input := str_eqb name L_input in
        let is_bdi := str_eqb name L_bdi in
        do itype <- (if is_input then (do tv <- attr_default p L_type (inl []) ;; lower_nval tv) else Ok []) ;;
        if is_input && str_eqb itype L_tel then Ok (N.eqb SEL_DIR_LTR dirn)
        else if is_bdi then
          do fb <- find_bidi (node_depth (match node_at p with Some n => n | None => Str KText [] end)) p ;;
          match fb with
          | Some d' => Ok (N.eqb d' dirn)
          | None => match_dir f (dir_parent (length p) p) dirn      (* is_root is false here *)
          end
        else match_dir f (dir_parent (length p) p) dirn
      end
    end
  end.

(* ------------------------------------------------------------------ range *)
Definition known_itype (itype : str) : bool := is_linear itype || is_time itype.
(* Inputs.parse_value on an attribute value: a list reaches a regex .match only for the known types *)
Definition parse_nval (itype : str) (v : option nval) : res (option pv) :=
  match v with
  | None => Ok None
  | Some (inl s) => parse_value itype s
  | Some (inr _) => if known_itype itype then Raise TypeError else Ok None
  end.
Definition match_range_el (p : path) (in_range : bool) : res bool :=
  do tv <- attr_default p L_type (inl []) ;;
  do itype <- lower_nval tv ;;
  do mn <- get_attribute_by_name p L_min ;; do mnp <- parse_nval itype mn ;;
  do mx <- get_attribute_by_name p L_max ;; do mxp <- parse_nval itype mx ;;
  match mnp, mxp with
  | None, None => Ok false
  | _, _ => do va <- get_attribute_by_name p L_value ;; do vp <- parse_nval itype va ;;
            range_decide itype mnp mxp vp in_range
  end.

(* ------------------------------------------------------------------ language *)
Definition split_on (sep : cp) (s : str) : list str :=
  let fix go (s : str) (cur : str) : list str :=
      match s with
      | [] => [rev cur]
      | c :: s' => if N.eqb c sep then rev cur :: go s' [] else go s' (c :: cur)
      end in go s [].
(* re.sub('', ...) with RE_WILD_STRIP: delete every match *)
Definition sub_delete (r : re) (s : str) : str :=
  let ms := finditer r s in
  let fix go (ms : list (nat * nat * caps)) (i : nat) : str :=
      match ms with
      | [] => skipn i s
      | (a, b, _) :: ms' => substr s i a ++ go ms' b
      end in go ms 0.

Fixpoint elf_loop (fuel : nat) (ranges subtags : list str) : bool :=
  (* the `while match and rindex < length` loop on the remaining ranges / subtags *)
  match fuel with
  | O => true
  | S f =>
    match ranges with
    | [] => true
    | r :: rs =>
      match subtags with
      | [] => false
      | s :: ss =>
        if str_eqb r [] then false
        else if str_eqb s r then elf_loop f rs ss
        else if Nat.eqb (length s) 1 then false
        else elf_loop f ranges ss
      end
    end
  end.
(* on the split, lower-cased subtag lists *)
Definition elf_core (ranges subtags : list str) : bool :=
  match ranges, subtags with
  | r :: rs, s :: ss =>
    if Nat.eqb (length ranges) 1 && Nat.eqb (length subtags) 1 && str_eqb r [] && str_eqb r s then true
    else if (negb (str_eqb r L_star) && negb (str_eqb r s))
            || (str_eqb r L_star && Nat.eqb (length subtags) 1 && str_eqb s [])
            || str_eqb r [] then false
    else elf_loop (length rs + length ss + 1) rs ss
  | _, _ => false
  end.
Definition extended_language_filter (lang_range lang_tag : str) : bool :=
  elf_core (split_on 45%N (lower (sub_delete cm_RE_WILD_STRIP lang_range))) (split_on 45%N (lower lang_tag)).

(* the attribute loop of match_lang on one element: first lang / xml:lang value *)
Fixpoint lang_attr (has_ns html_ns : bool) (l : list (akey * pyval)) : res (option nval) :=
  match l with
  | [] => Ok None
  | (k, v0) :: l' =>
    do v <- normalize_value v0 ;;
    let kk := if c_is_xml cx then k_full k else lower (k_full k) in
    let an := match k_name k with
              | Some a => Some (if c_is_xml cx then a else lower a)
              | None => None
              end in
    if ((negb has_ns || html_ns) && str_eqb kk L_lang)
       || (has_ns && negb html_ns && opt_str_eqb (k_ns k) NS_XML && opt_str_eqb an L_lang)
    then Ok (Some v) else lang_attr has_ns html_ns l'
  end.
(* walk up: returns (found_lang, last element reached, stopped_at_top) *)
Fixpoint lang_walk (fuel : nat) (p : path) : res (option nval * path * bool) :=
  do f <- lang_attr supports_namespaces (has_html_ns p) (attrs_at p) ;;
  match f with
  | Some v =>
    (* the loop still advances `parent` once before re-testing found_lang *)
    match get_parent p (c_is_html cx) with
    | None => Ok (Some v, p, true)
    | Some pp => Ok (Some v, pp, false)
    end
  | None =>
    match get_parent p (c_is_html cx) with
    | None => Ok (None, p, true)
    | Some pp => match fuel with O => Raise OutOfFuel | S f' => lang_walk f' pp end
    end
  end.

Definition find_child_tag (p : path) (tag : str) : option path :=
  find (fun c => str_eqb (get_tag c) tag && is_html_tag c) (get_tag_children p (c_is_html cx)).

(* the attribute loop on one <meta>: Some content when http-equiv=content-language and content seen *)
Fixpoint meta_attrs (l : list (akey * pyval)) (c_lang : bool) (content : option nval) : res (option nval) :=
  match l with
  | [] => Ok None
  | (k, v0) :: l' =>
    do v <- normalize_value v0 ;;
    let kl := lower (k_full k) in
    do c_lang' <- (if str_eqb kl L_http_equiv
                   then (do vl <- lower_nval v ;; Ok (c_lang || str_eqb vl L_content_language))
                   else Ok c_lang) ;;
    let content' := if str_eqb kl L_content then Some v else content in
    match content' with
    | Some c => if c_lang' && nval_truthy c then Ok (Some c) else meta_attrs l' c_lang' content'
    | None => meta_attrs l' c_lang' content'
    end
  end.
Fixpoint meta_scan (head : path) (l : list (path * node)) : res (option nval) :=
  match l with
  | [] => Ok None
  | (cp_, n) :: l' =>
    if is_elem n && str_eqb (get_tag cp_) L_meta && is_html_tag head
    then do r <- meta_attrs (attrs_at cp_) false None ;;
         match r with Some c => Ok (Some c) | None => meta_scan head l' end
    else meta_scan head l'
  end.

Definition lang_matches (langs : list (list str)) (found : nval) : res bool :=
  match found with
  | inr _ => match langs with
             | [] => Ok false
             | [] :: _ => Ok false
             | _ => Raise AttributeError
             end
  | inl tagv =>
    Ok (match langs with
        | [] => false
        | _ => forallb (fun patterns => existsb (fun pat => extended_language_filter pat tagv) patterns) langs
        end)
  end.

Definition match_lang (p : path) (langs : list (list str)) : M bool :=
  mdo w <- lift (lang_walk (length p) p) ;;;
  let '(found0, last, at_top) := w in
  (* root / has_html_namespace / parent after the loop *)
  let root := if at_top then Some last else c_root cx in
  let has_html_namespace := if at_top then has_html_ns last else c_has_html_ns cx in
  let parent := last in
  fun m =>
  let cached := match found0 with
                | Some _ => None
                | None => match root with
                          | Some r => fold_left (fun acc e => if path_eqb (fst e) r then Some (snd e) else acc)
                                                (m_lang m) None
                          | None => None
                          end
                end in
  let found1 := match found0 with Some v => Some v | None => match cached with Some c => c | None => None end end in
  let is_cached := match cached with Some _ => true | None => false end in
  let root_is_html := match root with
                      | Some r => str_eqb (name_at r) L_html
                      | None => false
                      end in
  let search := match found1 with
                | Some _ => false
                | None => negb is_cached && (negb (c_is_xml cx) || (has_html_namespace && root_is_html))
                end in
  let after (found : option nval) (m' : memo) : res (bool * memo) :=
      match found with
      | Some v => match lang_matches langs v with Ok b => Ok (b, m') | Raise e => Raise e end
      | None => Ok (false, m')
      end in
  if negb search then after found1 m
  else
    match find_child_tag parent L_html with
    | None => after None m
    | Some h =>
      match find_child_tag h L_head with
      | None => after None m
      | Some hd =>
        match meta_scan hd (children t hd) with
        | Raise e => Raise e
        | Ok r =>
          let key := match root with Some r' => r' | None => [] end in
          let m' := Memo (m_lang m ++ [(key, r)]) (m_default m) (m_indet m) in
          after r m'
        end
      end
    end.

(* ------------------------------------------------------------------ :default, :indeterminate *)
Fixpoint find_form (fuel : nat) (op : option path) : option path :=
  match op with
  | None => None
  | Some p => if str_eqb (get_tag p) L_form && is_html_tag p then Some p
              else match fuel with O => None | S f => find_form f (get_parent p true) end
  end.

(* scan of the form's descendants for the first submit button; stops at a nested form *)
Fixpoint default_scan (l : list path) : res (option path) :=
  match l with
  | [] => Ok None
  | c :: l' =>
    let name := get_tag c in
    if str_eqb name L_form then Ok None
    else if str_eqb name L_input || str_eqb name L_button then
      do v <- attr_default c L_type (inl []) ;;
      if nval_truthy v then
        do vl <- lower_nval v ;;
        if str_eqb vl L_submit then Ok (Some c) else default_scan l'
      else default_scan l'
    else default_scan l'
  end.
Definition match_default (p : path) : M bool :=
  match find_form (length p) (get_parent p true) with
  | None => ret false
  | Some form =>
    fun m =>
    match find (fun ft => path_eqb (fst ft) form) (m_default m) with
    | Some ft => Ok (path_eqb (snd ft) p, m)
    | None =>
      match default_scan (get_tag_descendants form true) with
      | Raise e => Raise e
      | Ok None => Ok (false, m)
      | Ok (Some b) => Ok (path_eqb b p, Memo (m_lang m) (m_default m ++ [(form, b)]) (m_indet m))
      end
    end
  end.

(* get_parent_form of match_indeterminate: nearest form, else the top-most ancestor reached *)
Fixpoint parent_form (fuel : nat) (op : option path) (last : option path) : res (option path) :=
  match op with
  | None => Ok last   (* unreachable from the call sites: handled below *)
  | Some p =>
    if str_eqb (get_tag p) L_form && is_html_tag p then Ok (Some p)
    else match get_parent p true with
         | None => Ok (Some p)
         | Some pp => match fuel with O => Raise OutOfFuel | S f => parent_form f (Some pp) (Some p) end
         end
  end.
Definition get_parent_form (p : path) : res (option path) :=
  match get_parent p true with
  | None =>
    (* self.get_tag(None): name is None -> returns None, compared with 'form' -> False;
       then get_parent(None) -> None -> form = last_parent = None *)
    Ok None
  | Some pp => parent_form (length p) (Some pp) None
  end.

Definition nval_eqb (a b : nval) : bool :=
  match a, b with
  | inl x, inl y => str_eqb x y
  | inr x, inr y => (Nat.eqb (length x) (length y)) && forallb (fun xy => str_eqb (fst xy) (snd xy)) (combine x y)
  | _, _ => false
  end.
Definition onval_eqb (a b : option nval) : bool :=
  match a, b with
  | None, None => true
  | Some x, Some y => nval_eqb x y
  | _, _ => false
  end.

(* attribute loop on one candidate <input>: is it a checked radio of the same name in `form`? *)
Fixpoint indet_attrs (child form : path) (name : option nval) (l : list (akey * pyval))
         (is_radio check has_name : bool) : res bool :=
  match l with
  | [] => Ok false
  | (k, v0) :: l' =>
    do v <- normalize_value v0 ;;
    let kl := lower (k_full k) in
    do st <- (if str_eqb kl L_type
              then (do vl <- lower_nval v ;;
                    if str_eqb vl L_radio then Ok (true, check, has_name)
                    else if str_eqb kl L_name && onval_eqb (Some v) name then Ok (is_radio, check, true)
                    else if str_eqb kl L_checked then Ok (is_radio, true, has_name)
                    else Ok (is_radio, check, has_name))
              else if str_eqb kl L_name && onval_eqb (Some v) name then Ok (is_radio, check, true)
              else if str_eqb kl L_checked then Ok (is_radio, true, has_name)
              else Ok (is_radio, check, has_name)) ;;
    let '(r, c, h) := st in
    if r && c && h then
      do pf <- get_parent_form child ;;
      if match pf with Some f => path_eqb f form | None => false end then Ok true
      else indet_attrs child form name l' r c h
    else indet_attrs child form name l' r c h
  end.
Fixpoint indet_scan (form : path) (name : option nval) (l : list path) : res bool :=
  match l with
  | [] => Ok false
  | c :: l' =>
    if str_eqb (get_tag c) L_input then
      do ck <- indet_attrs c form name (attrs_at c) false false false ;;
      if ck then Ok true else indet_scan form name l'
    else indet_scan form name l'
  end.
Definition match_indeterminate (p : path) : M bool :=
  mdo name <- lift (get_attribute_by_name p L_name) ;;;
  mdo form <- lift (get_parent_form p) ;;;
  match form with
  | None => ret false
  | Some f =>
    fun m =>
    match find (fun e => path_eqb (fst (fst e)) f && onval_eqb (snd (fst e)) name) (m_indet m) with
    | Some e => Ok (snd e, m)
    | None =>
      match indet_scan f name (get_tag_descendants f true) with
      | Raise e => Raise e
      | Ok checked =>
        let mt := negb checked in
        Ok (mt, Memo (m_lang m) (m_default m) (m_indet m ++ [(f, name, mt)]))
      end
    end
  end.

(* ------------------------------------------------------------------ nth *)
(* idx for a given count *)
Definition nth_idx (a b : Z) (var : bool) (count : Z) : Z := if var then (a * count + b)%Z else a.

(* the bound-adjustment loop; adjust: 0 = None, -1, 1; returns the final count *)
Fixpoint nth_adjust (fuel : nat) (a b last_index : Z) (count : Z) (adjust : Z) : res Z :=
  match fuel with
  | O => Raise OutOfFuel
  | S f =>
    let idx := (a * count + b)%Z in
    if ((idx <? 1) || (idx >? last_index + 1))%Z then
      if (idx <? 1)%Z then
        let diff_low := (0 - idx)%Z in
        if (adjust =? 1)%Z then Ok count
        else
          let count' := (count + 1)%Z in
          let idx' := (a * count' + b)%Z in
          let diff := (0 - idx')%Z in
          if (diff >=? diff_low)%Z then Ok count' else nth_adjust f a b last_index count' (-1)
      else
        let diff_high := (idx - last_index)%Z in
        if (adjust =? -1)%Z then Ok count
        else
          let count' := (count + 1)%Z in
          let idx' := (a * count' + b)%Z in
          let diff := (idx' - last_index)%Z in
          if (diff >=? diff_high)%Z then Ok count' else nth_adjust f a b last_index count' 1
    else Ok count
  end.
(* a < 0: `while idx >= 1: lowest = count; count += 1` ; returns lowest *)
Fixpoint nth_lowest (fuel : nat) (a b : Z) (count lowest : Z) : res Z :=
  match fuel with
  | O => Raise OutOfFuel
  | S f => if ((a * count + b) >=? 1)%Z then nth_lowest f a b (count + 1)%Z count else Ok lowest
  end.

(* one pass of the inner `for child in get_children(parent, start=index, ...)` loop over the
   remaining children (in walk order).  `classify` says (is_counted, is_el) for a child and
   is only evaluated for the children the loop actually reaches.
   returns (rest', relative_index', matched, hit_el) *)
Fixpoint nth_inner {X} (classify : X -> M (bool * bool)) (rest : list X) (rel : Z) (idx : Z)
  : M (list X * Z * bool * bool) :=
  match rest with
  | [] => ret ([], rel, false, false)
  | x :: rest' =>
    mdo ce <- classify x ;;;
    let '(counted, is_el) := ce in
    if negb counted then nth_inner classify rest' rel idx
    else
      let rel' := (rel + 1)%Z in
      if (rel' =? idx)%Z then
        (if is_el then ret (rest', rel', true, true) else ret (rest', rel', false, false))
      else if is_el then ret (rest', rel', false, true)
      else nth_inner classify rest' rel' idx
  end.
(* the outer `while 1 <= idx <= last_index + 1` loop *)
Fixpoint nth_outer {X} (classify : X -> M (bool * bool)) (fuel : nat) (a b : Z) (var : bool)
         (last_index : Z) (count count_incr : Z) (rest : list X) (rel : Z) (idx : Z) : M bool :=
  match fuel with
  | O => raise OutOfFuel
  | S f =>
    if ((1 <=? idx) && (idx <=? last_index + 1))%Z then
      mdo r <- nth_inner classify rest rel idx ;;;
      let '(rest', rel', matched, hit) := r in
      if hit then ret matched
      else
        let count' := (count + count_incr)%Z in
        if (count' <? 0)%Z then ret false
        else
          let idx' := nth_idx a b var count' in
          if (idx' =? idx)%Z then ret false
          else nth_outer classify f a b var last_index count' count_incr rest' rel' idx'
    else ret false
  end.
Definition nth_fuel (a b last_index : Z) : nat := Z.to_nat (Z.abs a + Z.abs b + Z.abs last_index + 4).
(* the arithmetic + walk part of match_nth for one SelectorNth *)
Definition nth_core {X} (classify : X -> M (bool * bool)) (a b : Z) (var : bool) (nchildren : Z)
           (walk : list X) : M bool :=
  let last_index := (nchildren - 1)%Z in
  let fuel := nth_fuel a b last_index in
  if var then
    mdo count1 <- lift (nth_adjust (S fuel) a b last_index 0 0) ;;;
    mdo lowest <- lift (if (a <? 0)%Z then nth_lowest (S fuel) a b count1 count1 else Ok count1) ;;;
    let count_incr := if (a <? 0)%Z then (-1)%Z else 1%Z in
    nth_outer classify (S (S fuel)) a b var last_index lowest count_incr walk 0 (a * lowest + b)%Z
  else
    nth_outer classify (S (S fuel)) a b var last_index 0 1 walk 0 a.

(* ------------------------------------------------------------------ the compound / list matcher *)
Definition DIR_FLAGS : N := N.lor SEL_DIR_LTR SEL_DIR_RTL.
Definition RANGES : N := N.lor SEL_IN_RANGE SEL_OUT_OF_RANGE.
Definition html_env : env := Env [(L_html, NS_XHTML)] true.

Definition rel_is (r : option str) (s : str) : bool := opt_str_eqb r s.

(* the loop over the alternatives of a list: first matching alternative wins *)
Fixpoint sl_loop (mc : sel -> M bool) (is_not nonempty : bool) (ss : list sel) : M bool :=
  match ss with
  | [] => ret (if nonempty then is_not else false)
  | SNull :: ss' => sl_loop mc is_not nonempty ss'
  | s :: ss' => mdo ok <- mc s ;;; if ok then ret (negb is_not) else sl_loop mc is_not nonempty ss'
  end.

Fixpoint match_selectors (fuel : nat) (e : env) (p : path) (l : sellist) : M bool :=
  match fuel with
  | O => raise OutOfFuel
  | S f =>
    let is_not := sl_is_not l in
    let is_html := sl_is_html l in
    let e' := if is_html then html_env else e in
    if is_html && negb (c_is_html cx) then ret false
    else
      sl_loop (fun s => match s with
                        | SNull => ret false
                        | Sel tag ids classes attrs nth subs relation rel_type contains lang flags =>
                          match_compound f e' p tag ids classes attrs nth subs relation contains lang flags
                        end)
              is_not (match sl_sels l with [] => false | _ => true end) (sl_sels l)
  end
with match_compound (fuel : nat) (e : env) (p : path) (tag : option stag) (ids classes : list str)
       (attrs : list sattr) (nth : list snth) (subs : list sellist) (relation : sellist)
       (contains : list scontains) (lang : list (list str)) (flags : N) : M bool :=
  match fuel with
  | O => raise OutOfFuel
  | S f =>
    if negb (match_tag e p tag) then ret false else
    if has_flag flags SEL_DEFINED && negb (match_defined p) then ret false else
    if has_flag flags SEL_ROOT && negb (match_root p) then ret false else
    if has_flag flags SEL_SCOPE && negb (match_scope p) then ret false else
    if has_flag flags SEL_PLACEHOLDER_SHOWN && negb (match_placeholder_shown p) then ret false else
    mdo b_nth <- forallM (match_nth1 f e p) nth ;;;
    if negb b_nth then ret false else
    if has_flag flags SEL_EMPTY && negb (match_empty p) then ret false else
    mdo b_id <- lift (match ids with [] => Ok true | _ => match_id p ids end) ;;;
    if negb b_id then ret false else
    mdo b_cl <- lift (match classes with [] => Ok true | _ => match_classes p classes end) ;;;
    if negb b_cl then ret false else
    mdo b_at <- lift (match_attributes e p attrs) ;;;
    if negb b_at then ret false else
    mdo b_rg <- lift (if has_flag flags RANGES
                  then match_range_el p (has_flag flags SEL_IN_RANGE) else Ok true) ;;;
    if negb b_rg then ret false else
    mdo b_lg <- (match lang with [] => ret true | _ => match_lang p lang end) ;;;
    if negb b_lg then ret false else
    mdo b_sub <- (match subs with [] => ret true | _ => allM_noshort (match_selectors f e p) subs end) ;;;
    if negb b_sub then ret false else
    mdo b_rel <- (match sl_sels relation with [] => ret true | _ => match_relations f e p relation end) ;;;
    if negb b_rel then ret false else
    mdo b_def <- (if has_flag flags SEL_DEFAULT then match_default p else ret true) ;;;
    if negb b_def then ret false else
    mdo b_ind <- (if has_flag flags SEL_INDETERMINATE then match_indeterminate p else ret true) ;;;
    if negb b_ind then ret false else
    mdo b_dir <- lift (if has_flag flags DIR_FLAGS
                   then match_dir (S (S (length p))) (Some p) (N.land flags DIR_FLAGS) else Ok true) ;;;
    if negb b_dir then ret false else
    ret (match contains with [] => true | _ => match_contains p contains end)
  end
with match_relations (fuel : nat) (e : env) (p : path) (relation : sellist) : M bool :=
  match fuel with
  | O => raise OutOfFuel
  | S f =>
    match sl_sels relation with
    | [] => ret false                 (* not reached: the caller tests truthiness first *)
    | SNull :: _ => ret false
    | Sel _ _ _ _ _ _ _ rt _ _ _ :: _ =>
      match rt with
      | None => ret false
      | Some r =>
        if str_eqb r REL_PARENT then
          (* ancestors, nearest first, stopping at an iframe (when restricted) and before the document object *)
          (fix up (fuel2 : nat) (q : path) : M bool :=
             match fuel2 with
             | O => ret false
             | S f2 =>
               match get_parent q (e_iframe e) with
               | None => ret false
               | Some pp =>
                 if is_doc_path t pp then ret false
                 else mdo b <- match_selectors f e pp relation ;;; if b then ret true else up f2 pp
               end
             end) (S (length p)) p
        else if str_eqb r REL_CLOSE_PARENT then
          match get_parent p (e_iframe e) with
          | None => ret false
          | Some pp => if is_doc_path t pp then ret false else match_selectors f e pp relation
          end
        else if str_eqb r REL_SIBLING then existsM (fun q => match_selectors f e q relation) (prev_tags p)
        else if str_eqb r REL_CLOSE_SIBLING then
          match prev_tag p with Some q => match_selectors f e q relation | None => ret false end
        else if str_eqb r REL_HAS_PARENT then
          existsM (fun q => match_selectors f e q relation) (get_tag_descendants p (e_iframe e))
        else if str_eqb r REL_HAS_CLOSE_PARENT then
          existsM (fun q => match_selectors f e q relation) (get_tag_children p (e_iframe e))
        else if str_eqb r REL_HAS_SIBLING then existsM (fun q => match_selectors f e q relation) (next_tags p)
        else if str_eqb r REL_HAS_CLOSE_SIBLING then
          match next_tag p with Some q => match_selectors f e q relation | None => ret false end
        else ret false
      end
    end
  end
(* one An+B record; the records of a compound are a conjunction (forallM), evaluated in order *)
with match_nth1 (fuel : nat) (e : env) (p : path) (n : snth) : M bool :=
  match fuel with
  | O => raise OutOfFuel
  | S f =>
    match n with
    | SNth a var b of_type last s =>
      let has_s := match sl_sels s with [] => false | _ => true end in
      mdo ok0 <- (if has_s then match_selectors f e p s else ret true) ;;;
      if negb ok0 then ret false
      else
        (* parent's children; a parentless element gets a fake parent holding just itself *)
        let sibs : list (path * node) :=
            match parent_path p with
            | Some pp => children t pp
            | None => match node_at p with Some n => [(p, n)] | None => [] end
            end in
        let walk_nodes := if last then rev sibs else sibs in
        let classify (qn : path * node) : M (bool * bool) :=
            let '(q, n) := qn in
            if negb (is_elem n) then ret (false, false)
            else
              mdo c1 <- (if has_s then match_selectors f e q s else ret true) ;;;
              if negb c1 then ret (false, path_eqb q p)
              else ret (negb of_type || match_nth_tag_type p q, path_eqb q p) in
        nth_core classify a b var (Z.of_nat (length sibs)) walk_nodes
    end
  end.
Definition match_nth (fuel : nat) (e : env) (p : path) (nth : list snth) : M bool := forallM (match_nth1 fuel e p) nth.

(* ------------------------------------------------------------------ API level (CSSMatch.match/select/...) *)
Definition match_el (fuel : nat) (e : env) (sels : sellist) (p : path) : M bool :=
  if negb (is_doc_path t p) && is_tag_path t p then match_selectors fuel e p sels else ret false.

Fixpoint select_loop (fuel : nat) (e : env) (sels : sellist) (l : list path) (lim : option nat) : M (list path) :=
  match l with
  | [] => ret []
  | q :: l' =>
    mdo b <- match_el fuel e sels q ;;;
    if b then
      match lim with
      | Some (S O) | Some O => ret [q]
      | Some (S k) => mdo r <- select_loop fuel e sels l' (Some k) ;;; ret (q :: r)
      | None => mdo r <- select_loop fuel e sels l' None ;;; ret (q :: r)
      end
    else select_loop fuel e sels l' lim
  end.
End Matcher.

(* CSSMatch.__init__ *)
Definition mk_ctx (t : tree) (scope : path) : ctx :=
  let root := if t_isdoc t then hd_error (elem_children t []) else Some [] in
  let has_ns := match root with
                | Some r => match get t r with
                            | Some n => match node_ns n with
                                        | Some u => negb (str_eqb u []) && str_eqb u NS_XHTML
                                        | None => false
                                        end
                            | None => false
                            end
                | None => false
                end in
  Ctx t (match scope with [] => root | _ => Some scope end) root (t_xml t) (negb (t_xml t) || has_ns) has_ns.

Definition api_fuel (l : sellist) : nat := 3 * sl_depth l + 3.

(* SoupSieve.match / select / closest / filter(tag): a new matcher (fresh memo) per call.
   `target` must be a Tag (element or document object), else TypeError. *)
Definition valid_target (t : tree) (p : path) : bool :=
  match get t p with Some n => is_elem n | None => false end.

Definition api_match (bidi : cp -> N) (t : tree) (ns : list (str * str)) (sels : sellist) (p : path) : res bool :=
  if negb (valid_target t p) then Raise TypeError
  else match match_el bidi (mk_ctx t p) (api_fuel sels) (Env ns false) sels p memo0 with
       | Ok (b, _) => Ok b | Raise e => Raise e end.
Definition api_select (bidi : cp -> N) (t : tree) (ns : list (str * str)) (sels : sellist) (p : path) (limit : Z)
  : res (list path) :=
  if negb (valid_target t p) then Raise TypeError
  else let cx := mk_ctx t p in
       let lim := if (limit <? 1)%Z then None else Some (Z.to_nat limit) in
       match select_loop bidi cx (api_fuel sels) (Env ns false) sels (get_tag_descendants cx p false) lim memo0 with
       | Ok (l, _) => Ok l | Raise e => Raise e end.
Definition api_filter (bidi : cp -> N) (t : tree) (ns : list (str * str)) (sels : sellist) (p : path)
  : res (list path) :=
  if negb (valid_target t p) then Raise TypeError
  else let cx := mk_ctx t p in
       match select_loop bidi cx (api_fuel sels) (Env ns false) sels (elem_children t p) None memo0 with
       | Ok (l, _) => Ok l | Raise e => Raise e end.
Fixpoint closest_loop (bidi : cp -> N) (cx : ctx) (fuel : nat) (e : env) (sels : sellist) (n : nat) (p : path)
  : M (option path) :=
  mdo b <- match_el bidi cx fuel e sels p ;;;
  if b then ret (Some p)
  else match n with
       | O => ret None
       | S k => match parent_path p with
                | Some pp => closest_loop bidi cx fuel e sels k pp
                | None => ret None
                end
       end.
Definition api_closest (bidi : cp -> N) (t : tree) (ns : list (str * str)) (sels : sellist) (p : path)
  : res (option path) :=
  if negb (valid_target t p) then Raise TypeError
  else match closest_loop bidi (mk_ctx t p) (api_fuel sels) (Env ns false) sels (length p) p memo0 with
       | Ok (r, _) => Ok r | Raise e => Raise e end.
