(* MatchFacts.v — lemmas about the matcher model (Match.v). *)
From SV Require Import Base Regex Tree IR Lit Inputs Match.
Local Open Scope bool_scope.

(* normalize_value: total except for undecodable bytes *)
Definition no_bad_bytes (v : pyval) : bool :=
  match v with
  | PBytes None => false
  | PList items _ => forallb (fun i => match i with PBytes None => false | _ => true end) items
  | _ => true
  end.
Lemma norm_item_total i : (match i with PBytes None => false | _ => true end) = true -> exists s, norm_item i = Ok s.
Proof. destruct i as [s| |[s|]|l r|r]; intros H; try discriminate; eexists; reflexivity. Qed.
Lemma map_res_total items : forallb (fun i => match i with PBytes None => false | _ => true end) items = true ->
  exists l, map_res norm_item items = Ok l.
Proof.
  induction items as [|i items IH]; intros H; [eexists; reflexivity|].
  cbn [forallb] in H. apply andb_true_iff in H as [H1 H2].
  destruct (norm_item_total i H1) as [s Hs]. destruct (IH H2) as [l Hl].
  exists (s :: l). cbn [map_res]. rewrite Hs, Hl. reflexivity.
Qed.
Lemma normalize_value_total v : no_bad_bytes v = true -> exists x, normalize_value v = Ok x.
Proof.
  destruct v as [s| |[s|]|items r|r]; intros H; try discriminate; try (eexists; reflexivity).
  cbn [no_bad_bytes] in H. destruct (map_res_total items H) as [l Hl].
  exists (inr l). cbn [normalize_value]. rewrite Hl. reflexivity.
Qed.

Inductive sublist {A} : list A -> list A -> Prop :=
| sl_nil : forall l, sublist [] l
| sl_keep : forall x r l, sublist r l -> sublist (x :: r) (x :: l)
| sl_skip : forall x r l, sublist r l -> sublist r (x :: l).

Section Facts.
Variable bidi : cp -> N.
Variable cx : ctx.

(* The BeautifulSoup object is never matched as an element (CSSMatch.match). *)
Lemma match_el_doc fuel e sels p m :
  is_doc_path (c_tree cx) p = true -> match_el bidi cx fuel e sels p m = Ok (false, m).
Proof. intros H. unfold match_el. rewrite H. reflexivity. Qed.

(* a non-element (string node, or no node at all) never matches *)
Lemma match_el_not_tag fuel e sels p m :
  is_tag_path (c_tree cx) p = false -> match_el bidi cx fuel e sels p m = Ok (false, m).
Proof. intros H. unfold match_el. rewrite H. rewrite andb_false_r. reflexivity. Qed.

(* ---- monad laws used everywhere ---- *)
Lemma bindM_ret_l {A B} (a : A) (f : A -> M B) m : bindM (ret a) f m = f a m.
Proof. reflexivity. Qed.
Lemma bindM_assoc {A B C} (c : M A) (f : A -> M B) (g : B -> M C) m :
  bindM (bindM c f) g m = bindM c (fun a => bindM (f a) g) m.
Proof. unfold bindM. destruct (c m) as [[a m']|e]; reflexivity. Qed.

(* ---- selector lists: first matching alternative wins (the IR-level laws of C05) ---- *)
Section Loop.
Variable mc : sel -> M bool.

(* union: a list A ++ B matches iff A matches or else B matches *)
Lemma sl_loop_nil_ne ne ne' B m : sl_loop mc false ne B m = sl_loop mc false ne' B m.
Proof.
  revert m. induction B as [|s B IH]; intros m; cbn [sl_loop].
  - destruct ne, ne'; reflexivity.
  - destruct s; [apply IH|]. unfold bindM. destruct (mc _ m) as [[[] m']|]; [reflexivity | apply IH | reflexivity].
Qed.

Lemma sl_loop_app ne ne1 ne2 A B m :
  sl_loop mc false ne (A ++ B) m =
  bindM (sl_loop mc false ne1 A) (fun a => if a then ret true else sl_loop mc false ne2 B) m.
Proof.
  revert m. induction A as [|s A IH]; intros m.
  - cbn [app sl_loop]. unfold bindM, ret. destruct ne1; apply sl_loop_nil_ne.
  - cbn [app sl_loop]. destruct s; [apply IH|].
    unfold bindM. destruct (mc _ m) as [[[] m']|]; [reflexivity | | reflexivity].
    specialize (IH m'). unfold bindM in IH. exact IH.
Qed.

(* complement: a negated non-empty list matches iff the positive list does not *)
Lemma sl_loop_not ss m :
  sl_loop mc true true ss m = bindM (sl_loop mc false true ss) (fun a => ret (negb a)) m.
Proof.
  revert m. induction ss as [|s ss IH]; intros m; [reflexivity|].
  cbn [sl_loop]. destruct s; [apply IH|].
  unfold bindM. destruct (mc _ m) as [[[] m']|]; [reflexivity | | reflexivity].
  specialize (IH m'). unfold bindM in IH. exact IH.
Qed.

(* adding an alternative never removes a result *)
Lemma sl_loop_monotone ne A B m m' :
  sl_loop mc false ne A m = Ok (true, m') -> sl_loop mc false ne (A ++ B) m = Ok (true, m').
Proof.
  intros H. rewrite (sl_loop_app ne ne ne). unfold bindM. rewrite H. reflexivity.
Qed.
End Loop.

(* at the level of match_selectors *)
Theorem match_selectors_union f e p A B h m :
  match_selectors bidi cx (S f) e p (SL (A ++ B) false h) m =
  bindM (match_selectors bidi cx (S f) e p (SL A false h))
        (fun a => if a then ret true else match_selectors bidi cx (S f) e p (SL B false h)) m.
Proof.
  cbn [match_selectors sl_is_not sl_is_html sl_sels].
  destruct (h && negb (c_is_html cx)); [reflexivity|].
  apply sl_loop_app.
Qed.

Theorem match_selectors_complement f e p ss h m : ss <> [] ->
  (h && negb (c_is_html cx)) = false ->
  match_selectors bidi cx (S f) e p (SL ss true h) m =
  bindM (match_selectors bidi cx (S f) e p (SL ss false h)) (fun a => ret (negb a)) m.
Proof.
  intros Hne Hh. cbn [match_selectors sl_is_not sl_is_html sl_sels]. rewrite Hh.
  destruct ss; [congruence|]. apply sl_loop_not.
Qed.

Theorem match_selectors_monotone f e p A B h m m' :
  match_selectors bidi cx (S f) e p (SL A false h) m = Ok (true, m') ->
  match_selectors bidi cx (S f) e p (SL (A ++ B) false h) m = Ok (true, m').
Proof.
  intros H. rewrite match_selectors_union. unfold bindM. rewrite H. reflexivity.
Qed.

(* ---- select(): a sub-sequence of the descendant walk, cut at the limit ---- *)
Lemma select_loop_sublist fuel e sels l lim m r m' :
  select_loop bidi cx fuel e sels l lim m = Ok (r, m') -> sublist r l.
Proof.
  revert lim m r m'. induction l as [|q l IH]; intros lim m r m' H.
  - cbn in H. injection H as <- <-. constructor.
  - cbn [select_loop] in H. unfold bindM in H.
    destruct (match_el bidi cx fuel e sels q m) as [[b m1]|]; [|discriminate].
    destruct b.
    + destruct lim as [[|[|k]]|].
      * injection H as <- <-. apply sl_keep. constructor.
      * injection H as <- <-. apply sl_keep. constructor.
      * destruct (select_loop bidi cx fuel e sels l (Some (S k)) m1) as [[r1 m2]|] eqn:E; [|discriminate].
        injection H as <- <-. apply sl_keep. exact (IH _ _ _ _ E).
      * destruct (select_loop bidi cx fuel e sels l None m1) as [[r1 m2]|] eqn:E; [|discriminate].
        injection H as <- <-. apply sl_keep. exact (IH _ _ _ _ E).
    + apply sl_skip. exact (IH _ _ _ _ H).
Qed.

Lemma select_loop_limit fuel e sels l k m r m' :
  select_loop bidi cx fuel e sels l (Some k) m = Ok (r, m') -> (length r <= Nat.max k 1)%nat.
Proof.
  revert k m r m'. induction l as [|q l IH]; intros k m r m' H.
  - cbn in H. injection H as <- <-. cbn. lia.
  - cbn [select_loop] in H. unfold bindM in H.
    destruct (match_el bidi cx fuel e sels q m) as [[b m1]|]; [|discriminate].
    destruct b.
    + destruct k as [|[|k]].
      * injection H as <- <-. cbn. lia.
      * injection H as <- <-. cbn. lia.
      * destruct (select_loop bidi cx fuel e sels l (Some (S k)) m1) as [[r1 m2]|] eqn:E; [|discriminate].
        injection H as <- <-. specialize (IH _ _ _ _ E). cbn [length]. lia.
    + exact (IH _ _ _ _ H).
Qed.

(* X:is(A): sub-selector lists are a conjunction *)
Theorem subselectors_conjunction {X} (f : X -> M bool) a l m :
  allM_noshort f (a :: l) m =
  bindM (f a) (fun x => bindM (allM_noshort f l) (fun y => ret (x && y))) m.
Proof. reflexivity. Qed.
End Facts.
