(* MatchFacts.v — lemmas about the matcher model (Match.v). *)
From SV Require Import Base Regex Tree IR Lit Inputs Match.
Local Open Scope bool_scope.

Section Facts.
Variable bidi : cp -> N.
Variable cx : ctx.

(* The BeautifulSoup object is never matched as an element (CSSMatch.match). *)
Lemma match_el_doc fuel e sels p m :
  is_doc_path (c_tree cx) p = true -> match_el bidi cx fuel e sels p m = Ok (false, m).
Proof. intros H. unfold match_el. rewrite H. reflexivity. Qed.

(* a non-element (string node, or no node at all) never matches *)
Lemma match_el_not_tag fuel e sels p m :
  is_tag_path (c_tree cx) p = false -> match_el bidi cx fuel e sels p m = Ok (false, m).
Proof. intros H. unfold match_el. rewrite H. rewrite andb_false_r. reflexivity. Qed.

(* ---- monad laws used everywhere ---- *)
Lemma bindM_ret_l {A B} (a : A) (f : A -> M B) m : bindM (ret a) f m = f a m.
Proof. reflexivity. Qed.
Lemma bindM_assoc {A B C} (c : M A) (f : A -> M B) (g : B -> M C) m :
  bindM (bindM c f) g m = bindM c (fun a => bindM (f a) g) m.
Proof. unfold bindM. destruct (c m) as [[a m']|e]; reflexivity. Qed.

End Facts.
