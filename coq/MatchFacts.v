(* MatchFacts.v — lemmas about the matcher model (Match.v). *)
From SV Require Import Base Regex Tree IR Lit Inputs Match.
Local Open Scope bool_scope.

Section Facts.
Variable bidi : cp -> N.
Variable cx : ctx.

(* The BeautifulSoup object is never matched as an element (CSSMatch.match). *)
Lemma match_el_doc fuel e sels p m :
  is_doc_path (c_tree cx) p = true -> match_el bidi cx fuel e sels p m = Ok (false, m).
Proof. intros H. unfold match_el. rewrite H. reflexivity. Qed.

(* a non-element (string node, or no node at all) never matches *)
Lemma match_el_not_tag fuel e sels p m :
  is_tag_path (c_tree cx) p = false -> match_el bidi cx fuel e sels p m = Ok (false, m).
Proof. intros H. unfold match_el. rewrite H. rewrite andb_false_r. reflexivity. Qed.

(* ---- monad laws used everywhere ---- *)
Lemma bindM_ret_l {A B} (a : A) (f : A -> M B) m : bindM (ret a) f m = f a m.
Proof. reflexivity. Qed.
Lemma bindM_assoc {A B C} (c : M A) (f : A -> M B) (g : B -> M C) m :
  bindM (bindM c f) g m = bindM c (fun a => bindM (f a) g) m.
Proof. unfold bindM. destruct (c m) as [[a m']|e]; reflexivity. Qed.

(* ---- selector lists: first matching alternative wins (the IR-level laws of C05) ---- *)
Section Loop.
Variable mc : sel -> M bool.

(* union: a list A ++ B matches iff A matches or else B matches *)
Lemma sl_loop_nil_ne ne ne' B m : sl_loop mc false ne B m = sl_loop mc false ne' B m.
Proof.
  revert m. induction B as [|s B IH]; intros m; cbn [sl_loop].
  - destruct ne, ne'; reflexivity.
  - destruct s; [apply IH|]. unfold bindM. destruct (mc _ m) as [[[] m']|]; [reflexivity | apply IH | reflexivity].
Qed.

Lemma sl_loop_app ne ne1 ne2 A B m :
  sl_loop mc false ne (A ++ B) m =
  bindM (sl_loop mc false ne1 A) (fun a => if a then ret true else sl_loop mc false ne2 B) m.
Proof.
  revert m. induction A as [|s A IH]; intros m.
  - cbn [app sl_loop]. unfold bindM, ret. destruct ne1; apply sl_loop_nil_ne.
  - cbn [app sl_loop]. destruct s; [apply IH|].
    unfold bindM. destruct (mc _ m) as [[[] m']|]; [reflexivity | | reflexivity].
    specialize (IH m'). unfold bindM in IH. exact IH.
Qed.

(* complement: a negated non-empty list matches iff the positive list does not *)
Lemma sl_loop_not ss m :
  sl_loop mc true true ss m = bindM (sl_loop mc false true ss) (fun a => ret (negb a)) m.
Proof.
  revert m. induction ss as [|s ss IH]; intros m; [reflexivity|].
  cbn [sl_loop]. destruct s; [apply IH|].
  unfold bindM. destruct (mc _ m) as [[[] m']|]; [reflexivity | | reflexivity].
  specialize (IH m'). unfold bindM in IH. exact IH.
Qed.

(* adding an alternative never removes a result *)
Lemma sl_loop_monotone ne A B m m' :
  sl_loop mc false ne A m = Ok (true, m') -> sl_loop mc false ne (A ++ B) m = Ok (true, m').
Proof.
  intros H. rewrite (sl_loop_app ne ne ne). unfold bindM. rewrite H. reflexivity.
Qed.
End Loop.

(* at the level of match_selectors *)
Theorem match_selectors_union f e p A B h m :
  match_selectors bidi cx (S f) e p (SL (A ++ B) false h) m =
  bindM (match_selectors bidi cx (S f) e p (SL A false h))
        (fun a => if a then ret true else match_selectors bidi cx (S f) e p (SL B false h)) m.
Proof.
  cbn [match_selectors sl_is_not sl_is_html sl_sels].
  destruct (h && negb (c_is_html cx)); [reflexivity|].
  apply sl_loop_app.
Qed.

Theorem match_selectors_complement f e p ss h m : ss <> [] ->
  (h && negb (c_is_html cx)) = false ->
  match_selectors bidi cx (S f) e p (SL ss true h) m =
  bindM (match_selectors bidi cx (S f) e p (SL ss false h)) (fun a => ret (negb a)) m.
Proof.
  intros Hne Hh. cbn [match_selectors sl_is_not sl_is_html sl_sels]. rewrite Hh.
  destruct ss; [congruence|]. apply sl_loop_not.
Qed.

Theorem match_selectors_monotone f e p A B h m m' :
  match_selectors bidi cx (S f) e p (SL A false h) m = Ok (true, m') ->
  match_selectors bidi cx (S f) e p (SL (A ++ B) false h) m = Ok (true, m').
Proof.
  intros H. rewrite match_selectors_union. unfold bindM. rewrite H. reflexivity.
Qed.

(* X:is(A): sub-selector lists are a conjunction *)
Theorem subselectors_conjunction {X} (f : X -> M bool) a l m :
  allM_noshort f (a :: l) m =
  bindM (f a) (fun x => bindM (allM_noshort f l) (fun y => ret (x && y))) m.
Proof. reflexivity. Qed.
End Facts.
