(* MemoFacts.v — the per-call memo tables are transparent (C04). *)
From SV Require Import Base Regex Tree IR Lit Inputs Match.
Local Open Scope bool_scope.

Lemma path_eqb_refl p : path_eqb p p = true.
Proof.
  unfold path_eqb. rewrite Nat.eqb_refl. cbn [andb].
  induction p as [|x p IH]; [reflexivity|]. cbn. rewrite Nat.eqb_refl. exact IH.
Qed.
Lemma path_eqb_eq a b : path_eqb a b = true -> a = b.
Proof.
  unfold path_eqb. intros H. apply andb_true_iff in H as [Hl H]. apply Nat.eqb_eq in Hl.
  revert b Hl H. induction a as [|x a IH]; intros [|y b] Hl H; try discriminate; [reflexivity|].
  cbn in H. apply andb_true_iff in H as [H1 H2]. apply Nat.eqb_eq in H1. subst y.
  f_equal. apply IH; [simpl in Hl; lia | exact H2].
Qed.

Section Memo.
Variable cx : ctx.

(* every cached default-button entry is what a fresh scan of that form finds *)
Definition default_ok (m : memo) : Prop :=
  forall form b, In (form, b) (m_default m) ->
    default_scan cx (get_tag_descendants cx form true) = Ok (Some b).

Lemma default_ok_memo0 : default_ok memo0.
Proof. intros f b H. contradiction. Qed.

(* :default — with any consistent memo the answer is the answer with the empty memo,
   exceptions included, and the memo stays consistent *)
Theorem match_default_transparent p m : default_ok m ->
  match match_default cx p m, match_default cx p memo0 with
  | Ok (r, m'), Ok (r0, _) => r = r0 /\ default_ok m'
  | Raise e, Raise e0 => e = e0
  | _, _ => False
  end.
Proof.
  intros Hok. unfold match_default.
  destruct (find_form cx (length p) (get_parent cx p true)) as [form|]; [|cbn; auto].
  cbn [memo0 m_default find].
  destruct (find (fun ft => path_eqb (fst ft) form) (m_default m)) as [[f b]|] eqn:Ef.
  - apply find_some in Ef as [Hin Heq]. cbn [fst] in Heq. apply path_eqb_eq in Heq. subst f.
    rewrite (Hok form b Hin). cbn [snd]. auto.
  - destruct (default_scan cx (get_tag_descendants cx form true)) as [[b|]|e] eqn:Es; auto.
    split; [reflexivity|]. intros f' b' Hin. cbn [m_default] in Hin.
    apply in_app_or in Hin as [Hin | [Heq | []]]; [exact (Hok f' b' Hin)|].
    injection Heq as <- <-. exact Es.
Qed.
End Memo.
