(* NsFacts.v — namespace decision tables of the matcher (C12) and case rules (C11). *)
From SV Require Import Base Regex Tree IR Lit Inputs Match LangFacts.
Local Open Scope bool_scope.

Section NS.
Variable cx : ctx.

(* What the property text says an element selector's namespace part designates. *)
Definition ns_designates (map : list (str * str)) (prefix : option str) (el_ns : str) : Prop :=
  match prefix with
  | None => match ns_get map [] with Some d => el_ns = d | None => True end
  | Some pf =>
    if str_eqb pf [] then el_ns = []
    else if str_eqb pf L_star then True
    else exists u, ns_get map pf = Some u /\ el_ns = u
  end.

Theorem match_namespace_spec e p tg :
  match_namespace cx e p tg = true <-> ns_designates (e_ns e) (tg_prefix tg) (get_tag_ns cx p).
Proof.
  unfold match_namespace, ns_designates. destruct (tg_prefix tg) as [pf|].
  - destruct pf as [|c pf'].
    + change (str_eqb [] []) with true. cbv iota. apply str_eqb_eq.
    + change (str_eqb (c :: pf') []) with false. cbv iota. set (q := c :: pf').
      destruct (str_eqb q L_star); [split; auto|].
      destruct (ns_get (e_ns e) q) as [u|].
      * rewrite str_eqb_eq. split; [intros H; exists u; auto | intros [u' [H ->]]; congruence].
      * split; [discriminate | intros [u' [H _]]; discriminate].
  - destruct (ns_get (e_ns e) []); [apply str_eqb_eq | tauto].
Qed.

(* an unmapped prefix (other than * and the empty prefix) matches nothing *)
Theorem unmapped_prefix_element e p name pf :
  pf <> [] -> pf <> L_star -> ns_get (e_ns e) pf = None ->
  match_tag cx e p (Some (STag name (Some pf))) = false.
Proof.
  intros H1 H2 H3. unfold match_tag. apply andb_false_iff. left.
  destruct (match_namespace cx e p (STag name (Some pf))) eqn:E; [|reflexivity].
  apply match_namespace_spec in E. unfold ns_designates in E. cbn [tg_prefix] in E.
  apply str_eqb_false in H1, H2. rewrite H1, H2 in E. destruct E as [u [E _]]. congruence.
Qed.

Theorem unmapped_prefix_attribute e p attr pf :
  supports_namespaces cx = true -> pf <> [] -> pf <> L_star -> ns_get (e_ns e) pf = None ->
  match_attribute_name cx e p attr pf = Ok None.
Proof.
  intros Hs H1 H2 H3. unfold match_attribute_name. rewrite Hs.
  destruct pf as [|c pf']; [congruence|]. rewrite H3.
  apply str_eqb_false in H2. rewrite H2. reflexivity.
Qed.

(* The attribute decision table: which attribute key [prefix|attr] designates. *)
Definition name_eq (is_xml : bool) (a b : str) : bool :=
  if is_xml then str_eqb a b else str_eqb (lower a) (lower b).
Definition attr_pred (is_xml star : bool) (ns : option str) (attr : str) (k : akey) : bool :=
  match ns, star with
  | None, false => name_eq is_xml attr (k_full k)                  (* [a] and [|a]: whole name, no namespace lookup *)
  | _, _ =>
    match k_ns k with
    | None => star && name_eq is_xml attr (k_full k)               (* only [*|a] reaches an attribute without a namespace *)
    | Some kn =>
      (star || match ns with Some u => str_eqb u kn | None => false end) &&
      match k_name k with Some nm => name_eq is_xml attr nm | None => false end
    end
  end.

(* string-valued attributes whose namespaced keys have a local name: the shapes parsers store *)
Definition plain_attrs (l : list (akey * pyval)) : Prop :=
  Forall (fun kv => (exists s, snd kv = PStr s) /\ (k_ns (fst kv) <> None -> k_name (fst kv) <> None)) l.

Theorem man_ns_table is_xml star ns attr l : plain_attrs l ->
  man_ns is_xml star ns attr l =
  Ok (match find (fun kv => attr_pred is_xml star ns attr (fst kv)) l with
      | Some (_, PStr s) => Some (inl s)
      | _ => None
      end).
Proof.
  intros H. induction H as [|[k v] l [[s Hs] Hn] _ IH]; [reflexivity|].
  cbn [fst snd] in Hs, Hn. subst v. cbn [man_ns find fst]. cbn [normalize_value norm_item bind].
  unfold attr_pred at 1. unfold name_eq.
  destruct ns as [u|]; destruct star; cbn [andb orb];
    try (destruct (k_ns k) as [kn|] eqn:Ekn;
         [ destruct (k_name k) as [nm|] eqn:Enm; [| exfalso; apply Hn; congruence] | ]);
    try (destruct (str_eqb u kn)); cbn [andb orb negb];
    repeat match goal with
           | |- context [if ?b then _ else _] => destruct b eqn:?; cbn [andb orb negb]
           end; try reflexivity; try exact IH; try congruence.
Qed.

(* ---- case rules (C11) ---- *)
Theorem html_tagname_case e p n n' pf : c_is_xml cx = false -> lower n = lower n' ->
  match_tag cx e p (Some (STag n pf)) = match_tag cx e p (Some (STag n' pf)).
Proof.
  intros Hx Hl. unfold match_tag, match_tagname, match_namespace. cbn [tg_name tg_prefix]. rewrite Hx, Hl. reflexivity.
Qed.

Theorem xml_tagname_exact p n pf : c_is_xml cx = true ->
  match_tagname cx p (STag n pf) = str_eqb n (name_at cx p) || str_eqb n L_star.
Proof. intros Hx. unfold match_tagname, get_tag. cbn [tg_name]. rewrite Hx. reflexivity. Qed.

Theorem html_element_name_case p n pf : c_is_xml cx = false ->
  match_tagname cx p (STag n pf) = str_eqb (lower n) (lower (name_at cx p)) || str_eqb (lower n) L_star.
Proof. intros Hx. unfold match_tagname, get_tag. cbn [tg_name]. rewrite Hx. reflexivity. Qed.

Lemma man_plain_case a a' l : lower a = lower a' -> man_plain a l = man_plain a' l.
Proof.
  intros H. induction l as [|[k v] l IH]; [reflexivity|]. cbn [man_plain]. rewrite H, IH. reflexivity.
Qed.
Lemma man_ns_case star ns a a' l : lower a = lower a' -> man_ns false star ns a l = man_ns false star ns a' l.
Proof.
  intros H. induction l as [|[k v] l IH]; [reflexivity|]. cbn [man_ns]. rewrite H, IH. reflexivity.
Qed.
Theorem html_attribute_name_case e p a a' pf : c_is_xml cx = false -> lower a = lower a' ->
  match_attribute_name cx e p a pf = match_attribute_name cx e p a' pf.
Proof.
  intros Hx H. unfold match_attribute_name. rewrite Hx.
  destruct (supports_namespaces cx); [|apply man_plain_case; exact H].
  destruct pf; [apply man_ns_case; exact H|].
  destruct (ns_get (e_ns e) (c :: pf)); [apply man_ns_case; exact H|].
  destruct (str_eqb (c :: pf) L_star); [apply man_ns_case; exact H | reflexivity].
Qed.

(* HTML-only lists never match in a document that is XML but not XHTML *)
Theorem html_only_list_in_xml bidi f e p ss is_not m : c_is_html cx = false ->
  match_selectors bidi cx (S f) e p (SL ss is_not true) m = Ok (false, m).
Proof. intros H. cbn [match_selectors sl_is_html]. rewrite H. reflexivity. Qed.
End NS.

(* document type detection (CSSMatch.__init__) *)
Theorem doc_type_detection t s :
  c_is_xml (mk_ctx t s) = t_xml t /\
  c_is_html (mk_ctx t s) = negb (t_xml t) || c_has_html_ns (mk_ctx t s).
Proof. split; reflexivity. Qed.
