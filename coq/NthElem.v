(* NthElem.v — C02 at the element level: match_nth for one An+B record, any `of S`, any memo. *)
From SV Require Import Base Regex Tree IR Lit Inputs Match MemoFacts NthFacts NthProof HistFacts.
From Coq Require Import ZifyBool.
Local Open Scope Z_scope.

Section E.
Variable bidi : cp -> N.
Variable cx : ctx.
Notation t := (c_tree cx).
Notation good := (good cx).

(* a classifier whose answers on the walk are the pure values v, from any consistent memo *)
Definition valued {X} (classify : X -> M (bool * bool)) (v : X -> bool * bool) (l : list X) : Prop :=
  forall x, In x l -> forall m, good m -> exists m', classify x m = Ok (v x, m') /\ good m'.

Lemma inner_sim {X} (classify : X -> M (bool * bool)) v rest : valued classify v rest ->
  forall rel idx m, good m ->
  exists rest' rel' mt hit m', nth_inner classify rest rel idx m = Ok ((rest', rel', mt, hit), m') /\ good m' /\
    inner (map v rest) rel idx = (map v rest', rel', mt, hit) /\ (forall x, In x rest' -> In x rest).
Proof.
  induction rest as [|x rest IH]; intros Hv rel idx m Hm.
  - exists [], rel, false, false, m. split; [reflexivity | split; [exact Hm | split; [reflexivity | intros x H; exact H]]].
  - assert (Hv' : valued classify v rest) by (intros y Hy; apply Hv; right; exact Hy).
    cbn [nth_inner map inner]. unfold bindM at 1. destruct (Hv x (or_introl eq_refl) m Hm) as (m1 & -> & Hm1).
    destruct (v x) as [counted is_el]. destruct counted; cbn [negb].
    + destruct (rel + 1 =? idx).
      * destruct is_el; (eexists rest, (rel + 1), _, _, m1; split; [reflexivity | split; [exact Hm1 | split; [reflexivity | intros y Hy; right; exact Hy]]]).
      * destruct is_el.
        -- exists rest, (rel + 1), false, true, m1. split; [reflexivity | split; [exact Hm1 | split; [reflexivity | intros y Hy; right; exact Hy]]].
        -- destruct (IH Hv' (rel + 1) idx m1 Hm1) as (r' & l' & mt & hit & m' & H1 & H2 & H3 & H4).
           exists r', l', mt, hit, m'. split; [exact H1 | split; [exact H2 | split; [exact H3 | intros y Hy; right; apply H4; exact Hy]]].
    + destruct (IH Hv' rel idx m1 Hm1) as (r' & l' & mt & hit & m' & H1 & H2 & H3 & H4).
      exists r', l', mt, hit, m'. split; [exact H1 | split; [exact H2 | split; [exact H3 | intros y Hy; right; apply H4; exact Hy]]].
Qed.

Lemma outer_sim {X} (classify : X -> M (bool * bool)) v a b var L incr : forall fuel count rest rel idx m,
  valued classify v rest -> good m ->
  match outer fuel a b var L count incr (map v rest) rel idx with
  | Some r => exists m', nth_outer classify fuel a b var L count incr rest rel idx m = Ok (r, m') /\ good m'
  | None => True
  end.
Proof.
  induction fuel as [|f IH]; intros count rest rel idx m Hv Hm; [exact I|].
  cbn [outer nth_outer]. destruct ((1 <=? idx) && (idx <=? L + 1)); [|exists m; split; [reflexivity | exact Hm]].
  destruct (inner_sim classify v rest Hv rel idx m Hm) as (r' & l' & mt & hit & m1 & H1 & Hm1 & H3 & H4).
  unfold bindM at 1. rewrite H1, H3. destruct hit; [exists m1; split; [reflexivity | exact Hm1]|].
  destruct (count + incr <? 0); [exists m1; split; [reflexivity | exact Hm1]|].
  destruct (nth_idx a b var (count + incr) =? idx); [exists m1; split; [reflexivity | exact Hm1]|].
  apply IH; [|exact Hm1]. intros y Hy. apply Hv. apply H4. exact Hy.
Qed.

Lemma core_sim {X} (classify : X -> M (bool * bool)) v a b var n walk m r :
  valued classify v walk -> good m -> nth_pure a b var n (map v walk) = Some r ->
  exists m', nth_core classify a b var n walk m = Ok (r, m') /\ good m'.
Proof.
  intros Hv Hm. unfold nth_pure, nth_core. destruct var.
  - unfold bindM, lift. destruct (nth_adjust _ _ _ _ _ _) as [c1|e]; [|discriminate].
    destruct (if a <? 0 then _ else _) as [lo|e]; [|discriminate].
    rewrite nth_outer_pure. intros H.
    pose proof (outer_sim classify v a b true (n - 1) (if a <? 0 then -1 else 1) (S (S (nth_fuel a b (n - 1)))) lo walk 0 (a * lo + b) m Hv Hm) as Hs.
    destruct (outer _ _ _ _ _ _ _ _ _ _) as [r0|]; [|discriminate]. injection H as <-. exact Hs.
  - rewrite nth_outer_pure. intros H.
    pose proof (outer_sim classify v a b false (n - 1) 1 (S (S (nth_fuel a b (n - 1)))) 0 walk 0 a m Hv Hm) as Hs.
    destruct (outer _ _ _ _ _ _ _ _ _ _) as [r0|]; [|discriminate]. injection H as <-. exact Hs.
Qed.

Lemma pos_of_le_length w : forall acc p, pos_of w acc = Some p -> p <= acc + Z.of_nat (length w).
Proof.
  induction w as [|[c e] w IH]; intros acc p H; [discriminate|]. cbn [pos_of] in H. cbn [length].
  destruct e; [destruct c; [injection H as <-; lia | discriminate]|].
  specialize (IH _ _ H). destruct c; lia.
Qed.

(* ---- one An+B record on an element ---- *)
(* the pure answer of the `of S` list for a sibling, asked on its own *)
Definition sval (f : nat) (e : env) (s : sellist) (q : path) : option bool :=
  match match_selectors bidi cx f e q s memo0 with Ok (b, _) => Some b | Raise _ => None end.

Lemma sval_any f e s q m b : good m -> sval f e s q = Some b ->
  exists m', match_selectors bidi cx f e q s m = Ok (b, m') /\ good m'.
Proof.
  intros Hm Hs. unfold sval in Hs.
  pose proof (det_memo0 cx _ (proj1 (det_matcher bidi cx f) e q s) m Hm) as H.
  destruct (match_selectors bidi cx f e q s memo0) as [[b0 m0]|ex0]; [|discriminate]. injection Hs as ->.
  destruct (match_selectors bidi cx f e q s m) as [[b1 m1]|ex1]; [|contradiction].
  destruct H as [-> Hg]. exists m1. split; [reflexivity | exact Hg].
Qed.

Definition sibs_of (p : path) : list (path * node) :=
  match parent_path p with
  | Some pp => children t pp
  | None => match node_at cx p with Some n => [(p, n)] | None => [] end
  end.
(* (is counted, is the element itself) for a sibling node: the specification's reading of
   "element siblings, restricted to those matching S, or to those of the same type" *)
Definition sib_val (f : nat) (e : env) (p : path) (of_type : bool) (s : sellist) (qn : path * node) : bool * bool :=
  let '(q, n) := qn in
  if negb (is_elem n) then (false, false)
  else
    let c1 := match sl_sels s with [] => true | _ => match sval f e s q with Some b => b | None => false end end in
    if negb c1 then (false, path_eqb q p)
    else (negb of_type || match_nth_tag_type cx p q, path_eqb q p).

Theorem match_nth_one f e p a var b of_type (last : bool) s m pos :
  good m ->
  let sibs := sibs_of p in
  let walk := if last then rev sibs else sibs in
  (* no sibling's `of S` evaluation raises *)
  (forall q n, In (q, n) sibs -> is_elem n = true -> sl_sels s <> [] -> sval f e s q <> None) ->
  (sl_sels s <> [] -> sval f e s p = Some true) ->
  pos_of (map (sib_val f e p of_type s) walk) 0 = Some pos ->
  exists m', match_nth1 bidi cx (S f) e p (SNth a var b of_type last s) m = Ok (nth_closed a b var pos, m') /\ good m'.
Proof.
  intros Hm sibs walk Hnoex Hself Hpos. cbn [match_nth1]. fold (match_selectors bidi cx).
  fold (sibs_of p). fold sibs. fold walk.
  assert (Hok0 : exists m0, (if match sl_sels s with [] => false | _ => true end then match_selectors bidi cx f e p s else ret true) m
                            = Ok (true, m0) /\ good m0).
  { destruct (sl_sels s) eqn:Es; [exists m; split; [reflexivity | exact Hm]|].
    apply (sval_any f e s p m true Hm). apply Hself. discriminate. }
  destruct Hok0 as (m0 & Hok0 & Hm0). unfold bindM at 1. rewrite Hok0. cbn [negb].
  set (classify := fun qn : path * node => let '(q, n) := qn in _).
  assert (Hv : valued classify (sib_val f e p of_type s) walk).
  { intros [q n] Hin m1 Hm1. unfold classify, sib_val.
    destruct (negb (is_elem n)) eqn:En; [exists m1; split; [reflexivity | exact Hm1]|].
    assert (Hin' : In (q, n) sibs) by (unfold walk in Hin; destruct last; [apply in_rev; exact Hin | exact Hin]).
    destruct (sl_sels s) as [|s0 ss] eqn:Es.
    - unfold bindM, ret. cbn [negb]. exists m1. split; [reflexivity | exact Hm1].
    - pose proof (Hnoex q n Hin' ltac:(now destruct (is_elem n)) ltac:(discriminate)) as Hq.
      rewrite <- Es in *. destruct (sval f e s q) as [bq|] eqn:Esv; [|congruence].
      destruct (sval_any f e s q m1 bq Hm1 Esv) as (m2 & H2 & Hm2). unfold bindM. rewrite H2.
      destruct bq; cbn [negb]; exists m2; (split; [reflexivity | exact Hm2]). }
  pose proof (pos_of_le_length _ _ _ Hpos) as Hle. rewrite map_length in Hle.
  assert (Hlen : length walk = length sibs) by (unfold walk; destruct last; [apply rev_length | reflexivity]).
  pose proof (nth_core_exact a b var (Z.of_nat (length sibs)) _ pos Hpos ltac:(lia)) as Hex.
  exact (core_sim classify _ a b var _ walk m0 _ Hv Hm0 Hex).
Qed.

(* the records of a compound are a conjunction, evaluated left to right *)
Theorem match_nth_conj fuel e p n rest m :
  match_nth bidi cx fuel e p (n :: rest) m =
  bindM (match_nth1 bidi cx fuel e p n) (fun b => if b then match_nth bidi cx fuel e p rest else ret false) m.
Proof. reflexivity. Qed.
End E.
Print Assumptions match_nth_one.
