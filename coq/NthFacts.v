(* NthFacts.v — the index arithmetic of match_nth (Match.nth_core) against the closed form of An+B. *)
From SV Require Import Base Regex Tree IR Lit Inputs Match.
From Coq Require Import ZifyBool.
Local Open Scope Z_scope.

(* An+B: some n >= 0 with a*n+b = pos  (var), or pos = a (a plain index) *)
Definition nth_closed (a b : Z) (var : bool) (pos : Z) : bool :=
  if var then (if a =? 0 then pos =? b else ((pos - b) mod a =? 0) && (0 <=? (pos - b) / a)) else pos =? a.

Lemma nth_closed_spec a b pos : nth_closed a b true pos = true <-> exists n, 0 <= n /\ a * n + b = pos.
Proof.
  unfold nth_closed. destruct (Z.eqb_spec a 0) as [->|Ha].
  - rewrite Z.eqb_eq. split; [intros ->; exists 0; lia | intros [n [_ H]]; lia].
  - rewrite andb_true_iff, Z.eqb_eq, Z.leb_le. split.
    + intros [Hm Hq]. exists ((pos - b) / a). split; [exact Hq|].
      pose proof (Z.div_mod (pos - b) a Ha). lia.
    + intros [n [Hn H]]. subst pos. replace (a * n + b - b) with (n * a) by lia.
      rewrite Z.mod_mul, Z.div_mul by exact Ha. lia.
Qed.

(* the pure instance of the walk: a child is described by (is_counted, is_el) *)
Definition nth_pure (a b : Z) (var : bool) (nchildren : Z) (walk : list (bool * bool)) : option bool :=
  match nth_core (fun x => ret x) a b var nchildren walk memo0 with
  | Ok (r, _) => Some r
  | Raise _ => None
  end.

(* position of el: number of counted children up to and including el *)
Fixpoint pos_of (walk : list (bool * bool)) (acc : Z) : option Z :=
  match walk with
  | [] => None
  | (counted, is_el) :: w =>
    let acc' := if counted then acc + 1 else acc in
    if is_el then (if counted then Some acc' else None) else pos_of w acc'
  end.
