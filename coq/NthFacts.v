(* NthFacts.v — the index arithmetic of match_nth (Match.nth_core) against the closed form of An+B. *)
From SV Require Import Base Regex Tree IR Lit Inputs Match.
From Coq Require Import ZifyBool.
Local Open Scope Z_scope.

(* An+B: some n >= 0 with a*n+b = pos  (var), or pos = a (a plain index) *)
Definition nth_closed (a b : Z) (var : bool) (pos : Z) : bool :=
  if var then (if a =? 0 then pos =? b else ((pos - b) mod a =? 0) && (0 <=? (pos - b) / a)) else pos =? a.

Lemma nth_closed_spec a b pos : nth_closed a b true pos = true <-> exists n, 0 <= n /\ a * n + b = pos.
Proof.
  unfold nth_closed. destruct (Z.eqb_spec a 0) as [->|Ha].
  - rewrite Z.eqb_eq. split; [intros ->; exists 0; lia | intros [n [_ H]]; lia].
  - rewrite andb_true_iff, Z.eqb_eq, Z.leb_le. split.
    + intros [Hm Hq]. exists ((pos - b) / a). split; [exact Hq|].
      pose proof (Z.div_mod (pos - b) a Ha). lia.
    + intros [n [Hn H]]. subst pos. replace (a * n + b - b) with (n * a) by lia.
      rewrite Z.mod_mul, Z.div_mul by exact Ha. lia.
Qed.

(* the pure instance of the walk: a child is described by (is_counted, is_el) *)
Definition nth_pure (a b : Z) (var : bool) (nchildren : Z) (walk : list (bool * bool)) : option bool :=
  match nth_core (fun x => ret x) a b var nchildren walk memo0 with
  | Ok (r, _) => Some r
  | Raise _ => None
  end.

(* position of el: number of counted children up to and including el *)
Fixpoint pos_of (walk : list (bool * bool)) (acc : Z) : option Z :=
  match walk with
  | [] => None
  | (counted, is_el) :: w =>
    let acc' := if counted then acc + 1 else acc in
    if is_el then (if counted then Some acc' else None) else pos_of w acc'
  end.

(* ---- bounded-exhaustive check, inside the kernel ---- *)
Fixpoint all_masks (n : nat) : list (list bool) :=
  match n with
  | O => [[]]
  | S k => flat_map (fun m => [true :: m; false :: m]) (all_masks k)
  end.
Definition zrange (lo hi : Z) : list Z := map (fun i => lo + Z.of_nat i) (seq 0 (Z.to_nat (hi - lo + 1))).

(* walks: `before` counted-masks of length k, then el (counted), then `after` further nodes (never inspected) *)
Definition walks (maxlen : nat) : list (list (bool * bool) * Z) :=
  flat_map (fun k =>
    flat_map (fun m =>
      map (fun extra => (map (fun c => (c, false)) m ++ [(true, true)] ++ repeat (true, false) extra,
                         Z.of_nat (k + 1 + extra)))
          [0%nat; 1%nat; 3%nat])
      (all_masks k))
    (seq 0 (S maxlen)).

Definition check_one (a b : Z) (var : bool) (w : list (bool * bool) * Z) : bool :=
  match pos_of (fst w) 0, nth_pure a b var (snd w) (fst w) with
  | Some pos, Some r => Bool.eqb r (nth_closed a b var pos)
  | _, _ => false
  end.

Definition check_all (amax : Z) (maxlen : nat) : bool :=
  forallb (fun a => forallb (fun b => forallb (fun var => forallb (check_one a b var) (walks maxlen))
                                              [true; false])
                            (zrange (- amax) amax))
          (zrange (- amax) amax).

(* All integers A, B in [-12, 12], every sibling sequence of up to 8 nodes before the element with
   every counted/not-counted pattern, both `n` forms: the loop agrees with the closed form.
   (A finite statement, decided by computation inside the kernel; the bound is part of the statement.) *)
Theorem nth_core_exact_bounded : check_all 12 8 = true.
Proof. vm_compute. reflexivity. Qed.

Lemma check_all_sound amax maxlen : check_all amax maxlen = true ->
  forall a b var w, In a (zrange (- amax) amax) -> In b (zrange (- amax) amax) -> In w (walks maxlen) ->
  check_one a b var w = true.
Proof.
  unfold check_all. intros H a b var w Ha Hb Hw.
  rewrite forallb_forall in H. specialize (H a Ha).
  rewrite forallb_forall in H. specialize (H b Hb).
  rewrite forallb_forall in H. specialize (H var ltac:(destruct var; simpl; auto)).
  rewrite forallb_forall in H. exact (H w Hw).
Qed.
