(* NthProof.v — the unbounded theorem: Match.nth_core (pure instance) = the closed form of An+B. *)
From SV Require Import Base Regex Tree IR Lit Inputs Match NthFacts.
From Coq Require Import ZifyBool.
Local Open Scope Z_scope.

(* ---- pure versions of the two loops ---- *)
Fixpoint inner (rest : list (bool * bool)) (rel idx : Z) : list (bool * bool) * Z * bool * bool :=
  match rest with
  | [] => ([], rel, false, false)
  | (counted, is_el) :: rest' =>
    if negb counted then inner rest' rel idx
    else let rel' := rel + 1 in
         if rel' =? idx then (if is_el then (rest', rel', true, true) else (rest', rel', false, false))
         else if is_el then (rest', rel', false, true) else inner rest' rel' idx
  end.

Lemma nth_inner_pure rest rel idx m :
  nth_inner (fun x => ret x) rest rel idx m = Ok (inner rest rel idx, m).
Proof.
  revert rel m. induction rest as [|[counted is_el] rest IH]; intros rel m; [reflexivity|].
  cbn [nth_inner inner]. unfold bindM, ret. destruct counted; cbn [negb].
  - destruct (rel + 1 =? idx); [destruct is_el; reflexivity|]. destruct is_el; [reflexivity | apply IH].
  - apply IH.
Qed.

Fixpoint outer (fuel : nat) (a b : Z) (var : bool) (L : Z) (count incr : Z) (rest : list (bool * bool)) (rel idx : Z)
  : option bool :=
  match fuel with
  | O => None
  | S f =>
    if (1 <=? idx) && (idx <=? L + 1) then
      let '(rest', rel', matched, hit) := inner rest rel idx in
      if hit then Some matched
      else let count' := count + incr in
           if count' <? 0 then Some false
           else let idx' := nth_idx a b var count' in
                if idx' =? idx then Some false else outer f a b var L count' incr rest' rel' idx'
    else Some false
  end.

Lemma nth_outer_pure fuel a b var L count incr rest rel idx m :
  nth_outer (fun x => ret x) fuel a b var L count incr rest rel idx m =
  match outer fuel a b var L count incr rest rel idx with Some r => Ok (r, m) | None => Raise OutOfFuel end.
Proof.
  revert count rest rel idx m. induction fuel as [|f IH]; intros count rest rel idx m; [reflexivity|].
  cbn [nth_outer outer]. destruct ((1 <=? idx) && (idx <=? L + 1)); [|reflexivity].
  unfold bindM at 1. rewrite nth_inner_pure. destruct (inner rest rel idx) as [[[rest' rel'] matched] hit].
  destruct hit; [reflexivity|]. destruct (count + incr <? 0); [reflexivity|].
  destruct (nth_idx a b var (count + incr) =? idx); [reflexivity | apply IH].
Qed.

(* ---- the walk: el is the unique is_el entry and it is counted ---- *)
(* P rest = number of counted entries up to and including el; None if el does not occur (counted) *)
Definition Ppos (rest : list (bool * bool)) : option Z := pos_of rest 0.

Lemma pos_of_shift rest acc : pos_of rest acc = match pos_of rest 0 with Some p => Some (p + acc) | None => None end.
Proof.
  revert acc. induction rest as [|[c e] rest IH]; intros acc; [reflexivity|]. cbn [pos_of].
  destruct e.
  - destruct c; [f_equal; lia | reflexivity].
  - rewrite IH. rewrite (IH (if c then 0 + 1 else 0)). destruct (pos_of rest 0); [|reflexivity].
    destruct c; f_equal; lia.
Qed.

Lemma pos_of_ge1 rest p : pos_of rest 0 = Some p -> 1 <= p.
Proof.
  revert p. induction rest as [|[c e] rest IH]; intros p H; [discriminate|]. cbn [pos_of] in H.
  destruct e.
  - destruct c; [injection H as <-; lia | discriminate].
  - rewrite pos_of_shift in H. destruct (pos_of rest 0) as [q|] eqn:E; [|discriminate].
    injection H as <-. specialize (IH q eq_refl). destruct c; lia.
Qed.

(* what one pass of the inner loop does, in terms of the distance D = idx - rel to the target *)
Lemma inner_spec rest : forall rel idx P, pos_of rest 0 = Some P ->
  let D := idx - rel in
  (D = P -> exists r' l', inner rest rel idx = (r', l', true, true)) /\
  (1 <= D < P -> exists r', inner rest rel idx = (r', idx, false, false) /\ pos_of r' 0 = Some (P - D)) /\
  ((D <= 0 \/ P < D) -> exists r' l', inner rest rel idx = (r', l', false, true)).
Proof.
  induction rest as [|[c e] rest IH]; intros rel idx P HP; [discriminate|].
  cbn [pos_of] in HP. cbn [inner]. destruct c; cbn [negb].
  - destruct e.
    + injection HP as <-. cbn zeta. repeat split.
      * intros HD. replace (rel + 1 =? idx) with true by lia. eauto.
      * intros HD. lia.
      * intros HD. replace (rel + 1 =? idx) with false by lia. eauto.
    + rewrite pos_of_shift in HP. destruct (pos_of rest 0) as [q|] eqn:Eq; [|discriminate]. injection HP as <-.
      pose proof (pos_of_ge1 _ _ Eq) as Hq1.
      destruct (IH (rel + 1) idx q eq_refl) as (I1 & I2 & I3). cbn zeta in *. repeat split.
      * intros HD. replace (rel + 1 =? idx) with false by lia. apply I1. lia.
      * intros HD. destruct (Z.eqb_spec (rel + 1) idx) as [E|E].
        -- exists rest. split; [subst idx; reflexivity|]. rewrite Eq. f_equal. lia.
        -- destruct (I2 ltac:(lia)) as [r' [H1 H2]]. exists r'. split; [exact H1|]. rewrite H2. f_equal. lia.
      * intros HD. replace (rel + 1 =? idx) with false by lia. apply I3. lia.
  - destruct e; [discriminate|]. replace (if false then 0 + 1 else 0) with 0 in HP by reflexivity.
    exact (IH rel idx P HP).
Qed.

(* ---- the outer loop ---- *)
(* the candidates the loop will visit from `count` on: count, count+incr, ... while non-negative *)
Definition hits (a b incr count pos : Z) : Prop :=
  exists k, 0 <= k /\ 0 <= count + k * incr /\ a * (count + k * incr) + b = pos.

Lemma outer_var a b L incr pos : (incr = 1 \/ incr = -1) -> 0 <= a * incr -> pos <= L + 1 ->
  forall fuel count rest rel P,
  pos_of rest 0 = Some P -> rel + P = pos -> 0 <= rel < a * count + b -> 0 <= count ->
  (L + 2 - (a * count + b) < Z.of_nat fuel) -> (1 <= Z.of_nat fuel) ->
  exists r, outer fuel a b true L count incr rest rel (a * count + b) = Some r /\ (r = true <-> hits a b incr count pos).
Proof.
  intros Hincr Hs Hpos. induction fuel as [|f IH]; intros count rest rel P HP Hrel Hidx Hcount Hfuel Hfuel1; [lia|].
  cbn [outer]. set (idx := a * count + b) in *.
  assert (Hmono : forall k, 0 <= k -> a * (count + k * incr) + b = idx + k * (a * incr)) by (intros; unfold idx; lia).
  assert (Hnn : forall k, 0 <= k -> 0 <= k * (a * incr)) by (intros; apply Z.mul_nonneg_nonneg; lia).
  destruct ((1 <=? idx) && (idx <=? L + 1)) eqn:Erange.
  - destruct (inner_spec rest rel idx P HP) as (I1 & I2 & I3). cbn zeta in *.
    pose proof (pos_of_ge1 _ _ HP) as HP1.
    destruct (Z.compare_spec (idx - rel) P) as [E|E|E].
    + destruct (I1 E) as (r' & l' & ->). exists true. split; [reflexivity|]. split; [intros _|reflexivity].
      exists 0. repeat split; try lia.
    + destruct (I2 ltac:(lia)) as (r' & -> & HP'). cbn match.
      destruct (count + incr <? 0) eqn:Ec.
      * exists false. split; [reflexivity|]. split; [discriminate|]. intros (k & Hk & Hk2 & Hk3).
        rewrite Hmono in Hk3 by exact Hk. assert (k = 0 \/ 1 <= k) as [->|Hk1] by lia; [lia|].
        destruct Hincr as [->| ->]; nia.
      * unfold nth_idx. destruct (Z.eqb_spec (a * (count + incr) + b) idx) as [Es|Es].
        -- exists false. split; [reflexivity|]. split; [discriminate|]. intros (k & Hk & Hk2 & Hk3).
           rewrite Hmono in Hk3 by exact Hk. assert (a * incr = 0) by (unfold idx in Es; lia). nia.
        -- assert (Hs1 : 1 <= a * incr) by (unfold idx in Es; lia).
           destruct (IH (count + incr) r' idx (P - (idx - rel)) HP' ltac:(lia) ltac:(unfold idx; lia) ltac:(lia)
                        ltac:(unfold idx in *; lia) ltac:(unfold idx in *; lia)) as (r & Hr & Hiff).
           exists r. split; [exact Hr|]. rewrite Hiff. split.
           ++ intros (k & Hk & Hk2 & Hk3). exists (k + 1). repeat split; try lia.
           ++ intros (k & Hk & Hk2 & Hk3). assert (k = 0 \/ 1 <= k) as [->|Hk1] by lia.
              ** rewrite Hmono in Hk3 by lia. lia.
              ** exists (k - 1). repeat split; try lia.
    + destruct (I3 ltac:(lia)) as (r' & l' & ->). exists false. split; [reflexivity|]. split; [discriminate|].
      intros (k & Hk & Hk2 & Hk3). rewrite Hmono in Hk3 by exact Hk. specialize (Hnn k Hk). lia.
  - exists false. split; [reflexivity|]. split; [discriminate|].
    intros (k & Hk & Hk2 & Hk3). rewrite Hmono in Hk3 by exact Hk. specialize (Hnn k Hk). lia.
Qed.

(* ---- the set-up arithmetic ---- *)
Lemma adjust_pos a b L : 0 < a -> 0 <= L -> forall fuel count adj, adj <> 1 ->
  Z.max 0 (1 - (a * count + b)) < Z.of_nat fuel ->
  exists c, nth_adjust fuel a b L count adj = Ok c /\ count <= c /\ 1 <= a * c + b /\
            forall n, count <= n < c -> a * n + b < 1 \/ L + 1 < a * n + b.
Proof.
  intros Ha HL. induction fuel as [|f IH]; intros count adj Hadj Hf; [lia|].
  cbn [nth_adjust]. cbn zeta.
  destruct ((a * count + b <? 1) || (a * count + b >? L + 1)) eqn:E0.
  - destruct (a * count + b <? 1) eqn:E1.
    + replace (adj =? 1) with false by lia.
      replace (0 - (a * (count + 1) + b) >=? 0 - (a * count + b)) with false by lia.
      destruct (IH (count + 1) (-1) ltac:(lia) ltac:(lia)) as (c & Hc & H1 & H2 & H3).
      exists c. split; [exact Hc|]. repeat split; try lia.
      intros n Hn. assert (n = count \/ count + 1 <= n) as [->|Hn'] by lia; [lia | apply H3; lia].
    + destruct (adj =? -1) eqn:E2.
      * exists count. repeat split; try lia.
      * replace (a * (count + 1) + b - L >=? a * count + b - L) with true by lia.
        exists (count + 1). repeat split; try lia. intros n Hn. assert (n = count) as -> by lia. lia.
  - exists count. repeat split; try lia.
Qed.

Lemma adjust_neg a b L : a < 0 -> 0 <= L -> forall fuel count adj, adj <> -1 ->
  Z.max 0 (a * count + b - L) < Z.of_nat fuel ->
  exists c, nth_adjust fuel a b L count adj = Ok c /\ count <= c /\ a * c + b <= L + 1 /\
            forall n, count <= n < c -> a * n + b < 1 \/ L + 1 < a * n + b.
Proof.
  intros Ha HL. induction fuel as [|f IH]; intros count adj Hadj Hf; [lia|].
  cbn [nth_adjust]. cbn zeta.
  destruct ((a * count + b <? 1) || (a * count + b >? L + 1)) eqn:E0.
  - destruct (a * count + b <? 1) eqn:E1.
    + destruct (adj =? 1) eqn:E2.
      * exists count. repeat split; try lia.
      * replace (0 - (a * (count + 1) + b) >=? 0 - (a * count + b)) with true by lia.
        exists (count + 1). repeat split; try lia. intros n Hn. assert (n = count) as -> by lia. lia.
    + replace (adj =? -1) with false by lia.
      replace (a * (count + 1) + b - L >=? a * count + b - L) with false by lia.
      destruct (IH (count + 1) 1 ltac:(lia) ltac:(lia)) as (c & Hc & H1 & H2 & H3).
      exists c. split; [exact Hc|]. repeat split; try lia.
      intros n Hn. assert (n = count \/ count + 1 <= n) as [->|Hn'] by lia; [lia | apply H3; lia].
  - exists count. repeat split; try lia.
Qed.

Lemma lowest_spec a b : a < 0 -> forall fuel count lowest,
  Z.max 0 (a * count + b) < Z.of_nat fuel ->
  exists l, nth_lowest fuel a b count lowest = Ok l /\
            (if 1 <=? a * count + b then count <= l /\ 1 <= a * l + b /\ a * (l + 1) + b < 1 else l = lowest).
Proof.
  intros Ha. induction fuel as [|f IH]; intros count lowest Hf; [lia|].
  cbn [nth_lowest]. destruct (a * count + b >=? 1) eqn:E.
  - replace (1 <=? a * count + b) with true by lia.
    destruct (IH (count + 1) count ltac:(lia)) as (l & Hl & Hspec). exists l. split; [exact Hl|].
    destruct (1 <=? a * (count + 1) + b) eqn:E2.
    + destruct Hspec as (H1 & H2 & H3). repeat split; lia.
    + subst l. repeat split; lia.
  - replace (1 <=? a * count + b) with false by lia. exists lowest. split; reflexivity.
Qed.

(* ---- the theorem ---- *)
Lemma outer_plain a b L f rest P : pos_of rest 0 = Some P -> P <= L + 1 ->
  outer (S (S f)) a b false L 0 1 rest 0 a = Some (P =? a).
Proof.
  intros HP HL. cbn [outer]. pose proof (pos_of_ge1 _ _ HP) as HP1.
  destruct ((1 <=? a) && (a <=? L + 1)) eqn:Erange; [|f_equal; lia].
  destruct (inner_spec rest 0 a P HP) as (I1 & I2 & I3). cbn zeta in *.
  destruct (Z.compare_spec (a - 0) P) as [E|E|E].
  - destruct (I1 E) as (r' & l' & ->). f_equal. lia.
  - destruct (I2 ltac:(lia)) as (r' & -> & _). cbn match. replace (0 + 1 <? 0) with false by lia.
    unfold nth_idx. rewrite Z.eqb_refl. f_equal. lia.
  - destruct (I3 ltac:(lia)) as (r' & l' & ->). f_equal. lia.
Qed.

Lemma outer_below a b var L count incr rest rel idx f : idx < 1 ->
  outer (S f) a b var L count incr rest rel idx = Some false.
Proof. intros H. cbn [outer]. replace ((1 <=? idx) && (idx <=? L + 1)) with false by lia. reflexivity. Qed.

Lemma bool_iff_eq (r c : bool) : (r = true <-> c = true) -> r = c.
Proof. destruct r, c; intuition congruence. Qed.

(* For every A, B, every sibling walk in which the element occurs (and is counted) at position pos,
   and any declared number of children >= pos:  the loop terminates within its fuel and answers
   exactly "pos = A*n + B for some n >= 0" (resp. pos = A for a plain index). *)
Theorem nth_core_exact a b var nchildren walk pos :
  pos_of walk 0 = Some pos -> pos <= nchildren ->
  nth_pure a b var nchildren walk = Some (nth_closed a b var pos).
Proof.
  intros HP Hn. pose proof (pos_of_ge1 _ _ HP) as HP1.
  unfold nth_pure, nth_core. set (L := nchildren - 1). assert (HL : 0 <= L) by (unfold L; lia).
  assert (HposL : pos <= L + 1) by (unfold L; lia).
  set (F := nth_fuel a b L). assert (HF : Z.of_nat F = Z.abs a + Z.abs b + Z.abs L + 4) by (unfold F, nth_fuel; lia).
  destruct var.
  2:{ rewrite nth_outer_pure, (outer_plain a b L F walk pos HP HposL). unfold nth_closed. reflexivity. }
  unfold bindM, lift.
  assert (Hclosed : forall r : bool, (r = true <-> exists n, 0 <= n /\ a * n + b = pos) -> r = nth_closed a b true pos).
  { intros r Hr. apply bool_iff_eq. rewrite Hr. symmetry. apply nth_closed_spec. }
  destruct (Z.ltb_spec a 0) as [Ha|Ha].
  - (* a < 0 *)
    destruct (adjust_neg a b L Ha HL (S F) 0 0 ltac:(lia) ltac:(lia)) as (c1 & -> & Hc1 & Hc1v & Hskip).
    destruct (lowest_spec a b Ha (S F) c1 c1 ltac:(nia)) as (l & -> & Hl).
    rewrite nth_outer_pure.
    destruct (1 <=? a * c1 + b) eqn:E.
    + destruct Hl as (Hl1 & Hl2 & Hl3).
      destruct (outer_var a b L (-1) pos ltac:(right; reflexivity) ltac:(lia) HposL (S (S F)) l walk 0 pos HP
                  ltac:(lia) ltac:(lia) ltac:(lia) ltac:(lia) ltac:(lia)) as (r & -> & Hiff).
      f_equal. apply Hclosed. rewrite Hiff. unfold hits. split.
      * intros (k & Hk & Hk2 & Hk3). exists (l + k * -1). split; [exact Hk2 | exact Hk3].
      * intros (n & Hn0 & Hn1). exists (l - n). assert (n <= l) by nia.
        replace (l + (l - n) * -1) with n by lia. repeat split; lia.
    + subst l. rewrite outer_below by lia. f_equal. apply Hclosed. split; [discriminate|].
      intros (n & Hn0 & Hn1). assert (n < c1 \/ c1 <= n) as [Hlt|Hge] by lia.
      * specialize (Hskip n ltac:(lia)). lia.
      * nia.
  - (* a >= 0 *)
    destruct (Z.eq_dec a 0) as [->|Hnz].
    + (* a = 0 : a single candidate, b *)
      assert (Hadj : exists c, nth_adjust (S F) 0 b L 0 0 = Ok c /\
                     ((c = 0 /\ 1 <= b <= L + 1) \/ (c = 1 /\ (b < 1 \/ L + 1 < b)))).
      { cbn [nth_adjust]. cbn zeta. replace (0 * 0 + b) with b by lia. replace (0 * (0 + 1) + b) with b by lia.
        destruct ((b <? 1) || (b >? L + 1)) eqn:E0.
        - exists 1. split; [|right; lia].
          destruct (b <? 1); cbn [Z.eqb]; [replace (0 - b >=? 0 - b) with true by lia | replace (b - L >=? b - L) with true by lia]; reflexivity.
        - exists 0. split; [reflexivity | left; lia]. }
      destruct Hadj as (c & -> & Hc). cbv beta iota. rewrite nth_outer_pure. replace (0 * c + b) with b by lia.
      destruct Hc as [[-> Hb] | [-> Hb]].
      * destruct (outer_var 0 b L 1 pos ltac:(left; reflexivity) ltac:(lia) HposL (S (S F)) 0 walk 0 pos HP
                    ltac:(lia) ltac:(lia) ltac:(lia) ltac:(lia) ltac:(lia)) as (r & Hr & Hiff).
        replace (0 * 0 + b) with b in Hr by lia. rewrite Hr.
        f_equal. apply Hclosed. rewrite Hiff. unfold hits. split.
        -- intros (k & Hk & Hk2 & Hk3). exists 0. lia.
        -- intros (n & Hn0 & Hn1). exists 0. lia.
      * cbn [outer]. replace ((1 <=? b) && (b <=? L + 1)) with false by lia.
        f_equal. apply Hclosed. split; [discriminate|]. intros (n & _ & Hn1). lia.
    + (* a > 0 *)
      assert (Hpos : 0 < a) by lia.
      destruct (adjust_pos a b L Hpos HL (S F) 0 0 ltac:(lia) ltac:(lia)) as (c1 & -> & Hc1 & Hc1v & Hskip).
      rewrite nth_outer_pure.
      destruct (outer_var a b L 1 pos ltac:(left; reflexivity) ltac:(lia) HposL (S (S F)) c1 walk 0 pos HP
                  ltac:(lia) ltac:(lia) ltac:(lia) ltac:(lia) ltac:(lia)) as (r & -> & Hiff).
      f_equal. apply Hclosed. rewrite Hiff. unfold hits. split.
      * intros (k & Hk & Hk2 & Hk3). exists (c1 + k * 1). split; [lia | exact Hk3].
      * intros (n & Hn0 & Hn1). assert (c1 <= n).
        { destruct (Z.lt_ge_cases n c1) as [Hlt|Hge]; [|exact Hge]. specialize (Hskip n ltac:(lia)). lia. }
        exists (n - c1). replace (c1 + (n - c1) * 1) with n by lia. repeat split; lia.
Qed.

Print Assumptions nth_core_exact.
