(* NumShape.v — the number pattern REGENERATED from css_match.RE_NUM accepts exactly the HTML valid floating-point
   numbers, for every string (C18); through the general theorem RegexLang (matcher = language). *)
From SV Require Import Base Regex RegexFacts RegexCost RunFacts AttrPat AttrFacts RegexLang.
From SV.gen Require Import RegexGen.
Local Open Scope bool_scope.

Definition DIG : cset := [(48, 57)]%N.
Definition is_digit (ch : cp) : bool := cs_mem ch DIG.
Definition fdigits (w : str) : Prop := w <> [] /\ Forall (fun ch => is_digit ch = true) w.

(* WHATWG "valid floating-point number" *)
Definition float_grammar (s : str) : Prop :=
  exists sign mant ex, s = sign ++ mant ++ ex /\
    (sign = [] \/ sign = [45%N]) /\
    ((exists d1, fdigits d1 /\ (mant = d1 \/ exists d2, fdigits d2 /\ mant = d1 ++ [46%N] ++ d2)) \/ (exists d2, fdigits d2 /\ mant = [46%N] ++ d2)) /\
    (ex = [] \/ exists e sg d3, (e = 69%N \/ e = 101%N) /\ (sg = [] \/ sg = [43%N] \/ sg = [45%N]) /\ fdigits d3 /\ ex = [e] ++ sg ++ d3).

Definition D1 : re := Rep true 1 None (Chr DIG).
Definition NUM_BODY : re :=
  Seq (Rep true 0 (Some 1) (Chr [(45, 45)]%N))
      (Seq (Alt (Seq D1 (Rep true 0 (Some 1) (Grp 2 (Seq (Chr [(46, 46)]%N) D1)))) (Seq (Chr [(46, 46)]%N) D1))
           (Rep true 0 (Some 1) (Seq (Chr [(69, 69); (101, 101)]%N) (Seq (Rep true 0 (Some 1) (Chr [(43, 43); (45, 45)]%N)) D1)))).
Lemma num_shape : cm_RE_NUM = Seq AtStart (Seq (Grp 1 NUM_BODY) AtEndStrict).
Proof. reflexivity. Qed.

(* ---- language lemmas ---- *)
Lemma L_opt g r w : L (Rep g 0 (Some 1) r) w <-> w = [] \/ (L r w /\ w <> []).
Proof.
  cbn [L]. split.
  - intros H. inversion H as [|mn mx w1 w2 Hz P1 Hne H2]; subst; [now left|]. right.
    cbn [pred pred_opt] in H2. inversion H2 as [|? ? ? ? Hz2]; subst; [|discriminate Hz2]. rewrite app_nil_r. auto.
  - intros [->|[Hl Hne]]; [constructor|]. rewrite <- (app_nil_r w). apply il_step; [reflexivity | exact Hl | exact Hne | constructor].
Qed.

Lemma L_chr cs w : L (Chr cs) w <-> exists ch, w = [ch] /\ cs_mem ch cs = true.
Proof. reflexivity. Qed.

Lemma iter_chr cs : forall w mn, iterL (L (Chr cs)) mn None w <-> mn <= length w /\ Forall (fun ch => cs_mem ch cs = true) w.
Proof.
  intros w mn. split.
  - induction 1 as [mx|mn mx w1 w2 Hz (ch & -> & Hm) Hne _ IH]; [cbn; split; [lia | constructor]|].
    destruct IH as [Hl Hf]. cbn [app length]. split; [lia | constructor; assumption].
  - revert mn. induction w as [|ch w IH]; intros mn [Hl Hf].
    + cbn in Hl. replace mn with 0 by lia. constructor.
    + inversion Hf as [|? ? Hc Hf']; subst. change (ch :: w) with ([ch] ++ w). apply il_step; [reflexivity | exists ch; auto | discriminate|].
      cbn [pred_opt]. apply IH. split; [cbn in Hl; lia | exact Hf'].
Qed.

Lemma L_D1 w : L D1 w <-> fdigits w.
Proof.
  unfold fdigits. change (L D1 w) with (iterL (L (Chr DIG)) 1 None w). rewrite iter_chr. split.
  - intros [Hl Hf]. split; [intros ->; cbn in Hl; lia | exact Hf].
  - intros [Hne Hf]. split; [destruct w; [congruence | cbn; lia] | exact Hf].
Qed.

Lemma mem1 ch c : cs_mem ch [(c, c)] = true <-> ch = c.
Proof. rewrite mem_single. apply N.eqb_eq. Qed.
Lemma mem2 ch a b : cs_mem ch [(a, a); (b, b)] = true <-> ch = a \/ ch = b.
Proof.
  unfold cs_mem. cbn [existsb fst snd]. rewrite orb_false_r, orb_true_iff, !andb_true_iff, !N.leb_le. lia.
Qed.

Lemma L_sign w : L (Rep true 0 (Some 1) (Chr [(45, 45)]%N)) w <-> w = [] \/ w = [45%N].
Proof.
  rewrite L_opt. split.
  - intros [->|[(ch & -> & Hm) _]]; [now left | right]. apply mem1 in Hm. subst. reflexivity.
  - intros [->| ->]; [now left | right]. split; [exists 45%N; split; [reflexivity | apply mem1; reflexivity] | discriminate].
Qed.

Lemma L_dot_digits w : L (Seq (Chr [(46, 46)]%N) D1) w <-> exists d2, fdigits d2 /\ w = [46%N] ++ d2.
Proof.
  cbn [L]. split.
  - intros (w1 & w2 & -> & (ch & -> & Hm) & H2). apply mem1 in Hm. subst. exists w2. split; [apply L_D1; exact H2 | reflexivity].
  - intros (d2 & Hd & ->). exists [46%N], d2. split; [reflexivity|]. split; [exists 46%N; split; [reflexivity | apply mem1; reflexivity] | apply L_D1; exact Hd].
Qed.

Lemma L_mant m : L (Alt (Seq D1 (Rep true 0 (Some 1) (Grp 2 (Seq (Chr [(46, 46)]%N) D1)))) (Seq (Chr [(46, 46)]%N) D1)) m <->
  (exists d1, fdigits d1 /\ (m = d1 \/ exists d2, fdigits d2 /\ m = d1 ++ [46%N] ++ d2)) \/ (exists d2, fdigits d2 /\ m = [46%N] ++ d2).
Proof.
  change (L (Alt ?a ?b) m) with (L a m \/ L b m). rewrite L_dot_digits.
  change (L (Seq D1 ?x) m) with (exists w1 w2, m = w1 ++ w2 /\ L D1 w1 /\ L x w2).
  split.
  - intros [(w1 & w2 & -> & H1 & H2) | H]; [left | right; exact H]. apply L_D1 in H1. exists w1. split; [exact H1|].
    apply L_opt in H2 as [->|[H2 _]]; [left; apply app_nil_r | right]. change (L (Grp 2 ?x) w2) with (L x w2) in H2.
    apply L_dot_digits in H2 as (d2 & Hd & ->). exists d2. auto.
  - intros [(d1 & Hd1 & [->|(d2 & Hd2 & ->)]) | H]; [left | left | right; exact H].
    + exists d1, []. split; [symmetry; apply app_nil_r|]. split; [apply L_D1; exact Hd1 | apply L_opt; now left].
    + exists d1, ([46%N] ++ d2). split; [reflexivity|]. split; [apply L_D1; exact Hd1|]. apply L_opt. right.
      split; [|discriminate]. change (L (Grp 2 ?x) ?w) with (L x w). apply L_dot_digits. exists d2. auto.
Qed.

Lemma L_exp x : L (Rep true 0 (Some 1) (Seq (Chr [(69, 69); (101, 101)]%N) (Seq (Rep true 0 (Some 1) (Chr [(43, 43); (45, 45)]%N)) D1))) x <->
  x = [] \/ exists e sg d3, (e = 69%N \/ e = 101%N) /\ (sg = [] \/ sg = [43%N] \/ sg = [45%N]) /\ fdigits d3 /\ x = [e] ++ sg ++ d3.
Proof.
  rewrite L_opt. split.
  - intros [->|[H _]]; [now left | right]. cbn [L] in H. destruct H as (w1 & w2 & -> & (e & -> & He) & (w3 & w4 & -> & H3 & H4)).
    apply mem2 in He. exists e, w3, w4. split; [exact He|]. split; [|split; [apply L_D1; exact H4 | reflexivity]].
    change (iterL (fun w => exists ch, w = [ch] /\ cs_mem ch [(43, 43); (45, 45)]%N = true) 0 (Some 1) w3) with (L (Rep true 0 (Some 1) (Chr [(43, 43); (45, 45)]%N)) w3) in H3.
    apply L_opt in H3 as [->|[(ch & -> & Hm) _]]; [now left | right]. apply mem2 in Hm as [->| ->]; auto.
  - intros [->|(e & sg & d3 & He & Hsg & Hd & ->)]; [now left | right]. split; [|discriminate].
    change (L (Seq ?a ?b) ?w) with (exists w1 w2, w = w1 ++ w2 /\ L a w1 /\ L b w2).
    exists [e], (sg ++ d3). split; [reflexivity|]. split; [exists e; split; [reflexivity | apply mem2; exact He]|].
    change (L (Seq ?a ?b) ?w) with (exists w1 w2, w = w1 ++ w2 /\ L a w1 /\ L b w2).
    exists sg, d3. split; [reflexivity|]. split; [|apply L_D1; exact Hd]. apply L_opt.
    destruct Hsg as [->|[->| ->]]; [now left | right | right]; (split; [eexists; split; [reflexivity | apply mem2; auto] | discriminate]).
Qed.

Theorem L_num_body s : L NUM_BODY s <-> float_grammar s.
Proof.
  unfold NUM_BODY, float_grammar.
  change (L (Seq ?a (Seq ?b ?c)) s) with (exists w1 w2, s = w1 ++ w2 /\ L a w1 /\ exists w3 w4, w2 = w3 ++ w4 /\ L b w3 /\ L c w4).
  split.
  - intros (w1 & w2 & -> & H1 & w3 & w4 & -> & H3 & H4). exists w1, w3, w4. split; [reflexivity|].
    split; [apply L_sign; exact H1|]. split; [apply L_mant; exact H3 | apply L_exp; exact H4].
  - intros (sign & mant & ex & -> & Hs & Hm & He). exists sign, (mant ++ ex). split; [reflexivity|]. split; [apply L_sign; exact Hs|].
    exists mant, ex. split; [reflexivity|]. split; [apply L_mant; exact Hm | apply L_exp; exact He].
Qed.

(* a whole-string pattern ^X\Z with X free of look-around and anchors accepts exactly the language of X *)
Theorem anchored_accepts X s : plain X = true -> accepts (Seq AtStart (Seq X AtEndStrict)) s = true <-> L X s.
Proof.
  intros Hp. rewrite accepts_ends.
  unfold st_init. change (ends (Seq AtStart ?x) (St 0 [] s) []) with (ends x (St 0 [] s) [] ++ []). rewrite app_nil_r, ends_seq.
  assert (Hiff : flat_map (fun sc => ends AtEndStrict (fst sc) (snd sc)) (ends X (St 0 [] s) []) <> [] <-> L X s).
  { rewrite <- filter_end_nonempty. split.
    - intros (st' & c' & Hin & He). destruct (ends_sound X Hp _ _ _ _ Hin) as (w & (A & _ & _) & Hl).
      cbn [after] in A. rewrite He, app_nil_r in A. subst w. exact Hl.
    - intros Hl. set (e := St (0 + length s) (rev s ++ []) []).
      assert (V : via (St 0 [] s) s e) by (unfold via, e; cbn [after pos before]; rewrite app_nil_r; auto).
      destruct (ends_complete X Hp _ _ _ [] V Hl) as (c' & Hin). exists e, c'. split; [exact Hin | reflexivity]. }
  rewrite <- Hiff. destruct (flat_map _ _); split; intros H; try reflexivity; try discriminate H; congruence.
Qed.

Theorem num_accepts s : accepts cm_RE_NUM s = true <-> float_grammar s.
Proof. rewrite <- L_num_body, num_shape. apply (anchored_accepts (Grp 1 NUM_BODY)). reflexivity. Qed.
Print Assumptions num_accepts.

Example float_examples : float_grammar [45; 49; 46; 53; 101; 43; 51]%N /\ ~ float_grammar [49; 46]%N.
Proof.
  split; [rewrite <- num_accepts; vm_compute; reflexivity | rewrite <- num_accepts; vm_compute; discriminate].
Qed.
