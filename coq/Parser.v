(* Parser.v — definitions only: model of soupsieve.css_parser (css_unescape, escape, process_custom,
   the tokenizer selector_iter over the REGENERATED token regexes, and the parse_selectors state
   machine with all its handlers).  Every Python operation that can raise is explicit. *)
From SV Require Export Base Regex IR Lit AttrPat.
From SV.gen Require Import RegexGen ConstGen.
Local Open Scope bool_scope.

(* ------------------------------------------------------------------ escapes *)
Definition hex_val (c : cp) : option N :=
  if ((48 <=? c) && (c <=? 57))%N then Some (c - 48)%N
  else if ((97 <=? c) && (c <=? 102))%N then Some (c - 87)%N
  else if ((65 <=? c) && (c <=? 70))%N then Some (c - 55)%N else None.
(* int(text, 16) where text is hex digits followed by optional white space (int() strips it) *)
Fixpoint hex_int (s : str) (acc : N) : N :=
  match s with
  | [] => acc
  | c :: s' => match hex_val c with Some d => hex_int s' (acc * 16 + d)%N | None => acc end
  end.

(* re.sub with a function: pieces between matches are copied, each match is replaced *)
Fixpoint sub_with (s : str) (ms : list (nat * nat * caps)) (i : nat) (f : nat * nat * caps -> str) : str :=
  match ms with
  | [] => skipn i s
  | (a, b, c) :: ms' => substr s i a ++ f (a, b, c) ++ sub_with s ms' b f
  end.

Definition css_unescape (content : str) (string_mode : bool) : str :=
  let r := if string_mode then cp_RE_CSS_STR_ESC else cp_RE_CSS_ESC in
  sub_with content (finditer r content) 0
    (fun m => match m with (a, b, c) =>
       match cap_get 1 c with
       | Some (x, y) =>
         let cpv := hex_int (substr content (S x) y) 0 in
         [if (cpv =? 0)%N || (1114111 <? cpv)%N then 65533%N else cpv]
       | None =>
         match cap_get 2 c with
         | Some (x, y) => substr content (S x) y
         | None => match cap_get 3 c with
                   | Some _ => [65533%N]
                   | None => []
                   end
         end
       end end).

(* format(codepoint, 'x') *)
Definition hex_digit (d : N) : cp := if (d <? 10)%N then (48 + d)%N else (87 + d)%N.
Fixpoint to_hex_fuel (fuel : nat) (n : N) (acc : str) : str :=
  match fuel with
  | O => acc
  | S f => let acc' := hex_digit (n mod 16)%N :: acc in
           if (n / 16 =? 0)%N then acc' else to_hex_fuel f (n / 16)%N acc'
  end.
Definition to_hex (n : N) : str := to_hex_fuel 8 n [].

(* css_parser.escape : CSSOM serialize-an-identifier *)
Definition escape_char (first_pos : bool) (c : cp) : str :=
  if (c =? 0)%N then [65533%N]
  else if ((1 <=? c) && (c <=? 31))%N || (c =? 127)%N then [92%N] ++ to_hex c ++ [32%N]
  else if first_pos && ((48 <=? c) && (c <=? 57))%N then [92%N] ++ to_hex c ++ [32%N]
  else if (c =? 45)%N || (c =? 95)%N || (128 <=? c)%N || ((48 <=? c) && (c <=? 57))%N
          || ((65 <=? c) && (c <=? 90))%N || ((97 <=? c) && (c <=? 122))%N then [c]
  else [92%N; c].
Definition escape (ident : str) : str :=
  match ident with
  | [45%N] => [92%N; 45%N]
  | _ =>
    let start_dash := match ident with 45%N :: _ => true | _ => false end in
    concat (map (fun ic => escape_char (Nat.eqb (fst ic) 0 || (start_dash && Nat.eqb (fst ic) 1)) (snd ic))
                (combine (seq 0 (length ident)) ident))
  end.

(* ------------------------------------------------------------------ tokens *)
Record tok := Tok { k_name : str; k_start : nat; k_end : nat; k_caps : caps }.

Definition grp (pat : str) (t : tok) (g : nat) : option str := group pat (k_caps t) g.
Definition grp_nonempty (pat : str) (t : tok) (g : nat) : option str :=     (* `if m.group(g):` *)
  match grp pat t g with Some [] => None | x => x end.

Fixpoint try_tokens (pat : str) (index : nat) (l : list tokspec) : option tok :=
  match l with
  | [] => None
  | TokSimple name r :: l' =>
    match rmatch r pat index with
    | Some (j, c) => Some (Tok name index j c)
    | None => try_tokens pat index l'
    end
  | TokSpecial name_re g table :: l' =>
    let sub :=
        match rmatch name_re pat index with
        | Some (_, c) =>
          match group pat c g with
          | Some nm =>
            let key := lower (css_unescape nm false) in
            match find (fun e => str_eqb (fst e) key) table with
            | Some (_, (subname, r)) =>
              match rmatch r pat index with
              | Some (j, c') => Some (Tok subname index j c')
              | None => None
              end
            | None => None
            end
          | None => None
          end
        | None => None
        end in
    match sub with Some t => Some t | None => try_tokens pat index l' end
  end.

(* one step of selector_iter: None = StopIteration *)
Definition next_token (pat : str) (index : nat) : res (option tok) :=
  if Nat.leb (length pat) index then Ok None
  else match rmatch cp_RE_WS_END pat index with
       | Some _ => Ok None
       | None => match try_tokens pat index css_tokens with
                 | Some t => Ok (Some t)
                 | None => Raise (SelectorSyntaxError (Some index))
                 end
       end.
Definition iter_start (pat : str) : nat :=
  match rsearch cp_RE_WS_BEGIN pat with Some (_, e, _) => e | None => 0 end.

(* ------------------------------------------------------------------ the intermediate _Selector *)
Inductive psel :=
  PSel (tag : option stag) (ids classes : list str) (attrs : list sattr) (nth : list snth)
       (subs : list sellist) (relations : list psel) (rel_type : option str)
       (contains : list scontains) (lang : list (list str)) (flags : N) (no_match : bool).
Definition psel0 : psel := PSel None [] [] [] [] [] [] None [] [] 0 false.
Definition ps_tag s := match s with PSel t _ _ _ _ _ _ _ _ _ _ _ => t end.
Definition ps_relations s := match s with PSel _ _ _ _ _ _ r _ _ _ _ _ => r end.
Definition set_tag s t := match s with PSel _ a b c d e f g h i j k => PSel t a b c d e f g h i j k end.
Definition add_id s x := match s with PSel t a b c d e f g h i j k => PSel t (a ++ [x]) b c d e f g h i j k end.
Definition add_class s x := match s with PSel t a b c d e f g h i j k => PSel t a (b ++ [x]) c d e f g h i j k end.
Definition add_attr s x := match s with PSel t a b c d e f g h i j k => PSel t a b (c ++ [x]) d e f g h i j k end.
Definition add_nth s x := match s with PSel t a b c d e f g h i j k => PSel t a b c (d ++ x) e f g h i j k end.
Definition add_sub s x := match s with PSel t a b c d e f g h i j k => PSel t a b c d (e ++ [x]) f g h i j k end.
Definition add_rels s x := match s with PSel t a b c d e f g h i j k => PSel t a b c d e (f ++ x) g h i j k end.
Definition set_rel_type s x := match s with PSel t a b c d e f _ h i j k => PSel t a b c d e f (Some x) h i j k end.
Definition add_contains s x := match s with PSel t a b c d e f g h i j k => PSel t a b c d e f g (h ++ [x]) i j k end.
Definition add_lang s x := match s with PSel t a b c d e f g h i j k => PSel t a b c d e f g h (i ++ [x]) j k end.
Definition or_flags s x := match s with PSel t a b c d e f g h i j k => PSel t a b c d e f g h i (N.lor j x) k end.
Definition set_flags s x := match s with PSel t a b c d e f g h i _ k => PSel t a b c d e f g h i x k end.
Definition set_no_match s := match s with PSel t a b c d e f g h i j _ => PSel t a b c d e f g h i j true end.

Fixpoint psel_size (s : psel) : nat :=
  match s with PSel _ _ _ _ _ _ r _ _ _ _ _ => S (fold_right (fun x acc => psel_size x + acc) 0 r) end.

(* _Selector.freeze / _freeze_relations *)
Fixpoint freeze (fuel : nat) (s : psel) : res sel :=
  match fuel with
  | O => Raise RecursionError
  | S f =>
    match s with
    | PSel tag ids classes attrs nth subs rels rt contains lang flags no_match =>
      if no_match then Ok SNull
      else
        do rel <- match rels with
                  | [] => Ok sl_empty
                  | r :: rest => do fr <- freeze f (add_rels r rest) ;; Ok (SL [fr] false false)
                  end ;;
        Ok (Sel tag ids classes attrs nth subs rel rt contains lang flags)
    end
  end.

(* ------------------------------------------------------------------ constants of the parser *)
Definition FLG_PSEUDO : N := 1.
Definition FLG_NOT : N := 2.
Definition FLG_RELATIVE : N := 4.
Definition FLG_DEFAULT : N := 8.
Definition FLG_HTML : N := 16.
Definition FLG_INDETERMINATE : N := 32.
Definition FLG_OPEN : N := 64.
Definition FLG_IN_RANGE : N := 128.
Definition FLG_OUT_OF_RANGE : N := 256.
Definition FLG_PLACEHOLDER_SHOWN : N := 512.
Definition FLG_FORGIVE : N := 1024.

Definition mem (x : str) (l : list str) : bool := existsb (str_eqb x) l.

(* custom table: name -> source text | compiled list *)
Definition cmap := list (str * (str + sellist)).
Fixpoint cm_get (c : cmap) (k : str) : option (str + sellist) :=
  match c with [] => None | (k', v) :: c' => if str_eqb k k' then Some v else cm_get c' k end.
Fixpoint cm_del (c : cmap) (k : str) : cmap :=
  match c with [] => [] | (k', v) :: c' => if str_eqb k k' then cm_del c' k else (k', v) :: cm_del c' k end.
Definition cm_set (c : cmap) (k : str) (v : str + sellist) : cmap :=
  if existsb (fun e => str_eqb (fst e) k) c
  then map (fun e => if str_eqb (fst e) k then (k, v) else e) c
  else c ++ [(k, v)].

(* str.strip() *)
Definition py_ws (c : cp) : bool :=
  ((9 <=? c) && (c <=? 13) || (28 <=? c) && (c <=? 32) || (c =? 133) || (c =? 160) || (c =? 5760)
   || (8192 <=? c) && (c <=? 8202) || (c =? 8232) || (c =? 8233) || (c =? 8239) || (c =? 8287) || (c =? 12288))%N.
Fixpoint lstrip (s : str) : str := match s with c :: s' => if py_ws c then lstrip s' else s | [] => [] end.
Definition strip (s : str) : str := rev (lstrip (rev (lstrip s))).

Definition starts_quote (s : str) : bool := match s with 34%N :: _ | 39%N :: _ => true | _ => false end.
Definition inner (s : str) : str := removelast (tl s).          (* value[1:-1] *)
Definition unescape_value (v : str) : str :=
  if starts_quote v then css_unescape (inner v) true else css_unescape v false.

(* the value list of :lang() / :-soup-contains(): RE_VALUES.finditer *)
Definition value_list (values : str) : list str :=
  flat_map (fun m => match m with (a, b, c) =>
              match cap_get cp_RE_VALUES_g_split c with
              | Some (x, y) => if Nat.eqb x y then
                                 match cap_get cp_RE_VALUES_g_value c with
                                 | Some (p, q) => [unescape_value (substr values p q)]
                                 | None => []
                                 end
                               else []
              | None => match cap_get cp_RE_VALUES_g_value c with
                        | Some (p, q) => [unescape_value (substr values p q)]
                        | None => []
                        end
              end end) (finditer cp_RE_VALUES values).

(* int(text, 10) as the parser uses it: CPython refuses more than 4300 digits *)
Definition py_int10 (neg : bool) (digits : str) : res Z :=
  if Nat.ltb 4300 (length digits) then Raise ValueError
  else Ok (if neg then (- int10 digits)%Z else int10 digits).

Definition ends_with_n (s : str) : bool := match rev s with 110%N :: _ => true | _ => false end.
Definition starts_with_n (s : str) : bool := match s with 110%N :: _ => true | _ => false end.

(* An+B text -> (a, n, b) *)
Definition parse_anb (content : str) : res (Z * bool * Z) :=
  if str_eqb content L_even then Ok (2%Z, true, 0%Z)
  else if str_eqb content L_odd then Ok (2%Z, true, 1%Z)
  else match rmatch cp_RE_NTH content 0 with
       | None => Raise AttributeError            (* cast(Match, None).group *)
       | Some (_, c) =>
         let g i := group content c i in
         let neg1 := match g cp_RE_NTH_g_s1 with Some s => str_eqb s L_minus | None => false end in
         match g cp_RE_NTH_g_a with
         | None => Raise AttributeError          (* None.endswith *)
         | Some a =>
           let var := ends_with_n a in
           let d1 := if starts_with_n a then [49%N] else if var then removelast a else a in
           let neg2 := match g cp_RE_NTH_g_s2 with Some s => str_eqb s L_minus | None => false end in
           let d2 := match g cp_RE_NTH_g_b with Some [] | None => None | Some b => Some b end in
           do s1 <- py_int10 neg1 d1 ;;
           do s2 <- match d2 with Some b => py_int10 neg2 b | None => Ok 0%Z end ;;
           Ok (s1, var, s2)
         end
       end.

(* ------------------------------------------------------------------ parser state *)
Record pst := PSt {
  p_sel : psel; p_selectors : list psel; p_has : bool; p_relations : list psel; p_rel_type : str;
  p_is_html : bool; p_index : nat; p_custom : cmap; p_pos : nat }.

Definition upd_last (l : list psel) (f : psel -> psel) : res (list psel) :=
  match rev l with
  | [] => Raise IndexError                     (* selectors[-1] on an empty list *)
  | x :: r => Ok (rev (f x :: r))
  end.

Definition nth_rec (a : Z) (n : bool) (b : Z) (ot last : bool) (s : sellist) : snth := SNth a n b ot last s.

Section P.
Variable pat : str.           (* self.pattern (NUL already replaced) *)

(* parse_attribute_selector *)
Definition parse_attribute (s : psel) (t : tok) : res psel :=
  let op := grp_nonempty pat t tok_attribute_g_cmp in
  let case := match grp_nonempty pat t tok_attribute_g_case with Some c => Some (lower c) | None => None end in
  let ns := match grp_nonempty pat t tok_attribute_g_attr_ns with
            | Some x => css_unescape (removelast x) false | None => [] end in
  match grp pat t tok_attribute_g_attr_name with
  | None => Raise TypeError
  | Some an =>
    let attr := css_unescape an false in
    let is_type := match case with None => str_eqb (lower attr) L_type | Some _ => false end in
    let ic := match case with Some c => str_eqb c L_i | None => is_type end in
    do value <- match op with
                | None => Ok []
                | Some _ => match grp pat t tok_attribute_g_value with
                            | Some v => Ok (unescape_value v)
                            | None => Raise AttributeError
                            end
                end ;;
    let mk (o : aop) := (Some (attr_template o value ic true),
                         if is_type then Some (attr_template o value false false) else None) in
    let '(pats, inverse) :=
        match op with
        | None => ((None, None), false)
        | Some o =>
          match o with
          | 94%N :: _ => (mk OpPrefix, false)
          | 36%N :: _ => (mk OpSuffix, false)
          | 42%N :: _ => (mk OpSubstr, false)
          | 126%N :: _ => (mk OpWord, false)
          | 124%N :: _ => (mk OpDash, false)
          | 33%N :: _ => (mk OpEq, true)
          | _ => (mk OpEq, false)
          end
        end in
    let sa := SAttr attr ns (fst pats) (snd pats) in
    if inverse then
      do fr <- freeze 2 (add_attr psel0 sa) ;;
      Ok (add_sub s (SL [fr] true false))
    else Ok (add_attr s sa)
  end.

Definition parse_tag (s : psel) (t : tok) : res psel :=
  let prefix := match grp_nonempty pat t tok_tag_g_tag_ns with
                | Some x => Some (css_unescape (removelast x) false) | None => None end in
  match grp pat t tok_tag_g_tag_name with
  | None => Raise TypeError
  | Some tn => Ok (set_tag s (Some (STag (css_unescape tn false) prefix)))
  end.

Definition parse_class_id (s : psel) (t : tok) : psel :=
  let text := substr pat (k_start t) (k_end t) in
  match text with
  | 46%N :: rest => add_class s (css_unescape rest false)
  | _ :: rest => add_id s (css_unescape rest false)
  | [] => s
  end.

Definition name_of (t : tok) (g : nat) : res str :=
  match grp pat t g with Some n => Ok (lower (css_unescape n false)) | None => Raise TypeError end.

Definition parse_contains (s : psel) (t : tok) : res psel :=
  do pseudo <- name_of t tok_pseudo_contains_g_name ;;
  match grp pat t tok_pseudo_contains_g_values with
  | None => Raise TypeError
  | Some values => Ok (add_contains s (SContains (value_list values) (str_eqb pseudo L_soup_contains_own)))
  end.
Definition parse_lang (s : psel) (t : tok) : res psel :=
  match grp pat t tok_pseudo_lang_g_values with
  | None => Raise TypeError
  | Some values => Ok (add_lang s (value_list values))
  end.
Definition parse_dir (s : psel) (t : tok) : res psel :=
  match grp pat t tok_pseudo_dir_g_dir with
  | None => Raise TypeError
  | Some d =>
    let v := if str_eqb (lower d) L_ltr then SEL_DIR_LTR else SEL_DIR_RTL in
    do fr <- freeze 2 (set_flags psel0 v) ;;
    Ok (add_sub s (SL [fr] false true))
  end.

(* parse_combinator *)
Definition parse_combinator (st : pst) (t : tok) (is_pseudo is_forgive : bool) : res pst :=
  match grp pat t tok_combine_g_relation with
  | None => Raise AttributeError
  | Some r =>
    let comb := match strip r with [] => REL_PARENT | c => c end in
    let is_comma := str_eqb comb L_comma in
    if negb (p_has st) then
      if negb is_forgive || negb is_comma then Raise (SelectorSyntaxError (Some (p_index st)))
      else
        Ok (PSt psel0 (p_selectors st ++ [set_no_match (p_sel st)]) false [] (p_rel_type st) (p_is_html st)
                (p_index st) (p_custom st) (p_pos st))
    else if is_comma then
      let s1 := match ps_tag (p_sel st) with
                | None => if negb is_pseudo then set_tag (p_sel st) (Some (STag L_star None)) else p_sel st
                | Some _ => p_sel st
                end in
      let s2 := add_rels s1 (p_relations st) in
      Ok (PSt psel0 (p_selectors st ++ [s2]) false [] (p_rel_type st) (p_is_html st) (p_index st) (p_custom st) (p_pos st))
    else
      let s2 := set_rel_type (add_rels (p_sel st) (p_relations st)) comb in
      Ok (PSt psel0 (p_selectors st) false [s2] (p_rel_type st) (p_is_html st) (p_index st) (p_custom st) (p_pos st))
  end.

(* parse_has_combinator *)
Definition parse_has_combinator (st : pst) (t : tok) : res pst :=
  match grp pat t tok_combine_g_relation with
  | None => Raise AttributeError
  | Some r =>
    let comb := match strip r with [] => REL_PARENT | c => c end in
    if str_eqb comb L_comma then
      do sels <- upd_last (p_selectors st) (fun l => add_rels l [set_rel_type (p_sel st) (p_rel_type st)]) ;;
      Ok (PSt psel0 (sels ++ [psel0]) false (p_relations st) (58%N :: REL_PARENT) (p_is_html st) (p_index st)
              (p_custom st) (p_pos st))
    else
      do sels <- (if p_has st
                  then upd_last (p_selectors st) (fun l => add_rels l [set_rel_type (p_sel st) (p_rel_type st)])
                  else if negb (str_eqb (tl (p_rel_type st)) REL_PARENT)
                       then Raise (SelectorSyntaxError (Some (p_index st)))
                       else Ok (p_selectors st)) ;;
      Ok (PSt psel0 sels false (p_relations st) (58%N :: comb) (p_is_html st) (p_index st) (p_custom st) (p_pos st))
  end.

Definition has_flag_n (flags bit : N) : bool := negb (N.eqb (N.land flags bit) 0).

(* the simple pseudo-classes that only set something on the current compound *)
Definition simple_pseudo (s : psel) (pseudo : str) : psel :=
  let nth1 ot last := nth_rec 1 false 0 ot last sl_empty in
  if str_eqb pseudo L_p_root then or_flags s SEL_ROOT
  else if str_eqb pseudo L_p_defined then add_sub s (SL [Sel None [] [] [] [] [] sl_empty None [] [] SEL_DEFINED] false true)
  else if str_eqb pseudo L_p_scope then or_flags s SEL_SCOPE
  else if str_eqb pseudo L_p_empty then or_flags s SEL_EMPTY
  else if str_eqb pseudo L_p_link || str_eqb pseudo L_p_any_link then add_sub s g_CSS_LINK
  else if str_eqb pseudo L_p_checked then add_sub s g_CSS_CHECKED
  else if str_eqb pseudo L_p_default then add_sub s g_CSS_DEFAULT
  else if str_eqb pseudo L_p_indeterminate then add_sub s g_CSS_INDETERMINATE
  else if str_eqb pseudo L_p_disabled then add_sub s g_CSS_DISABLED
  else if str_eqb pseudo L_p_enabled then add_sub s g_CSS_ENABLED
  else if str_eqb pseudo L_p_required then add_sub s g_CSS_REQUIRED
  else if str_eqb pseudo L_p_optional then add_sub s g_CSS_OPTIONAL
  else if str_eqb pseudo L_p_read_only then add_sub s g_CSS_READ_ONLY
  else if str_eqb pseudo L_p_read_write then add_sub s g_CSS_READ_WRITE
  else if str_eqb pseudo L_p_in_range then add_sub s g_CSS_IN_RANGE
  else if str_eqb pseudo L_p_out_of_range then add_sub s g_CSS_OUT_OF_RANGE
  else if str_eqb pseudo L_p_placeholder_shown then add_sub s g_CSS_PLACEHOLDER_SHOWN
  else if str_eqb pseudo L_p_first_child then add_nth s [nth1 false false]
  else if str_eqb pseudo L_p_last_child then add_nth s [nth1 false true]
  else if str_eqb pseudo L_p_first_of_type then add_nth s [nth1 true false]
  else if str_eqb pseudo L_p_last_of_type then add_nth s [nth1 true true]
  else if str_eqb pseudo L_p_only_child then add_nth s [nth1 false false; nth1 false true]
  else if str_eqb pseudo L_p_only_of_type then add_nth s [nth1 true false; nth1 true true]
  else s.

End P.

Fixpoint map_res_p {A B} (f : A -> res B) (l : list A) : res (list B) :=
  match l with
  | [] => Ok []
  | x :: l' => do y <- f x ;; do ys <- map_res_p f l' ;; Ok (y :: ys)
  end.

Definition replace_nul (s : str) : str := map (fun c => if (c =? 0)%N then 65533%N else c) s.

(* ---- the state machine.  `fuel` bounds loop iterations + nesting; custom compilation recurses through
   `compile_custom`, passed in to keep the recursion structural on fuel. ---- *)
Fixpoint parse_selectors (fuel : nat) (pat : str) (custom : cmap) (pos : nat) (index : nat) (flags : N)
  : res (sellist * cmap * nat) :=
  match fuel with
  | O => Raise OutOfFuel
  | S f =>
    let is_open := has_flag_n flags FLG_OPEN in
    let is_pseudo := has_flag_n flags FLG_PSEUDO in
    let is_relative := has_flag_n flags FLG_RELATIVE in
    let is_not := has_flag_n flags FLG_NOT in
    let is_forgive := has_flag_n flags FLG_FORGIVE in
    let st0 := PSt psel0 (if is_relative then [psel0] else []) false [] (58%N :: REL_PARENT)
                   (has_flag_n flags FLG_HTML) index custom pos in
    (* the `while True: key, m = next(iselector)` loop; returns the state and whether `)` closed it *)
    do lr <-
      (fix loop (n : nat) (st : pst) : res (pst * bool) :=
         match n with
         | O => Raise OutOfFuel
         | S n' =>
           do nt <- next_token pat (p_pos st) ;;
           match nt with
           | None => Ok (st, false)
           | Some t =>
             let st := PSt (p_sel st) (p_selectors st) (p_has st) (p_relations st) (p_rel_type st) (p_is_html st)
                           (p_index st) (p_custom st) (k_end t) in
             let key := k_name t in
             let continue_ (st' : pst) :=
                 loop n' (PSt (p_sel st') (p_selectors st') (p_has st') (p_relations st') (p_rel_type st')
                              (p_is_html st') (k_end t) (p_custom st') (p_pos st')) in
             let with_sel (s : psel) := PSt s (p_selectors st) true (p_relations st) (p_rel_type st) (p_is_html st)
                                            (p_index st) (p_custom st) (p_pos st) in
             if str_eqb key K_at_rule then Raise NotImplementedError
             else if str_eqb key K_amp then continue_ (with_sel (or_flags (p_sel st) SEL_SCOPE))
             else if str_eqb key K_pseudo_class_custom then
               do pseudo <- name_of pat t tok_pseudo_class_custom_g_name ;;
               match cm_get (p_custom st) pseudo with
               | None => Raise (SelectorSyntaxError (Some (k_end t)))
               | Some (inr sl) => continue_ (with_sel (add_sub (p_sel st) sl))
               | Some (inl text) =>
                 (* compile the custom selector now, with its own entry removed while it is compiled *)
                 let text' := replace_nul text in
                 do r <- parse_selectors f text' (cm_del (p_custom st) pseudo) (iter_start text') 0 FLG_PSEUDO ;;
                 let '(sl, cu, _) := r in
                 let st' := with_sel (add_sub (p_sel st) sl) in
                 continue_ (PSt (p_sel st') (p_selectors st') (p_has st') (p_relations st') (p_rel_type st')
                                (p_is_html st') (p_index st') (cm_set cu pseudo (inr sl)) (p_pos st'))
               end
             else if str_eqb key K_pseudo_class then
               do pseudo <- name_of pat t tok_pseudo_class_g_name ;;
               let complex_pseudo := match grp_nonempty pat t tok_pseudo_class_g_open with Some _ => true | None => false end in
               if complex_pseudo && mem pseudo g_PSEUDO_COMPLEX then
                 let fl := N.lor (N.lor FLG_PSEUDO FLG_OPEN)
                                 (if str_eqb pseudo L_p_not then FLG_NOT
                                  else if str_eqb pseudo L_p_has then FLG_RELATIVE
                                  else if str_eqb pseudo L_p_where || str_eqb pseudo L_p_is then FLG_FORGIVE else 0%N) in
                 do r <- parse_selectors f pat (p_custom st) (p_pos st) (k_end t) fl ;;
                 let '(sl, cu, pos') := r in
                 let st' := with_sel (add_sub (p_sel st) sl) in
                 continue_ (PSt (p_sel st') (p_selectors st') true (p_relations st') (p_rel_type st') (p_is_html st')
                                (p_index st') cu pos')
               else if negb complex_pseudo && mem pseudo g_PSEUDO_SIMPLE then
                 continue_ (with_sel (simple_pseudo (p_sel st) pseudo))
               else if complex_pseudo && mem pseudo g_PSEUDO_COMPLEX_NO_MATCH then
                 do r <- parse_selectors f pat (p_custom st) (p_pos st) (k_end t) (N.lor FLG_PSEUDO FLG_OPEN) ;;
                 let '(_, cu, pos') := r in
                 let st' := with_sel (set_no_match (p_sel st)) in
                 continue_ (PSt (p_sel st') (p_selectors st') true (p_relations st') (p_rel_type st') (p_is_html st')
                                (p_index st') cu pos')
               else if negb complex_pseudo && mem pseudo g_PSEUDO_SIMPLE_NO_MATCH then
                 continue_ (with_sel (set_no_match (p_sel st)))
               else Raise (SelectorSyntaxError (Some (k_start t)))
             else if str_eqb key K_pseudo_element then Raise NotImplementedError
             else if str_eqb key K_pseudo_contains then
               do s <- parse_contains pat (p_sel st) t ;; continue_ (with_sel s)
             else if str_eqb key K_pseudo_nth_type || str_eqb key K_pseudo_nth_child then
               let child := match grp_nonempty pat t tok_pseudo_nth_child_g_pseudo_nth_child with
                            | Some _ => str_eqb key K_pseudo_nth_child | None => false end in
               do name <- name_of pat t (if str_eqb key K_pseudo_nth_child then tok_pseudo_nth_child_g_name
                                     else tok_pseudo_nth_type_g_name) ;;
               match grp pat t (if child then tok_pseudo_nth_child_g_nth_child else tok_pseudo_nth_type_g_nth_type) with
               | None => Raise TypeError
               | Some content =>
                 do anb <- (match parse_anb (lower content) with
                            | Raise ValueError => Raise (SelectorSyntaxError (Some (k_start t)))   (* try/except ValueError *)
                            | r => r
                            end) ;;
                 let '(a, var, b) := anb in
                 if child then
                   do r <- (match grp_nonempty pat t tok_pseudo_nth_child_g_of with
                            | Some _ => parse_selectors f pat (p_custom st) (p_pos st) (k_end t) (N.lor FLG_PSEUDO FLG_OPEN)
                            | None => Ok (g_CSS_NTH_OF_S_DEFAULT, p_custom st, p_pos st)
                            end) ;;
                   let '(nsel, cu, pos') := r in
                   let s' := if str_eqb name L_p_nth_child then add_nth (p_sel st) [nth_rec a var b false false nsel]
                             else if str_eqb name L_p_nth_last_child then add_nth (p_sel st) [nth_rec a var b false true nsel]
                             else p_sel st in
                   let st' := with_sel s' in
                   continue_ (PSt (p_sel st') (p_selectors st') true (p_relations st') (p_rel_type st') (p_is_html st')
                                  (p_index st') cu pos')
                 else
                   let s' := if str_eqb name L_p_nth_of_type then add_nth (p_sel st) [nth_rec a var b true false sl_empty]
                             else if str_eqb name L_p_nth_last_of_type then add_nth (p_sel st) [nth_rec a var b true true sl_empty]
                             else p_sel st in
                   continue_ (with_sel s')
               end
             else if str_eqb key K_pseudo_lang then do s <- parse_lang pat (p_sel st) t ;; continue_ (with_sel s)
             else if str_eqb key K_pseudo_dir then do s <- parse_dir pat (p_sel st) t ;; continue_ (with_sel s)
             else if str_eqb key K_pseudo_close then
               if negb (p_has st) && negb is_forgive then Raise (SelectorSyntaxError (Some (k_start t)))
               else
                 let st' := if negb (p_has st)
                            then PSt (set_no_match (p_sel st)) (p_selectors st) (p_has st) (p_relations st) (p_rel_type st)
                                     (p_is_html st) (p_index st) (p_custom st) (p_pos st)
                            else st in
                 if is_open then Ok (st', true) else Raise (SelectorSyntaxError (Some (k_start t)))
             else if str_eqb key K_combine then
               do st' <- (if is_relative then parse_has_combinator pat st t else parse_combinator pat st t is_pseudo is_forgive) ;;
               continue_ st'
             else if str_eqb key K_attribute then
               do s <- parse_attribute pat (p_sel st) t ;; continue_ (with_sel s)
             else if str_eqb key K_tag then
               if p_has st then Raise (SelectorSyntaxError (Some (k_start t)))
               else do s <- parse_tag pat (p_sel st) t ;; continue_ (with_sel s)
             else if str_eqb key K_class || str_eqb key K_id then
               continue_ (with_sel (parse_class_id pat (p_sel st) t))
             else continue_ st
           end
         end) (S (length pat)) st0 ;;
    let '(st, closed) := lr in
    if is_open && negb closed then Raise (SelectorSyntaxError (Some (p_index st)))
    else
      (* cleanup of the last compound *)
      do fin <-
        (if p_has st then
           let s1 := match ps_tag (p_sel st) with
                     | None => if negb is_pseudo then set_tag (p_sel st) (Some (STag L_star None)) else p_sel st
                     | Some _ => p_sel st
                     end in
           if is_relative then
             do sels <- upd_last (p_selectors st) (fun l => add_rels l [set_rel_type s1 (p_rel_type st)]) ;;
             Ok (sels, true)
           else Ok (p_selectors st ++ [add_rels s1 (p_relations st)], true)
         else if is_forgive && (match p_selectors st with [] => true | _ => false end
                                || match p_relations st with [] => true | _ => false end) then
           Ok (p_selectors st ++ [set_no_match (p_sel st)], true)
         else Ok (p_selectors st, false)) ;;
      let '(sels, has) := fin in
      if negb has then Raise (SelectorSyntaxError (Some (p_index st)))
      else
        let setf (l : list psel) (bit : N) (v : N) : res (list psel) :=
            if has_flag_n flags bit then upd_last l (fun x => set_flags x v) else Ok l in
        do s1 <- setf sels FLG_DEFAULT SEL_DEFAULT ;;
        do s2 <- setf s1 FLG_INDETERMINATE SEL_INDETERMINATE ;;
        do s3 <- setf s2 FLG_IN_RANGE SEL_IN_RANGE ;;
        do s4 <- setf s3 FLG_OUT_OF_RANGE SEL_OUT_OF_RANGE ;;
        do s5 <- setf s4 FLG_PLACEHOLDER_SHOWN SEL_PLACEHOLDER_SHOWN ;;
        do frozen <- map_res_p (fun x => freeze (S (psel_size x)) x) s5 ;;
        Ok (SL frozen is_not (p_is_html st), p_custom st, p_pos st)
  end.

(* process_custom *)
Fixpoint process_custom (l : list (str * str)) (acc : cmap) : res cmap :=
  match l with
  | [] => Ok acc
  | (k, v) :: l' =>
    let name := lower k in
    match rmatch cp_RE_CUSTOM name 0 with
    | None => Raise (SelectorSyntaxError None)
    | Some _ =>
      if existsb (fun e => str_eqb (fst e) name) acc then Raise KeyError
      else process_custom l' (cm_set acc (css_unescape name false) (inl v))
    end
  end.

(* soupsieve.compile(pattern, custom=...).selectors  (namespaces and flags do not influence the structure) *)
Definition compile_fuel (pattern : str) (custom : list (str * str)) : nat :=
  2 * length pattern + 2 * fold_right (fun kv acc => length (snd kv) + acc + 2) 0 custom + 8.
Definition compile (pattern : str) (custom : option (list (str * str))) : res sellist :=
  do cm <- match custom with Some l => process_custom l [] | None => Ok [] end ;;
  let pat := replace_nul pattern in
  do r <- parse_selectors (compile_fuel pattern (match custom with Some l => l | None => [] end)) pat cm (iter_start pat) 0 0 ;;
  let '(sl, _, _) := r in Ok sl.
