(* ParserFacts.v — facts about the parser model used by C06 / C09 / C10 / C20. *)
From SV Require Import Base Regex RegexFacts IR Lit AttrPat Parser.
From SV.gen Require Import RegexGen ConstGen.
Local Open Scope bool_scope.

(* ---- positions ---- *)
Lemma st_skip_pos n : forall st, pos (st_skip n st) = pos st + Nat.min n (length (after st)).
Proof.
  induction n as [|n IH]; intros st; [cbn; lia|].
  cbn [st_skip]. unfold st_adv. destruct st as [p b a]. cbn [after pos]. destruct a as [|c a].
  - cbn. lia.
  - rewrite IH. cbn [pos after length]. lia.
Qed.
Lemma st_at_pos s i : i <= length s -> pos (st_at s i) = i.
Proof. intros H. unfold st_at. rewrite st_skip_pos. cbn. lia. Qed.

(* ---- every token pattern is non-nullable: a token always consumes at least one character ---- *)
Definition spec_regexes (t : tokspec) : list re :=
  match t with
  | TokSimple _ r => [r]
  | TokSpecial _ _ table => map (fun e => snd (snd e)) table
  end.
Definition token_regexes : list re := flat_map spec_regexes css_tokens.

Lemma tokens_not_nullable : forallb (fun r => negb (nullable r)) token_regexes = true.
Proof. vm_compute. reflexivity. Qed.

Lemma try_tokens_from pat i l t : try_tokens pat i l = Some t ->
  k_start t = i /\ exists r, In r (flat_map spec_regexes l) /\ rmatch r pat i = Some (k_end t, k_caps t).
Proof.
  induction l as [|sp l IH]; [discriminate|]. cbn [try_tokens flat_map].
  destruct sp as [name r | name_re g table].
  - destruct (rmatch r pat i) as [[j c]|] eqn:E.
    + intros H. injection H as H. subst t. cbn. split; [reflexivity|]. exists r. split; [now left | exact E].
    + intros H. destruct (IH H) as [H1 [r' [H2 H3]]]. split; [exact H1|]. exists r'. split; [right; exact H2 | exact H3].
  - cbn [spec_regexes].
    assert (Hfall : try_tokens pat i l = Some t ->
              k_start t = i /\ exists r, In r (map (fun e => snd (snd e)) table ++ flat_map spec_regexes l) /\
                                           rmatch r pat i = Some (k_end t, k_caps t)).
    { intros H. destruct (IH H) as [H1 [r' [H2 H3]]]. split; [exact H1|]. exists r'.
      split; [apply in_or_app; right; exact H2 | exact H3]. }
    destruct (rmatch name_re pat i) as [[j0 c0]|]; [|exact Hfall].
    destruct (group pat c0 g) as [nm|]; [|exact Hfall].
    destruct (find (fun e => str_eqb (fst e) (lower (css_unescape nm false))) table) as [[k [subname r]]|] eqn:Ef; [|exact Hfall].
    destruct (rmatch r pat i) as [[j c]|] eqn:E; [|exact Hfall].
    intros H. injection H as H. subst t. cbn. split; [reflexivity|]. exists r. split; [|exact E].
    apply in_or_app. left. apply find_some in Ef as [Hin _]. apply in_map_iff. exists (k, (subname, r)). now split.
Qed.

(* the tokenizer cannot stall: each token ends strictly after it starts *)
Theorem token_progress pat i t : i <= length pat -> try_tokens pat i css_tokens = Some t -> i < k_end t.
Proof.
  intros Hi H. destruct (try_tokens_from _ _ _ _ H) as [_ [r [Hin Hm]]].
  pose proof tokens_not_nullable as Hn. rewrite forallb_forall in Hn. specialize (Hn r Hin).
  apply negb_true_iff in Hn. pose proof (rmatch_progress r pat i _ _ Hn Hm) as Hp.
  rewrite st_at_pos in Hp by exact Hi. exact Hp.
Qed.

(* ---- the groups the handlers read unconditionally are set on every successful match ---- *)
Lemma groups_always_set :
  sets_group tok_attribute_g_attr_name tok_attribute = true /\
  sets_group tok_tag_g_tag_name tok_tag = true /\
  sets_group tok_pseudo_class_g_name tok_pseudo_class = true /\
  sets_group tok_pseudo_class_custom_g_name tok_pseudo_class_custom = true /\
  sets_group tok_pseudo_contains_g_name tok_pseudo_contains = true /\
  sets_group tok_pseudo_contains_g_values tok_pseudo_contains = true /\
  sets_group tok_pseudo_lang_g_values tok_pseudo_lang = true /\
  sets_group tok_pseudo_dir_g_dir tok_pseudo_dir = true /\
  sets_group tok_pseudo_nth_child_g_name tok_pseudo_nth_child = true /\
  sets_group tok_pseudo_nth_child_g_nth_child tok_pseudo_nth_child = true /\
  sets_group tok_pseudo_nth_type_g_name tok_pseudo_nth_type = true /\
  sets_group tok_pseudo_nth_type_g_nth_type tok_pseudo_nth_type = true /\
  sets_group tok_combine_g_relation tok_combine = true /\
  sets_group sp_re_pseudo_name_g_name sp_re_pseudo_name = true.
Proof. repeat split; vm_compute; reflexivity. Qed.

(* e.g. the tag handler never meets a missing name group *)
Theorem parse_tag_no_type_error pat i j c s :
  rmatch tok_tag pat i = Some (j, c) -> exists s', parse_tag pat s (Tok K_tag i j c) = Ok s'.
Proof.
  intros H. unfold parse_tag, grp. cbn [k_caps].
  pose proof (rmatch_sets_group _ _ _ _ _ _ (proj1 (proj2 groups_always_set)) H) as Hc.
  unfold group. destruct (cap_get tok_tag_g_tag_name c) as [[a b]|]; [|contradiction]. eexists. reflexivity.
Qed.

(* ---- escapes: whatever digits an escape carries, the decoded code point is a valid one ---- *)
Definition clamp (cpv : N) : N := if (cpv =? 0)%N || (1114111 <? cpv)%N then 65533%N else cpv.
Lemma clamp_valid cpv : (1 <= clamp cpv <= 1114111)%N.
Proof.
  unfold clamp. destruct (N.eqb_spec cpv 0); cbn [orb]; [lia|].
  destruct (N.ltb_spec 1114111 cpv); lia.
Qed.

(* ---- custom maps: KeyError only for a name already registered ---- *)
Theorem process_custom_keyerror l acc :
  process_custom l acc = Raise KeyError ->
  exists k v l1 l2, l = l1 ++ (k, v) :: l2 /\
    exists acc' : cmap, existsb (fun e => str_eqb (fst e) (lower k)) acc' = true.
Proof.
  revert acc. induction l as [|[k v] l IH]; intros acc H; [discriminate|].
  cbn [process_custom] in H. destruct (rmatch cp_RE_CUSTOM (lower k) 0); [|discriminate].
  destruct (existsb (fun e => str_eqb (fst e) (lower k)) acc) eqn:E.
  - exists k, v, [], l. split; [reflexivity|]. exists acc. exact E.
  - destruct (IH _ H) as [k' [v' [l1 [l2 [-> Hx]]]]]. exists k', v', ((k, v) :: l1), l2. split; [reflexivity | exact Hx].
Qed.
Theorem process_custom_errors l acc e : process_custom l acc = Raise e -> e = KeyError \/ e = SelectorSyntaxError None.
Proof.
  revert acc. induction l as [|[k v] l IH]; intros acc H; [discriminate|].
  cbn [process_custom] in H. destruct (rmatch cp_RE_CUSTOM (lower k) 0); [|injection H as <-; now right].
  destruct (existsb _ acc); [injection H as <-; now left | exact (IH _ H)].
Qed.
