(* PrettyFacts.v — pretty() reproduces its input up to white space, for EVERY string (C20). *)
From SV Require Import Base Regex RegexFacts RegexCost RunFacts DetCost Diag ParserFacts DiagFacts.
From SV.gen Require Import RegexGen.
Local Open Scope bool_scope.

(* the class \s as it occurs in the REGENERATED separator patterns *)
Definition WSP : cset := [(9, 13); (28, 32); (133, 133); (160, 160); (5760, 5760); (8192, 8202); (8232, 8233); (8239, 8239); (8287, 8287); (12288, 12288)]%N.
Definition is_sp (c : cp) : bool := cs_mem c WSP.
Definition nows (s : str) : str := filter (fun c => negb (is_sp c)) s.

Lemma nows_app a b : nows (a ++ b) = nows a ++ nows b.
Proof. unfold nows. apply filter_app. Qed.
Lemma nows_all_sp w : forallb is_sp w = true -> nows w = [].
Proof. unfold nows. induction w as [|x w IH]; intros H; [reflexivity|]. cbn in *. apply andb_true_iff in H as [H1 H2]. rewrite H1. cbn. apply IH. exact H2. Qed.
Lemma nows_spaces n : nows (spaces n) = [].
Proof. unfold spaces. apply nows_all_sp. induction (Z.to_nat n) as [|k IH]; [reflexivity|]. cbn [repeat forallb]. rewrite IH. reflexivity. Qed.

Definition sep_re (c : cp) : re :=
  Seq (Rep true 0 None (Chr WSP)) (Seq (Grp 1 (Chr [(c, c)])) (Rep true 0 None (Chr WSP))).
Lemma sep_shape : pretty_RE_SEP = sep_re 44%N /\ pretty_RE_DSEP = sep_re 58%N.
Proof. split; reflexivity. Qed.

(* the ends of a class run: a prefix of class characters was consumed, captures untouched *)
Lemma run_ends_in cs : forall a mn mx p b c e c',
  In (e, c') (run_ends cs mn mx p b a c) ->
  exists w, a = w ++ after e /\ forallb (fun x => cs_mem x cs) w = true /\ pos e = p + length w /\ c' = c.
Proof.
  induction a as [|x a IH]; intros mn mx p b c e c' H; cbn [run_ends] in H.
  - destruct mn; [|contradiction]. destruct H as [H|[]]. injection H as <- <-. exists []. cbn. repeat split; lia.
  - assert (Hhere : In (e, c') (match mn with 0 => [({| pos := p; before := b; after := x :: a |}, c)] | S _ => [] end) ->
                    exists w, x :: a = w ++ after e /\ forallb (fun x => cs_mem x cs) w = true /\ pos e = p + length w /\ c' = c).
    { destruct mn; [|contradiction]. intros [Hh|[]]. injection Hh as <- <-. exists []. cbn. repeat split; lia. }
    destruct (cs_mem x cs && negb (mx_zero mx)) eqn:E; [|apply Hhere; exact H].
    apply in_app_or in H as [H|H]; [|apply Hhere; exact H].
    apply andb_true_iff in E as [Ex _]. destruct (IH _ _ _ _ _ _ _ H) as (w & Ha & Hw & Hp & Hc).
    exists (x :: w). cbn [app forallb length]. rewrite Ex, Hw, <- Ha. repeat split; [lia | exact Hc].
Qed.

Lemma sep_ends c st e caps : cs_mem c WSP = false -> In (e, caps) (ends (sep_re c) st []) ->
  exists w1 w2, after st = w1 ++ [c] ++ w2 ++ after e /\ forallb is_sp w1 = true /\ forallb is_sp w2 = true /\
                pos e = pos st + length w1 + 1 + length w2 /\
                cap_get 1 caps = Some (pos st + length w1, pos st + length w1 + 1).
Proof.
  intros Hc H. unfold sep_re in H. rewrite ends_seq in H. apply in_flat_map in H as ([e1 k1] & H1 & H). cbn [fst snd] in H.
  rewrite ends_seq in H. apply in_flat_map in H as ([e2 k2] & H2 & H3). cbn [fst snd] in H3.
  destruct st as [p b a]. rewrite ends_rep in H1. cbn [after] in H1. rewrite rep_ends_run in H1 by lia.
  destruct (run_ends_in _ _ _ _ _ _ _ _ _ H1) as (w1 & Ha1 & Hw1 & Hp1 & ->).
  rewrite ends_grp in H2. apply in_map_iff in H2 as ([e2' k2'] & E2 & H2). cbn [fst snd] in E2. injection E2 as <- <-.
  cbn [ends] in H2. unfold st_adv in H2. destruct e1 as [p1 b1 a1]. cbn [after pos before] in *.
  destruct a1 as [|x a1]; [contradiction|]. destruct (cs_mem x [(c, c)]) eqn:Ex; [|contradiction]. destruct H2 as [H2|[]]. injection H2 as <- <-.
  rewrite mem_single in Ex. apply N.eqb_eq in Ex. subst x.
  rewrite ends_rep in H3. cbn [after] in H3. rewrite rep_ends_run in H3 by lia.
  destruct (run_ends_in _ _ _ _ _ _ _ _ _ H3) as (w2 & Ha2 & Hw2 & Hp2 & ->).
  exists w1, w2. cbn [pos after]. repeat split.
  - rewrite Ha1. cbn [app]. rewrite Ha2. reflexivity.
  - exact Hw1.
  - exact Hw2.
  - cbn [pos] in Hp2. lia.
  - cbn [cap_get Nat.eqb pos]. rewrite Hp1. f_equal. f_equal. lia.
Qed.

(* ---- the text of a match ---- *)
Lemma st_skip_after n : forall st, after (st_skip n st) = skipn n (after st).
Proof.
  induction n as [|n IH]; intros st; [reflexivity|]. cbn [st_skip]. unfold st_adv. destruct st as [p b a]. cbn [after pos before].
  destruct a as [|x a]; [reflexivity|]. rewrite IH. reflexivity.
Qed.

Lemma rmatch_text r s i j c : i <= length s -> rmatch r s i = Some (j, c) ->
  exists e pre, In (e, c) (ends r (st_at s i) []) /\ pos e = j /\ skipn i s = pre ++ after e /\ j = i + length pre /\ substr s i j = pre.
Proof.
  intros Hi H. unfold rmatch, rmatch_st in H.
  destruct (ends r (st_at s i) []) as [|[e c'] l] eqn:E; [discriminate|]. cbn in H. injection H as <- <-.
  assert (Hin : In (e, c') (ends r (st_at s i) [])) by (rewrite E; now left).
  destruct (ends_reach _ _ _ _ _ Hin) as (pre & Ha & Hp & _).
  unfold st_at in Ha. rewrite st_skip_after in Ha. cbn [st_init after] in Ha. rewrite st_at_pos in Hp by exact Hi.
  exists e, pre. repeat split; [now left | exact Ha | exact Hp|].
  unfold substr. rewrite Hp. replace (i + length pre - i) with (length pre) by lia. rewrite Ha.
  rewrite firstn_app, firstn_all, Nat.sub_diag. cbn [firstn]. apply app_nil_r.
Qed.

Lemma firstn_add {A} k w : forall l : list A, firstn (k + w) l = firstn k l ++ firstn w (skipn k l).
Proof. induction k as [|k IH]; intros l; [reflexivity|]. destruct l as [|x l]; [cbn; destruct w; reflexivity|]. cbn [plus firstn skipn app]. f_equal. apply IH. Qed.
Lemma skipn_add {A} k w : forall l : list A, skipn w (skipn k l) = skipn (k + w) l.
Proof. induction k as [|k IH]; intros l; [reflexivity|]. destruct l as [|x l]; [cbn; destruct w; reflexivity|]. cbn [plus skipn]. apply IH. Qed.
Lemma firstn_split (s : str) i pre rest : skipn i s = pre ++ rest -> firstn (i + length pre) s = firstn i s ++ pre.
Proof. intros H. rewrite firstn_add, H, firstn_app, firstn_all, Nat.sub_diag. cbn [firstn]. rewrite app_nil_r. reflexivity. Qed.

Lemma sep_group c s i j caps : cs_mem c WSP = false -> i <= length s -> rmatch (sep_re c) s i = Some (j, caps) ->
  nows (match group s caps 1 with Some g => g | None => [] end) = nows (substr s i j).
Proof.
  intros Hc Hi H. destruct (rmatch_text _ _ _ _ _ Hi H) as (e & pre & Hin & Hpe & Ha & Hj & Hsub).
  destruct (sep_ends c _ _ _ Hc Hin) as (w1 & w2 & Hst & H1 & H2 & Hp & Hcap).
  unfold st_at in Hst. rewrite st_skip_after in Hst. cbn [st_init after] in Hst. rewrite st_at_pos in Hp, Hcap by exact Hi.
  assert (Hpre : pre = w1 ++ [c] ++ w2).
  { rewrite Ha in Hst. assert (Hl : length pre = length (w1 ++ [c] ++ w2)) by (rewrite !app_length; cbn [length]; lia).
    replace (w1 ++ [c] ++ w2 ++ after e) with ((w1 ++ [c] ++ w2) ++ after e) in Hst by (rewrite <- !app_assoc; reflexivity).
    generalize dependent (w1 ++ [c] ++ w2). intros q Hq Hlq. clear -Hq Hlq. revert q Hq Hlq.
    induction pre as [|x pre IH]; intros [|y q] Hq Hlq; cbn in *; try lia; [reflexivity|]. injection Hq as -> Hq. f_equal. apply IH; [exact Hq | lia]. }
  unfold group. rewrite Hcap, Hsub, Hpre.
  assert (Hg : substr s (i + length w1) (i + length w1 + 1) = [c]).
  { unfold substr. replace (i + length w1 + 1 - (i + length w1)) with 1 by lia. rewrite <- skipn_add. rewrite Ha, Hpre.
    rewrite <- !app_assoc. rewrite skipn_app, skipn_all, Nat.sub_diag. reflexivity. }
  rewrite Hg, !nows_app, (nows_all_sp w1 H1), (nows_all_sp w2 H2). rewrite app_nil_r. reflexivity.
Qed.

(* ---- the loop ---- *)
Lemma first_token_in sel index : forall l k j c, first_token sel index l = Some (k, j, c) ->
  exists r, In (k, r) l /\ rmatch r sel index = Some (j, c).
Proof.
  induction l as [|[k0 r0] l IH]; intros k j c H; [discriminate|]. cbn [first_token] in H.
  destruct (rmatch r0 sel index) as [[j' c']|] eqn:E.
  - injection H as <- <- <-. exists r0. split; [now left | exact E].
  - destruct (IH _ _ _ H) as (r & Hin & Hr). exists r. split; [now right | exact Hr].
Qed.

Lemma sep_tokens k r : In (k, r) pretty_tokens -> (k = PK_sep -> r = sep_re 44%N) /\ (k = PK_dsep -> r = sep_re 58%N).
Proof.
  unfold pretty_tokens. intros H. repeat (destruct H as [H|H]; [injection H as <- <-; split; intros E; try discriminate E; reflexivity|]). contradiction.
Qed.

Lemma sp_10 : is_sp 10%N = true.  Proof. reflexivity. Qed.
Lemma sp_32 : is_sp 32%N = true.  Proof. reflexivity. Qed.

Theorem pretty_loop_content fuel : forall sel index indent out o,
  index <= length sel -> nows out = nows (firstn index sel) ->
  pretty_loop fuel sel index indent out = Some o -> nows o = nows sel.
Proof.
  induction fuel as [|f IH]; intros sel index indent out o Hi Hinv H; [discriminate|].
  cbn [pretty_loop] in H. destruct (Nat.leb (length sel) index) eqn:El.
  - apply Nat.leb_le in El. injection H as <-. rewrite Hinv, firstn_all2 by lia. reflexivity.
  - apply Nat.leb_gt in El.
    destruct (first_token sel index pretty_tokens) as [[[k j] c]|] eqn:Et.
    + destruct (first_token_in _ _ _ _ _ _ Et) as (r & Hin & Hr).
      destruct (rmatch_text _ _ _ _ _ Hi Hr) as (e & pre & _ & _ & Ha & Hj & Hsub).
      pose proof (rmatch_end_le _ _ _ _ _ Hr) as Hjl.
      assert (Hfj : firstn j sel = firstn index sel ++ substr sel index j) by (rewrite Hsub, Hj; eapply firstn_split; exact Ha).
      destruct (Nat.eqb j index); [discriminate|].
      destruct (sep_tokens _ _ Hin) as [Hsep Hdsep].
      destruct k; (eapply IH; [exact Hjl | | exact H]); rewrite Hfj, !nows_app, Hinv; f_equal;
        rewrite ?nows_spaces, ?app_nil_r; cbn [nows filter]; rewrite ?sp_10, ?sp_32; cbn [negb]; rewrite ?app_nil_r; try reflexivity.
      * rewrite (Hsep eq_refl) in Hr. apply (sep_group 44%N); [reflexivity | exact Hi | exact Hr].
      * rewrite (Hdsep eq_refl) in Hr. apply (sep_group 58%N); [reflexivity | exact Hi | exact Hr].
    + destruct (nth_error sel index) as [ch|] eqn:En.
      * eapply IH; [| | exact H]; [lia|]. rewrite nows_app, Hinv.
        replace (S index) with (index + length [ch]) by (cbn; lia). erewrite firstn_split; [rewrite nows_app; reflexivity|].
        instantiate (1 := skipn (S index) sel). clear -En. revert index En. induction sel as [|x sel IHs]; intros [|i] En; try discriminate.
        -- cbn in En. injection En as ->. reflexivity.
        -- cbn [nth_error] in En. cbn [skipn]. apply IHs. exact En.
      * apply nth_error_None in En. lia.
Qed.

(* pretty() only inserts and removes white space: for EVERY string, what it returns equals its input once white space
   (the class \s of the separator patterns) is removed from both *)
Theorem pretty_content sel o : pretty sel = Some o -> nows o = nows sel.
Proof. unfold pretty. apply pretty_loop_content; [lia | reflexivity]. Qed.
Print Assumptions pretty_content.
