(* Regex.v — definitions only: the regular-expression fragment soupsieve uses, and a
   total, structural reference semantics with Python's backtracking priorities.

   `ends r st caps` is the list, WITH MULTIPLICITY and IN PRIORITY ORDER, of the
   (state, captures) pairs a backtracking matcher can leave r at when started in
   state st; `re.match` is the head of that list.  The length of the lists is the
   size of the backtracking search tree: C07 bounds it. *)
From SV Require Export Base.

(* character sets are explicit unions of inclusive code-point ranges; IGNORECASE,
   negation and categories are expanded by the translator (T1) *)
Definition cset := list (N * N).
Definition cs_mem (c : cp) (cs : cset) : bool :=
  existsb (fun r => (fst r <=? c)%N && (c <=? snd r)%N) cs.

Inductive re :=
| Eps
| Chr (cs : cset)
| Seq (a b : re)
| Alt (a b : re)                                   (* ordered: a first *)
| Rep (greedy : bool) (mn : nat) (mx : option nat) (r : re)   (* mx = None: unbounded *)
| Look (neg : bool) (r : re)                       (* (?=r) / (?!r) *)
| Behind (neg : bool) (cs : cset)                  (* (?<=[cs]) / (?<![cs]) : one character *)
| BehindStart                                      (* (?<=^) *)
| AtStart                                          (* ^ without MULTILINE *)
| AtEnd                                            (* $ without MULTILINE: at end, or before a final \n *)
| AtEndStrict                                      (* \Z *)
| Grp (id : nat) (r : re).

(* a matcher state: position, characters before it (nearest first), characters after it *)
Record state := St { pos : nat; before : list cp; after : list cp }.
Definition st_init (s : str) : state := St 0 [] s.
Definition st_adv (st : state) : option (cp * state) :=
  match after st with
  | [] => None
  | c :: rest => Some (c, St (S (pos st)) (c :: before st) rest)
  end.
Fixpoint st_skip (n : nat) (st : state) : state :=
  match n with
  | O => st
  | S k => match st_adv st with Some (_, st') => st_skip k st' | None => st end
  end.
Definition st_at (s : str) (i : nat) : state := st_skip i (st_init s).

(* captures: group id -> (start, end); most recent first *)
Definition caps := list (nat * (nat * nat)).
Fixpoint cap_get (g : nat) (c : caps) : option (nat * nat) :=
  match c with
  | [] => None
  | (g', se) :: c' => if Nat.eqb g g' then Some se else cap_get g c'
  end.

Definition mres := list (state * caps).

(* `$` without MULTILINE: at the end, or before a final line feed *)
Definition at_end_b (l : list cp) : bool :=
  match l with [] => true | [c] => N.eqb c 10 | _ => false end.

(* repetition: iterate `body` from every end, fuel bounds the number of iterations.
   An iteration that does not advance is dropped (CPython's empty-iteration guard;
   the translator additionally refuses nullable bodies, see T1). *)
Fixpoint rep_ends (body : state -> caps -> mres) (greedy : bool)
         (fuel : nat) (mn : nat) (mx : option nat) (st : state) (c : caps) : mres :=
  match fuel with
  | O => match mn with O => [(st, c)] | S _ => [] end
  | S f =>
    let more :=
      match mx with
      | Some O => []
      | _ =>
        let mx' := match mx with Some (S m) => Some m | _ => None end in
        flat_map (fun sc => if Nat.ltb (pos st) (pos (fst sc))
                            then rep_ends body greedy f (pred mn) mx' (fst sc) (snd sc)
                            else [])
                 (body st c)
      end in
    match mn with
    | S _ => more
    | O => if greedy then more ++ [(st, c)] else (st, c) :: more
    end
  end.

Fixpoint ends (r : re) (st : state) (c : caps) : mres :=
  match r with
  | Eps => [(st, c)]
  | Chr cs => match st_adv st with
              | Some (ch, st') => if cs_mem ch cs then [(st', c)] else []
              | None => []
              end
  | Seq a b => flat_map (fun sc => ends b (fst sc) (snd sc)) (ends a st c)
  | Alt a b => ends a st c ++ ends b st c
  | Rep g mn mx r' => rep_ends (ends r') g (S (length (after st))) mn mx st c
  | Look neg r' => match ends r' st c with
                   | [] => if neg then [(st, c)] else []
                   | (_, c') :: _ => if neg then [] else [(st, c')]
                   end
  | Behind neg cs => match before st with
                     | ch :: _ => if xorb neg (cs_mem ch cs) then [(st, c)] else []
                     | [] => if neg then [(st, c)] else []
                     end
  | BehindStart | AtStart => match pos st with O => [(st, c)] | S _ => [] end
  | AtEnd => if at_end_b (after st) then [(st, c)] else []
  | AtEndStrict => match after st with [] => [(st, c)] | _ => [] end
  | Grp g r' => map (fun sc => (fst sc, (g, (pos st, pos (fst sc))) :: snd sc)) (ends r' st c)
  end.

(* re.Pattern.match(s, i): first alternative in priority order *)
Definition rmatch_st (r : re) (st : state) : option (state * caps) := hd_error (ends r st []).
Definition rmatch (r : re) (s : str) (i : nat) : option (nat * caps) :=
  match rmatch_st r (st_at s i) with Some (st, c) => Some (pos st, c) | None => None end.

(* re.Pattern.search: leftmost start, scanning one character at a time *)
Fixpoint rsearch_st (fuel : nat) (r : re) (st : state) : option (state * state * caps) :=
  match rmatch_st r st with
  | Some (st', c) => Some (st, st', c)
  | None => match fuel with
            | O => None
            | S f => match st_adv st with
                     | Some (_, st1) => rsearch_st f r st1
                     | None => None
                     end
            end
  end.
Definition rsearch (r : re) (s : str) : option (nat * nat * caps) :=
  match rsearch_st (length s) r (st_init s) with
  | Some (a, b, c) => Some (pos a, pos b, c)
  | None => None
  end.

(* re.Pattern.finditer / sub / findall: successive non-overlapping matches.  After an
   EMPTY match the next search starts at the same position with CPython's
   `must_advance` rule: at that first position only a non-empty match is accepted. *)
Definition rmatch_st_nonempty (r : re) (st : state) : option (state * caps) :=
  find (fun sc => negb (Nat.eqb (pos (fst sc)) (pos st))) (ends r st []).
Definition rsearch_from (must_advance : bool) (r : re) (st : state) : option (state * state * caps) :=
  if must_advance then
    match rmatch_st_nonempty r st with
    | Some (st', c) => Some (st, st', c)
    | None => match st_adv st with
              | Some (_, st1) => rsearch_st (length (after st1)) r st1
              | None => None
              end
    end
  else rsearch_st (length (after st)) r st.
Fixpoint finditer_st (fuel : nat) (must_advance : bool) (r : re) (st : state)
  : list (state * state * caps) :=
  match fuel with
  | O => []
  | S f =>
    match rsearch_from must_advance r st with
    | None => []
    | Some (a, b, c) => (a, b, c) :: finditer_st f (Nat.eqb (pos a) (pos b)) r b
    end
  end.
Definition finditer (r : re) (s : str) : list (nat * nat * caps) :=
  map (fun x => match x with (a, b, c) => (pos a, pos b, c) end)
      (finditer_st (S (S (length s))) false r (st_init s)).

(* slice helpers *)
Definition substr (s : str) (a b : nat) : str := firstn (b - a) (skipn a s).
Definition group (s : str) (c : caps) (g : nat) : option str :=
  match cap_get g c with Some (a, b) => Some (substr s a b) | None => None end.

(* static facts used by certificates *)
Fixpoint nullable (r : re) : bool :=
  match r with
  | Eps => true
  | Chr _ => false
  | Seq a b => nullable a && nullable b
  | Alt a b => nullable a || nullable b
  | Rep _ mn _ r' => match mn with O => true | S _ => nullable r' end
  | Look _ _ | Behind _ _ | BehindStart | AtStart | AtEnd | AtEndStrict => true
  | Grp _ r' => nullable r'
  end.

Fixpoint re_size (r : re) : nat :=
  match r with
  | Seq a b | Alt a b => S (re_size a + re_size b)
  | Rep _ _ _ r' | Look _ r' | Grp _ r' => S (re_size r')
  | _ => 1
  end.

(* every repetition body is non-nullable: the well-formedness the translator checks *)
Fixpoint rep_bodies_ok (r : re) : bool :=
  match r with
  | Seq a b | Alt a b => rep_bodies_ok a && rep_bodies_ok b
  | Rep _ _ _ r' => negb (nullable r') && rep_bodies_ok r'
  | Look _ r' | Grp _ r' => rep_bodies_ok r'
  | _ => true
  end.

(* the size of the backtracking search from position i (number of ends, with multiplicity) *)
Definition ends_count (r : re) (s : str) (i : nat) : nat := length (ends r (st_at s i) []).
