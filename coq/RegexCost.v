(* RegexCost.v — a polynomial bound on the size of the backtracking search (the number of ends, with
   multiplicity) for expressions whose repetition bodies are syntactically single-ended. *)
From SV Require Import Base Regex RegexFacts.
Local Open Scope bool_scope.

(* ---- first characters ---- *)
Definition cs_disjoint (a b : cset) : bool :=
  forallb (fun x => forallb (fun y => (snd x <? fst y)%N || (snd y <? fst x)%N) b) a.
Lemma cs_disjoint_sound a b ch : cs_disjoint a b = true -> cs_mem ch a = true -> cs_mem ch b = false.
Proof.
  unfold cs_disjoint, cs_mem. intros Hd Ha. apply existsb_exists in Ha as [x [Hx Hin]].
  rewrite forallb_forall in Hd. specialize (Hd x Hx). rewrite forallb_forall in Hd.
  destruct (existsb (fun r => (fst r <=? ch)%N && (ch <=? snd r)%N) b) eqn:E; [|reflexivity].
  apply existsb_exists in E as [y [Hy Hiny]]. specialize (Hd y Hy).
  apply andb_true_iff in Hin as [H1 H2]. apply andb_true_iff in Hiny as [H3 H4].
  apply N.leb_le in H1, H2, H3, H4. apply orb_true_iff in Hd as [Hd|Hd]; apply N.ltb_lt in Hd; lia.
Qed.

(* Some cs: every match of r starts by consuming a character of cs *)
Fixpoint first_cs (r : re) : option cset :=
  match r with
  | Chr cs => Some cs
  | Seq a b => match first_cs a with
               | Some cs => Some cs
               | None => match a with
                         | Look _ _ | Behind _ _ | BehindStart | AtStart => first_cs b
                         | _ => None
                         end
               end
  | Alt a b => match first_cs a, first_cs b with Some x, Some y => Some (x ++ y) | _, _ => None end
  | Rep _ (S _) _ r' => first_cs r'
  | Grp _ r' => first_cs r'
  | _ => None
  end.

Lemma cs_mem_app ch a b : cs_mem ch (a ++ b) = cs_mem ch a || cs_mem ch b.
Proof. unfold cs_mem. apply existsb_app. Qed.

Definition starts_in (st : state) (cs : cset) : Prop :=
  match after st with ch :: _ => cs_mem ch cs = true | [] => False end.

Lemma zero_width_same r st c st' c' :
  match r with Look _ _ | Behind _ _ | BehindStart | AtStart => True | _ => False end ->
  In (st', c') (ends r st c) -> st' = st.
Proof.
  destruct r; try contradiction; intros _ H; cbn [ends] in H.
  - destruct (ends r st c) as [|[s1 c1] l]; destruct neg; try contradiction; destruct H as [H|[]]; now injection H.
  - destruct (before st) as [|ch l]; [destruct neg; try contradiction | destruct (xorb neg (cs_mem ch cs)); try contradiction];
      destruct H as [H|[]]; now injection H.
  - destruct (pos st); [|contradiction]. destruct H as [H|[]]; now injection H.
  - destruct (pos st); [|contradiction]. destruct H as [H|[]]; now injection H.
Qed.

Lemma first_cs_sound r : forall cs, first_cs r = Some cs ->
  forall st c st' c', In (st', c') (ends r st c) -> starts_in st cs.
Proof.
  induction r as [|cs0|a IHa b IHb|a IHa b IHb|g mn mx r IH|neg r IH|neg cs0| | | | |g r IH]; intros cs Hf st c st' c' H;
    cbn [first_cs] in Hf; try discriminate.
  - injection Hf as <-. cbn [ends] in H. unfold starts_in, st_adv in *. destruct (after st) as [|ch l]; [contradiction|].
    destruct (cs_mem ch cs0) eqn:E; [reflexivity | contradiction].
  - cbn [ends] in H. apply in_flat_map in H as [[s1 c1] [H1 H2]]. cbn [fst snd] in H2.
    destruct (first_cs a) as [x|] eqn:Ea.
    + injection Hf as <-. eapply IHa; [reflexivity | exact H1].
    + assert (Hz : match a with Look _ _ | Behind _ _ | BehindStart | AtStart => True | _ => False end)
        by (destruct a; try discriminate; exact I).
      apply (zero_width_same a _ _ _ _ Hz) in H1. subst s1.
      destruct a; try discriminate; eapply IHb; eassumption.
  - destruct (first_cs a) as [x|] eqn:Ea; [|discriminate]. destruct (first_cs b) as [y|] eqn:Eb; [|discriminate].
    injection Hf as <-. cbn [ends] in H. apply in_app_or in H as [H|H].
    + specialize (IHa x eq_refl _ _ _ _ H). unfold starts_in in *. destruct (after st); [contradiction|].
      rewrite cs_mem_app, IHa. reflexivity.
    + specialize (IHb y eq_refl _ _ _ _ H). unfold starts_in in *. destruct (after st); [contradiction|].
      rewrite cs_mem_app, IHb. apply orb_true_r.
  - destruct mn as [|mn']; [discriminate|]. cbn [ends] in H. cbn [rep_ends] in H.
    destruct mx as [[|m]|]; try contradiction;
    apply in_flat_map in H as [[s1 c1] [H1 _]]; eapply IH; eassumption.
  - cbn [ends] in H. apply in_map_iff in H as [[s1 c1] [_ H]]. eapply IH; eassumption.
Qed.

(* ---- syntactic equality of expressions (for the (?!a) guard) ---- *)
Fixpoint cset_eqb (a b : cset) : bool :=
  match a, b with
  | [], [] => true
  | (x1, y1) :: a', (x2, y2) :: b' => N.eqb x1 x2 && N.eqb y1 y2 && cset_eqb a' b'
  | _, _ => false
  end.
Lemma cset_eqb_eq a b : cset_eqb a b = true -> a = b.
Proof.
  revert b. induction a as [|[x1 y1] a IH]; intros [|[x2 y2] b] H; try discriminate; [reflexivity|].
  cbn in H. apply andb_true_iff in H as [H H3]. apply andb_true_iff in H as [H1 H2].
  apply N.eqb_eq in H1, H2. subst. f_equal. now apply IH.
Qed.
Fixpoint re_eqb (a b : re) : bool :=
  match a, b with
  | Eps, Eps | BehindStart, BehindStart | AtStart, AtStart | AtEnd, AtEnd | AtEndStrict, AtEndStrict => true
  | Chr x, Chr y => cset_eqb x y
  | Seq a1 a2, Seq b1 b2 | Alt a1 a2, Alt b1 b2 => re_eqb a1 b1 && re_eqb a2 b2
  | _, _ => false
  end.
Lemma re_eqb_eq a : forall b, re_eqb a b = true -> a = b.
Proof.
  induction a; intros b H; destruct b; try discriminate; try reflexivity; cbn in H.
  - f_equal. now apply cset_eqb_eq.
  - apply andb_true_iff in H as [H1 H2]. f_equal; auto.
  - apply andb_true_iff in H as [H1 H2]. f_equal; auto.
Qed.

(* ---- single-ended expressions: at most one end, whatever the subject ---- *)
Fixpoint se (r : re) : bool :=
  match r with
  | Eps | Chr _ | Look _ _ | Behind _ _ | BehindStart | AtStart | AtEnd | AtEndStrict => true
  | Seq a b => se a && se b
  | Alt a b =>
    se a && se b &&
    (match first_cs a, first_cs b with
     | Some x, Some y => cs_disjoint x y
     | _, _ => false
     end
     || match b with
        | Seq (Look true a') _ => re_eqb a a'          (* a | (?!a) b *)
        | _ => false
        end)
  | Rep _ mn (Some mx) r' => Nat.eqb mn mx && se r'     (* a fixed number of iterations *)
  | Rep _ _ None _ => false
  | Grp _ r' => se r'
  end.

Section RepSe.
Variable body : state -> caps -> mres.
Hypothesis body_se : forall st c, length (body st c) <= 1.
Lemma rep_fixed_se g fuel : forall n st c, length (rep_ends body g fuel n (Some n) st c) <= 1.
Proof.
  induction fuel as [|f IH]; intros n st c.
  - cbn. destruct n; cbn; lia.
  - cbn [rep_ends]. destruct n as [|n'].
    + destruct g; cbn; lia.
    + specialize (body_se st c). destruct (body st c) as [|[s1 c1] [|x l]]; cbn [length] in body_se; try lia.
      * cbn. lia.
      * cbn [flat_map fst snd]. rewrite app_nil_r. destruct (Nat.ltb (pos st) (pos s1)); [apply IH | cbn; lia].
Qed.
End RepSe.

Lemma se_sound r : se r = true -> forall st c, length (ends r st c) <= 1.
Proof.
  induction r as [|cs|a IHa b IHb|a IHa b IHb|g mn mx r IH|neg r IH|neg cs| | | | |g r IH]; intros Hs st c; cbn [se] in Hs; cbn [ends].
  - cbn. lia.
  - destruct (st_adv st) as [[ch s1]|]; [destruct (cs_mem ch cs)|]; cbn; lia.
  - apply andb_true_iff in Hs as [Ha Hb]. specialize (IHa Ha st c).
    destruct (ends a st c) as [|[s1 c1] [|x l]]; cbn [length] in IHa; try lia; cbn [flat_map fst snd].
    + cbn. lia.
    + rewrite app_nil_r. apply IHb. exact Hb.
  - apply andb_true_iff in Hs as [Hs Hx]. apply andb_true_iff in Hs as [Ha Hb].
    specialize (IHa Ha st c). specialize (IHb Hb st c). rewrite app_length.
    destruct (ends a st c) as [|[s1 c1] la] eqn:Ea; [cbn; lia|].
    destruct (ends b st c) as [|[s2 c2] lb] eqn:Eb; [cbn in *; lia|]. exfalso.
    apply orb_true_iff in Hx as [Hx|Hx].
    + destruct (first_cs a) as [x|] eqn:Fa; [|discriminate]. destruct (first_cs b) as [y|] eqn:Fb; [|discriminate].
      assert (H1 : starts_in st x) by (eapply (first_cs_sound a x Fa st c s1 c1); rewrite Ea; now left).
      assert (H2 : starts_in st y) by (eapply (first_cs_sound b y Fb st c s2 c2); rewrite Eb; now left).
      unfold starts_in in *. destruct (after st) as [|ch l]; [contradiction|].
      rewrite (cs_disjoint_sound x y ch Hx H1) in H2. discriminate.
    + destruct b as [| |b1 b2| | | | | | | | |]; try discriminate.
      destruct b1 as [| | | | |neg a'| | | | | |]; try discriminate. destruct neg; [|discriminate].
      apply re_eqb_eq in Hx. subst a'. cbn [ends] in Eb. rewrite Ea in Eb. cbn in Eb. discriminate.
  - destruct mx as [mx|]; [|discriminate]. apply andb_true_iff in Hs as [He Hs]. apply Nat.eqb_eq in He. subst mx.
    apply rep_fixed_se. intros; apply IH; exact Hs.
  - destruct (ends r st c) as [|[s1 c1] l]; destruct neg; cbn; lia.
  - destruct (before st) as [|ch l]; [destruct neg | destruct (xorb neg (cs_mem ch cs))]; cbn; lia.
  - destruct (pos st); cbn; lia.
  - destruct (pos st); cbn; lia.
  - destruct (at_end_b (after st)); cbn; lia.
  - destruct (after st); cbn; lia.
  - rewrite map_length. apply IH. exact Hs.
Qed.

(* ---- position + remaining length is invariant ---- *)
Definition total (st : state) : nat := pos st + length (after st).
Lemma st_adv_total st ch st' : st_adv st = Some (ch, st') -> total st' = total st.
Proof.
  unfold st_adv, total. destruct st as [p b a]. cbn [after pos]. destruct a as [|x a]; [discriminate|].
  intros H. injection H as _ <-. cbn. lia.
Qed.

Section RepTotal.
Variable body : state -> caps -> mres.
Hypothesis body_total : forall st c st' c', In (st', c') (body st c) -> total st' = total st.
Lemma rep_ends_total g fuel : forall mn mx st c st' c',
  In (st', c') (rep_ends body g fuel mn mx st c) -> total st' = total st.
Proof.
  induction fuel as [|f IH]; intros mn mx st c st' c' H.
  - cbn in H. destruct mn; [destruct H as [H|[]]; now injection H as <- | contradiction].
  - cbn [rep_ends] in H.
    assert (Hmore : forall l, l = (match mx with
                 | Some 0 => []
                 | _ => flat_map (fun sc => if Nat.ltb (pos st) (pos (fst sc))
                                            then rep_ends body g f (Nat.pred mn)
                                                   match mx with Some (S m) => Some m | _ => None end (fst sc) (snd sc)
                                            else []) (body st c)
                 end) -> In (st', c') l -> total st' = total st).
    { intros l -> Hin. destruct mx as [[|m]|]; try contradiction;
      apply in_flat_map in Hin as [[s1 c1] [H1 H2]]; cbn [fst snd] in H2;
      destruct (Nat.ltb (pos st) (pos s1)); try contradiction;
      rewrite (IH _ _ _ _ _ _ H2); exact (body_total _ _ _ _ H1). }
    destruct mn.
    + destruct g.
      * apply in_app_or in H as [H|[H|[]]]; [eapply Hmore; [reflexivity | exact H] | now injection H as <-].
      * destruct H as [H|H]; [now injection H as <- | eapply Hmore; [reflexivity | exact H]].
    + eapply Hmore; [reflexivity | exact H].
Qed.
End RepTotal.

Lemma ends_total r : forall st c st' c', In (st', c') (ends r st c) -> total st' = total st.
Proof.
  induction r as [|cs|a IHa b IHb|a IHa b IHb|g mn mx r IH|neg r IH|neg cs| | | | |g r IH]; intros st c st' c' H; cbn [ends] in H.
  - destruct H as [H|[]]. now injection H as <-.
  - destruct (st_adv st) as [[ch s1]|] eqn:E; [|contradiction]. destruct (cs_mem ch cs); [|contradiction].
    destruct H as [H|[]]. injection H as <- _. eapply st_adv_total; exact E.
  - apply in_flat_map in H as [[s1 c1] [H1 H2]]. cbn [fst snd] in H2. rewrite (IHb _ _ _ _ H2). eapply IHa; exact H1.
  - apply in_app_or in H as [H|H]; [eapply IHa | eapply IHb]; exact H.
  - eapply rep_ends_total; [|exact H]. intros; eapply IH; eassumption.
  - destruct (ends r st c) as [|[s1 c1] l]; destruct neg; try contradiction; destruct H as [H|[]]; now injection H as <-.
  - destruct (before st) as [|ch l]; [destruct neg; try contradiction | destruct (xorb neg (cs_mem ch cs)); try contradiction];
      destruct H as [H|[]]; now injection H as <-.
  - destruct (pos st); [|contradiction]. destruct H as [H|[]]; now injection H as <-.
  - destruct (pos st); [|contradiction]. destruct H as [H|[]]; now injection H as <-.
  - destruct (at_end_b (after st)); [|contradiction]. destruct H as [H|[]]; now injection H as <-.
  - destruct (after st); [|contradiction]. destruct H as [H|[]]; now injection H as <-.
  - apply in_map_iff in H as [[s1 c1] [E H]]. cbn [fst snd] in E. injection E as <- _. eapply IH; exact H.
Qed.

Lemma ends_after_le r st c st' c' : In (st', c') (ends r st c) -> length (after st') <= length (after st).
Proof.
  intros H. pose proof (ends_total _ _ _ _ _ H) as Ht. pose proof (ends_mono _ _ _ _ _ H) as Hm. unfold total in Ht. lia.
Qed.

(* ---- the bound ---- *)
Fixpoint reps_se (r : re) : bool :=
  match r with
  | Seq a b | Alt a b => reps_se a && reps_se b
  | Rep _ _ _ r' => se r'
  | Grp _ r' => reps_se r'
  | _ => true
  end.
Fixpoint bound (r : re) (n : nat) : nat :=
  match r with
  | Seq a b => bound a n * bound b n
  | Alt a b => bound a n + bound b n
  | Rep _ _ _ _ => n + 2
  | Grp _ r' => bound r' n
  | _ => 1
  end.
Lemma bound_mono r n m : n <= m -> bound r n <= bound r m.
Proof.
  intros H. induction r; cbn [bound]; try lia.
  - apply Nat.mul_le_mono; assumption.
Qed.
Lemma bound_pos r n : 1 <= bound r n.
Proof. induction r; cbn [bound]; try lia; try nia. Qed.

Section RepBound.
Variable body : state -> caps -> mres.
Hypothesis body_se : forall st c, length (body st c) <= 1.
Hypothesis body_total : forall st c st' c', In (st', c') (body st c) -> total st' = total st.
Lemma rep_ends_bound g fuel : forall mn mx st c, length (rep_ends body g fuel mn mx st c) <= length (after st) + 2.
Proof.
  induction fuel as [|f IH]; intros mn mx st c.
  - cbn. destruct mn; cbn; lia.
  - cbn [rep_ends].
    set (more := match mx with
                 | Some 0 => []
                 | _ => flat_map (fun sc => if Nat.ltb (pos st) (pos (fst sc))
                                            then rep_ends body g f (Nat.pred mn)
                                                   match mx with Some (S m) => Some m | _ => None end (fst sc) (snd sc)
                                            else []) (body st c)
                 end).
    assert (Hmore : length more <= length (after st) + 1).
    { unfold more. destruct mx as [[|m]|]; try (cbn; lia);
      pose proof (body_se st c) as Hb; destruct (body st c) as [|[s1 c1] [|x l]] eqn:Eb; cbn [length] in Hb; try lia;
      try (cbn; lia); cbn [flat_map fst snd]; rewrite app_nil_r;
      destruct (Nat.ltb (pos st) (pos s1)) eqn:E; try (cbn; lia);
      apply Nat.ltb_lt in E;
      assert (Ht : total s1 = total st) by (eapply body_total; rewrite Eb; now left);
      unfold total in Ht;
      match goal with |- length (rep_ends _ _ _ ?a ?b _ _) <= _ => specialize (IH a b s1 c1) end; lia. }
    destruct mn; [destruct g; [rewrite app_length; cbn; lia | cbn [length]; lia] | lia].
Qed.
End RepBound.

(* The number of ends (with multiplicity) - the size of the backtracking search - is bounded by a
   polynomial in the remaining length when every repetition body is single-ended. *)
Theorem ends_bound r : reps_se r = true -> forall st c, length (ends r st c) <= bound r (length (after st)).
Proof.
  induction r as [|cs|a IHa b IHb|a IHa b IHb|g mn mx r IH|neg r IH|neg cs| | | | |g r IH]; intros Hs st c; cbn [reps_se] in Hs; cbn [ends bound].
  - cbn. lia.
  - destruct (st_adv st) as [[ch s1]|]; [destruct (cs_mem ch cs)|]; cbn; lia.
  - apply andb_true_iff in Hs as [Ha Hb]. specialize (IHa Ha st c).
    assert (H : forall l, (forall x, In x l -> length (after (fst x)) <= length (after st)) ->
                length (flat_map (fun sc => ends b (fst sc) (snd sc)) l) <= length l * bound b (length (after st))).
    { induction l as [|[s1 c1] l IHl]; intros Hl; [cbn; lia|]. cbn [flat_map length fst snd]. rewrite app_length.
      specialize (IHb Hb s1 c1). pose proof (bound_mono b _ _ (Hl (s1, c1) (or_introl eq_refl))) as Hm. cbn [fst] in Hm.
      specialize (IHl (fun x Hx => Hl x (or_intror Hx))). lia. }
    eapply Nat.le_trans; [apply H|].
    + intros [s1 c1] Hin. cbn [fst]. eapply ends_after_le; exact Hin.
    + apply Nat.mul_le_mono_r. exact IHa.
  - apply andb_true_iff in Hs as [Ha Hb]. rewrite app_length. specialize (IHa Ha st c). specialize (IHb Hb st c). lia.
  - eapply Nat.le_trans; [apply rep_ends_bound|lia].
    + intros; apply se_sound; exact Hs.
    + intros; eapply ends_total; eassumption.
  - destruct (ends r st c) as [|[s1 c1] l]; destruct neg; cbn; lia.
  - destruct (before st) as [|ch l]; [destruct neg | destruct (xorb neg (cs_mem ch cs))]; cbn; lia.
  - destruct (pos st); cbn; lia.
  - destruct (pos st); cbn; lia.
  - destruct (at_end_b (after st)); cbn; lia.
  - destruct (after st); cbn; lia.
  - rewrite map_length. apply IH. exact Hs.
Qed.

Lemma pow_ge_1 n k : 1 <= (n + 2) ^ k.
Proof. induction k; cbn; nia. Qed.

(* the bound is a polynomial: at most (n + 2) ^ (size of the expression) *)
Theorem bound_poly r n : bound r n <= (n + 2) ^ re_size r.
Proof.
  induction r; cbn [bound re_size]; try (rewrite Nat.pow_1_r; lia).
  - rewrite Nat.pow_succ_r', Nat.pow_add_r.
    apply Nat.le_trans with ((n + 2) ^ re_size r1 * (n + 2) ^ re_size r2); [apply Nat.mul_le_mono; assumption|].
    pose proof (pow_ge_1 n (re_size r1)). pose proof (pow_ge_1 n (re_size r2)). nia.
  - rewrite Nat.pow_succ_r', Nat.pow_add_r.
    pose proof (pow_ge_1 n (re_size r1)). pose proof (pow_ge_1 n (re_size r2)). nia.
  - rewrite Nat.pow_succ_r'. pose proof (pow_ge_1 n (re_size r)). nia.
  - apply pow_ge_1.
  - rewrite Nat.pow_succ_r'. pose proof (pow_ge_1 n (re_size r)). nia.
Qed.
