(* RegexFacts.v — general facts about the reference regex semantics (Regex.ends). *)
From SV Require Import Base Regex.
Local Open Scope bool_scope.

(* ---- positions never decrease; a non-nullable expression strictly advances ---- *)
Lemma st_adv_pos st c st' : st_adv st = Some (c, st') -> pos st' = S (pos st).
Proof. unfold st_adv. destruct (after st); [discriminate|]. intros H. injection H as _ <-. reflexivity. Qed.

Lemma in_flat_map_iff {A B} (f : A -> list B) l y : In y (flat_map f l) <-> exists x, In x l /\ In y (f x).
Proof. apply in_flat_map. Qed.

Section Rep.
Variable body : state -> caps -> mres.
Hypothesis body_mono : forall st c st' c', In (st', c') (body st c) -> pos st <= pos st'.

Lemma rep_ends_mono g fuel : forall mn mx st c st' c',
  In (st', c') (rep_ends body g fuel mn mx st c) -> pos st <= pos st'.
Proof.
  induction fuel as [|f IH]; intros mn mx st c st' c' H.
  - cbn in H. destruct mn; [destruct H as [H|[]]; injection H as <- <-; lia | contradiction].
  - cbn [rep_ends] in H.
    set (more := match mx with
                 | Some 0 => []
                 | _ => flat_map (fun sc => if Nat.ltb (pos st) (pos (fst sc))
                                            then rep_ends body g f (Nat.pred mn)
                                                   match mx with Some (S m) => Some m | _ => None end (fst sc) (snd sc)
                                            else []) (body st c)
                 end) in *.
    assert (Hmore : In (st', c') more -> pos st <= pos st').
    { unfold more. destruct mx as [[|m]|]; try contradiction;
      intros Hin; apply in_flat_map in Hin as [[s1 c1] [H1 H2]]; cbn [fst snd] in H2;
      destruct (Nat.ltb (pos st) (pos s1)) eqn:E; try contradiction;
      apply Nat.ltb_lt in E; apply IH in H2; lia. }
    destruct mn.
    + destruct g.
      * apply in_app_or in H as [H|[H|[]]]; [auto | injection H as <- <-; lia].
      * destruct H as [H|H]; [injection H as <- <-; lia | auto].
    + auto.
Qed.

(* with mn >= 1 every end is strictly after the start (iterations that do not advance are dropped) *)
Lemma rep_ends_progress g fuel : forall mn mx st c st' c', 1 <= mn ->
  In (st', c') (rep_ends body g fuel mn mx st c) -> pos st < pos st'.
Proof.
  destruct fuel as [|f]; intros mn mx st c st' c' Hmn H.
  - cbn in H. destruct mn; [lia | contradiction].
  - cbn [rep_ends] in H. destruct mn as [|mn']; [lia|].
    destruct mx as [[|m]|]; try contradiction;
    apply in_flat_map in H as [[s1 c1] [H1 H2]]; cbn [fst snd] in H2;
    destruct (Nat.ltb (pos st) (pos s1)) eqn:E; try contradiction;
    apply Nat.ltb_lt in E; apply rep_ends_mono in H2; lia.
Qed.
End Rep.

Lemma ends_mono r : forall st c st' c', In (st', c') (ends r st c) -> pos st <= pos st'.
Proof.
  induction r as [|cs|a IHa b IHb|a IHa b IHb|g mn mx r IH|neg r IH|neg cs| | | | |g r IH]; intros st c st' c' H; cbn [ends] in H.
  - destruct H as [H|[]]. injection H as <- <-. lia.
  - destruct (st_adv st) as [[ch s1]|] eqn:E; [|contradiction].
    destruct (cs_mem ch cs); [|contradiction]. destruct H as [H|[]]. injection H as <- <-.
    rewrite (st_adv_pos _ _ _ E). lia.
  - apply in_flat_map in H as [[s1 c1] [H1 H2]]. cbn [fst snd] in H2. apply IHa in H1. apply IHb in H2. lia.
  - apply in_app_or in H as [H|H]; [apply IHa in H | apply IHb in H]; lia.
  - eapply rep_ends_mono; eassumption.
  - destruct (ends r st c) as [|[s1 c1] l]; destruct neg; try contradiction;
      destruct H as [H|[]]; injection H as <- <-; lia.
  - destruct (before st) as [|ch l]; [destruct neg; try contradiction | destruct (xorb neg (cs_mem ch cs)); try contradiction];
      destruct H as [H|[]]; injection H as <- <-; lia.
  - destruct (pos st); [|contradiction]. destruct H as [H|[]]; injection H as <- <-; lia.
  - destruct (pos st); [|contradiction]. destruct H as [H|[]]; injection H as <- <-; lia.
  - destruct (at_end_b (after st)); [|contradiction]. destruct H as [H|[]]; injection H as <- <-; lia.
  - destruct (after st); [|contradiction]. destruct H as [H|[]]; injection H as <- <-; lia.
  - apply in_map_iff in H as [[s1 c1] [E H]]. cbn [fst snd] in E. injection E as <- <-. eapply IH; eassumption.
Qed.

Lemma ends_progress r : nullable r = false ->
  forall st c st' c', In (st', c') (ends r st c) -> pos st < pos st'.
Proof.
  induction r as [|cs|a IHa b IHb|a IHa b IHb|g mn mx r IH|neg r IH|neg cs| | | | |g r IH]; intros Hn st c st' c' H;
    cbn [nullable] in Hn; try discriminate; cbn [ends] in H.
  - destruct (st_adv st) as [[ch s1]|] eqn:E; [|contradiction].
    destruct (cs_mem ch cs); [|contradiction]. destruct H as [H|[]]. injection H as <- <-.
    rewrite (st_adv_pos _ _ _ E). lia.
  - apply in_flat_map in H as [[s1 c1] [H1 H2]]. cbn [fst snd] in H2.
    apply andb_false_iff in Hn as [Hn|Hn].
    + apply (IHa Hn) in H1. apply ends_mono in H2. lia.
    + apply ends_mono in H1. apply (IHb Hn) in H2. lia.
  - apply orb_false_iff in Hn as [Ha Hb]. apply in_app_or in H as [H|H]; [apply (IHa Ha) in H | apply (IHb Hb) in H]; lia.
  - destruct mn as [|mn']; [discriminate|].
    eapply rep_ends_progress; try eassumption; lia.
  - apply in_map_iff in H as [[s1 c1] [E H]]. cbn [fst snd] in E. injection E as <- <-. eapply IH; eassumption.
Qed.

Theorem rmatch_progress r s i j c : nullable r = false -> rmatch r s i = Some (j, c) -> pos (st_at s i) < j.
Proof.
  intros Hn H. unfold rmatch, rmatch_st in H.
  destruct (hd_error (ends r (st_at s i) [])) as [[st' c']|] eqn:E; [|discriminate].
  injection H as <- <-. destruct (ends r (st_at s i) []) as [|x l] eqn:El; [discriminate|].
  cbn in E. injection E as ->. eapply ends_progress; [exact Hn|]. rewrite El. now left.
Qed.

(* ---- captures only grow, and a group on every path is always set ---- *)
Definition has_cap (g : nat) (c : caps) : Prop := cap_get g c <> None.

Fixpoint sets_group (g : nat) (r : re) : bool :=
  match r with
  | Grp g' r' => Nat.eqb g g' || sets_group g r'
  | Seq a b => sets_group g a || sets_group g b
  | Alt a b => sets_group g a && sets_group g b
  | Rep _ (S _) _ r' => sets_group g r'
  | _ => false
  end.

Lemma cap_cons_keep g g' se c : has_cap g c -> has_cap g ((g', se) :: c).
Proof. unfold has_cap. cbn. destruct (Nat.eqb g g'); [discriminate | auto]. Qed.

Section RepCap.
Variable g : nat.
Variable body : state -> caps -> mres.
Hypothesis body_keep : forall st c st' c', has_cap g c -> In (st', c') (body st c) -> has_cap g c'.

Lemma rep_ends_keep gr fuel : forall mn mx st c st' c', has_cap g c ->
  In (st', c') (rep_ends body gr fuel mn mx st c) -> has_cap g c'.
Proof.
  induction fuel as [|f IH]; intros mn mx st c st' c' Hc H.
  - cbn in H. destruct mn; [destruct H as [H|[]]; injection H as <- <-; exact Hc | contradiction].
  - cbn [rep_ends] in H.
    assert (Hmore : forall l, l = (match mx with
                 | Some 0 => []
                 | _ => flat_map (fun sc => if Nat.ltb (pos st) (pos (fst sc))
                                            then rep_ends body gr f (Nat.pred mn)
                                                   match mx with Some (S m) => Some m | _ => None end (fst sc) (snd sc)
                                            else []) (body st c)
                 end) -> In (st', c') l -> has_cap g c').
    { intros l -> Hin. destruct mx as [[|m]|]; try contradiction;
      apply in_flat_map in Hin as [[s1 c1] [H1 H2]]; cbn [fst snd] in H2;
      destruct (Nat.ltb (pos st) (pos s1)); try contradiction;
      exact (IH _ _ _ _ _ _ (body_keep _ _ _ _ Hc H1) H2). }
    destruct mn.
    + destruct gr.
      * apply in_app_or in H as [H|[H|[]]]; [eapply Hmore; [reflexivity | exact H] | injection H as <- <-; exact Hc].
      * destruct H as [H|H]; [injection H as <- <-; exact Hc | eapply Hmore; [reflexivity | exact H]].
    + eapply Hmore; [reflexivity | exact H].
Qed.

Hypothesis body_sets : forall st c st' c', In (st', c') (body st c) -> has_cap g c'.
Lemma rep_ends_sets gr fuel : forall mn mx st c st' c', 1 <= mn ->
  In (st', c') (rep_ends body gr fuel mn mx st c) -> has_cap g c'.
Proof.
  destruct fuel as [|f]; intros mn mx st c st' c' Hmn H.
  - cbn in H. destruct mn; [lia | contradiction].
  - cbn [rep_ends] in H. destruct mn as [|mn']; [lia|].
    destruct mx as [[|m]|]; try contradiction;
    apply in_flat_map in H as [[s1 c1] [H1 H2]]; cbn [fst snd] in H2;
    destruct (Nat.ltb (pos st) (pos s1)); try contradiction;
    exact (rep_ends_keep gr f _ _ _ _ _ _ (body_sets _ _ _ _ H1) H2).
Qed.
End RepCap.

Lemma ends_keep g r : forall st c st' c', has_cap g c -> In (st', c') (ends r st c) -> has_cap g c'.
Proof.
  induction r as [|cs|a IHa b IHb|a IHa b IHb|gr mn mx r IH|neg r IH|neg cs| | | | |g' r IH]; intros st c st' c' Hc H; cbn [ends] in H.
  - destruct H as [H|[]]. injection H as <- <-. exact Hc.
  - destruct (st_adv st) as [[ch s1]|]; [|contradiction]. destruct (cs_mem ch cs); [|contradiction].
    destruct H as [H|[]]. injection H as <- <-. exact Hc.
  - apply in_flat_map in H as [[s1 c1] [H1 H2]]. cbn [fst snd] in H2. eapply IHb; [eapply IHa; eassumption | exact H2].
  - apply in_app_or in H as [H|H]; [eapply IHa | eapply IHb]; eassumption.
  - eapply rep_ends_keep; try eassumption; intros; eapply IH; eassumption.
  - destruct (ends r st c) as [|[s1 c1] l] eqn:E; destruct neg; try contradiction;
      destruct H as [H|[]]; injection H as <- <-; [exact Hc|].
    eapply IH; [exact Hc|]. rewrite E. now left.
  - destruct (before st) as [|ch l]; [destruct neg; try contradiction | destruct (xorb neg (cs_mem ch cs)); try contradiction];
      destruct H as [H|[]]; injection H as <- <-; exact Hc.
  - destruct (pos st); [|contradiction]. destruct H as [H|[]]; injection H as <- <-; exact Hc.
  - destruct (pos st); [|contradiction]. destruct H as [H|[]]; injection H as <- <-; exact Hc.
  - destruct (at_end_b (after st)); [|contradiction]. destruct H as [H|[]]; injection H as <- <-; exact Hc.
  - destruct (after st); [|contradiction]. destruct H as [H|[]]; injection H as <- <-; exact Hc.
  - apply in_map_iff in H as [[s1 c1] [E H]]. cbn [fst snd] in E. injection E as <- <-.
    apply cap_cons_keep. eapply IH; eassumption.
Qed.

Theorem sets_group_sound g r : sets_group g r = true ->
  forall st c st' c', In (st', c') (ends r st c) -> has_cap g c'.
Proof.
  induction r as [|cs|a IHa b IHb|a IHa b IHb|gr mn mx r IH|neg r IH|neg cs| | | | |g' r IH]; intros Hs st c st' c' H;
    cbn [sets_group] in Hs; try discriminate; cbn [ends] in H.
  - apply in_flat_map in H as [[s1 c1] [H1 H2]]. cbn [fst snd] in H2.
    apply orb_true_iff in Hs as [Hs|Hs].
    + eapply ends_keep; [eapply IHa; eassumption | exact H2].
    + eapply IHb; eassumption.
  - apply andb_true_iff in Hs as [Ha Hb]. apply in_app_or in H as [H|H]; [eapply IHa | eapply IHb]; eassumption.
  - destruct mn as [|mn']; [discriminate|].
    eapply rep_ends_sets; try eassumption; try lia; intros; first [eapply ends_keep; eassumption | eapply IH; eassumption].
  - apply in_map_iff in H as [[s1 c1] [E H]]. cbn [fst snd] in E. injection E as <- <-.
    apply orb_true_iff in Hs as [Hs|Hs].
    + apply Nat.eqb_eq in Hs. subst g'. unfold has_cap. cbn. rewrite Nat.eqb_refl. discriminate.
    + apply cap_cons_keep. eapply IH; eassumption.
Qed.

Theorem rmatch_sets_group g r s i j c : sets_group g r = true -> rmatch r s i = Some (j, c) -> cap_get g c <> None.
Proof.
  intros Hs H. unfold rmatch, rmatch_st in H.
  destruct (ends r (st_at s i) []) as [|[st' c'] l] eqn:E; [discriminate|]. cbn in H. injection H as <- <-.
  eapply sets_group_sound; [exact Hs|]. rewrite E. now left.
Qed.
