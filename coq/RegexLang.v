(* RegexLang.v — the backtracking matcher of the model (Regex.ends) finds exactly the matches of the declarative
   language semantics L, for every expression without look-around and anchors: soundness and completeness, for every
   subject and position.  (Captures are ignored; the translator refuses nullable repetition bodies.) *)
From SV Require Import Base Regex RegexFacts RegexCost RunFacts.
Local Open Scope bool_scope.

Section Iter.
Variable P : str -> Prop.
Inductive iterL : nat -> option nat -> str -> Prop :=
| il_stop mx : iterL 0 mx []
| il_step mn mx w1 w2 : mx_zero mx = false -> P w1 -> w1 <> [] -> iterL (pred mn) (pred_opt mx) w2 -> iterL mn mx (w1 ++ w2).
End Iter.

(* the language of an expression (strings it matches as a whole) *)
Fixpoint L (r : re) (w : str) : Prop :=
  match r with
  | Eps => w = []
  | Chr cs => exists ch, w = [ch] /\ cs_mem ch cs = true
  | Seq a b => exists w1 w2, w = w1 ++ w2 /\ L a w1 /\ L b w2
  | Alt a b => L a w \/ L b w
  | Rep _ mn mx r' => iterL (L r') mn mx w
  | Grp _ r' => L r' w
  | _ => False
  end.

Fixpoint plain (r : re) : bool :=
  match r with
  | Eps | Chr _ => true
  | Seq a b | Alt a b => plain a && plain b
  | Rep _ _ _ r' => plain r'
  | Grp _ r' => plain r'
  | _ => false
  end.

(* st' is st after consuming w *)
Definition via (st : state) (w : str) (st' : state) : Prop :=
  after st = w ++ after st' /\ pos st' = pos st + length w /\ before st' = rev w ++ before st.

Lemma via_nil st : via st [] st.
Proof. unfold via. cbn. repeat split; lia. Qed.
Lemma via_nil_eq st st' : via st [] st' -> st' = st.
Proof. intros (A & P & B). cbn in *. destruct st, st'. cbn in *. subst. f_equal. lia. Qed.
Lemma via_app st w1 s1 w2 st' : via st w1 s1 -> via s1 w2 st' -> via st (w1 ++ w2) st'.
Proof.
  intros (A1 & P1 & B1) (A2 & P2 & B2). unfold via. rewrite A1, A2, P2, P1, B2, B1, app_length, rev_app_distr, !app_assoc. repeat split; lia.
Qed.
(* the state in the middle *)
Definition mid (st : state) (w : str) : state := St (pos st + length w) (rev w ++ before st) (skipn (length w) (after st)).
Lemma via_split st w1 w2 st' : via st (w1 ++ w2) st' -> via st w1 (mid st w1) /\ via (mid st w1) w2 st'.
Proof.
  intros (A & P & B). unfold via, mid. cbn [after pos before]. rewrite A. rewrite <- app_assoc.
  rewrite skipn_app, skipn_all, Nat.sub_diag. cbn [skipn app]. rewrite P, B, app_length, rev_app_distr, <- app_assoc. repeat split; lia.
Qed.
Lemma via_pos st w st' : via st w st' -> w <> [] -> pos st < pos st'.
Proof. intros (_ & P & _) H. destruct w; [congruence|]. cbn in P. lia. Qed.
Lemma via_len st w st' : via st w st' -> length (after st) = length w + length (after st').
Proof. intros (A & _ & _). rewrite A, app_length. reflexivity. Qed.
Lemma via_of_pos st w st' : via st w st' -> pos st < pos st' -> w <> [].
Proof. intros (_ & P & _) H ->. cbn in P. lia. Qed.
Lemma via_adv st ch st' : st_adv st = Some (ch, st') -> via st [ch] st'.
Proof.
  unfold st_adv. destruct st as [p b a]. cbn [after pos before]. destruct a as [|x a]; [discriminate|].
  intros H. injection H as <- <-. unfold via. cbn. repeat split; lia.
Qed.
Lemma via_one st ch st' : via st [ch] st' -> st_adv st = Some (ch, st').
Proof.
  intros (A & P & B). unfold st_adv. destruct st as [p b a], st' as [p' b' a']. cbn in *. subst a b' p'. repeat f_equal. lia.
Qed.

Section RepLang.
Variable body : state -> caps -> mres.
Variable P : str -> Prop.
Hypothesis Hs : forall st c st' c', In (st', c') (body st c) -> exists w, via st w st' /\ P w.
Hypothesis Hc : forall st w st' c, via st w st' -> P w -> exists c', In (st', c') (body st c).

Lemma rep_sound g : forall fuel mn mx st c st' c',
  In (st', c') (rep_ends body g fuel mn mx st c) -> exists w, via st w st' /\ iterL P mn mx w.
Proof.
  induction fuel as [|f IH]; intros mn mx st c st' c' H.
  - cbn in H. destruct mn; [|contradiction]. destruct H as [H|[]]. injection H as <- _. exists []. split; [apply via_nil | constructor].
  - cbn [rep_ends] in H.
    assert (Hmore : forall l, l = (match mx with
                 | Some 0 => []
                 | _ => flat_map (fun sc => if Nat.ltb (pos st) (pos (fst sc))
                                            then rep_ends body g f (Nat.pred mn)
                                                   match mx with Some (S m) => Some m | _ => None end (fst sc) (snd sc)
                                            else []) (body st c)
                 end) -> In (st', c') l -> exists w, via st w st' /\ iterL P mn mx w).
    { intros l -> Hin.
      assert (Hz : mx_zero mx = false /\ In (st', c') (flat_map (fun sc => if Nat.ltb (pos st) (pos (fst sc))
                                            then rep_ends body g f (Nat.pred mn) (pred_opt mx) (fst sc) (snd sc) else []) (body st c))).
      { destruct mx as [[|m]|]; [contradiction | split; [reflexivity | exact Hin] | split; [reflexivity | exact Hin]]. }
      destruct Hz as [Hz Hin']. apply in_flat_map in Hin' as ([s1 c1] & H1 & H2). cbn [fst snd] in H2.
      destruct (Nat.ltb (pos st) (pos s1)) eqn:El; [|contradiction]. apply Nat.ltb_lt in El.
      destruct (Hs _ _ _ _ H1) as (w1 & V1 & P1). destruct (IH _ _ _ _ _ _ H2) as (w2 & V2 & I2).
      exists (w1 ++ w2). split; [eapply via_app; eassumption|]. apply il_step; [exact Hz | exact P1 | eapply via_of_pos; eassumption | exact I2]. }
    assert (Hexit : mn = 0 -> (st', c') = (st, c) -> exists w, via st w st' /\ iterL P mn mx w).
    { intros -> E. injection E as <- _. exists []. split; [apply via_nil | constructor]. }
    destruct mn.
    + destruct g.
      * apply in_app_or in H as [H|[H|[]]]; [eapply Hmore; [reflexivity | exact H] | apply Hexit; [reflexivity | symmetry; exact H]].
      * destruct H as [H|H]; [apply Hexit; [reflexivity | symmetry; exact H] | eapply Hmore; [reflexivity | exact H]].
    + eapply Hmore; [reflexivity | exact H].
Qed.

Lemma rep_complete g : forall w mn mx, iterL P mn mx w ->
  forall fuel st st' c, via st w st' -> length (after st) < fuel -> exists c', In (st', c') (rep_ends body g fuel mn mx st c).
Proof.
  induction 1 as [mx|mn mx w1 w2 Hz P1 Hne _ IH]; intros fuel st st' c V Hf.
  - apply via_nil_eq in V. subst st'. destruct fuel as [|f]; [lia|]. cbn [rep_ends]. exists c.
    destruct g; [apply in_or_app; right; now left | now left].
  - destruct fuel as [|f]; [lia|]. destruct (via_split _ _ _ _ V) as [V1 V2]. set (s1 := mid st w1) in *.
    destruct (Hc _ _ _ c V1 P1) as (c1 & H1).
    assert (Hlt : pos st < pos s1) by (eapply via_pos; eassumption).
    assert (Hlen : length (after s1) < f).
    { pose proof (via_len _ _ _ V1) as Hl. destruct w1; [congruence|]. cbn [length] in Hl. lia. }
    destruct (IH f s1 st' c1 V2 Hlen) as (c' & H2). exists c'. cbn [rep_ends].
    assert (Hin : In (st', c') (match mx with
                 | Some 0 => []
                 | _ => flat_map (fun sc => if Nat.ltb (pos st) (pos (fst sc))
                                            then rep_ends body g f (Nat.pred mn)
                                                   match mx with Some (S m) => Some m | _ => None end (fst sc) (snd sc)
                                            else []) (body st c)
                 end)).
    { assert (Hfm : In (st', c') (flat_map (fun sc => if Nat.ltb (pos st) (pos (fst sc))
                                            then rep_ends body g f (Nat.pred mn) (pred_opt mx) (fst sc) (snd sc) else []) (body st c))).
      { apply in_flat_map. exists (s1, c1). split; [exact H1|]. cbn [fst snd].
        replace (Nat.ltb (pos st) (pos s1)) with true by (symmetry; apply Nat.ltb_lt; exact Hlt). exact H2. }
      destruct mx as [[|m]|]; [discriminate Hz | exact Hfm | exact Hfm]. }
    destruct mn; [destruct g|]; [apply in_or_app; left; exact Hin | right; exact Hin | exact Hin].
Qed.
End RepLang.

Theorem ends_sound r : plain r = true -> forall st c st' c', In (st', c') (ends r st c) -> exists w, via st w st' /\ L r w.
Proof.
  induction r as [|cs|a IHa b IHb|a IHa b IHb|g mn mx r IH|neg r IH|neg cs| | | | |g r IH]; intros Hp st c st' c' H; cbn [plain] in Hp; try discriminate.
  - cbn [ends] in H. destruct H as [H|[]]. injection H as <- _. exists []. split; [apply via_nil | reflexivity].
  - cbn [ends] in H. destruct (st_adv st) as [[ch s1]|] eqn:E; [|contradiction]. destruct (cs_mem ch cs) eqn:Em; [|contradiction].
    destruct H as [H|[]]. injection H as <- _. exists [ch]. split; [apply via_adv; exact E | exists ch; auto].
  - apply andb_true_iff in Hp as [Ha Hb]. rewrite ends_seq in H. apply in_flat_map in H as ([s1 c1] & H1 & H2). cbn [fst snd] in H2.
    destruct (IHa Ha _ _ _ _ H1) as (w1 & V1 & L1). destruct (IHb Hb _ _ _ _ H2) as (w2 & V2 & L2).
    exists (w1 ++ w2). split; [eapply via_app; eassumption | exists w1, w2; auto].
  - apply andb_true_iff in Hp as [Ha Hb]. cbn [ends] in H. apply in_app_or in H as [H|H].
    + destruct (IHa Ha _ _ _ _ H) as (w & V & Lw). exists w. split; [exact V | left; exact Lw].
    + destruct (IHb Hb _ _ _ _ H) as (w & V & Lw). exists w. split; [exact V | right; exact Lw].
  - rewrite ends_rep in H. eapply rep_sound; [|exact H]. intros; eapply IH; eassumption.
  - rewrite ends_grp in H. apply in_map_iff in H as ([s1 c1] & E & H). cbn [fst snd] in E. injection E as <- _. eapply IH; eassumption.
Qed.

Theorem ends_complete r : plain r = true -> forall st w st' c, via st w st' -> L r w -> exists c', In (st', c') (ends r st c).
Proof.
  induction r as [|cs|a IHa b IHb|a IHa b IHb|g mn mx r IH|neg r IH|neg cs| | | | |g r IH]; intros Hp st w st' c V Hl; cbn [plain] in Hp; try discriminate; cbn [L] in Hl.
  - subst w. apply via_nil_eq in V. subst st'. exists c. now left.
  - destruct Hl as (ch & -> & Hm). apply via_one in V. cbn [ends]. rewrite V, Hm. exists c. now left.
  - apply andb_true_iff in Hp as [Ha Hb]. destruct Hl as (w1 & w2 & -> & L1 & L2). destruct (via_split _ _ _ _ V) as [V1 V2].
    destruct (IHa Ha _ _ _ c V1 L1) as (c1 & H1). destruct (IHb Hb _ _ _ c1 V2 L2) as (c2 & H2).
    exists c2. rewrite ends_seq. apply in_flat_map. exists (mid st w1, c1). auto.
  - apply andb_true_iff in Hp as [Ha Hb]. cbn [ends]. destruct Hl as [Hl|Hl].
    + destruct (IHa Ha _ _ _ c V Hl) as (c' & H). exists c'. apply in_or_app. now left.
    + destruct (IHb Hb _ _ _ c V Hl) as (c' & H). exists c'. apply in_or_app. now right.
  - rewrite ends_rep. eapply rep_complete; [| exact Hl | exact V | lia]. intros s0 w0 s0' c0 V0 L0. eapply IH; eassumption.
  - destruct (IH Hp _ _ _ c V Hl) as (c' & H). rewrite ends_grp. eexists. apply in_map_iff. exists (st', c'). split; [reflexivity | exact H].
Qed.
Print Assumptions ends_sound.
Print Assumptions ends_complete.
