(* RegexSem.v — a declarative semantics M for the WHOLE expression language of the model (look-ahead, look-behind and
   anchors included) and the theorem that the backtracking matcher Regex.ends finds exactly its matches:
   (exists captures, (st', captures) in ends r st c)  <->  M r st st',  for every expression, subject and position. *)
From SV Require Import Base Regex RegexFacts RegexCost RunFacts DetCost.
Local Open Scope bool_scope.

Section IterM.
Variable R : state -> state -> Prop.
Inductive iterM : nat -> option nat -> state -> state -> Prop :=
| im_stop mx st : iterM 0 mx st st
| im_step mn mx st s1 st' : mx_zero mx = false -> R st s1 -> pos st < pos s1 ->
                            iterM (pred mn) (pred_opt mx) s1 st' -> iterM mn mx st st'.
End IterM.

Fixpoint M (r : re) (st st' : state) : Prop :=
  match r with
  | Eps => st' = st
  | Chr cs => exists ch, st_adv st = Some (ch, st') /\ cs_mem ch cs = true
  | Seq a b => exists s1, M a st s1 /\ M b s1 st'
  | Alt a b => M a st st' \/ M b st st'
  | Rep _ mn mx r' => iterM (M r') mn mx st st'
  | Look neg r' => st' = st /\ (if neg then ~ (exists s1, M r' st s1) else exists s1, M r' st s1)
  | Behind neg cs => st' = st /\ match before st with
                                 | ch :: _ => xorb neg (cs_mem ch cs) = true
                                 | [] => neg = true
                                 end
  | BehindStart | AtStart => st' = st /\ pos st = 0
  | AtEnd => st' = st /\ at_end_b (after st) = true
  | AtEndStrict => st' = st /\ after st = []
  | Grp _ r' => M r' st st'
  end.

Definition has_end (l : mres) (st' : state) : Prop := exists c', In (st', c') l.

Section RepSem.
Variable body : state -> caps -> mres.
Variable R : state -> state -> Prop.
Hypothesis Hs : forall st c st', has_end (body st c) st' -> R st st'.
Hypothesis Hc : forall st c st', R st st' -> has_end (body st c) st'.
Hypothesis Hr : forall st c st' c', In (st', c') (body st c) -> reach st st'.

Lemma rep_sem_sound g : forall fuel mn mx st c st', has_end (rep_ends body g fuel mn mx st c) st' -> iterM R mn mx st st'.
Proof.
  induction fuel as [|f IH]; intros mn mx st c st' [c' H].
  - cbn in H. destruct mn; [|contradiction]. destruct H as [H|[]]. injection H as <- _. constructor.
  - cbn [rep_ends] in H.
    assert (Hmore : forall l, l = (match mx with
                 | Some 0 => []
                 | _ => flat_map (fun sc => if Nat.ltb (pos st) (pos (fst sc))
                                            then rep_ends body g f (Nat.pred mn)
                                                   match mx with Some (S m) => Some m | _ => None end (fst sc) (snd sc)
                                            else []) (body st c)
                 end) -> In (st', c') l -> iterM R mn mx st st').
    { intros l -> Hin.
      assert (Hz : mx_zero mx = false /\ In (st', c') (flat_map (fun sc => if Nat.ltb (pos st) (pos (fst sc))
                                            then rep_ends body g f (Nat.pred mn) (pred_opt mx) (fst sc) (snd sc) else []) (body st c))).
      { destruct mx as [[|m]|]; [contradiction | split; [reflexivity | exact Hin] | split; [reflexivity | exact Hin]]. }
      destruct Hz as [Hz Hin']. apply in_flat_map in Hin' as ([s1 c1] & H1 & H2). cbn [fst snd] in H2.
      destruct (Nat.ltb (pos st) (pos s1)) eqn:El; [|contradiction]. apply Nat.ltb_lt in El.
      eapply im_step; [exact Hz | apply (Hs st c); exists c1; exact H1 | exact El | eapply IH; exists c'; exact H2]. }
    destruct mn.
    + destruct g.
      * apply in_app_or in H as [H|[H|[]]]; [eapply Hmore; [reflexivity | exact H] | injection H as <- _; constructor].
      * destruct H as [H|H]; [injection H as <- _; constructor | eapply Hmore; [reflexivity | exact H]].
    + eapply Hmore; [reflexivity | exact H].
Qed.

Lemma rep_sem_complete g : forall mn mx st st', iterM R mn mx st st' ->
  forall fuel c, length (after st) < fuel -> has_end (rep_ends body g fuel mn mx st c) st'.
Proof.
  induction 1 as [mx st|mn mx st s1 st' Hz H1 Hlt _ IH]; intros fuel c Hf.
  - destruct fuel as [|f]; [lia|]. cbn [rep_ends]. exists c. destruct g; [apply in_or_app; right; now left | now left].
  - destruct fuel as [|f]; [lia|]. destruct (Hc st c s1 H1) as (c1 & Hin1).
    assert (Hlen : length (after s1) < f).
    { pose proof (Hr _ _ _ _ Hin1) as (pre & A & P & _). rewrite A, app_length in Hf. destruct pre; [cbn in P; lia | cbn [length] in Hf; lia]. }
    destruct (IH f c1 Hlen) as (c' & H2). exists c'. cbn [rep_ends].
    assert (Hin : In (st', c') (match mx with
                 | Some 0 => []
                 | _ => flat_map (fun sc => if Nat.ltb (pos st) (pos (fst sc))
                                            then rep_ends body g f (Nat.pred mn)
                                                   match mx with Some (S m) => Some m | _ => None end (fst sc) (snd sc)
                                            else []) (body st c)
                 end)).
    { assert (Hfm : In (st', c') (flat_map (fun sc => if Nat.ltb (pos st) (pos (fst sc))
                                            then rep_ends body g f (Nat.pred mn) (pred_opt mx) (fst sc) (snd sc) else []) (body st c))).
      { apply in_flat_map. exists (s1, c1). split; [exact Hin1|]. cbn [fst snd].
        replace (Nat.ltb (pos st) (pos s1)) with true by (symmetry; apply Nat.ltb_lt; exact Hlt). exact H2. }
      destruct mx as [[|m]|]; [discriminate Hz | exact Hfm | exact Hfm]. }
    destruct mn; [destruct g|]; [apply in_or_app; left; exact Hin | right; exact Hin | exact Hin].
Qed.
End RepSem.

Theorem ends_iff_M r : forall st c st', has_end (ends r st c) st' <-> M r st st'.
Proof.
  induction r as [|cs|a IHa b IHb|a IHa b IHb|g mn mx r IH|neg r IH|neg cs| | | | |g r IH]; intros st c st'; unfold has_end in *; cbn [M].
  - cbn [ends]. split; [intros (c' & [H|[]]); injection H as <- _; reflexivity | intros ->; exists c; now left].
  - cbn [ends]. split.
    + intros (c' & H). destruct (st_adv st) as [[ch s1]|]; [|contradiction]. destruct (cs_mem ch cs) eqn:E; [|contradiction].
      destruct H as [H|[]]. injection H as <- _. exists ch. auto.
    + intros (ch & -> & ->). exists c. now left.
  - rewrite ends_seq. split.
    + intros (c' & H). apply in_flat_map in H as ([s1 c1] & H1 & H2). cbn [fst snd] in H2. exists s1. split.
      * apply (IHa st c). exists c1. exact H1.
      * apply (IHb s1 c1). exists c'. exact H2.
    + intros (s1 & H1 & H2). apply (IHa st c) in H1 as (c1 & H1). apply (IHb s1 c1) in H2 as (c' & H2).
      exists c'. apply in_flat_map. exists (s1, c1). auto.
  - change (ends (Alt a b) st c) with (ends a st c ++ ends b st c). split.
    + intros (c' & H). apply in_app_or in H as [H|H]; [left; apply (IHa st c) | right; apply (IHb st c)]; exists c'; exact H.
    + intros [H|H]; [apply (IHa st c) in H | apply (IHb st c) in H]; destruct H as (c' & H); exists c'; apply in_or_app; auto.
  - rewrite ends_rep. split.
    + apply rep_sem_sound. intros s0 c0 s0' H0. apply (IH s0 c0). exact H0.
    + intros H. eapply rep_sem_complete; [| | exact H | lia].
      * intros s0 c0 s0' H0. apply (IH s0 c0). exact H0.
      * intros s0 c0 s0' c0' H0. eapply ends_reach. exact H0.
  - cbn [ends]. split.
    + intros (c' & H). destruct (ends r st c) as [|[s1 c1] l] eqn:E.
      * destruct neg; [|contradiction]. destruct H as [H|[]]. injection H as <- _. split; [reflexivity|].
        intros (s1 & H1). apply (IH st c) in H1 as (c1 & H1). rewrite E in H1. contradiction.
      * destruct neg; [contradiction|]. destruct H as [H|[]]. injection H as <- _. split; [reflexivity|].
        exists s1. apply (IH st c). exists c1. rewrite E. now left.
    + intros [-> H]. destruct (ends r st c) as [|[s1 c1] l] eqn:E.
      * destruct neg; [exists c; now left|]. destruct H as (s1 & H1). apply (IH st c) in H1 as (c1 & H1). rewrite E in H1. contradiction.
      * destruct neg; [|exists c1; now left]. exfalso. apply H. exists s1. apply (IH st c). exists c1. rewrite E. now left.
  - cbn [ends]. split.
    + intros (c' & H). destruct (before st) as [|ch l].
      * destruct neg; [|contradiction]. destruct H as [H|[]]. injection H as <- _. auto.
      * destruct (xorb neg (cs_mem ch cs)) eqn:E; [|contradiction]. destruct H as [H|[]]. injection H as <- _. auto.
    + intros [-> H]. destruct (before st) as [|ch l]; [subst neg; exists c; now left | rewrite H; exists c; now left].
  - cbn [ends]. split.
    + intros (c' & H). destruct (pos st); [|contradiction]. destruct H as [H|[]]. injection H as <- _. auto.
    + intros [-> H]. rewrite H. exists c. now left.
  - cbn [ends]. split.
    + intros (c' & H). destruct (pos st); [|contradiction]. destruct H as [H|[]]. injection H as <- _. auto.
    + intros [-> H]. rewrite H. exists c. now left.
  - cbn [ends]. split.
    + intros (c' & H). destruct (at_end_b (after st)); [|contradiction]. destruct H as [H|[]]. injection H as <- _. auto.
    + intros [-> H]. rewrite H. exists c. now left.
  - cbn [ends]. split.
    + intros (c' & H). destruct (after st); [|contradiction]. destruct H as [H|[]]. injection H as <- _. auto.
    + intros [-> H]. rewrite H. exists c. now left.
  - rewrite ends_grp. split.
    + intros (c' & H). apply in_map_iff in H as ([s1 c1] & E & H). cbn [fst snd] in E. injection E as <- _. apply (IH st c). exists c1. exact H.
    + intros H. apply (IH st c) in H as (c1 & H). eexists. apply in_map_iff. exists (st', c1). split; [reflexivity | exact H].
Qed.
Print Assumptions ends_iff_M.

(* re.Pattern.match succeeds at a position exactly when the expression has a match from there *)
Corollary rmatch_iff_M r st : (rmatch_st r st <> None) <-> exists st', M r st st'.
Proof.
  unfold rmatch_st. split.
  - intros H. destruct (ends r st []) as [|[s1 c1] l] eqn:E; [cbn in H; congruence|]. exists s1. apply (ends_iff_M r st []). exists c1. rewrite E. now left.
  - intros (st' & H). apply (ends_iff_M r st []) in H as (c' & H). destruct (ends r st []); [contradiction | cbn; discriminate].
Qed.
