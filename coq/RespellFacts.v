(* RespellFacts.v — compiled meaning does not depend on the spelling (C09). *)
From SV Require Import Base Regex RegexCost IR Lit AttrPat Parser RespellCorpus.
Local Open Scope bool_scope.

(* ---- decidable structural equality of compiled structures ---- *)
Definition opt_eqb {A} (f : A -> A -> bool) (a b : option A) : bool :=
  match a, b with None, None => true | Some x, Some y => f x y | _, _ => false end.
Fixpoint list_eqb {A} (f : A -> A -> bool) (a b : list A) : bool :=
  match a, b with
  | [], [] => true
  | x :: a', y :: b' => f x y && list_eqb f a' b'
  | _, _ => false
  end.
Fixpoint re_eqb_full (a b : re) : bool :=
  match a, b with
  | Eps, Eps | BehindStart, BehindStart | AtStart, AtStart | AtEnd, AtEnd | AtEndStrict, AtEndStrict => true
  | Chr x, Chr y => cset_eqb x y
  | Seq a1 a2, Seq b1 b2 | Alt a1 a2, Alt b1 b2 => re_eqb_full a1 b1 && re_eqb_full a2 b2
  | Rep g1 m1 x1 r1, Rep g2 m2 x2 r2 => Bool.eqb g1 g2 && Nat.eqb m1 m2 && opt_eqb Nat.eqb x1 x2 && re_eqb_full r1 r2
  | Look n1 r1, Look n2 r2 => Bool.eqb n1 n2 && re_eqb_full r1 r2
  | Behind n1 c1, Behind n2 c2 => Bool.eqb n1 n2 && cset_eqb c1 c2
  | Grp g1 r1, Grp g2 r2 => Nat.eqb g1 g2 && re_eqb_full r1 r2
  | _, _ => false
  end.
Definition stag_eqb (a b : stag) : bool := str_eqb (tg_name a) (tg_name b) && opt_eqb str_eqb (tg_prefix a) (tg_prefix b).
Definition sattr_eqb (a b : sattr) : bool :=
  str_eqb (at_name a) (at_name b) && str_eqb (at_prefix a) (at_prefix b) &&
  opt_eqb re_eqb_full (at_pat a) (at_pat b) && opt_eqb re_eqb_full (at_xml_pat a) (at_xml_pat b).
Definition scontains_eqb (a b : scontains) : bool :=
  list_eqb str_eqb (ct_text a) (ct_text b) && Bool.eqb (ct_own a) (ct_own b).

Fixpoint sel_eqb (fuel : nat) (a b : sel) : bool :=
  match fuel with
  | O => false
  | S f =>
    match a, b with
    | SNull, SNull => true
    | Sel t1 i1 c1 a1 n1 s1 r1 rt1 k1 l1 f1, Sel t2 i2 c2 a2 n2 s2 r2 rt2 k2 l2 f2 =>
      opt_eqb stag_eqb t1 t2 && list_eqb str_eqb i1 i2 && list_eqb str_eqb c1 c2 && list_eqb sattr_eqb a1 a2 &&
      list_eqb (nth_eqb f) n1 n2 && list_eqb (sl_eqb f) s1 s2 && sl_eqb f r1 r2 && opt_eqb str_eqb rt1 rt2 &&
      list_eqb scontains_eqb k1 k2 && list_eqb (list_eqb str_eqb) l1 l2 && N.eqb f1 f2
    | _, _ => false
    end
  end
with sl_eqb (fuel : nat) (a b : sellist) : bool :=
  match fuel with
  | O => false
  | S f => match a, b with
           | SL s1 n1 h1, SL s2 n2 h2 => list_eqb (sel_eqb f) s1 s2 && Bool.eqb n1 n2 && Bool.eqb h1 h2
           end
  end
with nth_eqb (fuel : nat) (a b : snth) : bool :=
  match fuel with
  | O => false
  | S f => match a, b with
           | SNth a1 v1 b1 o1 l1 s1, SNth a2 v2 b2 o2 l2 s2 =>
             Z.eqb a1 a2 && Bool.eqb v1 v2 && Z.eqb b1 b2 && Bool.eqb o1 o2 && Bool.eqb l1 l2 && sl_eqb f s1 s2
           end
  end.

(* two patterns compile to equal structures *)
Definition same_compile (a b : str) : bool :=
  match compile a None, compile b None with
  | Ok x, Ok y => sl_eqb (3 * sl_depth x + 3) x y
  | _, _ => false
  end.

(* a fixed corpus of 24 selectors with three respellings each (white space and comments everywhere CSS allows
   them, every escape form, quote styles, bare identifiers, case of names/keywords/flags) *)
Theorem corpus_respell : forallb (fun e => forallb (same_compile (fst e)) (snd e)) corpus = true.
Proof. vm_compute. reflexivity. Qed.

(* ---- case: names and keywords are compared after ASCII lower-casing ---- *)
Theorem anb_case c1 c2 : lower c1 = lower c2 -> parse_anb (lower c1) = parse_anb (lower c2).
Proof. intros ->. reflexivity. Qed.
Theorem name_case pat t1 t2 g n1 n2 :
  grp pat t1 g = Some n1 -> grp pat t2 g = Some n2 -> lower (css_unescape n1 false) = lower (css_unescape n2 false) ->
  name_of pat t1 g = name_of pat t2 g.
Proof. unfold name_of. intros -> -> ->. reflexivity. Qed.

(* ---- escapes: a backslash followed by a character, and every hex form, decode to that character ---- *)
Definition hex_forms (c : N) : list str :=
  let h := to_hex c in
  [[92%N] ++ h ++ [32%N]; [92%N] ++ repeat 48%N (6 - length h) ++ h; [92%N] ++ repeat 48%N (6 - length h) ++ h ++ [32%N];
   [92%N] ++ h ++ [10%N]; [92%N] ++ map (fun d => if ((97 <=? d) && (d <=? 102))%N then (d - 32)%N else d) h ++ [9%N]].
Definition escape_forms_ok (c : N) : bool :=
  forallb (fun f => str_eqb (css_unescape f false) [c]) (hex_forms c) &&
  (if existsb (N.eqb c) [10; 12; 13]%N || (match hex_val c with Some _ => true | None => false end) then true
   else str_eqb (css_unescape [92%N; c] false) [c]).
Theorem unescape_units : forallb escape_forms_ok (map N.of_nat (seq 1 2047)) = true.
Proof. vm_compute. reflexivity. Qed.
