(* RunFacts.v — patterns that are a sequence of (captured) character-class runs and literal separators, anchored at
   the end: what the backtracking matcher finds is what a deterministic left-to-right scan finds.  Used for the date /
   time / month / week patterns of css_match.Inputs (C18). *)
From SV Require Import Base Regex.
Local Open Scope bool_scope.

Inductive item := Run (g : nat) (mn : nat) (mx : option nat) (cs : cset) | Lit (ch : cp).

Fixpoint to_re (p : list item) : re :=
  match p with
  | [] => AtEndStrict
  | Run g mn mx cs :: p' => Seq (Grp g (Rep true mn mx (Chr cs))) (to_re p')
  | Lit ch :: p' => Seq (Chr [(ch, ch)]) (to_re p')
  end.

(* every run is followed by a literal outside its class, or ends the pattern *)
Fixpoint wf (p : list item) : bool :=
  match p with
  | [] => true
  | Run _ _ _ cs :: p' => match p' with [] => true | Lit ch :: _ => negb (cs_mem ch cs) | Run _ _ _ _ :: _ => false end && wf p'
  | Lit _ :: p' => wf p'
  end.

Definition pred_opt (mx : option nat) : option nat := match mx with Some (S m) => Some m | _ => None end.
Definition mx_zero (mx : option nat) : bool := match mx with Some O => true | _ => false end.

(* the ends of a greedy class repetition, by recursion on the subject (no fuel) *)
Fixpoint run_ends (cs : cset) (mn : nat) (mx : option nat) (p : nat) (b a : str) (c : caps) : mres :=
  let here := match mn with O => [(St p b a, c)] | S _ => [] end in
  match a with
  | x :: a' => if cs_mem x cs && negb (mx_zero mx)
               then run_ends cs (pred mn) (pred_opt mx) (S p) (x :: b) a' c ++ here else here
  | [] => here
  end.

Lemma rep_ends_run cs : forall a fuel mn mx p b c, length a < fuel ->
  rep_ends (ends (Chr cs)) true fuel mn mx (St p b a) c = run_ends cs mn mx p b a c.
Proof.
  induction a as [|x a IH]; intros fuel mn mx p b c Hf; (destruct fuel as [|f]; [simpl in Hf; lia|]).
  - cbn [rep_ends run_ends ends st_adv after flat_map]. destruct mx as [[|m]|]; destruct mn; reflexivity.
  - cbn [rep_ends run_ends ends st_adv after pos before].
    destruct (cs_mem x cs) eqn:Ex; cbn [andb].
    + destruct mx as [[|m]|]; cbn [mx_zero negb pred_opt flat_map fst snd pos app].
      * destruct mn; reflexivity.
      * replace (p <? S p) with true by (symmetry; apply Nat.ltb_lt; lia). rewrite app_nil_r.
        rewrite IH by (simpl in Hf; lia). destruct mn; rewrite ?app_nil_r; reflexivity.
      * replace (p <? S p) with true by (symmetry; apply Nat.ltb_lt; lia). rewrite app_nil_r.
        rewrite IH by (simpl in Hf; lia). destruct mn; rewrite ?app_nil_r; reflexivity.
    + cbn [flat_map]. destruct mx as [[|m]|]; destruct mn; reflexivity.
Qed.

(* the state at the end of the MAXIMAL run, if its length is within [mn, mx] *)
Fixpoint run_to (cs : cset) (mn : nat) (mx : option nat) (p : nat) (b a : str) : option state :=
  match a with
  | x :: a' => if cs_mem x cs then (if mx_zero mx then None else run_to cs (pred mn) (pred_opt mx) (S p) (x :: b) a')
               else match mn with O => Some (St p b a) | S _ => None end
  | [] => match mn with O => Some (St p b []) | S _ => None end
  end.

(* a continuation that fails whenever the next character is in cs *)
Definition dead (K : state -> caps -> mres) (cs : cset) : Prop :=
  forall p b x a c, cs_mem x cs = true -> K (St p b (x :: a)) c = [].

Lemma flat_run K cs : dead K cs -> forall a mn mx p b c,
  flat_map (fun sc => K (fst sc) (snd sc)) (run_ends cs mn mx p b a c) =
  match run_to cs mn mx p b a with Some st' => K st' c | None => [] end.
Proof.
  intros Hd. induction a as [|x a IH]; intros mn mx p b c.
  - cbn [run_ends run_to]. destruct mn; cbn [flat_map fst snd]; [apply app_nil_r | reflexivity].
  - cbn [run_ends run_to]. destruct (cs_mem x cs) eqn:Ex; cbn [andb].
    + destruct (mx_zero mx); cbn [negb].
      * destruct mn; cbn [flat_map fst snd]; [rewrite (Hd p b x a c Ex); reflexivity | reflexivity].
      * rewrite flat_map_app, IH. destruct mn; cbn [flat_map fst snd]; [rewrite (Hd p b x a c Ex)|]; rewrite app_nil_r; reflexivity.
    + destruct mn; cbn [flat_map fst snd]; [apply app_nil_r | reflexivity].
Qed.

(* the deterministic scan *)
Fixpoint scan_items (p : list item) (st : state) (c : caps) : option (state * caps) :=
  match p with
  | [] => match after st with [] => Some (st, c) | _ :: _ => None end
  | Lit ch :: p' => match st_adv st with
                    | Some (x, st') => if (x =? ch)%N then scan_items p' st' c else None
                    | None => None
                    end
  | Run g mn mx cs :: p' =>
    match run_to cs mn mx (pos st) (before st) (after st) with
    | Some st' => scan_items p' st' ((g, (pos st, pos st')) :: c)
    | None => None
    end
  end.

Lemma mem_single x ch : cs_mem x [(ch, ch)] = (x =? ch)%N.
Proof. unfold cs_mem. cbn [existsb fst snd]. rewrite orb_false_r. destruct (N.eqb_spec x ch) as [->|H].
  - rewrite N.leb_refl. reflexivity.
  - destruct (N.leb_spec ch x), (N.leb_spec x ch); cbn; try reflexivity. lia.
Qed.

Lemma dead_cont p' cs : match p' with [] => true | Lit ch :: _ => negb (cs_mem ch cs) | Run _ _ _ _ :: _ => false end = true ->
  forall g p0, dead (fun st c => ends (to_re p') st ((g, (p0, pos st)) :: c)) cs.
Proof.
  intros H g p0 p b x a c Hx. destruct p' as [|[g' mn mx cs'|ch] p''].
  - reflexivity.
  - discriminate.
  - cbn [to_re ends st_adv after]. rewrite mem_single. apply negb_true_iff in H.
    destruct (N.eqb_spec x ch) as [->|Hne]; [congruence | reflexivity].
Qed.

Lemma ends_seq a b st c : ends (Seq a b) st c = flat_map (fun sc => ends b (fst sc) (snd sc)) (ends a st c).
Proof. reflexivity. Qed.
Lemma ends_grp g r st c : ends (Grp g r) st c = map (fun sc => (fst sc, (g, (pos st, pos (fst sc))) :: snd sc)) (ends r st c).
Proof. reflexivity. Qed.
Lemma ends_rep g mn mx r st c : ends (Rep g mn mx r) st c = rep_ends (ends r) g (S (length (after st))) mn mx st c.
Proof. reflexivity. Qed.

Theorem ends_items : forall p, wf p = true -> forall st c,
  ends (to_re p) st c = match scan_items p st c with Some x => [x] | None => [] end.
Proof.
  induction p as [|[g mn mx cs|ch] p' IH]; intros Hwf st c.
  - cbn [to_re ends scan_items]. destruct (after st); reflexivity.
  - cbn [wf] in Hwf. apply andb_true_iff in Hwf as [Hnext Hwf'].
    cbn [to_re scan_items]. rewrite ends_seq, ends_grp, ends_rep. destruct st as [p0 b a]. cbn [after pos before].
    rewrite rep_ends_run by lia. rewrite flat_map_concat_map, map_map, <- flat_map_concat_map. cbn [fst snd].
    rewrite (flat_run (fun st' c' => ends (to_re p') st' ((g, (p0, pos st')) :: c')) cs (dead_cont p' cs Hnext g p0)).
    destruct (run_to cs mn mx p0 b a) as [st'|]; [apply IH; exact Hwf' | reflexivity].
  - cbn [wf] in Hwf. cbn [to_re scan_items]. rewrite ends_seq. cbn [ends]. destruct (st_adv st) as [[x st']|]; [|reflexivity].
    rewrite mem_single. destruct (x =? ch)%N; cbn [flat_map fst snd]; [rewrite app_nil_r; apply IH; exact Hwf | reflexivity].
Qed.
Print Assumptions ends_items.
