(* StrContFacts.v — a CSS line continuation (backslash + newline) contributes nothing to a quoted value, wherever it stands:
   a FINITE kernel check on the REGENERATED pattern RE_CSS_STR_ESC (four kinds of newline x twelve contexts, among them
   "right before the end of the value", where `\\$` used to win over `\\NEWLINE` for a lone line feed: /repo fix 9d8dee2).
   Not an unbounded theorem: a regression obligation tied to the regex the source has now (C09). *)
From SV Require Import Base Regex IR Lit AttrPat Parser.

Definition NEWLINES : list str := [[10]; [13; 10]; [13]; [12]]%N.
Definition CONTEXTS : list (str * str) :=
  [([], []); ([120], []); ([], [121]); ([120], [121]); ([120; 32], [32; 121]); ([92; 52; 49; 32], [97]);
   ([120; 92; 34], []); ([120], [92; 92]); ([120; 92; 10], []); ([120], [92; 13; 10]); ([120; 92; 92], []); ([10], [120])]%N.
Definition cont_ok (nl : str) (c : str * str) : bool :=
  str_eqb (css_unescape (fst c ++ 92%N :: nl ++ snd c) true) (css_unescape (fst c ++ snd c) true).

Lemma line_continuations : forallb (fun nl => forallb (cont_ok nl) CONTEXTS) NEWLINES = true.
Proof. vm_compute. reflexivity. Qed.

(* the escaped end of input is still U+FFFD, and only at the real end *)
Lemma escaped_eof : css_unescape [120; 92]%N true = [120; 65533]%N /\ css_unescape [92; 10]%N true = [] /\
  css_unescape [120; 92; 10]%N true = [120]%N.
Proof. repeat split; vm_compute; reflexivity. Qed.
