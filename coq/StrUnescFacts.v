(* StrUnescFacts.v — what css_unescape computes in STRING mode, for every string: the specification US of CSS escapes inside a
   quoted value (hex escapes, character escapes, line continuations, escaped end of input) read off the REGENERATED pattern
   RE_CSS_STR_ESC; the proof follows UnescFacts (one match characterised, then the leftmost one, then the re.sub loop). C09. *)
From SV Require Import Base Regex RunFacts IR Lit AttrPat AttrFacts Parser UnescFacts.
From SV.gen Require Import RegexGen.
From Coq Require Import ZifyBool.
Local Open Scope bool_scope.

Notation ES := cp_RE_CSS_STR_ESC.
Definition NLALT : re :=
  Alt (Seq (Chr [(13, 13)]%N) (Chr [(10, 10)]%N)) (Seq (Look true (Seq (Chr [(13, 13)]%N) (Chr [(10, 10)]%N))) (Chr [(10, 10); (12, 13)]%N)).

Lemma ES_shape : ES = Alt (Grp 1 (Seq (Chr [(92, 92)]%N) (Seq (Rep true 1 (Some 6) (Chr HEX)) (Rep true 0 (Some 1) WSALT))))
                        (Alt (Grp 2 (Seq (Chr [(92, 92)]%N) (Chr [(0, 9); (11, 11); (14, 1114111)]%N)))
                             (Alt (Grp 3 (Seq (Chr [(92, 92)]%N) AtEndStrict)) (Grp 4 (Seq (Chr [(92, 92)]%N) NLALT)))).
Proof. reflexivity. Qed.

Definition is_nl (c : cp) : bool := ((c =? 10) || (c =? 12) || (c =? 13))%N.
Lemma is_nl_cases x : is_nl x = true -> x = 10%N \/ x = 12%N \/ x = 13%N.
Proof. unfold is_nl. lia. Qed.

Lemma nlalt_ends p b x r c : is_nl x = true ->
  ends NLALT (St p b (x :: r)) c = [(adv (ws1 (x :: r)) p b (x :: r), c)].
Proof.
  intros Hx. apply is_nl_cases in Hx.
  assert (H := wsalt_ends p b (x :: r) c). unfold WSALT in H. rewrite ends_alt in H. fold NLALT in H.
  destruct Hx as [-> | [-> | ->]].
  - change (ends (Chr [(9, 9); (32, 32)]%N) (St p b (10%N :: r)) c) with (@nil (state * caps)) in H. cbn [app] in H. rewrite H. reflexivity.
  - change (ends (Chr [(9, 9); (32, 32)]%N) (St p b (12%N :: r)) c) with (@nil (state * caps)) in H. cbn [app] in H. rewrite H. reflexivity.
  - change (ends (Chr [(9, 9); (32, 32)]%N) (St p b (13%N :: r)) c) with (@nil (state * caps)) in H. cbn [app] in H. rewrite H.
    destruct r as [|d r']; [reflexivity|].
    change (ws1 (13%N :: d :: r')) with (if (d =? 10)%N then 2 else 1). destruct (d =? 10)%N; reflexivity.
Qed.

Lemma nlalt_none p b x r c : is_nl x = false -> ends NLALT (St p b (x :: r)) c = [].
Proof.
  intros Hx. unfold is_nl in Hx. unfold NLALT. cbn [ends st_adv after pos before]. unfold cs_mem. cbn [existsb fst snd].
  replace ((13 <=? x)%N && (x <=? 13)%N || false) with false by lia. cbn [flat_map app].
  cbn [fst snd st_adv after pos before].
  replace ((10 <=? x)%N && (x <=? 10)%N || ((12 <=? x)%N && (x <=? 13)%N || false)) with false by lia. reflexivity.
Qed.

Definition esc_atS (p : nat) (b a : str) : option (state * caps) :=
  match a with
  | c0 :: rest =>
    if (c0 =? 92)%N then
      let k := grun HEX (Some 6) rest in
      if 1 <=? k then
        let st1 := adv k (S p) (c0 :: b) rest in
        let st2 := adv (ws1 (after st1)) (pos st1) (before st1) (after st1) in
        Some (st2, [(1, (p, pos st2))])
      else match rest with
           | c :: rest' => if cs_mem c NONL then Some (St (S (S p)) (c :: c0 :: b) rest', [(2, (p, S (S p)))])
                           else if is_nl c then let st2 := adv (ws1 rest) (S p) (c0 :: b) rest in Some (st2, [(4, (p, pos st2))])
                           else None
           | [] => Some (St (S p) (c0 :: b) [], [(3, (p, S p))])
           end
    else None
  | [] => None
  end.

Lemma rmatch_ES p b a : rmatch_st ES (St p b a) = esc_atS p b a.
Proof.
  unfold rmatch_st. rewrite ES_shape. unfold esc_atS. destruct a as [|c0 rest]; [reflexivity|].
  assert (H92 : cs_mem c0 [(92, 92)]%N = (c0 =? 92)%N) by apply mem_single.
  rewrite !ends_alt, !ends_grp, !ends_seq, !ends_chr, H92.
  destruct (c0 =? 92)%N; [|reflexivity].
  cbn [flat_map fst snd]. rewrite !app_nil_r.
  rewrite ends_seq, ends_rep. cbn [after]. rewrite rep_ends_run by lia.
  pose proof (run_ends_hd HEX rest 1 (Some 6) (S p) (c0 :: b) []) as Hh.
  destruct (1 <=? grun HEX (Some 6) rest) eqn:Ek.
  - destruct (run_ends HEX 1 (Some 6) (S p) (c0 :: b) rest []) as [|[st1 c1] l1] eqn:Er; [discriminate Hh|].
    cbn [hd_error] in Hh. injection Hh as -> ->.
    set (st1 := adv (grun HEX (Some 6) rest) (S p) (c0 :: b) rest).
    assert (Hw := wsopt_hd (pos st1) (before st1) (after st1) []).
    assert (Hst : St (pos st1) (before st1) (after st1) = st1) by (destruct st1; reflexivity). rewrite Hst in Hw.
    cbn [flat_map fst snd]. destruct (ends (Rep true 0 (Some 1) WSALT) st1 []) as [|[st2 c2] l2]; [discriminate Hw|].
    cbn [hd_error] in Hw. injection Hw as -> ->. reflexivity.
  - destruct (run_ends HEX 1 (Some 6) (S p) (c0 :: b) rest []) as [|e l1]; [|discriminate Hh].
    cbn [flat_map map app]. rewrite ends_chr. destruct rest as [|c rest']; [reflexivity|].
    fold NONL. destruct (cs_mem c NONL) eqn:En; [reflexivity|]. cbn [map app ends after].
    destruct (is_nl c) eqn:Enl.
    + rewrite nlalt_ends by exact Enl. reflexivity.
    + rewrite nlalt_none by exact Enl. reflexivity.
Qed.

(* ================================================================== the specification (string mode) *)
(* as U, and: a backslash followed by a newline unit (LF, FF, CR or CR LF) is a line continuation and contributes nothing;
   a backslash is U+FFFD only at the very end of the value *)
Fixpoint US (skip : nat) (a : str) : str :=
  match a with
  | [] => []
  | c :: rest =>
    match skip with
    | S k => US k rest
    | O =>
      if (c =? 92)%N then
        let k := grun HEX (Some 6) rest in
        if 1 <=? k then fix_cp (hex_int (firstn k rest) 0) :: US (k + ws1 (skipn k rest)) rest
        else match rest with
             | d :: _ => if cs_mem d NONL then d :: US 1 rest
                         else if is_nl d then US (ws1 rest) rest else c :: US 0 rest
             | [] => [65533%N]
             end
      else c :: US 0 rest
    end
  end.

Lemma US_skip : forall a k, US k a = US 0 (skipn k a).
Proof.
  induction a as [|c rest IH]; intros k.
  - destruct k; reflexivity.
  - destruct k as [|k]; [reflexivity|]. cbn [US skipn]. apply IH.
Qed.

Lemma css_unescape_str_eq s : css_unescape s true = sub_with s (finditer ES s) 0 (repl s).
Proof. reflexivity. Qed.

(* ---- one escape ---- *)
Lemma esc_atS_some s p b a st2 c : s = rev b ++ a -> p = length b -> esc_atS p b a = Some (st2, c) ->
  (s = rev (before st2) ++ after st2 /\ pos st2 = length (before st2)) /\ p < pos st2 /\
  US 0 a = repl s (p, pos st2, c) ++ US 0 (after st2).
Proof.
  intros Hs Hp. unfold esc_atS. destruct a as [|c0 rest]; [discriminate|].
  destruct (c0 =? 92)%N eqn:E92; [|discriminate].
  set (k := grun HEX (Some 6) rest).
  destruct (1 <=? k) eqn:Ek.
  - set (st1 := adv k (S p) (c0 :: b) rest).
    set (w := ws1 (after st1)).
    intros H. injection H as <- <-.
    assert (Hk : k <= length rest) by apply grun_le.
    assert (H1 : s = rev (before st1) ++ after st1 /\ pos st1 = length (before st1)).
    { apply adv_inv; [cbn [rev]; rewrite <- app_assoc; exact Hs | cbn [length]; lia]. }
    assert (Ha1 : after st1 = skipn k rest) by apply adv_after.
    assert (Hw : w <= length (skipn k rest)) by (unfold w; rewrite Ha1; apply ws1_le).
    assert (Hp1 : pos st1 = S p + k) by (unfold st1; rewrite adv_pos; lia).
    set (st2 := adv w (pos st1) (before st1) (after st1)).
    assert (Hp2 : pos st2 = S p + (k + w)) by (unfold st2; rewrite adv_pos, Ha1; lia).
    split; [apply adv_inv; tauto|]. split; [lia|].
    assert (Ha2 : after st2 = skipn (k + w) rest).
    { unfold st2. rewrite adv_after, Ha1. apply skipn_add. }
    cbn [US]. rewrite E92. fold k. rewrite Ek. rewrite Ha2, US_skip.
    unfold repl. cbn [cap_get Nat.eqb]. rewrite Hp2, Hs, Hp, substr_after, firstn_add.
    rewrite hex_int_stop; [|intros d Hd; unfold w in Hd; rewrite Ha1 in Hd; exact (ws1_hd _ _ Hd)].
    unfold fix_cp. rewrite <- Ha1. fold w. replace (k + w) with (k + w) by reflexivity. reflexivity.
  - destruct rest as [|d rest'].
    + intros H. injection H as <- <-. cbn [before after pos rev]. split; [split; [rewrite <- app_assoc; exact Hs | cbn [length]; lia]|].
      split; [lia|]. cbn [US]. rewrite E92. fold k. rewrite Ek. reflexivity.
    + destruct (cs_mem d NONL) eqn:En.
      * intros H. injection H as <- <-. cbn [before after pos rev]. split; [split; [rewrite <- !app_assoc; exact Hs | cbn [length]; lia]|].
        split; [lia|]. cbn [US]. rewrite E92. fold k. rewrite Ek, En. unfold repl. cbn [cap_get Nat.eqb].
        rewrite Hs, Hp. replace (S (S (length b))) with (S (length b) + 1) by lia. rewrite substr_after. reflexivity.
      * destruct (is_nl d) eqn:Enl; [|discriminate].
        assert (Hw1 : 1 <= ws1 (d :: rest')).
        { apply is_nl_cases in Enl. destruct Enl as [-> | [-> | ->]]; [cbn; lia | cbn; lia |].
          destruct rest' as [|e r']; [cbn; lia|]. change (ws1 (13%N :: e :: r')) with (if (e =? 10)%N then 2 else 1). destruct (e =? 10)%N; lia. }
        remember (ws1 (d :: rest')) as w eqn:Hw.
        intros H. injection H as <- <-.
        assert (Hpn : pos (adv w (S p) (c0 :: b) (d :: rest')) = S p + Nat.min w (length (d :: rest'))) by apply adv_pos.
        split; [apply adv_inv; [cbn [rev]; rewrite <- app_assoc; exact Hs | cbn [length]; lia]|].
        split; [cbn [length] in Hpn; lia|].
        unfold repl. cbn [cap_get Nat.eqb app]. rewrite adv_after.
        remember (skipn w (d :: rest')) as tl eqn:Htl.
        cbn [US]. rewrite E92. fold k. rewrite Ek, En, Enl. rewrite <- Hw.
        destruct w as [|w']; [lia|]. cbn [skipn] in Htl. subst tl. apply US_skip.
Qed.

Lemma esc_atS_none p b c0 rest : esc_atS p b (c0 :: rest) = None -> US 0 (c0 :: rest) = c0 :: US 0 rest.
Proof.
  unfold esc_atS. cbn [US]. destruct (c0 =? 92)%N; [|reflexivity].
  destruct (1 <=? grun HEX (Some 6) rest); [discriminate|].
  destruct rest as [|d rest']; [discriminate|]. destruct (cs_mem d NONL); [discriminate|].
  destruct (is_nl d); [discriminate | reflexivity].
Qed.

(* ---- the leftmost escape ---- *)
Fixpoint esearchS (p : nat) (b a : str) : option (state * state * caps) :=
  match esc_atS p b a with
  | Some (st', c) => Some (St p b a, st', c)
  | None => match a with [] => None | c :: rest => esearchS (S p) (c :: b) rest end
  end.

Lemma rsearch_ES : forall a p b fuel, length a <= fuel -> rsearch_st fuel ES (St p b a) = esearchS p b a.
Proof.
  induction a as [|c rest IH]; intros p b fuel Hf.
  - destruct fuel; cbn [rsearch_st esearchS]; rewrite rmatch_ES; destruct (esc_atS p b []) as [[? ?]|]; reflexivity.
  - destruct fuel as [|f]; [cbn in Hf; lia|]. cbn [rsearch_st esearchS]. rewrite rmatch_ES.
    destruct (esc_atS p b (c :: rest)) as [[? ?]|]; [reflexivity|]. cbn [st_adv after pos before]. apply IH. cbn in Hf. lia.
Qed.

Lemma esearchS_spec : forall a p b,
  match esearchS p b a with
  | None => US 0 a = a
  | Some (s1, s2, c) => exists pre a1, a = pre ++ a1 /\ s1 = St (p + length pre) (rev pre ++ b) a1 /\
                                       esc_atS (p + length pre) (rev pre ++ b) a1 = Some (s2, c) /\ US 0 a = pre ++ US 0 a1
  end.
Proof.
  induction a as [|c rest IH]; intros p b.
  - cbn [esearchS]. destruct (esc_atS p b []) as [[st' c]|] eqn:Ee; [|reflexivity].
    exists [], []. cbn [length app rev]. rewrite Nat.add_0_r. auto.
  - cbn [esearchS]. destruct (esc_atS p b (c :: rest)) as [[st' cc]|] eqn:Ee.
    + exists [], (c :: rest). cbn [length app rev]. rewrite Nat.add_0_r. auto.
    + specialize (IH (S p) (c :: b)). rewrite (esc_atS_none _ _ _ _ Ee).
      destruct (esearchS (S p) (c :: b) rest) as [[[s1 s2] cc]|].
      * destruct IH as (pre & a1 & H1 & H2 & H3 & H4). exists (c :: pre), a1. cbn [length app rev].
        rewrite <- app_assoc. cbn [app]. replace (p + S (length pre)) with (S p + length pre) by lia.
        repeat split; [f_equal; exact H1 | exact H2 | exact H3 | f_equal; exact H4].
      * f_equal. exact IH.
Qed.

(* ---- the whole substitution ---- *)

Lemma unescape_loopS s n : forall a p b fuel, length a <= n -> n + 1 <= fuel -> s = rev b ++ a -> p = length b ->
  sub_with s (map proj (finditer_st fuel false ES (St p b a))) p (repl s) = US 0 a.
Proof.
  induction n as [n IHn] using lt_wf_ind. intros a p b fuel Hn Hf Hs Hp.
  destruct fuel as [|f]; [lia|]. cbn [finditer_st]. unfold rsearch_from. cbn [after].
  rewrite (rsearch_ES a p b (length a) (le_n _)).
  pose proof (esearchS_spec a p b) as He.
  destruct (esearchS p b a) as [[[s1 s2] c]|].
  - destruct He as (pre & a1 & Ha & Hs1 & Hesc & HU).
    assert (Hs' : s = rev (rev pre ++ b) ++ a1).
    { rewrite rev_app_distr, rev_involutive, <- app_assoc, <- Ha. exact Hs. }
    assert (Hp' : p + length pre = length (rev pre ++ b)) by (rewrite app_length, rev_length; lia).
    destruct (esc_atS_some s _ _ _ _ _ Hs' Hp' Hesc) as ((Hi1 & Hi2) & Hlt & HU1).
    cbn [map proj]. rewrite Hs1. cbn [pos]. cbn [sub_with].
    replace (p + length pre =? pos s2) with false by (symmetry; apply Nat.eqb_neq; lia).
    rewrite HU, HU1. f_equal.
    { rewrite Hs, Ha, Hp. apply substr_pre. }
    f_equal.
    assert (Hlen : length s = pos s2 + length (after s2)).
    { rewrite Hi1 at 1. rewrite app_length, rev_length. lia. }
    assert (Hlen0 : length s = p + length a).
    { rewrite Hs at 1. rewrite app_length, rev_length. lia. }
    destruct s2 as [p2 b2 a2]. cbn [pos before after] in *.
    apply (IHn (n - 1)); [lia | lia | lia | exact Hi1 | exact Hi2].
  - cbn [map sub_with]. rewrite He, Hs, Hp. rewrite skipn_app, skipn_all2 by (rewrite rev_length; lia).
    rewrite rev_length, Nat.sub_diag. reflexivity.
Qed.

Theorem css_unescape_str_spec s : css_unescape s true = US 0 s.
Proof.
  rewrite css_unescape_str_eq. unfold finditer, st_init.
  rewrite <- (unescape_loopS s (length s) s 0 [] (S (S (length s)))) by (try reflexivity; lia).
  reflexivity.
Qed.

Print Assumptions css_unescape_str_spec.

(* consequences for EVERY tail y: a line continuation at the head of a value contributes nothing *)
Corollary continuation_lf y : css_unescape (92 :: 10 :: y)%N true = css_unescape y true.
Proof. rewrite !css_unescape_str_spec. reflexivity. Qed.
Corollary continuation_ff y : css_unescape (92 :: 12 :: y)%N true = css_unescape y true.
Proof. rewrite !css_unescape_str_spec. reflexivity. Qed.
Corollary continuation_crlf y : css_unescape (92 :: 13 :: 10 :: y)%N true = css_unescape y true.
Proof. rewrite !css_unescape_str_spec. reflexivity. Qed.
Corollary continuation_cr y : hd_error y <> Some 10%N -> css_unescape (92 :: 13 :: y)%N true = css_unescape y true.
Proof.
  intros Hy. rewrite !css_unescape_str_spec. destruct y as [|d y']; [reflexivity|].
  assert (Hd : (d =? 10)%N = false) by (apply N.eqb_neq; intros ->; apply Hy; reflexivity).
  change (US 0 (92 :: 13 :: d :: y')%N) with (US (if (d =? 10)%N then 2 else 1) (13%N :: d :: y')). rewrite Hd. reflexivity.
Qed.
(* a literal character (not a backslash) is copied and the rest is unescaped on its own: with the head corollaries this
   places a continuation after any literal prefix, in particular right before the end of the value *)
Corollary literal_step c y : (c =? 92)%N = false -> css_unescape (c :: y) true = c :: css_unescape y true.
Proof. intros Hc. rewrite !css_unescape_str_spec. cbn [US]. rewrite Hc. reflexivity. Qed.
Corollary continuation_at_end_lf c : (c =? 92)%N = false -> css_unescape [c; 92; 10]%N true = [c].
Proof. intros Hc. rewrite literal_step by exact Hc. rewrite continuation_lf. reflexivity. Qed.
Corollary escaped_eof_only_at_end : css_unescape [92]%N true = [65533]%N.
Proof. reflexivity. Qed.

(* a value made of line continuations only is the EMPTY value, whatever follows is unescaped on its own (any number of them;
   a bare CR is left out because CR followed by LF is one newline unit) *)
Inductive cont : str -> Prop :=
| K_lf : cont [92; 10]%N
| K_ff : cont [92; 12]%N
| K_crlf : cont [92; 13; 10]%N.
Theorem only_continuations_is_empty l y : Forall cont l -> css_unescape (concat l ++ y) true = css_unescape y true.
Proof.
  induction 1 as [|k l Hk _ IH]; [reflexivity|]. cbn [concat]. rewrite <- app_assoc.
  destruct Hk; cbn [app]; [rewrite continuation_lf | rewrite continuation_ff | rewrite continuation_crlf]; exact IH.
Qed.
Corollary continuations_only l : Forall cont l -> css_unescape (concat l) true = [].
Proof. intros H. rewrite <- (app_nil_r (concat l)). rewrite only_continuations_is_empty by exact H. reflexivity. Qed.
