(* TextFacts.v — what counts as text content (C19). *)
From SV Require Import Base Regex Tree IR Lit Inputs Match LangFacts.
From SV.gen Require Import RegexGen.
Local Open Scope bool_scope.

(* only plain text nodes are content: never Comment, CDATA, PI, Declaration, Doctype, nor elements *)
Theorem content_string_kinds n : is_content_string n = true <-> exists s, n = Str KText s.
Proof.
  split.
  - destruct n as [| k s]; [discriminate|]. destruct k; try discriminate. intros _. now exists s.
  - intros [s ->]. reflexivity.
Qed.

(* search for a one-character class: some character of the subject is in the class *)
Lemma rsearch_st_chr cs st fuel : length (after st) <= fuel ->
  rsearch_st fuel (Chr cs) st = None <-> forallb (fun c => negb (cs_mem c cs)) (after st) = true.
Proof.
  revert st. induction fuel as [|f IH]; intros st Hf.
  - destruct st as [p b a]. cbn [after] in *. destruct a; [|simpl in Hf; lia].
    cbn. split; intros _; reflexivity.
  - destruct st as [p b a]. cbn [after] in *. destruct a as [|c a].
    + cbn. split; intros _; reflexivity.
    + cbn [rsearch_st]. unfold rmatch_st. cbn [ends st_adv after pos before forallb].
      destruct (cs_mem c cs) eqn:E; cbn [hd_error negb andb].
      * split; intros H; discriminate H.
      * apply (IH (St (S p) (c :: b) a)). cbn [after]. simpl in Hf. lia.
Qed.

Lemma rsearch_chr_none cs s :
  rsearch (Chr cs) s = None <-> forallb (fun c => negb (cs_mem c cs)) s = true.
Proof.
  unfold rsearch. pose proof (rsearch_st_chr cs (st_init s) (length s) (le_n _)) as H.
  cbn [st_init after] in H. rewrite <- H.
  destruct (rsearch_st (length s) (Chr cs) (st_init s)) as [[[a b] c]|]; split; congruence.
Qed.

(* CSS white space *)
Definition css_ws (c : cp) : bool := existsb (N.eqb c) [32; 9; 13; 10; 12]%N.

(* the REGENERATED pattern RE_NOT_EMPTY is "one character that is not CSS white space" *)
Lemma RE_NOT_EMPTY_shape : exists cs, cm_RE_NOT_EMPTY = Chr cs /\
  forall c, (c <= 1114111)%N -> cs_mem c cs = negb (css_ws c).
Proof.
  eexists. split; [reflexivity|]. intros c Hc. unfold cs_mem, css_ws. cbn [existsb fst snd].
  repeat match goal with |- context [(?a <=? ?b)%N] => destruct (N.leb_spec a b) end;
  repeat match goal with |- context [(?a =? ?b)%N] => destruct (N.eqb_spec a b) end;
  cbn [andb orb negb]; try reflexivity; lia.
Qed.

Definition valid_str (s : str) : Prop := Forall (fun c => (c <= 1114111)%N) s.

Section T.
Variable cx : ctx.

(* :empty: no element child and no text child with a non-white-space character;
   comments, CDATA, PIs, declarations and doctypes do not count *)
Definition empty_spec (p : path) : Prop :=
  forall q n, In (q, n) (children (c_tree cx) p) ->
    match n with
    | Elem _ _ _ _ _ => False
    | Str KText s => forall c, In c s -> css_ws c = true
    | Str _ _ => True
    end.

Theorem match_empty_spec p :
  (forall q s, In (q, Str KText s) (children (c_tree cx) p) -> valid_str s) ->
  match_empty cx p = true <-> empty_spec p.
Proof.
  intros Hv. unfold match_empty, empty_spec. rewrite forallb_forall. split.
  - intros H q n Hin. specialize (H (q, n) Hin). cbn [snd] in H.
    destruct n as [| k s]; [discriminate|]. destruct k; try exact I.
    destruct (rsearch cm_RE_NOT_EMPTY s) eqn:E; [discriminate|].
    destruct RE_NOT_EMPTY_shape as [cs [Hcs Hmem]]. rewrite Hcs in E.
    apply rsearch_chr_none in E. rewrite forallb_forall in E.
    intros c Hc. specialize (E c Hc). specialize (Hv q s Hin).
    unfold valid_str in Hv. rewrite Forall_forall in Hv. rewrite (Hmem c (Hv c Hc)) in E.
    destruct (css_ws c); [reflexivity | discriminate].
  - intros H [q n] Hin. specialize (H q n Hin). cbn [snd].
    destruct n as [| k s]; [contradiction|]. destruct k; try reflexivity.
    destruct RE_NOT_EMPTY_shape as [cs [Hcs Hmem]]. rewrite Hcs.
    assert (E : rsearch (Chr cs) s = None).
    { apply rsearch_chr_none. apply forallb_forall. intros c Hc.
      specialize (Hv q s Hin). unfold valid_str in Hv. rewrite Forall_forall in Hv.
      rewrite (Hmem c (Hv c Hc)), (H c Hc). reflexivity. }
    rewrite E. reflexivity.
Qed.

(* :-soup-contains: substring of the concatenated text nodes / of ONE own text node *)
Theorem match_contains_single p texts :
  match_contains cx p [SContains texts false]
  = existsb (fun tx => substrb tx (get_text cx p (c_is_html cx))) texts.
Proof. unfold match_contains, match_contains_one. cbn. rewrite andb_true_r. reflexivity. Qed.

Theorem match_contains_own_single p texts :
  match_contains cx p [SContains texts true]
  = existsb (fun tx => existsb (fun o => substrb tx o) (get_own_text cx p (c_is_html cx))) texts.
Proof. unfold match_contains, match_contains_one. cbn. rewrite andb_true_r. reflexivity. Qed.

(* the text of an element is built from text nodes only *)
Theorem get_text_only_text p b :
  get_text cx p b = concat (map (fun pn => str_of (snd pn))
                       (filter (fun pn => match snd pn with Str KText _ => true | _ => false end)
                               (get_descendants cx p b))).
Proof. reflexivity. Qed.

(* nothing below an iframe is visited when the iframe restriction is on *)
Lemma desc_from_no_iframe fuel kids q n :
  In (q, n) (desc_from cx fuel true kids) ->
  In (q, n) kids \/
  exists k kn, In (k, kn) (desc_from cx fuel true kids) /\ is_iframe cx k = false /\
               In (q, n) (children (c_tree cx) k).
Proof.
  revert kids q n. induction fuel as [|f IH]; intros kids q n H; [contradiction|].
  cbn [desc_from] in H. apply in_flat_map in H as [[k kn] [Hk Hin]].
  destruct Hin as [Heq | Hin]; [left; injection Heq as <- <-; exact Hk|].
  right. cbn [fst snd] in Hin.
  destruct (is_elem kn && negb (true && is_iframe cx k)) eqn:E0; [|contradiction].
  assert (E : is_iframe cx k = false).
  { apply andb_true_iff in E0 as [_ E0]. cbn [andb] in E0. now apply negb_true_iff in E0. }
  assert (Hself : In (k, kn) (desc_from cx (S f) true kids)).
  { cbn [desc_from]. apply in_flat_map. exists (k, kn). split; [exact Hk | left; reflexivity]. }
  assert (Hsub : forall x, In x (desc_from cx f true (children (c_tree cx) k)) -> In x (desc_from cx (S f) true kids)).
  { intros x Hx. cbn [desc_from]. apply in_flat_map. exists (k, kn). split; [exact Hk|].
    right. cbn [fst snd]. rewrite E0. exact Hx. }
  destruct (IH _ _ _ Hin) as [Hc | [k' [kn' [H1 [H2 H3]]]]].
  - exists k, kn. split; [exact Hself | split; [exact E | exact Hc]].
  - exists k', kn'. split; [apply Hsub; exact H1 | split; assumption].
Qed.
End T.
