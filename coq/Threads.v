(* Threads.v — an interleaving semantics over per-thread action lists on shared cells, and the theorem
   that threads which never write a shared cell (other than through an atomic, value-deterministic
   memo table) observe exactly what they observe when run alone. *)
From SV Require Import Base.

Definition cell := nat.
Definition store := cell -> nat.            (* 0 = empty *)

Inductive act :=
| ARead (c : cell)                          (* read a shared cell: the observation *)
| AMemo (c : cell).                         (* atomic get-or-compute on a memo cell: observes memo_value c *)

Section T.
Variable memo_value : cell -> nat.          (* the value a memo cell holds once filled: a function of the key *)
Hypothesis memo_nonzero : forall c, memo_value c <> 0.
Variable is_memo : cell -> bool.            (* which cells are memo tables *)

Definition upd (s : store) (c : cell) (v : nat) : store := fun x => if Nat.eqb x c then v else s x.

(* one step of one thread: new store, observation *)
Definition step1 (s : store) (a : act) : store * nat :=
  match a with
  | ARead c => (s, s c)
  | AMemo c => if Nat.eqb (s c) 0 then (upd s c (memo_value c), memo_value c) else (s, s c)
  end.

(* a store is consistent when every memo cell is empty or holds its determined value *)
Definition consistent (s : store) : Prop := forall c, is_memo c = true -> s c = 0 \/ s c = memo_value c.
(* threads read only non-memo cells directly, and use AMemo only on memo cells *)
Definition well_formed (a : act) : Prop :=
  match a with ARead c => is_memo c = false | AMemo c => is_memo c = true end.

(* a schedule: which thread moves next *)
Fixpoint run_sched (threads : list (list act)) (obs : list (list nat)) (s : store) (sched : list nat)
  : list (list act) * list (list nat) * store :=
  match sched with
  | [] => (threads, obs, s)
  | i :: sched' =>
    match nth_error threads i with
    | Some (a :: rest) =>
      let '(s', v) := step1 s a in
      let threads' := firstn i threads ++ rest :: skipn (S i) threads in
      let obs' := firstn i obs ++ (nth i obs [] ++ [v]) :: skipn (S i) obs in
      run_sched threads' obs' s' sched'
    | _ => run_sched threads obs s sched'
    end
  end.

(* what a thread observes when it runs alone from store s *)
Fixpoint alone (s : store) (t : list act) : list nat :=
  match t with
  | [] => []
  | a :: t' => let '(s', v) := step1 s a in v :: alone s' t'
  end.

(* the observation of one action does not depend on the (consistent) store it runs in, as far as
   non-memo cells agree *)
Definition agree (s1 s2 : store) : Prop := forall c, is_memo c = false -> s1 c = s2 c.

Lemma step1_memo s c : consistent s -> is_memo c = true ->
  snd (step1 s (AMemo c)) = memo_value c /\ consistent (fst (step1 s (AMemo c))) /\ agree (fst (step1 s (AMemo c))) s.
Proof.
  intros H Hc. cbn [step1]. destruct (H c Hc) as [E|E]; rewrite E.
  - cbn [Nat.eqb fst snd]. split; [reflexivity|]. split.
    + intros x Hx. unfold upd. destruct (Nat.eqb x c) eqn:Ex; [right; apply Nat.eqb_eq in Ex; now subst | apply H; exact Hx].
    + intros x Hx. unfold upd. destruct (Nat.eqb x c) eqn:Ex; [apply Nat.eqb_eq in Ex; subst; congruence | reflexivity].
  - pose proof (memo_nonzero c) as Hn.
    destruct (Nat.eqb (memo_value c) 0) eqn:Em; [apply Nat.eqb_eq in Em; contradiction|].
    cbn [fst snd]. split; [reflexivity|]. split; [exact H | intros x _; reflexivity].
Qed.

Lemma step1_obs s1 s2 a : well_formed a -> consistent s1 -> consistent s2 -> agree s1 s2 ->
  snd (step1 s1 a) = snd (step1 s2 a) /\ consistent (fst (step1 s1 a)) /\ agree (fst (step1 s1 a)) s1.
Proof.
  intros Hw H1 H2 Ha. destruct a as [c|c]; cbn [well_formed] in Hw.
  - cbn. split; [apply Ha; exact Hw | split; [exact H1 | intros x _; reflexivity]].
  - destruct (step1_memo s1 c H1 Hw) as [E1 [C1 A1]]. destruct (step1_memo s2 c H2 Hw) as [E2 _].
    split; [congruence | split; assumption].
Qed.

(* running alone: the observations do not depend on which consistent store (agreeing on plain cells) we start from *)
Lemma alone_indep t : Forall well_formed t -> forall s1 s2, consistent s1 -> consistent s2 -> agree s1 s2 ->
  alone s1 t = alone s2 t.
Proof.
  induction t as [|a t IH]; intros Hw s1 s2 H1 H2 Ha; [reflexivity|].
  inversion Hw as [|? ? Hwa Hwt]; subst. cbn [alone].
  destruct (step1_obs s1 s2 a Hwa H1 H2 Ha) as [Eo [Hc1 Ha1]].
  destruct (step1_obs s2 s1 a Hwa H2 H1 (fun c h => eq_sym (Ha c h))) as [_ [Hc2 Ha2]].
  destruct (step1 s1 a) as [s1' v1] eqn:E1. destruct (step1 s2 a) as [s2' v2] eqn:E2.
  cbn [fst snd] in *. subst v2. f_equal. apply IH; try assumption.
  intros c Hc. rewrite (Ha1 c Hc), (Ha2 c Hc). apply Ha. exact Hc.
Qed.
(* a global execution: a trace of (thread, action) steps in the order the interpreter ran them *)
Fixpoint exec (s : store) (tr : list (nat * act)) : list (nat * nat) :=
  match tr with
  | [] => []
  | (i, a) :: tr' => let '(s', v) := step1 s a in (i, v) :: exec s' tr'
  end.
Definition proj {A} (i : nat) (l : list (nat * A)) : list A :=
  map snd (filter (fun x => Nat.eqb (fst x) i) l).

(* every thread of every interleaving observes exactly what it observes when run alone *)
Theorem serializable tr : Forall (fun x => well_formed (snd x)) tr ->
  forall s, consistent s -> forall i, proj i (exec s tr) = alone s (proj i tr).
Proof.
  induction tr as [|[j a] tr IH]; intros Hw s Hs i; [reflexivity|].
  inversion Hw as [|? ? Hwa Hwt]; subst. cbn [snd] in Hwa.
  destruct (step1_obs s s a Hwa Hs Hs (fun c _ => eq_refl)) as [_ [Hc Hag]].
  cbn [exec]. destruct (step1 s a) as [s' v] eqn:E. cbn [fst snd] in Hc, Hag.
  unfold proj at 1 2. cbn [filter fst]. destruct (Nat.eqb j i) eqn:Eji.
  - cbn [map snd alone]. rewrite E. f_equal. apply IH; assumption.
  - change (proj i (exec s' tr) = alone s (proj i tr)). rewrite (IH Hwt s' Hc i).
    apply alone_indep; try assumption.
    clear -Hwt. unfold proj. induction tr as [|[k b] tr IH]; [constructor|].
    inversion Hwt; subst. cbn [filter fst]. destruct (Nat.eqb k i); [constructor; [assumption | now apply IH] | now apply IH].
Qed.

(* hence two schedules of the same threads give every thread the same observations *)
Corollary schedule_independent tr1 tr2 s :
  Forall (fun x => well_formed (snd x)) tr1 -> Forall (fun x => well_formed (snd x)) tr2 -> consistent s ->
  (forall i, proj i tr1 = proj i tr2) -> forall i, proj i (exec s tr1) = proj i (exec s tr2).
Proof. intros H1 H2 Hs Hp i. rewrite !serializable by assumption. rewrite Hp. reflexivity. Qed.
End T.
