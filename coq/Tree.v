(* Tree.v — definitions only: the view of a Beautiful Soup tree that the matcher reads.
   Produced from a live bs4 tree by harness/bs4view.py (what the matcher reads and nothing
   else: name, prefix, namespace, attrs keys with their namespace/name parts, node kinds,
   contents order, the document object and its _is_xml flag). *)
From SV Require Export Base.

(* attribute values as the bs4 API permits them *)
Inductive pyval :=
| PStr (s : str)
| PNone
| PBytes (decoded : option str)          (* bytes: its UTF-8 decoding, None if it is not valid UTF-8 *)
| PList (items : list pyval) (repr : str) (* list/tuple; repr = str(value), used when it is nested in a list *)
| POther (repr : str).                   (* anything else: str(value) *)

(* attribute key: plain str (no parts) or NamespacedAttribute (.namespace / .name) *)
Record akey := AKey { k_full : str; k_ns : option str; k_name : option str }.

Inductive kind := KText | KComment | KCData | KPI | KDoctype | KDecl.

Inductive node :=
| Elem (name : str) (prefix : option str) (ns : option str)
       (attrs : list (akey * pyval)) (kids : list node)
| Str (k : kind) (s : str).

(* A tree: `t_root` is the BeautifulSoup object itself when t_isdoc (its name is
   "[document]"), otherwise a detached top element whose parent is None. *)
Record tree := Tree { t_xml : bool; t_isdoc : bool; t_root : node }.

Definition path := list nat.       (* child indices from t_root; [] = t_root *)

Definition kids_of (n : node) : list node :=
  match n with Elem _ _ _ _ k => k | Str _ _ => [] end.
Definition is_elem (n : node) : bool := match n with Elem _ _ _ _ _ => true | Str _ _ => false end.

Fixpoint get_node (n : node) (p : path) : option node :=
  match p with
  | [] => Some n
  | i :: p' => match nth_error (kids_of n) i with
               | Some c => get_node c p'
               | None => None
               end
  end.
Definition get (t : tree) (p : path) : option node := get_node (t_root t) p.

Definition parent_path (p : path) : option path :=
  match p with [] => None | _ => Some (removelast p) end.
Definition last_index (p : path) : nat := last p 0.

(* the element (not string) at a path *)
Definition get_elem (t : tree) (p : path) : option node :=
  match get t p with Some n => if is_elem n then Some n else None | None => None end.
(* is the node at p the BeautifulSoup object? *)
Definition is_doc_path (t : tree) (p : path) : bool :=
  t_isdoc t && match p with [] => true | _ => false end.
(* a Tag that is not the document object *)
Definition is_tag_path (t : tree) (p : path) : bool :=
  match get_elem t p with Some _ => true | None => false end.

(* children of the node at p, with their paths, in order *)
Definition children (t : tree) (p : path) : list (path * node) :=
  match get t p with
  | Some n => map (fun ic => (p ++ [fst ic], snd ic)) (combine (seq 0 (length (kids_of n))) (kids_of n))
  | None => []
  end.
Definition elem_children (t : tree) (p : path) : list path :=
  map fst (filter (fun pn => is_elem (snd pn)) (children t p)).

(* all nodes strictly below n, document order, with paths relative to `here` *)
Fixpoint desc_nodes (fuel : nat) (here : path) (n : node) : list (path * node) :=
  match fuel with
  | O => []
  | S f =>
    flat_map (fun ic => let p := here ++ [fst ic] in (p, snd ic) :: desc_nodes f p (snd ic))
             (combine (seq 0 (length (kids_of n))) (kids_of n))
  end.
Fixpoint node_depth (n : node) : nat :=
  match n with
  | Elem _ _ _ _ k => S (fold_right (fun c acc => Nat.max (node_depth c) acc) 0 k)
  | Str _ _ => 1
  end.
Definition descendants (t : tree) (p : path) : list (path * node) :=
  match get t p with Some n => desc_nodes (node_depth n) p n | None => [] end.

(* siblings *)
Definition siblings_before (t : tree) (p : path) : list (path * node) :=   (* nearest first *)
  match parent_path p with
  | Some pp => rev (firstn (last_index p) (children t pp))
  | None => []
  end.
Definition siblings_after (t : tree) (p : path) : list (path * node) :=
  match parent_path p with
  | Some pp => skipn (S (last_index p)) (children t pp)
  | None => []
  end.

(* ancestors, nearest first; includes the document object's path [] when there is one *)
Fixpoint ancestors (p : path) (fuel : nat) : list path :=
  match fuel with
  | O => []
  | S f => match parent_path p with
           | Some pp => pp :: ancestors pp f
           | None => []
           end
  end.
Definition ancestors_of (p : path) : list path := ancestors p (length p).

Definition path_eqb (a b : path) : bool :=
  (Nat.eqb (length a) (length b)) && forallb (fun xy => Nat.eqb (fst xy) (snd xy)) (combine a b).

Definition node_name (n : node) : option str := match n with Elem nm _ _ _ _ => Some nm | _ => None end.
Definition node_prefix (n : node) : option str := match n with Elem _ pf _ _ _ => pf | _ => None end.
Definition node_ns (n : node) : option str := match n with Elem _ _ u _ _ => u | _ => None end.
Definition node_attrs (n : node) : list (akey * pyval) := match n with Elem _ _ _ a _ => a | _ => [] end.
