(* UnescFacts.v — what css_unescape (identifier mode) computes, for every string: the specification of CSS escapes
   read off the REGENERATED pattern RE_CSS_ESC (C09 / C10). *)
From SV Require Import Base Regex RunFacts IR Lit AttrPat AttrFacts Parser.
From SV.gen Require Import RegexGen.
From Coq Require Import ZifyBool.
Local Open Scope bool_scope.

Notation E := cp_RE_CSS_ESC.
Definition HEX : cset := [(48, 57); (65, 70); (97, 102)]%N.
Definition is_hex (c : cp) : bool := cs_mem c HEX.

(* one CSS white-space unit at the head of a: 0, 1 or 2 (CR LF) characters *)
Definition ws1 (a : str) : nat :=
  match a with
  | c :: rest => if (c =? 9)%N || (c =? 32)%N then 1
                 else if (c =? 13)%N then match rest with d :: _ => if (d =? 10)%N then 2 else 1 | [] => 1 end
                 else if (c =? 10)%N || (c =? 12)%N then 1 else 0
  | [] => 0
  end.

(* the hex run of an escape: at most 6 digits *)
Fixpoint hexrun (mx : nat) (a : str) : nat :=
  match mx, a with
  | S m, c :: a' => if is_hex c then S (hexrun m a') else 0
  | _, _ => 0
  end.

Definition WSALT : re :=
  Alt (Chr [(9, 9); (32, 32)]%N) (Alt (Seq (Chr [(13, 13)]%N) (Chr [(10, 10)]%N)) (Seq (Look true (Seq (Chr [(13, 13)]%N) (Chr [(10, 10)]%N))) (Chr [(10, 10); (12, 13)]%N))).

Lemma E_shape : E = Alt (Grp 1 (Seq (Chr [(92, 92)]%N) (Seq (Rep true 1 (Some 6) (Chr HEX)) (Rep true 0 (Some 1) WSALT))))
                        (Alt (Grp 2 (Seq (Chr [(92, 92)]%N) (Chr [(0, 9); (11, 11); (14, 1114111)]%N))) (Grp 3 (Seq (Chr [(92, 92)]%N) AtEnd))).
Proof. reflexivity. Qed.

Fixpoint adv (n : nat) (p : nat) (b a : str) : state :=
  match n, a with
  | S k, x :: a' => adv k (S p) (x :: b) a'
  | _, _ => St p b a
  end.

(* an optional item: its progressing ends, then the empty one *)
Lemma opt_ends r st c :
  ends (Rep true 0 (Some 1) r) st c =
  flat_map (fun sc => if pos st <? pos (fst sc) then [sc] else []) (ends r st c) ++ [(st, c)].
Proof.
  rewrite ends_rep. destruct (after st) as [|x a] eqn:Ea; cbn [length rep_ends].
  - f_equal. apply flat_map_ext. intros [st' c']. cbn [fst snd]. destruct (pos st <? pos st'); reflexivity.
  - f_equal. apply flat_map_ext. intros [st' c']. cbn [fst snd]. destruct (pos st <? pos st'); [|reflexivity].
    destruct (length a); reflexivity.
Qed.

Lemma ltb_S p : (p <? S p) = true.  Proof. apply Nat.ltb_lt. lia. Qed.
Lemma ltb_SS p : (p <? S (S p)) = true.  Proof. apply Nat.ltb_lt. lia. Qed.

(* the white-space alternative at a state *)
Lemma wsalt_ends p b a c :
  ends WSALT (St p b a) c = match ws1 a with 0 => [] | _ => [(adv (ws1 a) p b a, c)] end.
Proof.
  unfold WSALT. destruct a as [|x r]; [reflexivity|]. cbn [ws1].
  cbn [ends st_adv after pos before]. unfold cs_mem. cbn [existsb fst snd].
  destruct (N.eqb_spec x 9) as [->|H9]; [reflexivity|]. destruct (N.eqb_spec x 32) as [->|H32]; [reflexivity|]. cbn [orb].
  replace ((9 <=? x)%N && (x <=? 9)%N || ((32 <=? x)%N && (x <=? 32)%N || false)) with false by lia. cbn [app].
  destruct (N.eqb_spec x 13) as [->|H13].
  - cbn [N.leb N.compare Pos.compare Pos.compare_cont andb orb flat_map fst snd st_adv after pos before app].
    destruct r as [|d r']; [reflexivity|]. unfold cs_mem. cbn [existsb fst snd st_adv after pos before flat_map app].
    destruct (N.eqb_spec d 10) as [->|Hd]; [reflexivity|].
    replace ((10 <=? d)%N && (d <=? 10)%N || false) with false by lia. reflexivity.
  - replace ((13 <=? x)%N && (x <=? 13)%N || false) with false by lia. cbn [flat_map app].
    destruct (N.eqb_spec x 10) as [->|H10]; [reflexivity|]. destruct (N.eqb_spec x 12) as [->|H12]; [reflexivity|]. cbn [orb].
    cbn [flat_map fst snd st_adv after pos before app].
    replace ((10 <=? x)%N && (x <=? 10)%N || ((12 <=? x)%N && (x <=? 13)%N || false)) with false by lia. reflexivity.
Qed.

Lemma adv_pos n : forall p b a, pos (adv n p b a) = p + Nat.min n (length a).
Proof.
  induction n as [|n IH]; intros p b a; cbn [adv]; [cbn; lia|]. destruct a as [|x a']; [cbn; lia|]. rewrite IH. cbn [length]. lia.
Qed.

(* the optional white-space unit after the digits: taken whenever there is one *)
Lemma wsopt_hd p b a c :
  hd_error (ends (Rep true 0 (Some 1) WSALT) (St p b a) c) = Some (adv (ws1 a) p b a, c).
Proof.
  rewrite opt_ends, wsalt_ends. destruct (ws1 a) as [|k] eqn:Ew; [reflexivity|].
  cbn [flat_map fst snd pos]. rewrite adv_pos.
  assert (Hlen : 1 <= length a) by (destruct a; [discriminate Ew | cbn; lia]).
  replace (p <? p + Nat.min (S k) (length a)) with true by (symmetry; apply Nat.ltb_lt; lia). reflexivity.
Qed.

(* the greedy class run: how many characters it takes *)
Fixpoint grun (cs : cset) (mx : option nat) (a : str) : nat :=
  match a with
  | x :: a' => if cs_mem x cs && negb (mx_zero mx) then S (grun cs (pred_opt mx) a') else 0
  | [] => 0
  end.

Lemma run_ends_hd cs : forall a mn mx p b c,
  hd_error (run_ends cs mn mx p b a c) = if mn <=? grun cs mx a then Some (adv (grun cs mx a) p b a, c) else None.
Proof.
  induction a as [|x a IH]; intros mn mx p b c; cbn [run_ends grun].
  - destruct mn; reflexivity.
  - destruct (cs_mem x cs && negb (mx_zero mx)).
    + specialize (IH (pred mn) (pred_opt mx) (S p) (x :: b) c).
      destruct (run_ends cs (pred mn) (pred_opt mx) (S p) (x :: b) a c) as [|e l] eqn:Er; cbn [hd_error app] in *.
      * destruct (Nat.leb_spec (pred mn) (grun cs (pred_opt mx) a)); [discriminate IH|].
        destruct mn as [|mn']; [cbn in *; lia|]. cbn [pred] in *. replace (S mn' <=? S (grun cs (pred_opt mx) a)) with false by (symmetry; apply Nat.leb_gt; lia). reflexivity.
      * destruct (Nat.leb_spec (pred mn) (grun cs (pred_opt mx) a)); [|discriminate IH].
        replace (mn <=? S (grun cs (pred_opt mx) a)) with true by (symmetry; apply Nat.leb_le; lia). cbn [adv]. exact IH.
    + destruct mn; reflexivity.
Qed.

Lemma hd_flat_map {A B} (f : A -> list B) x l y : hd_error (f x) = Some y -> hd_error (flat_map f (x :: l)) = Some y.
Proof. cbn [flat_map]. destruct (f x); [discriminate | intros H; exact H]. Qed.

Definition NONL : cset := [(0, 9); (11, 11); (14, 1114111)]%N.

(* what the escape pattern matches at a position *)
Definition esc_at (p : nat) (b a : str) : option (state * caps) :=
  match a with
  | c0 :: rest =>
    if (c0 =? 92)%N then
      let k := grun HEX (Some 6) rest in
      if 1 <=? k then
        let st1 := adv k (S p) (c0 :: b) rest in
        let st2 := adv (ws1 (after st1)) (pos st1) (before st1) (after st1) in
        Some (st2, [(1, (p, pos st2))])
      else match rest with
           | c :: rest' => if cs_mem c NONL then Some (St (S (S p)) (c :: c0 :: b) rest', [(2, (p, S (S p)))])
                           else if at_end_b rest then Some (St (S p) (c0 :: b) rest, [(3, (p, S p))]) else None
           | [] => Some (St (S p) (c0 :: b) [], [(3, (p, S p))])
           end
    else None
  | [] => None
  end.

Lemma ends_alt a b st c : ends (Alt a b) st c = ends a st c ++ ends b st c.
Proof. reflexivity. Qed.

Lemma rmatch_E p b a : rmatch_st E (St p b a) = esc_at p b a.
Proof.
  unfold rmatch_st. rewrite E_shape. unfold esc_at. destruct a as [|c0 rest]; [reflexivity|].
  assert (H92 : cs_mem c0 [(92, 92)]%N = (c0 =? 92)%N) by apply mem_single.
  rewrite !ends_alt, !ends_grp, !ends_seq, !ends_chr, H92.
  destruct (c0 =? 92)%N; [|reflexivity].
  cbn [flat_map fst snd]. rewrite !app_nil_r.
  (* group 1 *)
  rewrite ends_seq, ends_rep. cbn [after]. rewrite rep_ends_run by lia.
  pose proof (run_ends_hd HEX rest 1 (Some 6) (S p) (c0 :: b) []) as Hh.
  destruct (1 <=? grun HEX (Some 6) rest) eqn:Ek.
  - destruct (run_ends HEX 1 (Some 6) (S p) (c0 :: b) rest []) as [|[st1 c1] l1] eqn:Er; [discriminate Hh|].
    cbn [hd_error] in Hh. injection Hh as -> ->.
    set (st1 := adv (grun HEX (Some 6) rest) (S p) (c0 :: b) rest).
    assert (Hw := wsopt_hd (pos st1) (before st1) (after st1) []).
    assert (Hst : St (pos st1) (before st1) (after st1) = st1) by (destruct st1; reflexivity). rewrite Hst in Hw.
    cbn [flat_map fst snd]. destruct (ends (Rep true 0 (Some 1) WSALT) st1 []) as [|[st2 c2] l2]; [discriminate Hw|].
    cbn [hd_error] in Hw. injection Hw as -> ->. reflexivity.
  - destruct (run_ends HEX 1 (Some 6) (S p) (c0 :: b) rest []) as [|e l1]; [|discriminate Hh].
    cbn [flat_map map app]. rewrite ends_chr. destruct rest as [|c rest']; [reflexivity|].
    fold NONL. destruct (cs_mem c NONL); [reflexivity|]. cbn [map app ends after]. destruct (at_end_b (c :: rest')); reflexivity.
Qed.

(* ================================================================== the specification *)
Definition fix_cp (v : N) : cp := if (v =? 0)%N || (1114111 <? v)%N then 65533%N else v.

(* U skip a: the unescaped text of a after dropping its first `skip` characters.  A backslash followed by 1-6 hex digits
   and one optional white-space unit is the code point (U+FFFD for 0 and for values beyond U+10FFFF); a backslash followed
   by any character other than LF, FF, CR is that character; a backslash at the very end (or before a final LF) is U+FFFD;
   everything else is copied. *)
Fixpoint U (skip : nat) (a : str) : str :=
  match a with
  | [] => []
  | c :: rest =>
    match skip with
    | S k => U k rest
    | O =>
      if (c =? 92)%N then
        let k := grun HEX (Some 6) rest in
        if 1 <=? k then fix_cp (hex_int (firstn k rest) 0) :: U (k + ws1 (skipn k rest)) rest
        else match rest with
             | d :: _ => if cs_mem d NONL then d :: U 1 rest
                         else if at_end_b rest then 65533%N :: U 0 rest else c :: U 0 rest
             | [] => [65533%N]
             end
      else c :: U 0 rest
    end
  end.

Lemma U_skip : forall a k, U k a = U 0 (skipn k a).
Proof.
  induction a as [|c rest IH]; intros k.
  - destruct k; reflexivity.
  - destruct k as [|k]; [reflexivity|]. cbn [U skipn]. apply IH.
Qed.

Definition repl (content : str) (m : nat * nat * caps) : str :=
  match m with (a, b, c) =>
    match cap_get 1 c with
    | Some (x, y) =>
      let cpv := hex_int (substr content (S x) y) 0 in
      [if (cpv =? 0)%N || (1114111 <? cpv)%N then 65533%N else cpv]
    | None =>
      match cap_get 2 c with
      | Some (x, y) => substr content (S x) y
      | None => match cap_get 3 c with Some _ => [65533%N] | None => [] end
      end
    end
  end.

Lemma css_unescape_eq s : css_unescape s false = sub_with s (finditer E s) 0 (repl s).
Proof. reflexivity. Qed.

(* ---- positions ---- *)
Lemma adv_after n : forall p b a, after (adv n p b a) = skipn n a.
Proof. induction n as [|n IH]; intros p b a; [reflexivity|]. destruct a as [|x a']; [reflexivity|]. cbn [adv skipn]. apply IH. Qed.

Lemma adv_inv s n : forall p b a, s = rev b ++ a -> p = length b ->
  s = rev (before (adv n p b a)) ++ after (adv n p b a) /\ pos (adv n p b a) = length (before (adv n p b a)).
Proof.
  induction n as [|n IH]; intros p b a Hs Hp; [cbn; auto|]. destruct a as [|x a']; [cbn; auto|]. cbn [adv]. apply IH.
  - cbn [rev]. rewrite <- app_assoc. exact Hs.
  - cbn [length]. lia.
Qed.

Lemma grun_le cs : forall a mx, grun cs mx a <= length a.
Proof. induction a as [|x a IH]; intros mx; cbn [grun length]; [lia|]. destruct (cs_mem x cs && negb (mx_zero mx)); [specialize (IH (pred_opt mx)); lia | lia]. Qed.

Lemma ws1_le a : ws1 a <= length a.
Proof.
  destruct a as [|c rest]; [cbn; lia|]. cbn [ws1 length]. destruct ((c =? 9)%N || (c =? 32)%N); [lia|].
  destruct (c =? 13)%N; [destruct rest as [|d r]; [lia|]; destruct (d =? 10)%N; cbn [length]; lia|].
  destruct ((c =? 10)%N || (c =? 12)%N); lia.
Qed.

Lemma firstn_add {A} k w : forall l : list A, firstn (k + w) l = firstn k l ++ firstn w (skipn k l).
Proof. induction k as [|k IH]; intros l; [reflexivity|]. destruct l as [|x l]; [cbn; destruct w; reflexivity|]. cbn [plus firstn skipn app]. f_equal. apply IH. Qed.

Lemma substr_after (b : str) c0 rest n : substr (rev b ++ c0 :: rest) (S (length b)) (S (length b) + n) = firstn n rest.
Proof.
  unfold substr. replace (S (length b) + n - S (length b)) with n by lia.
  replace (rev b ++ c0 :: rest) with ((rev b ++ [c0]) ++ rest) by (rewrite <- app_assoc; reflexivity).
  rewrite skipn_app. rewrite skipn_all2 by (rewrite app_length, rev_length; cbn; lia).
  rewrite app_length, rev_length. cbn [length]. replace (S (length b) - (length b + 1)) with 0 by lia. reflexivity.
Qed.

Lemma substr_pre (b pre a1 : str) : substr (rev b ++ pre ++ a1) (length b) (length b + length pre) = pre.
Proof.
  unfold substr. replace (length b + length pre - length b) with (length pre) by lia.
  rewrite skipn_app, skipn_all2 by (rewrite rev_length; lia). rewrite rev_length, Nat.sub_diag. cbn [skipn app].
  rewrite firstn_app, firstn_all, Nat.sub_diag. cbn [firstn]. apply app_nil_r.
Qed.

(* hex_int stops at the first non-digit *)
Lemma hex_int_stop y : (forall c, hd_error y = Some c -> hex_val c = None) -> forall x acc, hex_int (x ++ y) acc = hex_int x acc.
Proof.
  intros Hy. induction x as [|c x IH]; intros acc.
  - cbn [app]. destruct y as [|d y']; [reflexivity|]. cbn [hex_int]. rewrite (Hy d eq_refl). reflexivity.
  - cbn [app hex_int]. destruct (hex_val c); [apply IH | reflexivity].
Qed.

Lemma ws1_hd a c : hd_error (firstn (ws1 a) a) = Some c -> hex_val c = None.
Proof.
  destruct a as [|x rest]; [cbn; discriminate|]. unfold ws1.
  destruct ((x =? 9)%N || (x =? 32)%N) eqn:E1.
  { cbn. intros H; injection H as <-. unfold hex_val. destruct (orb_prop _ _ E1) as [e|e]; apply N.eqb_eq in e; subst; reflexivity. }
  destruct (x =? 13)%N eqn:E2.
  { apply N.eqb_eq in E2. subst x. destruct rest as [|d r]; [cbn; intros H; injection H as <-; reflexivity|].
    destruct (d =? 10)%N; cbn; intros H; injection H as <-; reflexivity. }
  destruct ((x =? 10)%N || (x =? 12)%N) eqn:E3; [|cbn; discriminate].
  cbn. intros H; injection H as <-. unfold hex_val. destruct (orb_prop _ _ E3) as [e|e]; apply N.eqb_eq in e; subst; reflexivity.
Qed.

Lemma skipn_add {A} k w : forall l : list A, skipn w (skipn k l) = skipn (k + w) l.
Proof. induction k as [|k IH]; intros l; [reflexivity|]. destruct l as [|x l]; [cbn; destruct w; reflexivity|]. cbn [plus skipn]. apply IH. Qed.

(* ---- one escape ---- *)
Lemma esc_at_some s p b a st2 c : s = rev b ++ a -> p = length b -> esc_at p b a = Some (st2, c) ->
  (s = rev (before st2) ++ after st2 /\ pos st2 = length (before st2)) /\ p < pos st2 /\
  U 0 a = repl s (p, pos st2, c) ++ U 0 (after st2).
Proof.
  intros Hs Hp. unfold esc_at. destruct a as [|c0 rest]; [discriminate|].
  destruct (c0 =? 92)%N eqn:E92; [|discriminate].
  set (k := grun HEX (Some 6) rest).
  destruct (1 <=? k) eqn:Ek.
  - set (st1 := adv k (S p) (c0 :: b) rest).
    set (w := ws1 (after st1)).
    intros H. injection H as <- <-.
    assert (Hk : k <= length rest) by apply grun_le.
    assert (H1 : s = rev (before st1) ++ after st1 /\ pos st1 = length (before st1)).
    { apply adv_inv; [cbn [rev]; rewrite <- app_assoc; exact Hs | cbn [length]; lia]. }
    assert (Ha1 : after st1 = skipn k rest) by apply adv_after.
    assert (Hw : w <= length (skipn k rest)) by (unfold w; rewrite Ha1; apply ws1_le).
    assert (Hp1 : pos st1 = S p + k) by (unfold st1; rewrite adv_pos; lia).
    set (st2 := adv w (pos st1) (before st1) (after st1)).
    assert (Hp2 : pos st2 = S p + (k + w)) by (unfold st2; rewrite adv_pos, Ha1; lia).
    split; [apply adv_inv; tauto|]. split; [lia|].
    assert (Ha2 : after st2 = skipn (k + w) rest).
    { unfold st2. rewrite adv_after, Ha1. apply skipn_add. }
    cbn [U]. rewrite E92. fold k. rewrite Ek. rewrite Ha2, U_skip.
    unfold repl. cbn [cap_get Nat.eqb]. rewrite Hp2, Hs, Hp, substr_after, firstn_add.
    rewrite hex_int_stop; [|intros d Hd; unfold w in Hd; rewrite Ha1 in Hd; exact (ws1_hd _ _ Hd)].
    unfold fix_cp. rewrite <- Ha1. fold w. replace (k + w) with (k + w) by reflexivity. reflexivity.
  - destruct rest as [|d rest'].
    + intros H. injection H as <- <-. cbn [before after pos rev]. split; [split; [rewrite <- app_assoc; exact Hs | cbn [length]; lia]|].
      split; [lia|]. cbn [U]. rewrite E92. fold k. rewrite Ek. reflexivity.
    + destruct (cs_mem d NONL) eqn:En.
      * intros H. injection H as <- <-. cbn [before after pos rev]. split; [split; [rewrite <- !app_assoc; exact Hs | cbn [length]; lia]|].
        split; [lia|]. cbn [U]. rewrite E92. fold k. rewrite Ek, En. unfold repl. cbn [cap_get Nat.eqb].
        rewrite Hs, Hp. replace (S (S (length b))) with (S (length b) + 1) by lia. rewrite substr_after. reflexivity.
      * destruct (at_end_b (d :: rest')) eqn:Ee; [|discriminate].
        intros H. injection H as <- <-. cbn [before after pos rev]. split; [split; [rewrite <- !app_assoc; exact Hs | cbn [length]; lia]|].
        split; [lia|]. cbn [U]. rewrite E92. fold k. rewrite Ek, En, Ee. reflexivity.
Qed.

Lemma esc_at_none p b c0 rest : esc_at p b (c0 :: rest) = None -> U 0 (c0 :: rest) = c0 :: U 0 rest.
Proof.
  unfold esc_at. cbn [U]. destruct (c0 =? 92)%N; [|reflexivity].
  destruct (1 <=? grun HEX (Some 6) rest); [discriminate|].
  destruct rest as [|d rest']; [discriminate|]. destruct (cs_mem d NONL); [discriminate|].
  destruct (at_end_b (d :: rest')); [discriminate | reflexivity].
Qed.

(* ---- the leftmost escape ---- *)
Fixpoint esearch (p : nat) (b a : str) : option (state * state * caps) :=
  match esc_at p b a with
  | Some (st', c) => Some (St p b a, st', c)
  | None => match a with [] => None | c :: rest => esearch (S p) (c :: b) rest end
  end.

Lemma rsearch_E : forall a p b fuel, length a <= fuel -> rsearch_st fuel E (St p b a) = esearch p b a.
Proof.
  induction a as [|c rest IH]; intros p b fuel Hf.
  - destruct fuel; cbn [rsearch_st esearch]; rewrite rmatch_E; destruct (esc_at p b []) as [[? ?]|]; reflexivity.
  - destruct fuel as [|f]; [cbn in Hf; lia|]. cbn [rsearch_st esearch]. rewrite rmatch_E.
    destruct (esc_at p b (c :: rest)) as [[? ?]|]; [reflexivity|]. cbn [st_adv after pos before]. apply IH. cbn in Hf. lia.
Qed.

Lemma esearch_spec : forall a p b,
  match esearch p b a with
  | None => U 0 a = a
  | Some (s1, s2, c) => exists pre a1, a = pre ++ a1 /\ s1 = St (p + length pre) (rev pre ++ b) a1 /\
                                       esc_at (p + length pre) (rev pre ++ b) a1 = Some (s2, c) /\ U 0 a = pre ++ U 0 a1
  end.
Proof.
  induction a as [|c rest IH]; intros p b.
  - cbn [esearch]. destruct (esc_at p b []) as [[st' c]|] eqn:Ee; [|reflexivity].
    exists [], []. cbn [length app rev]. rewrite Nat.add_0_r. auto.
  - cbn [esearch]. destruct (esc_at p b (c :: rest)) as [[st' cc]|] eqn:Ee.
    + exists [], (c :: rest). cbn [length app rev]. rewrite Nat.add_0_r. auto.
    + specialize (IH (S p) (c :: b)). rewrite (esc_at_none _ _ _ _ Ee).
      destruct (esearch (S p) (c :: b) rest) as [[[s1 s2] cc]|].
      * destruct IH as (pre & a1 & H1 & H2 & H3 & H4). exists (c :: pre), a1. cbn [length app rev].
        rewrite <- app_assoc. cbn [app]. replace (p + S (length pre)) with (S p + length pre) by lia.
        repeat split; [f_equal; exact H1 | exact H2 | exact H3 | f_equal; exact H4].
      * f_equal. exact IH.
Qed.

(* ---- the whole substitution ---- *)
Definition proj (x : state * state * caps) : nat * nat * caps := match x with (a, b, c) => (pos a, pos b, c) end.

Lemma unescape_loop s n : forall a p b fuel, length a <= n -> n + 1 <= fuel -> s = rev b ++ a -> p = length b ->
  sub_with s (map proj (finditer_st fuel false E (St p b a))) p (repl s) = U 0 a.
Proof.
  induction n as [n IHn] using lt_wf_ind. intros a p b fuel Hn Hf Hs Hp.
  destruct fuel as [|f]; [lia|]. cbn [finditer_st]. unfold rsearch_from. cbn [after].
  rewrite (rsearch_E a p b (length a) (le_n _)).
  pose proof (esearch_spec a p b) as He.
  destruct (esearch p b a) as [[[s1 s2] c]|].
  - destruct He as (pre & a1 & Ha & Hs1 & Hesc & HU).
    assert (Hs' : s = rev (rev pre ++ b) ++ a1).
    { rewrite rev_app_distr, rev_involutive, <- app_assoc, <- Ha. exact Hs. }
    assert (Hp' : p + length pre = length (rev pre ++ b)) by (rewrite app_length, rev_length; lia).
    destruct (esc_at_some s _ _ _ _ _ Hs' Hp' Hesc) as ((Hi1 & Hi2) & Hlt & HU1).
    cbn [map proj]. rewrite Hs1. cbn [pos]. cbn [sub_with].
    replace (p + length pre =? pos s2) with false by (symmetry; apply Nat.eqb_neq; lia).
    rewrite HU, HU1. f_equal.
    { rewrite Hs, Ha, Hp. apply substr_pre. }
    f_equal.
    assert (Hlen : length s = pos s2 + length (after s2)).
    { rewrite Hi1 at 1. rewrite app_length, rev_length. lia. }
    assert (Hlen0 : length s = p + length a).
    { rewrite Hs at 1. rewrite app_length, rev_length. lia. }
    destruct s2 as [p2 b2 a2]. cbn [pos before after] in *.
    apply (IHn (n - 1)); [lia | lia | lia | exact Hi1 | exact Hi2].
  - cbn [map sub_with]. rewrite He, Hs, Hp. rewrite skipn_app, skipn_all2 by (rewrite rev_length; lia).
    rewrite rev_length, Nat.sub_diag. reflexivity.
Qed.

Theorem css_unescape_spec s : css_unescape s false = U 0 s.
Proof.
  rewrite css_unescape_eq. unfold finditer, st_init.
  rewrite <- (unescape_loop s (length s) s 0 [] (S (S (length s)))) by (try reflexivity; lia).
  reflexivity.
Qed.
Print Assumptions css_unescape_spec.

(* ================================================================== escape, then unescape *)
Definition nul_fix (c : cp) : cp := if (c =? 0)%N then 65533%N else c.

Definition hexfact (c : cp) : bool :=
  let h := to_hex c in (1 <=? length h) && (length h <=? 2) && forallb is_hex h && (hex_int h 0 =? c)%N.

Lemma hexfact_128 : forallb hexfact (map N.of_nat (seq 0 128)) = true.
Proof. vm_compute. reflexivity. Qed.

Lemma hexfact_small c : (c < 128)%N -> hexfact c = true.
Proof.
  intros H. pose proof hexfact_128 as F. rewrite forallb_forall in F. apply F.
  rewrite in_map_iff. exists (N.to_nat c). split; [apply N2Nat.id|]. apply in_seq. lia.
Qed.

Lemma is_hex_ws : is_hex 32%N = false.  Proof. reflexivity. Qed.

Lemma U_hex_escape c tail : (1 <= c)%N -> (c < 128)%N ->
  U 0 (([92%N] ++ to_hex c ++ [32%N]) ++ tail) = c :: U 0 tail.
Proof.
  intros H1 H2. pose proof (hexfact_small c H2) as F. unfold hexfact in F.
  apply andb_prop in F. destruct F as [F F4]. apply andb_prop in F. destruct F as [F F3]. apply andb_prop in F. destruct F as [F1 F2].
  apply N.eqb_eq in F4.
  assert (Hfix : fix_cp c = c).
  { unfold fix_cp. replace (c =? 0)%N with false by (symmetry; apply N.eqb_neq; lia).
    replace (1114111 <? c)%N with false by (symmetry; apply N.ltb_ge; lia). reflexivity. }
  destruct (to_hex c) as [|x [|y [|z h]]] eqn:Eh; [discriminate F1 | | | cbn in F2; discriminate F2].
  - cbn [forallb] in F3. apply andb_prop in F3. destruct F3 as [Fx _].
    cbn [app]. cbn [U N.eqb Pos.eqb]. cbn [grun mx_zero pred_opt negb andb]. fold (is_hex x). fold (is_hex 32%N). rewrite Fx, is_hex_ws.
    cbn [andb Nat.leb firstn skipn ws1 N.eqb Pos.eqb orb plus]. rewrite F4, Hfix. try (f_equal; cbn [U]; reflexivity).
  - cbn [forallb] in F3. apply andb_prop in F3. destruct F3 as [Fx F3]. apply andb_prop in F3. destruct F3 as [Fy _].
    cbn [app]. cbn [U N.eqb Pos.eqb]. cbn [grun mx_zero pred_opt negb andb]. fold (is_hex x). fold (is_hex y). fold (is_hex 32%N). rewrite Fx, Fy, is_hex_ws.
    cbn [andb Nat.leb firstn skipn ws1 N.eqb Pos.eqb orb plus]. rewrite F4, Hfix. try (f_equal; cbn [U]; reflexivity).
Qed.

Lemma cs_mem_HEX c : cs_mem c HEX = ((48 <=? c) && (c <=? 57) || ((65 <=? c) && (c <=? 70) || ((97 <=? c) && (c <=? 102) || false)))%N.
Proof. reflexivity. Qed.
Lemma cs_mem_NONL c : cs_mem c NONL = ((0 <=? c) && (c <=? 9) || ((11 <=? c) && (c <=? 11) || ((14 <=? c) && (c <=? 1114111) || false)))%N.
Proof. reflexivity. Qed.

Lemma U_copy c tail : (c =? 92)%N = false -> U 0 (c :: tail) = c :: U 0 tail.
Proof. intros H. cbn [U]. rewrite H. reflexivity. Qed.

Lemma U_char_escape c tail : cs_mem c HEX = false -> cs_mem c NONL = true -> U 0 (92%N :: c :: tail) = c :: U 0 tail.
Proof.
  intros Hh Hn. cbn [U N.eqb Pos.eqb]. cbn [grun]. rewrite Hh. cbn [andb Nat.leb]. rewrite Hn. f_equal.
Qed.

Lemma escape_char_unescape fp c tail : U 0 (escape_char fp c ++ tail) = nul_fix c :: U 0 tail.
Proof.
  unfold escape_char, nul_fix.
  destruct (c =? 0)%N eqn:E0; [cbn [app]; apply U_copy; reflexivity|].
  destruct (((1 <=? c) && (c <=? 31))%N || (c =? 127)%N) eqn:E1; [apply U_hex_escape; lia|].
  destruct (fp && ((48 <=? c) && (c <=? 57))%N) eqn:E2; [apply U_hex_escape; lia|].
  destruct ((c =? 45)%N || (c =? 95)%N || (128 <=? c)%N || ((48 <=? c) && (c <=? 57))%N
            || ((65 <=? c) && (c <=? 90))%N || ((97 <=? c) && (c <=? 122))%N) eqn:E3.
  - cbn [app]. apply U_copy. lia.
  - cbn [app]. apply U_char_escape; [rewrite cs_mem_HEX | rewrite cs_mem_NONL]; lia.
Qed.

Lemma escape_chars_unescape (f : nat * cp -> bool) : forall l : list (nat * cp),
  U 0 (concat (map (fun ic => escape_char (f ic) (snd ic)) l)) = map nul_fix (map snd l).
Proof.
  induction l as [|ic l IH]; [reflexivity|]. cbn [map concat]. rewrite escape_char_unescape, IH. reflexivity.
Qed.

Lemma snd_combine_seq {A} : forall (l : list A) k, map snd (combine (seq k (length l)) l) = l.
Proof. induction l as [|x l IH]; intros k; [reflexivity|]. cbn [length seq combine map snd]. f_equal. apply IH. Qed.

(* escape is a right inverse of css_unescape up to the replacement of NUL — for EVERY string *)
Theorem unescape_escape s : css_unescape (escape s) false = map nul_fix s.
Proof.
  rewrite css_unescape_spec. unfold escape.
  assert (G : U 0 (concat (map (fun ic : nat * cp => escape_char (Nat.eqb (fst ic) 0 || (match s with 45%N :: _ => true | _ => false end && Nat.eqb (fst ic) 1)) (snd ic))
                                 (combine (seq 0 (length s)) s))) = map nul_fix s).
  { rewrite escape_chars_unescape, snd_combine_seq. reflexivity. }
  destruct s as [|c [|d r]]; try exact G.
  - destruct (N.eq_dec c 45) as [->|Hc]; [reflexivity|].
    destruct c as [|p]; [exact G|]. do 6 (destruct p as [p|p|]; try exact G); congruence.
  - destruct c as [|p]; [exact G|]. do 6 (destruct p as [p|p|]; try exact G).
Qed.
Print Assumptions unescape_escape.

(* ================================================================== every spelling of an identifier *)
Definition hd_not_hex (src : str) : bool := match src with x :: _ => negb (is_hex x) | [] => true end.

(* is w a legal terminator of the hex digits h when src follows?  one white-space unit, or nothing when the
   escape cannot run on *)
Definition term_ok (h w src : str) : bool :=
  match w with
  | [] => (ws1 src =? 0) && ((length h =? 6) || hd_not_hex src)
  | [c] => (c =? 9)%N || (c =? 32)%N || (c =? 10)%N || (c =? 12)%N
           || ((c =? 13)%N && match src with x :: _ => negb (x =? 10)%N | [] => true end)
  | [c; d] => (c =? 13)%N && (d =? 10)%N
  | _ => false
  end.

Lemma grun_hex : forall h m rest, forallb is_hex h = true -> length h <= m ->
  (length h = m \/ hd_not_hex rest = true) -> grun HEX (Some m) (h ++ rest) = length h.
Proof.
  induction h as [|x h IH]; intros m rest Hh Hm Hend.
  - cbn [app length]. destruct rest as [|y rest']; [reflexivity|]. cbn [grun].
    destruct Hend as [<-|Hn]; [cbn [length mx_zero negb]; rewrite andb_false_r; reflexivity|].
    cbn [hd_not_hex] in Hn. unfold is_hex in Hn. destruct (cs_mem y HEX); [discriminate Hn | reflexivity].
  - cbn [forallb] in Hh. apply andb_prop in Hh. destruct Hh as [Hx Hh]. cbn [length] in *.
    destruct m as [|m]; [lia|]. cbn [app grun mx_zero pred_opt negb]. unfold is_hex in Hx. rewrite Hx. cbn [andb]. f_equal.
    apply IH; [exact Hh | lia | destruct Hend as [He|He]; [left; lia | right; exact He]].
Qed.

Lemma term_ws h w src : term_ok h w src = true ->
  ws1 (w ++ src) = length w /\ (length h = 6 \/ hd_not_hex (w ++ src) = true).
Proof.
  unfold term_ok. destruct w as [|c [|d [|e w']]]; try discriminate.
  - intros H. apply andb_prop in H. destruct H as [H1 H2]. cbn [app length]. split; [apply Nat.eqb_eq; exact H1|].
    apply orb_prop in H2. destruct H2 as [H2|H2]; [left; apply Nat.eqb_eq; exact H2 | right; exact H2].
  - intros H. cbn [app length hd_not_hex ws1]. unfold is_hex. rewrite cs_mem_HEX.
    destruct (c =? 9)%N eqn:E9; [split; [reflexivity | right; lia]|].
    destruct (c =? 32)%N eqn:E32; [split; [reflexivity | right; lia]|]. cbn [orb] in *.
    destruct (c =? 13)%N eqn:E13.
    + replace (c =? 10)%N with false in H by lia. replace (c =? 12)%N with false in H by lia. cbn [orb andb] in H.
      split; [|right; lia]. destruct src as [|x src']; [reflexivity|]. destruct (x =? 10)%N; [discriminate H | reflexivity].
    + rewrite andb_false_l, orb_false_r in H. rewrite H. split; [reflexivity | right; lia].
  - intros H. apply andb_prop in H. destruct H as [H1 H2]. cbn [app length hd_not_hex ws1]. unfold is_hex. rewrite cs_mem_HEX.
    replace (c =? 9)%N with false by lia. replace (c =? 32)%N with false by lia. cbn [orb]. rewrite H1, H2. split; [reflexivity | right; lia].
Qed.

Lemma U_hex_spelling h w src : forallb is_hex h = true -> 1 <= length h <= 6 -> term_ok h w src = true ->
  U 0 (92%N :: h ++ w ++ src) = fix_cp (hex_int h 0) :: U 0 src.
Proof.
  intros Hh Hl Ht. destruct (term_ws h w src Ht) as [Hw Hend].
  assert (Hk : grun HEX (Some 6) (h ++ w ++ src) = length h) by (apply grun_hex; [exact Hh | lia | exact Hend]).
  cbn [U N.eqb Pos.eqb]. rewrite Hk. replace (1 <=? length h) with true by (symmetry; apply Nat.leb_le; lia).
  rewrite firstn_app, firstn_all, Nat.sub_diag. cbn [firstn]. rewrite app_nil_r.
  rewrite skipn_app, skipn_all, Nat.sub_diag. cbn [skipn app]. rewrite Hw. f_equal.
  rewrite U_skip. rewrite <- skipn_add. rewrite skipn_app, skipn_all, Nat.sub_diag. cbn [skipn app].
  rewrite skipn_app, skipn_all, Nat.sub_diag. reflexivity.
Qed.

(* src spells the identifier text v *)
Inductive spells : str -> str -> Prop :=
| sp_nil : spells [] []
| sp_lit c src v : (c =? 92)%N = false -> spells src v -> spells (c :: src) (c :: v)
| sp_chr c src v : is_hex c = false -> cs_mem c NONL = true -> spells src v -> spells (92%N :: c :: src) (c :: v)
| sp_hex h w src v : forallb is_hex h = true -> 1 <= length h <= 6 -> term_ok h w src = true -> spells src v ->
                     spells (92%N :: h ++ w ++ src) (fix_cp (hex_int h 0) :: v).

Theorem spelling_unescapes src v : spells src v -> css_unescape src false = v.
Proof.
  rewrite css_unescape_spec. induction 1 as [|c src v Hc _ IH|c src v Hh Hn _ IH|h w src v Hh Hl Ht _ IH].
  - reflexivity.
  - rewrite U_copy by exact Hc. f_equal. exact IH.
  - rewrite U_char_escape by assumption. f_equal. exact IH.
  - rewrite U_hex_spelling by assumption. f_equal. exact IH.
Qed.
Print Assumptions spelling_unescapes.

(* two spellings of one identifier are the same identifier to the parser *)
Corollary respelling src1 src2 v : spells src1 v -> spells src2 v -> css_unescape src1 false = css_unescape src2 false.
Proof. intros H1 H2. rewrite (spelling_unescapes _ _ H1), (spelling_unescapes _ _ H2). reflexivity. Qed.

Example spells_example :
  spells [92; 52; 49; 32; 92; 48; 48; 48; 48; 52; 50; 92; 35; 99]%N [65; 66; 35; 99]%N.
Proof.
  apply (sp_hex [52; 49]%N [32]%N _ _); [reflexivity | cbn; lia | reflexivity|].
  apply (sp_hex [48; 48; 48; 48; 52; 50]%N []%N _ _); [reflexivity | cbn; lia | reflexivity|].
  apply sp_chr; [reflexivity | reflexivity|]. apply sp_lit; [reflexivity | apply sp_nil].
Qed.
