(* Extract.v — extraction of the executable model to OCaml for the correspondence checks.
   ExtrOcamlBasic only: bool, option, list, prod, unit, sumbool map to OCaml's;
   nat, N, Z, positive keep their Coq definitions.  No Extract Constant. *)
From Coq Require Extraction ExtrOcamlBasic.
From SV Require Import Base Regex Calendar Inputs Tree IR Match AttrPat Cache Parser Diag.
From SV.gen Require Import RegexGen PureGen ConstGen.
Extraction Language OCaml.
Extraction "sv.ml" pattern_table rmatch rsearch finditer ends_count
  parse_value match_range validate_day validate_week iso_weeks
  api_match api_select api_filter api_closest bidi_of extended_language_filter attr_template lru_trace
  compile css_unescape escape parse_anb get_pattern_context line_col pretty.
