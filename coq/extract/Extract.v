(* Extract.v — extraction of the executable model to OCaml for the correspondence checks.
   ExtrOcamlBasic only: bool, option, list, prod, unit, sumbool map to OCaml's;
   nat, N, Z, positive keep their Coq definitions.  No Extract Constant. *)
From Coq Require Extraction ExtrOcamlBasic.
From SV Require Import Base Regex.
From SV.gen Require Import RegexGen.
Extraction Language OCaml.
Extraction "sv.ml" pattern_table rmatch rsearch finditer.
