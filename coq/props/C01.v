(* C01 — select() returns exactly the elements CSS semantics designate.  Statements only. *)
From SV Require Import Base Regex Tree IR Lit Inputs Match MatchFacts FuelFacts RunFacts AttrPat AttrFacts.

(* The document object itself is never an element: asking whether it matches is always False. *)
Theorem C01_document_is_not_an_element : forall bidi cx fuel e sels p m,
  is_doc_path (c_tree cx) p = true -> match_el bidi cx fuel e sels p m = Ok (false, m).
Proof. exact match_el_doc. Qed.
Print Assumptions C01_document_is_not_an_element.

Theorem C01_only_elements_match : forall bidi cx fuel e sels p m,
  is_tag_path (c_tree cx) p = false -> match_el bidi cx fuel e sels p m = Ok (false, m).
Proof. exact match_el_not_tag. Qed.
Print Assumptions C01_only_elements_match.

(* The recursion fuel of the model is an artefact: once the matcher produces an answer (a value or a Python
   exception), any additional fuel produces the same answer - so "the model's answer" is well defined. *)
Theorem C01_fuel_irrelevant : forall bidi cx fuel k e p l m,
  match_selectors bidi cx fuel e p l m <> Raise OutOfFuel ->
  match_selectors bidi cx (fuel + k) e p l m = match_selectors bidi cx fuel e p l m.
Proof. exact fuel_irrelevant. Qed.
Print Assumptions C01_fuel_irrelevant.

(* ---- attribute operators.  The patterns are the ASTs AttrPat.attr_template builds (validated AST-for-AST against what the
   live parser compiles, on every run); a value x is accepted when `pattern.match(x)` succeeds.  Case-sensitive form,
   for EVERY v and EVERY value x (valid code points): ---- *)
Theorem C01_attr_equals : forall v x dotall, accepts (attr_template OpEq v false dotall) x = true <-> x = v.
Proof. exact op_eq_spec. Qed.
Print Assumptions C01_attr_equals.

(* [a^=v]: v is not empty and x starts with v  --  an empty value designates nothing *)
Theorem C01_attr_prefix : forall v x dotall,
  accepts (attr_template OpPrefix v false dotall) x = true <-> v <> [] /\ prefixb v x = true.
Proof. exact op_prefix_spec. Qed.
Print Assumptions C01_attr_prefix.

(* [a$=v]: v is not empty and x ends with v *)
Theorem C01_attr_suffix : forall v x, valid_str x ->
  accepts (attr_template OpSuffix v false true) x = true <-> v <> [] /\ exists l, x = l ++ v.
Proof. exact op_suffix_spec. Qed.
Print Assumptions C01_attr_suffix.

(* [a*=v]: v is not empty and occurs in x *)
Theorem C01_attr_substring : forall v x, valid_str x ->
  accepts (attr_template OpSubstr v false true) x = true <-> v <> [] /\ exists l r, x = l ++ v ++ r.
Proof. exact op_substr_spec. Qed.
Print Assumptions C01_attr_substring.

(* [a|=v]: x is v, or v followed by '-' and anything *)
Theorem C01_attr_dash : forall v x, valid_str x ->
  accepts (attr_template OpDash v false true) x = true <-> x = v \/ exists r, x = v ++ [45%N] ++ r.
Proof. exact op_dash_spec. Qed.
Print Assumptions C01_attr_dash.

(* [a~=v]: v is not empty, contains no white space, and is one of the white-space separated words of x *)
Theorem C01_attr_word : forall v x, valid_str x ->
  accepts (attr_template OpWord v false true) x = true <->
  v <> [] /\ has_ws v = false /\ exists l r, x = l ++ v ++ r /\ ws_or_edge (rev l) = true /\ ws_or_edge r = true.
Proof. exact op_word_spec. Qed.
Print Assumptions C01_attr_word.
