(* C01 — select() returns exactly the elements CSS semantics designate.  Statements only. *)
From SV Require Import Base Regex Tree IR Lit Inputs Match MatchFacts FuelFacts.

(* The document object itself is never an element: asking whether it matches is always False. *)
Theorem C01_document_is_not_an_element : forall bidi cx fuel e sels p m,
  is_doc_path (c_tree cx) p = true -> match_el bidi cx fuel e sels p m = Ok (false, m).
Proof. exact match_el_doc. Qed.
Print Assumptions C01_document_is_not_an_element.

Theorem C01_only_elements_match : forall bidi cx fuel e sels p m,
  is_tag_path (c_tree cx) p = false -> match_el bidi cx fuel e sels p m = Ok (false, m).
Proof. exact match_el_not_tag. Qed.
Print Assumptions C01_only_elements_match.

(* The recursion fuel of the model is an artefact: once the matcher produces an answer (a value or a Python
   exception), any additional fuel produces the same answer - so "the model's answer" is well defined. *)
Theorem C01_fuel_irrelevant : forall bidi cx fuel k e p l m,
  match_selectors bidi cx fuel e p l m <> Raise OutOfFuel ->
  match_selectors bidi cx (fuel + k) e p l m = match_selectors bidi cx fuel e p l m.
Proof. exact fuel_irrelevant. Qed.
Print Assumptions C01_fuel_irrelevant.
