(* C02 — Positional pseudo-classes implement An+B exactly.  Statements only. *)
From SV Require Import Base Regex Tree IR Lit Inputs Match MemoFacts NthFacts NthProof HistFacts NthElem.
Local Open Scope Z_scope.

(* the closed form IS "some n >= 0 with A*n+B = position" *)
Theorem C02_closed_form : forall a b pos,
  nth_closed a b true pos = true <-> exists n, 0 <= n /\ a * n + b = pos.
Proof. exact nth_closed_spec. Qed.
Print Assumptions C02_closed_form.

(* The index arithmetic, the bound-adjustment loop and the sibling walk (Match.nth_core, the model of
   css_match.match_nth:963-1062): for ALL integers A and B, both forms (An+B and a plain index), EVERY sibling walk
   in which the element occurs and is counted at position pos (however many non-counted nodes are interleaved),
   and any declared child count >= pos, the loop terminates within its fuel and answers exactly the closed form. *)
Theorem C02_nth_exact : forall a b var nchildren walk pos,
  pos_of walk 0 = Some pos -> pos <= nchildren ->
  nth_pure a b var nchildren walk = Some (nth_closed a b var pos).
Proof. exact nth_core_exact. Qed.
Print Assumptions C02_nth_exact.

(* One An+B record on an element, any `of S` list, forward or -last-, child or -of-type, from ANY consistent
   memo: the answer is the closed form at the element's position among the counted siblings (sib_val: element
   nodes only; matching S; of the same type), provided no sibling's `of S` evaluation raises. *)
Theorem C02_match_nth_one : forall bidi cx f e p a var b of_type (last : bool) s m pos,
  good cx m ->
  let sibs := sibs_of cx p in
  let walk := if last then rev sibs else sibs in
  (forall q n, In (q, n) sibs -> is_elem n = true -> sl_sels s <> [] -> sval bidi cx f e s q <> None) ->
  (sl_sels s <> [] -> sval bidi cx f e s p = Some true) ->
  pos_of (map (sib_val bidi cx f e p of_type s) walk) 0 = Some pos ->
  exists m', match_nth1 bidi cx (S f) e p (SNth a var b of_type last s) m = Ok (nth_closed a b var pos, m') /\ good cx m'.
Proof. exact match_nth_one. Qed.
Print Assumptions C02_match_nth_one.

(* several positional pseudo-classes on one compound are a conjunction (so :only-child = :first-child:last-child) *)
Theorem C02_records_are_a_conjunction : forall bidi cx fuel e p n rest m,
  match_nth bidi cx fuel e p (n :: rest) m =
  bindM (match_nth1 bidi cx fuel e p n) (fun b => if b then match_nth bidi cx fuel e p rest else ret false) m.
Proof. exact match_nth_conj. Qed.
Print Assumptions C02_records_are_a_conjunction.

Example C02_nonvacuous :
  nth_pure 2 1 true 5 [(true, false); (false, false); (true, false); (true, true); (true, false)] = Some true /\
  nth_pure 1 2 true 2 [(true, false); (true, true)] = Some true /\        (* li:nth-child(n+2), two siblings, no text *)
  nth_pure 2 (-2) true 4 [(true, false); (true, true)] = Some true /\     (* 2n-2 *)
  nth_pure (-1) 3 true 9 [(true, false); (true, false); (true, false); (true, true)] = Some false /\
  pos_of [(true, false); (false, false); (true, false); (true, true); (true, false)] 0 = Some 3.
Proof. repeat split; vm_compute; reflexivity. Qed.
