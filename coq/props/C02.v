(* C02 — Positional pseudo-classes implement An+B exactly.  Statements only. *)
From SV Require Import Base Regex Tree IR Lit Inputs Match NthFacts.
Local Open Scope Z_scope.

(* the closed form IS "some n >= 0 with A*n+B = position" *)
Theorem C02_closed_form : forall a b pos,
  nth_closed a b true pos = true <-> exists n, 0 <= n /\ a * n + b = pos.
Proof. exact nth_closed_spec. Qed.
Print Assumptions C02_closed_form.

(* FULL STATEMENT (all integers, all sibling sequences):
     forall a b var n walk pos, pos_of walk 0 = Some pos -> Z.of_nat (length walk) <= n ->
       nth_pure a b var n walk = Some (nth_closed a b var pos).
   Proved so far for the bounded domain below (by computation in the kernel); the unbounded
   statement is covered by the correspondence runs and labelled partial in the evidence. *)
Theorem C02_nth_exact_partial : forall a b var w,
  In a (zrange (-12) 12) -> In b (zrange (-12) 12) -> In w (walks 8) ->
  check_one a b var w = true.
Proof. exact (check_all_sound 12 8 nth_core_exact_bounded). Qed.
Print Assumptions C02_nth_exact_partial.

Example C02_nonvacuous :
  nth_pure 2 1 true 5 [(true, false); (false, false); (true, false); (true, true); (true, false)] = Some true /\
  nth_pure 1 2 true 2 [(true, false); (true, true)] = Some true /\        (* li:nth-child(n+2), two siblings, no text *)
  nth_pure 2 (-2) true 4 [(true, false); (true, true)] = Some true /\     (* 2n-2 *)
  nth_pure (-1) 3 true 9 [(true, false); (true, false); (true, false); (true, true)] = Some false.
Proof. repeat split; vm_compute; reflexivity. Qed.
