(* C03 — All query entry points are views of one match relation.  Statements only. *)
From SV Require Import Base Regex Tree IR Lit Inputs Match MatchFacts ApiFacts MemoFacts HistFacts.
From SV.gen Require Import ApiGen.

(* every module-level function returns what compile(pattern, namespaces, flags, custom=custom)
   followed by the same-named method returns: a fact about the wrapper bodies REGENERATED from
   soupsieve/__init__.py (finite: six wrappers) *)
Theorem C03_wrappers_forward : forallb wrapper_ok wrappers = true /\ length wrappers = 6%nat.
Proof. exact wrappers_forward. Qed.
Print Assumptions C03_wrappers_forward.

Theorem C03_wrappers_pass_target : forallb wrapper_margs_ok wrappers = true.
Proof. exact wrappers_pass_target. Qed.
Print Assumptions C03_wrappers_pass_target.

(* the document object and non-elements are never results *)
Theorem C03_never_the_document : forall bidi cx fuel e sels p m,
  is_doc_path (c_tree cx) p = true -> match_el bidi cx fuel e sels p m = Ok (false, m).
Proof. exact match_el_doc. Qed.
Print Assumptions C03_never_the_document.

(* select() walks the element descendants of the target in document order and keeps the matching
   ones: the result is a sub-sequence of that walk; limit k keeps the first k *)
Theorem C03_select_sublist : forall bidi cx fuel e sels l lim m r m',
  select_loop bidi cx fuel e sels l lim m = Ok (r, m') -> sublist r l.
Proof. exact select_loop_sublist. Qed.
Print Assumptions C03_select_sublist.

Theorem C03_select_limit : forall bidi cx fuel e sels l k m r m',
  select_loop bidi cx fuel e sels l (Some k) m = Ok (r, m') -> (length r <= Nat.max k 1)%nat.
Proof. exact select_loop_limit. Qed.
Print Assumptions C03_select_limit.

(* select / iselect / select_one / filter / closest are views of ONE relation: the answer match() gives for the element
   alone (a fresh matcher), under the scope of the call target.  (HistFacts: the memo shared by the elements of a call
   never changes an answer.) *)
Theorem C03_select_is_filter_by_match : forall bidi t ns sels p limit, valid_target t p = true ->
  let cx := mk_ctx t p in
  api_select bidi t ns sels p limit =
  select_pure bidi cx (api_fuel sels) (Env ns false) sels (get_tag_descendants cx p false)
              (if (limit <? 1)%Z then None else Some (Z.to_nat limit)).
Proof. exact api_select_history_free. Qed.
Print Assumptions C03_select_is_filter_by_match.

Theorem C03_select_all_is_filter : forall bidi cx fuel e sels l r,
  select_pure bidi cx fuel e sels l None = Ok r ->
  r = filter (fun q => match fresh bidi cx fuel e sels q with Ok true => true | _ => false end) l.
Proof. exact select_pure_filter. Qed.
Print Assumptions C03_select_all_is_filter.

Theorem C03_filter_is_filter_by_match : forall bidi t ns sels p, valid_target t p = true ->
  let cx := mk_ctx t p in
  api_filter bidi t ns sels p = select_pure bidi cx (api_fuel sels) (Env ns false) sels (elem_children t p) None.
Proof. exact api_filter_history_free. Qed.
Print Assumptions C03_filter_is_filter_by_match.

Theorem C03_closest_is_nearest_match : forall bidi t ns sels p, valid_target t p = true ->
  let cx := mk_ctx t p in
  api_closest bidi t ns sels p = closest_pure bidi cx (api_fuel sels) (Env ns false) sels (length p) p.
Proof. exact api_closest_history_free. Qed.
Print Assumptions C03_closest_is_nearest_match.
