(* C04 — Answers do not depend on query history; matching never mutates the tree.  Statements only. *)
From SV Require Import Base Regex Tree IR Lit Inputs Match MemoFacts.

(* FULL STATEMENT: for every memo reachable by earlier queries on the same matcher,
     fst (match_selectors ... m) = fst (match_selectors ... memo0)   (and the same exception if any).
   Proved so far at the level of the :default table (below); the lifting through the whole of
   match_selectors and the :lang / :indeterminate tables are decided per case by the history runs
   (select with a shared memo vs one fresh matcher per element, implementation and model). *)
Theorem C04_default_history_free_partial : forall cx p m, default_ok cx m ->
  match match_default cx p m, match_default cx p memo0 with
  | Ok (r, m'), Ok (r0, _) => r = r0 /\ default_ok cx m'
  | Raise e, Raise e0 => e = e0
  | _, _ => False
  end.
Proof. exact match_default_transparent. Qed.
Print Assumptions C04_default_history_free_partial.

Theorem C04_initial_memo_consistent : forall cx, default_ok cx memo0.
Proof. exact default_ok_memo0. Qed.
Print Assumptions C04_initial_memo_consistent.

(* The namespace map and the iframe restriction that an HTML-only list swaps in are an
   ARGUMENT of the recursive call in the model, so they are restored on every exit path by
   construction; the implementation's save/restore is tied to that by the correspondence runs. *)
