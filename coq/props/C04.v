(* C04 — Answers do not depend on query history; matching never mutates the tree.  Statements only. *)
From SV Require Import Base Regex Tree IR Lit Inputs Match MemoFacts HistFacts.

(* A memo is `good` when every entry of its three tables (cached_meta_lang, cached_default_forms,
   cached_indeterminate_forms) is a fact of the tree; the empty memo of a new matcher is good. *)
Theorem C04_initial_memo_consistent : forall cx, good cx memo0.
Proof. exact good_memo0. Qed.
Print Assumptions C04_initial_memo_consistent.

(* THE WHOLE MATCHER IS HISTORY-FREE: from any good memo (whatever earlier questions put into it), every
   function of the mutual recursion returns the value -- or raises the exception -- it returns from the empty
   memo, and leaves a good memo.  (det c: exists r, forall good m, c m yields r.) *)
Theorem C04_matcher_history_free : forall bidi cx fuel,
  (forall e p l, det cx (match_selectors bidi cx fuel e p l)) /\
  (forall e p tag ids classes attrs nth subs relation contains lang flags,
     det cx (match_compound bidi cx fuel e p tag ids classes attrs nth subs relation contains lang flags)) /\
  (forall e p relation, det cx (match_relations bidi cx fuel e p relation)) /\
  (forall e p n, det cx (match_nth1 bidi cx fuel e p n)).
Proof. exact det_matcher. Qed.
Print Assumptions C04_matcher_history_free.

Theorem C04_same_as_fresh : forall cx A (c : M A), det cx c -> forall m, good cx m ->
  match c m, c memo0 with
  | Ok (v, m'), Ok (v0, _) => v = v0 /\ good cx m'
  | Raise e, Raise e0 => e = e0
  | _, _ => False
  end.
Proof. intros cx A c. exact (det_memo0 cx c). Qed.
Print Assumptions C04_same_as_fresh.

(* select / filter / closest (a new matcher per call, one memo shared by all the elements of the call) are built
   from the answers each element gets when asked ALONE with a fresh matcher, in document order, up to the limit;
   the exception raised, if any, is the first one in document order. *)
Theorem C04_select_is_per_element : forall bidi t ns sels p limit, valid_target t p = true ->
  let cx := mk_ctx t p in
  api_select bidi t ns sels p limit =
  select_pure bidi cx (api_fuel sels) (Env ns false) sels (get_tag_descendants cx p false)
              (if (limit <? 1)%Z then None else Some (Z.to_nat limit)).
Proof. exact api_select_history_free. Qed.
Print Assumptions C04_select_is_per_element.

Theorem C04_select_no_limit_is_filter : forall bidi cx fuel e sels l r,
  select_pure bidi cx fuel e sels l None = Ok r ->
  r = filter (fun q => match fresh bidi cx fuel e sels q with Ok true => true | _ => false end) l.
Proof. exact select_pure_filter. Qed.
Print Assumptions C04_select_no_limit_is_filter.

Theorem C04_filter_is_per_element : forall bidi t ns sels p, valid_target t p = true ->
  let cx := mk_ctx t p in
  api_filter bidi t ns sels p = select_pure bidi cx (api_fuel sels) (Env ns false) sels (elem_children t p) None.
Proof. exact api_filter_history_free. Qed.
Print Assumptions C04_filter_is_per_element.

Theorem C04_closest_is_per_element : forall bidi t ns sels p, valid_target t p = true ->
  let cx := mk_ctx t p in
  api_closest bidi t ns sels p = closest_pure bidi cx (api_fuel sels) (Env ns false) sels (length p) p.
Proof. exact api_closest_history_free. Qed.
Print Assumptions C04_closest_is_per_element.

Theorem C04_match_is_fresh : forall bidi t ns sels p, valid_target t p = true ->
  api_match bidi t ns sels p = fresh bidi (mk_ctx t p) (api_fuel sels) (Env ns false) sels p.
Proof. exact api_match_is_fresh. Qed.
Print Assumptions C04_match_is_fresh.

(* In the model the tree is an immutable value and the namespace map / iframe restriction that an HTML-only
   list swaps in are ARGUMENTS of the recursive call, so "no query changes the document" and "restored on every
   exit path" hold by construction; the implementation's behaviour is tied to that by the history runs
   (serialisation, attribute values and node identities compared before/after every call sequence). *)
