(* C05 — Selector lists and logical pseudo-classes form a Boolean algebra.  Statements only.
   The laws are about match_selectors on ARBITRARY structures A, B (any nested content, any flags):
   equalities of the whole computation (result, memo effects and raised exceptions alike). *)
From SV Require Import Base Regex Tree IR Lit Inputs Match MatchFacts.

(* 'A, B' (and :is(A, B)): union, evaluated left to right *)
Theorem C05_union : forall bidi cx f e p A B h m,
  match_selectors bidi cx (S f) e p (SL (A ++ B) false h) m =
  bindM (match_selectors bidi cx (S f) e p (SL A false h))
        (fun a => if a then ret true else match_selectors bidi cx (S f) e p (SL B false h)) m.
Proof. exact match_selectors_union. Qed.
Print Assumptions C05_union.

(* ':not(A)' is the complement of ':is(A)' (for a non-empty list that is evaluated in this document) *)
Theorem C05_complement : forall bidi cx f e p ss h m, ss <> [] ->
  (h && negb (c_is_html cx)) = false ->
  match_selectors bidi cx (S f) e p (SL ss true h) m =
  bindM (match_selectors bidi cx (S f) e p (SL ss false h)) (fun a => ret (negb a)) m.
Proof. exact match_selectors_complement. Qed.
Print Assumptions C05_complement.

(* adding an alternative never removes a result *)
Theorem C05_monotone : forall bidi cx f e p A B h m m',
  match_selectors bidi cx (S f) e p (SL A false h) m = Ok (true, m') ->
  match_selectors bidi cx (S f) e p (SL (A ++ B) false h) m = Ok (true, m').
Proof. exact match_selectors_monotone. Qed.
Print Assumptions C05_monotone.

(* X:is(A): the nested lists of a compound are a conjunction *)
Theorem C05_intersection : forall (X : Type) (f : X -> M bool) a l m,
  allM_noshort f (a :: l) m =
  bindM (f a) (fun x => bindM (allM_noshort f l) (fun y => ret (x && y))) m.
Proof. exact @subselectors_conjunction. Qed.
Print Assumptions C05_intersection.

(* :where and :matches compile to the same structure as :is — a statement about the parser,
   decided per case by the differential run (IR equality), see the evidence. *)
