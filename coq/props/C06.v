(* C06 — compile() accepts or rejects every string with a documented error only.  Statements only. *)
From SV Require Import Base Regex RegexFacts IR Lit AttrPat Parser ParserFacts.
From SV.gen Require Import RegexGen ConstGen.

(* FULL STATEMENT: forall pattern custom, Parser.compile pattern custom is Ok _, Raise (SelectorSyntaxError _),
   Raise NotImplementedError, or Raise KeyError (only when two custom names are equal after case folding) -
   never TypeError / ValueError / AttributeError / IndexError / OutOfFuel.
   Every Python raising site of css_parser is an explicit Raise in Parser.v, so the extracted model predicts
   the exception CLASS of every input; the statement is decided per input by the differential run.  Proved so
   far are the facts that rule out the individual raising sites: *)

(* the tokenizer cannot stall: every token pattern (REGENERATED from css_tokens) consumes at least one character *)
Theorem C06_token_progress : forall pat i t,
  i <= length pat -> try_tokens pat i css_tokens = Some t -> i < k_end t.
Proof. exact token_progress. Qed.
Print Assumptions C06_token_progress.

(* every named group a handler reads without testing it is set on every successful match of its token pattern *)
Theorem C06_groups_always_set :
  sets_group tok_attribute_g_attr_name tok_attribute = true /\
  sets_group tok_tag_g_tag_name tok_tag = true /\
  sets_group tok_pseudo_class_g_name tok_pseudo_class = true /\
  sets_group tok_pseudo_class_custom_g_name tok_pseudo_class_custom = true /\
  sets_group tok_pseudo_contains_g_name tok_pseudo_contains = true /\
  sets_group tok_pseudo_contains_g_values tok_pseudo_contains = true /\
  sets_group tok_pseudo_lang_g_values tok_pseudo_lang = true /\
  sets_group tok_pseudo_dir_g_dir tok_pseudo_dir = true /\
  sets_group tok_pseudo_nth_child_g_name tok_pseudo_nth_child = true /\
  sets_group tok_pseudo_nth_child_g_nth_child tok_pseudo_nth_child = true /\
  sets_group tok_pseudo_nth_type_g_name tok_pseudo_nth_type = true /\
  sets_group tok_pseudo_nth_type_g_nth_type tok_pseudo_nth_type = true /\
  sets_group tok_combine_g_relation tok_combine = true /\
  sets_group sp_re_pseudo_name_g_name sp_re_pseudo_name = true.
Proof. exact groups_always_set. Qed.
Print Assumptions C06_groups_always_set.

Theorem C06_group_capture_sound : forall g r s i j c,
  sets_group g r = true -> rmatch r s i = Some (j, c) -> cap_get g c <> None.
Proof. exact rmatch_sets_group. Qed.
Print Assumptions C06_group_capture_sound.

(* an escape with any number decodes to a valid code point (chr() cannot raise) *)
Theorem C06_escape_clamped : forall cpv, (1 <= clamp cpv <= 1114111)%N.
Proof. exact clamp_valid. Qed.
Print Assumptions C06_escape_clamped.

(* custom maps: only SelectorSyntaxError (malformed name) or KeyError (name registered twice) *)
Theorem C06_custom_errors : forall l acc e, process_custom l acc = Raise e -> e = KeyError \/ e = SelectorSyntaxError None.
Proof. exact process_custom_errors. Qed.
Print Assumptions C06_custom_errors.
