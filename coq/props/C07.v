(* C07 — Selector parsing time is polynomially bounded in the input length.  Statements only.
   Time is a property of CPython's regex engine; what is proved is a bound on the size of the backtracking
   search (the number of ends, with multiplicity, of the reference semantics Regex.ends) for the patterns
   REGENERATED from the sources; the step <-> seconds link is measured, not proved. *)
From SV Require Import Base Regex RegexFacts RegexCost.
From SV.gen Require Import RegexGen.

(* a single-ended expression has at most one end on every subject *)
Theorem C07_single_ended : forall r, se r = true -> forall st c, length (ends r st c) <= 1.
Proof. exact se_sound. Qed.
Print Assumptions C07_single_ended.

(* when every repetition body is single-ended the search is polynomially bounded, for every subject *)
Theorem C07_poly_bound : forall r, reps_se r = true ->
  forall st c, length (ends r st c) <= bound r (length (after st)).
Proof. exact ends_bound. Qed.
Print Assumptions C07_poly_bound.

Theorem C07_bound_is_polynomial : forall r n, bound r n <= (n + 2) ^ re_size r.
Proof. exact bound_poly. Qed.
Print Assumptions C07_bound_is_polynomial.

(* every repetition makes progress: the number of iterations is bounded by the subject length *)
Theorem C07_progress : forall r, nullable r = false ->
  forall st c st' c', In (st', c') (ends r st c) -> pos st < pos st'.
Proof. exact ends_progress. Qed.
Print Assumptions C07_progress.

(* FULL STATEMENT: reps_se holds (hence the polynomial bound) for all 50 patterns.  It holds for the 28
   below (every pattern applied to document data, the line splitter, the escape decoders, pretty's tokens);
   the 22 token patterns built on IDENTIFIER / COMMENTS have repetition bodies with more than one end (an
   optional trailing blank after a hex escape, the star run that closes a comment) whose extra ends are dead
   ends: for these the check SEARCHES the model for an ambiguous repetition (pump strings with exponentially
   many ends) and measures the real engine; they are labelled partial. *)
Theorem C07_certified_patterns :
  forallb reps_se
    [cp_RE_CSS_ESC; cp_RE_CSS_STR_ESC; cp_RE_WS; cm_RE_DATE; cm_RE_DATETIME; cm_RE_MONTH; cm_RE_NOT_EMPTY; cm_RE_NOT_WS;
     cm_RE_TIME; cm_RE_WEEK; cm_RE_WILD_STRIP; util_RE_PATTERN_LINE_SPLIT; pretty_RE_CLASS; pretty_RE_DEND;
     pretty_RE_DQSTR; pretty_RE_DSEP; pretty_RE_DSTRT; pretty_RE_EMPTY; pretty_RE_INT; pretty_RE_KWORD; pretty_RE_LEND;
     pretty_RE_LSTRT; pretty_RE_PARAM; pretty_RE_SEP; pretty_RE_SQSTR; pretty_RE_TEND; pretty_RE_TSTRT; tok_amp] = true.
Proof. vm_compute. reflexivity. Qed.
Print Assumptions C07_certified_patterns.
