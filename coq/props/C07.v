(* C07 — Selector parsing time is polynomially bounded in the input length.  Statements only.
   Time is a property of CPython's regex engine; what is proved is a bound on the size of the backtracking
   search (the number of ends, with multiplicity, of the reference semantics Regex.ends) for the patterns
   REGENERATED from the sources; the step <-> seconds link is measured, not proved. *)
From SV Require Import Base Regex RegexFacts RegexCost DetCost RegexSem AttrPat AttrCost.
From SV.gen Require Import RegexGen.

(* a single-ended expression has at most one end on every subject *)
Theorem C07_single_ended : forall r, se r = true -> forall st c, length (ends r st c) <= 1.
Proof. exact se_sound. Qed.
Print Assumptions C07_single_ended.

(* when every repetition body is single-ended the search is polynomially bounded, for every subject *)
Theorem C07_poly_bound : forall r, reps_se r = true ->
  forall st c, length (ends r st c) <= bound r (length (after st)).
Proof. exact ends_bound. Qed.
Print Assumptions C07_poly_bound.

Theorem C07_bound_is_polynomial : forall r n, bound r n <= (n + 2) ^ re_size r.
Proof. exact bound_poly. Qed.
Print Assumptions C07_bound_is_polynomial.

(* every repetition makes progress: the number of iterations is bounded by the subject length *)
Theorem C07_progress : forall r, nullable r = false ->
  forall st c st' c', In (st', c') (ends r st c) -> pos st < pos st'.
Proof. exact ends_progress. Qed.
Print Assumptions C07_progress.

(* The syntactic certificate reps_se (every repetition body single-ended) holds for the 28 patterns below (every
   pattern applied to document data, the line splitter, the escape decoders, pretty's tokens).  The 22 token patterns
   built on IDENTIFIER / COMMENTS have repetition bodies with more than one end (the star run that closes a comment,
   a white-space run, bounded hex runs) whose extra ends are dead ends; they are covered by the second certificate
   further down (DetCost: determinism with one character of look-ahead), which holds for ALL 50 patterns. *)
Theorem C07_certified_patterns :
  forallb reps_se
    [cp_RE_CSS_ESC; cp_RE_CSS_STR_ESC; cp_RE_WS; cm_RE_DATE; cm_RE_DATETIME; cm_RE_MONTH; cm_RE_NOT_EMPTY; cm_RE_NOT_WS;
     cm_RE_TIME; cm_RE_WEEK; cm_RE_WILD_STRIP; util_RE_PATTERN_LINE_SPLIT; pretty_RE_CLASS; pretty_RE_DEND;
     pretty_RE_DQSTR; pretty_RE_DSEP; pretty_RE_DSTRT; pretty_RE_EMPTY; pretty_RE_INT; pretty_RE_KWORD; pretty_RE_LEND;
     pretty_RE_LSTRT; pretty_RE_PARAM; pretty_RE_SEP; pretty_RE_SQSTR; pretty_RE_TEND; pretty_RE_TSTRT; tok_amp] = true.
Proof. vm_compute. reflexivity. Qed.
Print Assumptions C07_certified_patterns.

(* ---- the second certificate: deterministic iteration with one character of look-ahead (DetCost) ----
   cert r: in every unbounded repetition of r at most one end of the body can be continued by another iteration
   (sef body (first characters of body)); sef is decided syntactically (first sets, exclusive alternatives, the
   guarded forms a|(?!a)b, x{n}|x{1,m}(?!x), d?X|dY) and proved sound against Regex.ends. *)
Theorem C07_det_single_continuation : forall r F, sef r F = true -> forall st c, nv F (ends r st c) <= 1.
Proof. exact sef_sound. Qed.
Print Assumptions C07_det_single_continuation.

(* the size of the backtracking search (number of ends, with multiplicity) of a certified expression is bounded for
   EVERY subject, with no bound on its length ... *)
Theorem C07_det_bound : forall r, cert r = true -> forall st c, length (ends r st c) <= bnd r (length (after st)).
Proof. exact cert_bound. Qed.
Print Assumptions C07_det_bound.

(* ... by a polynomial in the subject length *)
Theorem C07_det_bound_is_polynomial : forall r n, bnd r n <= (n + 2) ^ deg r.
Proof. exact bnd_poly. Qed.
Print Assumptions C07_det_bound_is_polynomial.

(* FULL STATEMENT: every one of the 50 patterns REGENERATED from css_parser, css_match, util and pretty is certified *)
Definition all_patterns : list re :=
    [cp_RE_CSS_ESC; cp_RE_CSS_STR_ESC; cp_RE_WS; cm_RE_DATE; cm_RE_DATETIME; cm_RE_MONTH; cm_RE_NOT_EMPTY; cm_RE_NOT_WS;
     cm_RE_TIME; cm_RE_WEEK; cm_RE_WILD_STRIP; util_RE_PATTERN_LINE_SPLIT; pretty_RE_CLASS; pretty_RE_DEND;
     pretty_RE_DQSTR; pretty_RE_DSEP; pretty_RE_DSTRT; pretty_RE_EMPTY; pretty_RE_INT; pretty_RE_KWORD; pretty_RE_LEND;
     pretty_RE_LSTRT; pretty_RE_PARAM; pretty_RE_SEP; pretty_RE_SQSTR; pretty_RE_TEND; pretty_RE_TSTRT; tok_amp;
     tok_id; tok_class; tok_tag; tok_attribute; tok_at_rule; tok_combine; tok_pseudo_class; tok_pseudo_class_custom;
     tok_pseudo_close; tok_pseudo_contains; tok_pseudo_dir; tok_pseudo_element; tok_pseudo_lang; tok_pseudo_nth_child;
     tok_pseudo_nth_type; sp_re_pseudo_name; cp_RE_CUSTOM; cp_RE_NTH; cp_RE_VALUES; cp_RE_WS_BEGIN; cp_RE_WS_END; cm_RE_NUM].

Theorem C07_all_patterns_certified : forallb cert all_patterns = true.
Proof. vm_compute. reflexivity. Qed.
Print Assumptions C07_all_patterns_certified.

Corollary C07_all_patterns_polynomial : forall r, In r all_patterns ->
  forall st c, length (ends r st c) <= (length (after st) + 2) ^ deg r.
Proof.
  intros r Hr st c. pose proof C07_all_patterns_certified as H. rewrite forallb_forall in H.
  etransitivity; [apply cert_bound; apply H; exact Hr | apply bnd_poly].
Qed.
Print Assumptions C07_all_patterns_polynomial.

(* the certificate is hereditary: the bound holds for the search started at ANY sub-expression (look-around bodies
   included) of a certified pattern at ANY position, so also inside a branch that fails later *)
Theorem C07_bound_for_every_subexpression : forall r, cert r = true -> forall r', In r' (subexprs r) ->
  forall st c, length (ends r' st c) <= (length (after st) + 2) ^ deg r'.
Proof. exact cert_bound_everywhere. Qed.
Print Assumptions C07_bound_for_every_subexpression.

(* What the search is a search FOR: Regex.ends - whose size the theorems above bound - finds exactly the matches of the
   declarative semantics M (RegexSem), for the WHOLE expression language (look-ahead, look-behind, anchors, bounded and
   unbounded, greedy and lazy repetition), every subject and every position; captures aside. *)
Theorem C07_matcher_is_the_declarative_semantics : forall r st c st', has_end (ends r st c) st' <-> M r st st'.
Proof. exact ends_iff_M. Qed.
Print Assumptions C07_matcher_is_the_declarative_semantics.

(* The attribute patterns the parser builds at RUN TIME from the selector's value (AttrPat.attr_template, validated
   AST-for-AST against the live parser on every run) are certified for EVERY value v, operator and flag, with a degree
   that does not depend on v: matching one against any attribute value searches at most (n+2)^8 ends. *)
Theorem C07_runtime_attribute_patterns : forall op v ic dotall st c,
  length (ends (attr_template op v ic dotall) st c) <= (length (after st) + 2) ^ 8.
Proof. exact attr_template_bound. Qed.
Print Assumptions C07_runtime_attribute_patterns.
