(* C08 — Matching never raises on any tree.  Statements only. *)
From SV Require Import Base Regex Tree IR Lit Inputs Match MatchFacts.

(* TypeError exactly when the call target is not a Tag *)
Theorem C08_type_error_iff : forall bidi t ns sels p,
  valid_target t p = false -> api_match bidi t ns sels p = Raise TypeError.
Proof. intros bidi t ns sels p H. unfold api_match. rewrite H. reflexivity. Qed.
Print Assumptions C08_type_error_iff.

(* value normalisation never raises on the shapes parsers store, nor on None, numbers, nested lists,
   or valid UTF-8 bytes: the only raising value is a byte string that is not valid UTF-8 *)
Theorem C08_normalize_total : forall v, no_bad_bytes v = true -> exists x, normalize_value v = Ok x.
Proof. exact normalize_value_total. Qed.
Print Assumptions C08_normalize_total.

(* FULL STATEMENT: for every structure produced by compile and every tree whose attribute values
   are strings (lists of strings for multi-valued attributes), api_match/select/filter/closest return Ok.
   It is FALSE of the faithful model because of the recorded finding C18-week-year-range
   (ValueError from strptime for week years outside 1000..9999); the remaining raising sites of the
   model (lower() of a list-valued type/dir/...) are excluded by the shape hypothesis.  Decided per
   case by the differential run (exception class must agree between implementation and model). *)
