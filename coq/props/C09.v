(* C09 — Compiled meaning depends only on the token sequence, not on its spelling.  Statements only. *)
From SV Require Import Base Regex IR Lit AttrPat Parser RespellCorpus RespellFacts UnescFacts StrContFacts StrUnescFacts.

(* FULL STATEMENT: forall AST a and spellings c c', compile (print c a) = compile (print c' a).
   Proved: (1) names and keywords are compared after ASCII lower-casing (for all tokens); (2) every escape form
   of every code point below U+0800 (backslash + character, 1-6 hex digits, upper or lower case, with each kind
   of terminating white space) decodes to that code point - by computation in the kernel; (3) the 24 x 3 corpus
   of respellings compiles to equal structures - a finite check.  The unbounded statement over all selectors
   and spellings is decided per case by the differential run (k spellings of each generated AST).  Partial.
   UNBOUNDED part (UnescFacts, at the end of this file): for EVERY string, css_unescape over the REGENERATED pattern
   RE_CSS_ESC computes the CSS escape specification U; hence every spelling of an identifier (any mix of literal
   characters, backslash-character escapes and 1-6 digit hex escapes in either case with any legal terminator)
   unescapes to that identifier, and two spellings of one identifier are one name to the parser. *)
Theorem C09_keyword_case : forall c1 c2, lower c1 = lower c2 -> parse_anb (lower c1) = parse_anb (lower c2).
Proof. exact anb_case. Qed.
Print Assumptions C09_keyword_case.

Theorem C09_name_case : forall pat t1 t2 g n1 n2,
  grp pat t1 g = Some n1 -> grp pat t2 g = Some n2 -> lower (css_unescape n1 false) = lower (css_unescape n2 false) ->
  name_of pat t1 g = name_of pat t2 g.
Proof. exact name_case. Qed.
Print Assumptions C09_name_case.

Theorem C09_escape_forms : forallb escape_forms_ok (map N.of_nat (seq 1 2047)) = true.
Proof. exact unescape_units. Qed.
Print Assumptions C09_escape_forms.

Theorem C09_corpus_partial : forallb (fun e => forallb (same_compile (fst e)) (snd e)) corpus = true.
Proof. exact corpus_respell. Qed.
Print Assumptions C09_corpus_partial.

(* what css_unescape computes on EVERY string: the CSS escape specification U (UnescFacts.U), read off the REGENERATED
   pattern css_parser.RE_CSS_ESC; no bound on the length *)
Theorem C09_unescape_spec : forall s, css_unescape s false = U 0 s.
Proof. exact css_unescape_spec. Qed.
Print Assumptions C09_unescape_spec.

(* every spelling of an identifier text v (inductive relation `spells`: literal characters, backslash + non-hex
   non-newline character, backslash + 1..6 hex digits of either case + a legal terminator) unescapes to v *)
Theorem C09_spelling_unescapes : forall src v, spells src v -> css_unescape src false = v.
Proof. exact spelling_unescapes. Qed.
Print Assumptions C09_spelling_unescapes.

Theorem C09_respelling : forall src1 src2 v, spells src1 v -> spells src2 v -> css_unescape src1 false = css_unescape src2 false.
Proof. exact respelling. Qed.
Print Assumptions C09_respelling.

Example C09_spelling_nonvacuous :
  spells [92; 52; 49; 32; 92; 48; 48; 48; 48; 52; 50; 92; 35; 99]%N [65; 66; 35; 99]%N.
Proof. exact spells_example. Qed.

(* FINITE (kernel computation on the REGENERATED pattern RE_CSS_STR_ESC): a line continuation - backslash + LF, CR LF, CR or FF -
   contributes nothing to a quoted value in twelve contexts, among them right before the end of the value (where `\\$` used
   to win over `\\NEWLINE` for a lone line feed, /repo fix 9d8dee2); an escaped end of input is U+FFFD only at the real end.
   A regression obligation, not the unbounded string-mode theorem (which is not proved: partial). *)
Theorem C09_line_continuations_finite : forallb (fun nl => forallb (cont_ok nl) CONTEXTS) NEWLINES = true.
Proof. exact line_continuations. Qed.
Print Assumptions C09_line_continuations_finite.

(* UNBOUNDED, string mode: for EVERY string s, css_unescape(s, string=True) over the REGENERATED pattern RE_CSS_STR_ESC equals
   the specification US (StrUnescFacts.US): hex escapes and character escapes as in identifiers, a backslash followed by a
   newline unit (LF, FF, CR, CR LF) contributes nothing, a backslash is U+FFFD only at the very end of the value.
   Consequences for every tail y: a line continuation at the head of a value vanishes; a literal character is copied and
   the rest unescaped on its own - so a continuation right before the end of a value vanishes too (the defect repaired
   by /repo 9d8dee2 makes `css_unescape_str_spec` unprovable: with `$` the backslash before a final LF is U+FFFD). *)
Theorem C09_unescape_string_spec : forall s, css_unescape s true = US 0 s.
Proof. exact css_unescape_str_spec. Qed.
Print Assumptions C09_unescape_string_spec.

Theorem C09_continuation_lf : forall y, css_unescape (92 :: 10 :: y)%N true = css_unescape y true.
Proof. exact continuation_lf. Qed.
Theorem C09_continuation_ff : forall y, css_unescape (92 :: 12 :: y)%N true = css_unescape y true.
Proof. exact continuation_ff. Qed.
Theorem C09_continuation_crlf : forall y, css_unescape (92 :: 13 :: 10 :: y)%N true = css_unescape y true.
Proof. exact continuation_crlf. Qed.
Theorem C09_continuation_cr : forall y, hd_error y <> Some 10%N -> css_unescape (92 :: 13 :: y)%N true = css_unescape y true.
Proof. exact continuation_cr. Qed.
Theorem C09_literal_step : forall c y, (c =? 92)%N = false -> css_unescape (c :: y) true = c :: css_unescape y true.
Proof. exact literal_step. Qed.
Theorem C09_continuation_at_end : forall c, (c =? 92)%N = false -> css_unescape [c; 92; 10]%N true = [c].
Proof. exact continuation_at_end_lf. Qed.
Print Assumptions C09_continuation_at_end.

(* UNBOUNDED: any number of line continuations (backslash + LF, FF or CR LF) in front of y contribute nothing; a quoted value made
   of continuations only is the empty value - the unbounded form of the directed battery `empty_values` of the C01 check
   ([a^="\<CR><LF>"] designates nothing because its value IS the empty string). *)
Theorem C09_only_continuations : forall l y, Forall cont l -> css_unescape (concat l ++ y) true = css_unescape y true.
Proof. exact only_continuations_is_empty. Qed.
Theorem C09_continuations_only_empty : forall l, Forall cont l -> css_unescape (concat l) true = [].
Proof. exact continuations_only. Qed.
Print Assumptions C09_continuations_only_empty.
