(* C09 — Compiled meaning depends only on the token sequence, not on its spelling.  Statements only. *)
From SV Require Import Base Regex IR Lit AttrPat Parser RespellCorpus RespellFacts UnescFacts StrContFacts.

(* FULL STATEMENT: forall AST a and spellings c c', compile (print c a) = compile (print c' a).
   Proved: (1) names and keywords are compared after ASCII lower-casing (for all tokens); (2) every escape form
   of every code point below U+0800 (backslash + character, 1-6 hex digits, upper or lower case, with each kind
   of terminating white space) decodes to that code point - by computation in the kernel; (3) the 24 x 3 corpus
   of respellings compiles to equal structures - a finite check.  The unbounded statement over all selectors
   and spellings is decided per case by the differential run (k spellings of each generated AST).  Partial.
   UNBOUNDED part (UnescFacts, at the end of this file): for EVERY string, css_unescape over the REGENERATED pattern
   RE_CSS_ESC computes the CSS escape specification U; hence every spelling of an identifier (any mix of literal
   characters, backslash-character escapes and 1-6 digit hex escapes in either case with any legal terminator)
   unescapes to that identifier, and two spellings of one identifier are one name to the parser. *)
Theorem C09_keyword_case : forall c1 c2, lower c1 = lower c2 -> parse_anb (lower c1) = parse_anb (lower c2).
Proof. exact anb_case. Qed.
Print Assumptions C09_keyword_case.

Theorem C09_name_case : forall pat t1 t2 g n1 n2,
  grp pat t1 g = Some n1 -> grp pat t2 g = Some n2 -> lower (css_unescape n1 false) = lower (css_unescape n2 false) ->
  name_of pat t1 g = name_of pat t2 g.
Proof. exact name_case. Qed.
Print Assumptions C09_name_case.

Theorem C09_escape_forms : forallb escape_forms_ok (map N.of_nat (seq 1 2047)) = true.
Proof. exact unescape_units. Qed.
Print Assumptions C09_escape_forms.

Theorem C09_corpus_partial : forallb (fun e => forallb (same_compile (fst e)) (snd e)) corpus = true.
Proof. exact corpus_respell. Qed.
Print Assumptions C09_corpus_partial.

(* what css_unescape computes on EVERY string: the CSS escape specification U (UnescFacts.U), read off the REGENERATED
   pattern css_parser.RE_CSS_ESC; no bound on the length *)
Theorem C09_unescape_spec : forall s, css_unescape s false = U 0 s.
Proof. exact css_unescape_spec. Qed.
Print Assumptions C09_unescape_spec.

(* every spelling of an identifier text v (inductive relation `spells`: literal characters, backslash + non-hex
   non-newline character, backslash + 1..6 hex digits of either case + a legal terminator) unescapes to v *)
Theorem C09_spelling_unescapes : forall src v, spells src v -> css_unescape src false = v.
Proof. exact spelling_unescapes. Qed.
Print Assumptions C09_spelling_unescapes.

Theorem C09_respelling : forall src1 src2 v, spells src1 v -> spells src2 v -> css_unescape src1 false = css_unescape src2 false.
Proof. exact respelling. Qed.
Print Assumptions C09_respelling.

Example C09_spelling_nonvacuous :
  spells [92; 52; 49; 32; 92; 48; 48; 48; 48; 52; 50; 92; 35; 99]%N [65; 66; 35; 99]%N.
Proof. exact spells_example. Qed.

(* FINITE (kernel computation on the REGENERATED pattern RE_CSS_STR_ESC): a line continuation - backslash + LF, CR LF, CR or FF -
   contributes nothing to a quoted value in twelve contexts, among them right before the end of the value (where `\\$` used
   to win over `\\NEWLINE` for a lone line feed, /repo fix 9d8dee2); an escaped end of input is U+FFFD only at the real end.
   A regression obligation, not the unbounded string-mode theorem (which is not proved: partial). *)
Theorem C09_line_continuations_finite : forallb (fun nl => forallb (cont_ok nl) CONTEXTS) NEWLINES = true.
Proof. exact line_continuations. Qed.
Print Assumptions C09_line_continuations_finite.
