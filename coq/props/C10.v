(* C10 — escape() output always parses back to the original identifier.  Statements only. *)
From SV Require Import Base Regex IR Lit AttrPat Parser EscapeFacts UnescFacts IdentFacts.

(* FULL STATEMENT: forall s, s <> [] -> roundtrip s = true, i.e. the model parser compiles
     '#' + escape(s)          to the single compound  *#s'
     '.' + escape(s) + '>b'   to  b  with the relation  .s' >      (nothing after the identifier is swallowed)
     '[a=' + escape(s) + ']'  to one attribute selector
   where s' is s with NUL replaced by U+FFFD.
   Proved (by computation inside the kernel) for the ten shapes  c, -c, a c b, c c, --c, c-, 1c, c1, a c, -a_c  of every
   code point c below U+0800 and of samples up to U+10FFFF incl. lone surrogates; every other string is decided
   by the differential run (exhaustive over all code points in the thorough tier).  Labelled partial. *)
Theorem C10_roundtrip_partial : forall c s, In c sample_points -> In s (shapes c) -> roundtrip s = true.
Proof. exact roundtrip_sampled_sound. Qed.
Print Assumptions C10_roundtrip_partial.

(* UNBOUNDED: for EVERY string s, unescaping escape(s) (with the REGENERATED pattern RE_CSS_ESC) gives s back, NUL
   replaced by U+FFFD - the identifier-level half of the round trip with no bound on length or code points.  What
   stays sampled above is the tokenizer half (that the parser takes escape(s) as ONE identifier token). *)
Theorem C10_unescape_escape : forall s, css_unescape (escape s) false = map nul_fix s.
Proof. exact unescape_escape. Qed.
Print Assumptions C10_unescape_escape.

(* UNBOUNDED: for EVERY non-empty string s, escape(s) is an <ident-token> of the CSS Syntax grammar
     ident = ( '--' | '-'? ( nmstart | escape ) ) ( nmchar | escape )*
   (IdentFacts.css_ident, written independently of the library's regular expressions): every character of the output is a
   name character or sits inside a backslash escape (hex escapes are 1-6 hex digits closed by one blank, character
   escapes never escape a hex digit or a newline), and the output never starts like a number or a lone dash.  So the
   escaped text contains no delimiter that could alter the surrounding selector.  What remains sampled is that the
   library's IDENTIFIER pattern consumes exactly this token. *)
Theorem C10_escape_is_ident : forall s, s <> [] -> css_ident (escape s).
Proof. exact escape_is_ident. Qed.
Print Assumptions C10_escape_is_ident.

(* escaping never raises (escape is a total function) and a non-empty identifier never escapes to nothing *)
Theorem C10_escape_nonempty : forall s, s <> [] -> escape s <> [].
Proof. exact escape_nonempty. Qed.
Print Assumptions C10_escape_nonempty.

Example C10_nonvacuous : existsb (N.eqb 128) sample_points = true /\ roundtrip [45; 128]%N = true /\
  escape [45]%N = [92; 45]%N /\ escape [49; 97]%N = [92; 51; 49; 32; 97]%N.
Proof. repeat split; vm_compute; reflexivity. Qed.
