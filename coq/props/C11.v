(* C11 — Name and value case rules follow the document type.  Statements only. *)
From SV Require Import Base Regex Tree IR Lit Inputs Match NsFacts AttrPat AttrFacts AttrFactsIC.
From SV.gen Require Import ConstGen.

(* HTML: tag names and attribute names in a selector match regardless of ASCII case *)
Theorem C11_html_tag_names : forall cx e p n n' pf, c_is_xml cx = false -> lower n = lower n' ->
  match_tag cx e p (Some (STag n pf)) = match_tag cx e p (Some (STag n' pf)).
Proof. exact html_tagname_case. Qed.
Print Assumptions C11_html_tag_names.

Theorem C11_html_element_names : forall cx p n pf, c_is_xml cx = false ->
  match_tagname cx p (STag n pf) = str_eqb (lower n) (lower (name_at cx p)) || str_eqb (lower n) L_star.
Proof. exact html_element_name_case. Qed.
Print Assumptions C11_html_element_names.

Theorem C11_html_attribute_names : forall cx e p a a' pf, c_is_xml cx = false -> lower a = lower a' ->
  match_attribute_name cx e p a pf = match_attribute_name cx e p a' pf.
Proof. exact html_attribute_name_case. Qed.
Print Assumptions C11_html_attribute_names.

(* XML / XHTML: tag names compare exactly *)
Theorem C11_xml_tag_names_exact : forall cx p n pf, c_is_xml cx = true ->
  match_tagname cx p (STag n pf) = str_eqb n (name_at cx p) || str_eqb n L_star.
Proof. exact xml_tagname_exact. Qed.
Print Assumptions C11_xml_tag_names_exact.

(* Pseudo-classes compiled into HTML-only lists never match in a document that is XML but not XHTML *)
Theorem C11_html_only : forall cx bidi f e p ss is_not m, c_is_html cx = false ->
  match_selectors bidi cx (S f) e p (SL ss is_not true) m = Ok (false, m).
Proof. exact html_only_list_in_xml. Qed.
Print Assumptions C11_html_only.

Theorem C11_doc_type : forall t s,
  c_is_xml (mk_ctx t s) = t_xml t /\
  c_is_html (mk_ctx t s) = negb (t_xml t) || c_has_html_ns (mk_ctx t s).
Proof. exact doc_type_detection. Qed.
Print Assumptions C11_doc_type.

(* Values: with the insensitive flag every ASCII letter of the selector value matches both cases
   (the closure table is REGENERATED from the `re` engine); without it a literal matches only itself. *)
Theorem C11_value_case_insensitive : 
  forallb (fun c : N => cs_mem c (icase_cs (c + 32)%N) && cs_mem (c + 32)%N (icase_cs c)
                    && cs_mem c (icase_cs c) && cs_mem (c + 32)%N (icase_cs (c + 32)%N))
          (map N.of_nat (seq 65 26)) = true.
Proof. vm_compute. reflexivity. Qed.
Print Assumptions C11_value_case_insensitive.

Theorem C11_value_case_sensitive : forall c c' : N, cs_mem c' [(c, c)] = true <-> c' = c.
Proof.
  intros c c'. unfold cs_mem. cbn [existsb fst snd]. rewrite orb_false_r, andb_true_iff, !N.leb_le. lia.
Qed.
Print Assumptions C11_value_case_sensitive.

(* The value rule for EVERY selector value v and EVERY attribute value x, with or without the `i` flag (ic): the pattern the
   parser builds for an operator accepts x exactly when x relates to v as CSS says, character by character up to
   `ceq ic` - identity without the flag (sim_exact), the regenerated case closure with it.  AttrPat.attr_template is
   validated AST-for-AST against the live parser on every run. *)
Theorem C11_value_eq : forall ic v x dotall, accepts (attr_template OpEq v ic dotall) x = true <-> sim ic v x.
Proof. exact op_eq_ic. Qed.
Print Assumptions C11_value_eq.
Theorem C11_value_prefix : forall ic v x dotall,
  accepts (attr_template OpPrefix v ic dotall) x = true <-> v <> [] /\ exists w r, x = w ++ r /\ sim ic v w.
Proof. exact op_prefix_ic. Qed.
Print Assumptions C11_value_prefix.
Theorem C11_value_suffix : forall ic v x, valid_str x ->
  accepts (attr_template OpSuffix v ic true) x = true <-> v <> [] /\ exists l w, x = l ++ w /\ sim ic v w.
Proof. exact op_suffix_ic. Qed.
Print Assumptions C11_value_suffix.
Theorem C11_value_substring : forall ic v x, valid_str x ->
  accepts (attr_template OpSubstr v ic true) x = true <-> v <> [] /\ exists l w r, x = l ++ w ++ r /\ sim ic v w.
Proof. exact op_substr_ic. Qed.
Print Assumptions C11_value_substring.
Theorem C11_value_dash : forall ic v x, valid_str x ->
  accepts (attr_template OpDash v ic true) x = true <-> sim ic v x \/ exists w r, x = w ++ [45%N] ++ r /\ sim ic v w.
Proof. exact op_dash_ic. Qed.
Print Assumptions C11_value_dash.
Theorem C11_value_word : forall ic v x, valid_str x ->
  accepts (attr_template OpWord v ic true) x = true <->
  v <> [] /\ has_ws v = false /\ exists l w r, x = l ++ w ++ r /\ sim ic v w /\ ws_or_edge (rev l) = true /\ ws_or_edge r = true.
Proof. exact op_word_ic. Qed.
Print Assumptions C11_value_word.
Theorem C11_value_exact_without_flag : forall v w, sim false v w <-> w = v.
Proof. exact sim_exact. Qed.
Print Assumptions C11_value_exact_without_flag.
