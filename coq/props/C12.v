(* C12 — Namespace selectors compare namespace URIs through the supplied prefix map.  Statements only. *)
From SV Require Import Base Regex Tree IR Lit Inputs Match NsFacts.

(* ns|E, *|E, |E, E (with and without a default namespace): the element's namespace URI is compared with
   what the CALLER mapped the prefix to; the document's own prefixes are not read. *)
Theorem C12_element : forall cx e p tg,
  match_namespace cx e p tg = true <-> ns_designates (e_ns e) (tg_prefix tg) (get_tag_ns cx p).
Proof. exact match_namespace_spec. Qed.
Print Assumptions C12_element.

Theorem C12_unmapped_element : forall cx e p name pf,
  pf <> [] -> pf <> L_star -> ns_get (e_ns e) pf = None ->
  match_tag cx e p (Some (STag name (Some pf))) = false.
Proof. exact unmapped_prefix_element. Qed.
Print Assumptions C12_unmapped_element.

Theorem C12_unmapped_attribute : forall cx e p attr pf,
  supports_namespaces cx = true -> pf <> [] -> pf <> L_star -> ns_get (e_ns e) pf = None ->
  match_attribute_name cx e p attr pf = Ok None.
Proof. exact unmapped_prefix_attribute. Qed.
Print Assumptions C12_unmapped_attribute.

(* [ns|a], [*|a], [|a], [a]: the attribute designated is the first one (document order of the
   attribute list) satisfying the decision table attr_pred. *)
Theorem C12_attribute : forall is_xml star ns attr l, plain_attrs l ->
  man_ns is_xml star ns attr l =
  Ok (match find (fun kv => attr_pred is_xml star ns attr (fst kv)) l with
      | Some (_, PStr s) => Some (inl s)
      | _ => None
      end).
Proof. exact man_ns_table. Qed.
Print Assumptions C12_attribute.

Example C12_nonvacuous :
  plain_attrs [(AKey (s2l_x ++ s2l_x) (Some s2l_de) (Some s2l_x), PStr s2l_de); (AKey s2l_x None None, PStr s2l_x)] /\
  ns_designates [(s2l_x, s2l_de)] (Some s2l_x) s2l_de /\ ~ ns_designates [(s2l_x, s2l_de)] (Some s2l_latn) s2l_de.
Proof.
  split; [|split].
  - repeat constructor; cbn; try (eexists; reflexivity); congruence.
  - cbn. eexists; split; reflexivity.
  - cbn. intros [u [H _]]. discriminate.
Qed.
