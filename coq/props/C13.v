(* C13 — :lang() is RFC 4647 extended filtering over the inherited language.  Statements only. *)
From SV Require Import Base Regex Tree IR Lit Inputs Match LangFacts LangWalk MemoFacts HistFacts.

(* The filter decision on subtag lists is exactly RFC 4647 section 3.3.2 (wildcards other than a leading
   one are removed beforehand, which is what "a wildcard matches any sequence of subtags including none"
   means), with the two conventions for the empty range and for '*'. *)
Theorem C13_filter : forall ranges subtags, elf_core ranges subtags = true <-> elf_spec ranges subtags.
Proof. exact elf_core_spec. Qed.
Print Assumptions C13_filter.

(* Which attribute carries the language: `lang` when the tree is not namespace-aware or the element is in the XHTML
   namespace, `xml:lang` (XML namespace) otherwise; the FIRST such attribute in the element's attribute order. *)
Theorem C13_language_attribute : forall cx has_ns html_ns l,
  (forall kv, In kv l -> exists v, normalize_value (snd kv) = Ok v) ->
  lang_attr cx has_ns html_ns l =
  match find (fun kv => is_lang_key cx has_ns html_ns (fst kv)) l with
  | Some kv => match normalize_value (snd kv) with Ok v => Ok (Some v) | Raise e => Raise e end
  | None => Ok None
  end.
Proof. exact lang_attr_first. Qed.
Print Assumptions C13_language_attribute.

(* The walk finds the language of the NEAREST ancestor-or-self that has one, inside the element's own document (the
   iframe restriction of HTML documents is part of get_parent), and that language is unique. *)
Theorem C13_nearest_language : forall cx fuel p r last top, lang_walk cx fuel p = Ok (r, last, top) -> lang_of cx p r.
Proof. exact lang_walk_sound. Qed.
Print Assumptions C13_nearest_language.
Theorem C13_language_unique : forall cx p r1 r2, lang_of cx p r1 -> lang_of cx p r2 -> r1 = r2.
Proof. exact lang_of_functional. Qed.
Print Assumptions C13_language_unique.

(* The <meta> fallback is memoised per document root; the memo never changes an answer (any consistent memo gives the
   answer of the empty one). *)
Theorem C13_meta_memo_transparent : forall cx p langs, det cx (match_lang cx p langs).
Proof. exact det_lang. Qed.
Print Assumptions C13_meta_memo_transparent.

(* Still executed rather than proved (partial): the string level - splitting at '-', ASCII lower-casing and the removal of
   non-leading wildcards by the REGENERATED pattern RE_WILD_STRIP - and the <meta> scan itself. *)

Example C13_nonvacuous :
  elf_spec [s2l_de; s2l_DE] [s2l_de; s2l_latn; s2l_DE] /\ ~ elf_spec [s2l_de; s2l_DE] [s2l_de; s2l_x; s2l_DE] /\
  extended_language_filter s2l_range1 s2l_tag1 = true.
Proof.
  split; [|split].
  - right. split; [right; split; [discriminate | split; [discriminate | reflexivity]]|].
    apply ER_skip; try discriminate. apply ER_match; [discriminate | constructor].
  - intros [(H & _) | [_ H]]; [discriminate|].
    inversion H; subst; try congruence.
    match goal with Hl : length _ <> 1%nat |- _ => apply Hl; reflexivity end.
  - vm_compute. reflexivity.
Qed.
