(* C13 — :lang() is RFC 4647 extended filtering over the inherited language.  Statements only. *)
From SV Require Import Base Regex Tree IR Lit Inputs Match LangFacts.

(* The filter decision on subtag lists is exactly RFC 4647 section 3.3.2 (wildcards other than a leading
   one are removed beforehand, which is what "a wildcard matches any sequence of subtags including none"
   means), with the two conventions for the empty range and for '*'. *)
Theorem C13_filter : forall ranges subtags, elf_core ranges subtags = true <-> elf_spec ranges subtags.
Proof. exact elf_core_spec. Qed.
Print Assumptions C13_filter.

(* FULL STATEMENT also covers (a) the string level: splitting at '-', ASCII lower-casing and the removal of
   non-leading wildcards by the REGENERATED pattern RE_WILD_STRIP, and (b) the language determination walk
   (match_lang).  Both are executed by the extracted model against the implementation and the independent
   RFC 4647 / language-of oracle on every run; they are not yet theorems (partial). *)

Example C13_nonvacuous :
  elf_spec [s2l_de; s2l_DE] [s2l_de; s2l_latn; s2l_DE] /\ ~ elf_spec [s2l_de; s2l_DE] [s2l_de; s2l_x; s2l_DE] /\
  extended_language_filter s2l_range1 s2l_tag1 = true.
Proof.
  split; [|split].
  - right. split; [right; split; [discriminate | split; [discriminate | reflexivity]]|].
    apply ER_skip; try discriminate. apply ER_match; [discriminate | constructor].
  - intros [(H & _) | [_ H]]; [discriminate|].
    inversion H; subst; try congruence.
    match goal with Hl : length _ <> 1%nat |- _ => apply Hl; reflexivity end.
  - vm_compute. reflexivity.
Qed.
