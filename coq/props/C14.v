(* C14 — Concurrent compilation and matching behave as if run one at a time.  Statements only. *)
From SV Require Import Base Threads.
From SV.gen Require Import ThreadGen.

(* Threads whose only shared writes go through atomic, value-deterministic memo tables (the two lru_caches:
   the value stored for a key is a function of the key, C15) observe, under EVERY interleaving, exactly
   what they observe when run alone. *)
Theorem C14_serializable : forall (memo_value : cell -> nat),
  (forall c, memo_value c <> 0) ->
  forall (is_memo : cell -> bool) tr, Forall (fun x => well_formed is_memo (snd x)) tr ->
  forall s, consistent memo_value is_memo s ->
  forall i, proj i (exec memo_value s tr) = alone memo_value s (proj i tr).
Proof. exact serializable. Qed.
Print Assumptions C14_serializable.

Theorem C14_schedule_independent : forall (memo_value : cell -> nat),
  (forall c, memo_value c <> 0) ->
  forall (is_memo : cell -> bool) tr1 tr2 s,
  Forall (fun x => well_formed is_memo (snd x)) tr1 -> Forall (fun x => well_formed is_memo (snd x)) tr2 ->
  consistent memo_value is_memo s -> (forall i, proj i tr1 = proj i tr2) ->
  forall i, proj i (exec memo_value s tr1) = proj i (exec memo_value s tr2).
Proof. exact schedule_independent. Qed.
Print Assumptions C14_schedule_independent.

(* The premise "no other shared write" for the code as it is NOW: the access summary REGENERATED from
   soupsieve/*.py by T6 (stores on instances created at import time, stores to module-level objects inside
   functions, memoised functions returning mutable objects) is empty. *)
Theorem C14_race_free_now : shared_writes = [].
Proof. reflexivity. Qed.
Print Assumptions C14_race_free_now.
