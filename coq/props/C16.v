(* C16 — Importing works in either order and Beautiful Soup can always select.  Statements only. *)
From SV Require Import Base Imports ImportFacts.
From SV.gen Require Import ImportGen.

(* Every sequence of up to three import statements over the eleven import forms of the two packages and their
   submodules (11 + 121 + 1331 programs), run in a fresh interpreter on the import-time action lists
   REGENERATED from soupsieve/*.py and the installed bs4: all modules finish, no ImportError is swallowed by a
   try/except inside the packages (no silent degradation such as bs4.css.soupsieve = None) and no
   getattr/hasattr is evaluated on a partially initialised module. *)
Theorem C16_all_orders :
  forallb (fun p => is_ok (g_run p)) (programs1 ++ programs2 ++ programs3) = true.
Proof. exact all_orders_ok. Qed.
Print Assumptions C16_all_orders.

Example C16_nonvacuous : length (programs1 ++ programs2 ++ programs3) = 1463%nat /\ g_run [EImport M_bs4] = VOk.
Proof. split; vm_compute; reflexivity. Qed.
