(* C17 — HTML state pseudo-classes follow their definitions and partition laws.  Statements only. *)
From SV Require Import Base Regex Tree IR Lit Inputs Match MatchFacts.

(* :read-only is compiled as html|*:not(:read-write), :enabled as ...:not(:disabled): the partition laws
   are instances of the complement law of C05 (an element cannot match both L and :not(L)) *)
Theorem C17_complement_law : forall bidi cx f e p ss h m, ss <> [] ->
  (h && negb (c_is_html cx)) = false ->
  match_selectors bidi cx (S f) e p (SL ss true h) m =
  bindM (match_selectors bidi cx (S f) e p (SL ss false h)) (fun a => ret (negb a)) m.
Proof. exact match_selectors_complement. Qed.
Print Assumptions C17_complement_law.

(* HTML-only definitions are evaluated inside the element's own document: the namespace map and the
   iframe restriction of an HTML-only list are fixed (html_env), whatever the caller passed *)
Theorem C17_html_env : forall bidi cx f e e' p ss is_not m,
  match_selectors bidi cx (S f) e p (SL ss is_not true) m = match_selectors bidi cx (S f) e' p (SL ss is_not true) m.
Proof. intros. reflexivity. Qed.
Print Assumptions C17_html_env.

(* in/out of range are the two values of one decision (Inputs.range_decide), hence disjoint and, when
   the decision is defined, exhaustive *)
Theorem C17_range_disjoint : forall itype mn mx v a b,
  range_decide itype mn mx v true = Ok a -> range_decide itype mn mx v false = Ok b -> a = negb b.
Proof.
  intros itype mn mx v a b. unfold range_decide.
  match goal with |- context [bind ?X _] => destruct X as [o|ex] end; cbn [bind]; [|discriminate].
  intros H1 H2. injection H1 as <-. injection H2 as <-. reflexivity.
Qed.
Print Assumptions C17_range_disjoint.
