(* C17 — HTML state pseudo-classes follow their definitions and partition laws.  Statements only. *)
From SV Require Import Base Regex Tree IR Lit Inputs Match MatchFacts DirFacts FormFacts.

(* :read-only is compiled as html|*:not(:read-write), :enabled as ...:not(:disabled): the partition laws
   are instances of the complement law of C05 (an element cannot match both L and :not(L)) *)
Theorem C17_complement_law : forall bidi cx f e p ss h m, ss <> [] ->
  (h && negb (c_is_html cx)) = false ->
  match_selectors bidi cx (S f) e p (SL ss true h) m =
  bindM (match_selectors bidi cx (S f) e p (SL ss false h)) (fun a => ret (negb a)) m.
Proof. exact match_selectors_complement. Qed.
Print Assumptions C17_complement_law.

(* HTML-only definitions are evaluated inside the element's own document: the namespace map and the
   iframe restriction of an HTML-only list are fixed (html_env), whatever the caller passed *)
Theorem C17_html_env : forall bidi cx f e e' p ss is_not m,
  match_selectors bidi cx (S f) e p (SL ss is_not true) m = match_selectors bidi cx (S f) e' p (SL ss is_not true) m.
Proof. intros. reflexivity. Qed.
Print Assumptions C17_html_env.

(* in/out of range are the two values of one decision (Inputs.range_decide), hence disjoint and, when
   the decision is defined, exhaustive *)
Theorem C17_range_disjoint : forall itype mn mx v a b,
  range_decide itype mn mx v true = Ok a -> range_decide itype mn mx v false = Ok b -> a = negb b.
Proof.
  intros itype mn mx v a b. unfold range_decide.
  match goal with |- context [bind ?X _] => destruct X as [o|ex] end; cbn [bind]; [|discriminate].
  intros H1 H2. injection H1 as <-. injection H2 as <-. reflexivity.
Qed.
Print Assumptions C17_range_disjoint.

(* every HTML element of a ROOTED document (walking up through HTML ancestors, skipping foreign ones, ends at a root
   element) has exactly one direction: whenever both questions are answered without an exception, :dir(ltr) and
   :dir(rtl) give opposite answers.  Holds for every fuel, every bidi classifier, every tree. *)
Theorem C17_dir_partition : forall bidi cx fuel p a b, reaches_root cx p -> is_html_tag cx p = true ->
  match_dir bidi cx fuel (Some p) SEL_DIR_LTR = Ok a -> match_dir bidi cx fuel (Some p) SEL_DIR_RTL = Ok b -> a = negb b.
Proof. exact dir_partition. Qed.
Print Assumptions C17_dir_partition.

Example C17_rooted_nonvacuous : forall cx p, is_root cx p = true -> reaches_root cx p.
Proof. intros cx p H. apply RR_root. exact H. Qed.

(* :default - the scan of a form's descendants finds the FIRST submit button (an <input> or <button> whose type is
   "submit", ASCII case-insensitively) in document order and looks no further than the first nested <form> *)
Theorem C17_default_is_first_submit : forall cx l,
  (forall c, In c (before_form cx l) -> exists b, submit_of cx c = Ok b) ->
  default_scan cx l = Ok (find (fun c => match submit_of cx c with Ok true => true | _ => false end) (before_form cx l)).
Proof. exact default_scan_first. Qed.
Print Assumptions C17_default_is_first_submit.

(* :indeterminate - the verdict memoised per (form, group name) is "the form owns a checked radio button of that name";
   it does not mention the element that asked *)
Theorem C17_indeterminate_group : forall cx form name l,
  (forall c, In c l -> str_eqb (get_tag cx c) L_input = true ->
             exists b, indet_attrs cx c form name (attrs_at cx c) false false false = Ok b) ->
  indet_scan cx form name l =
  Ok (existsb (fun c => str_eqb (get_tag cx c) L_input &&
                        match indet_attrs cx c form name (attrs_at cx c) false false false with Ok true => true | _ => false end) l).
Proof. exact indet_scan_exists. Qed.
Print Assumptions C17_indeterminate_group.
