(* C18 — Date, time and number values are validated and ordered as HTML prescribes.
   Only statements, `exact`, and Print Assumptions.  validate_* are the functions
   REGENERATED from soupsieve/css_match.py (gen/PureGen.v). *)
From SV Require Import Base Regex RunFacts Lit Inputs Calendar CalendarFacts DateShape AttrFacts RegexLang NumShape.
From SV.gen Require Import PureGen RegexGen.
Local Open Scope Z_scope.

(* The closed form used throughout is the sum of the (leap-aware) year lengths. *)
Theorem C18_days_before_year : forall n : nat,
  days_before_year_nat n = days_before_year (Z.of_nat n + 1).
Proof. exact days_before_year_closed. Qed.
Print Assumptions C18_days_before_year.

(* days per month incl. leap years, for EVERY year (no bound) *)
Theorem C18_day : forall y m d,
  validate_day y m d = (1 <=? d) && (d <=? days_in_month y m).
Proof. exact validate_day_spec. Qed.
Print Assumptions C18_day.

(* ISO 8601: a year has 52 or 53 weeks; 53 exactly in the "long" years *)
Theorem C18_iso_weeks : forall y, 1 <= y ->
  iso_weeks y = if (jan1_weekday y =? 3) || (is_leap y && (jan1_weekday y =? 2)) then 53 else 52.
Proof. exact iso_weeks_closed. Qed.
Print Assumptions C18_iso_weeks.

(* FULL STATEMENT (what the property demands):
     forall y w, 1 <= y -> validate_week y w = Ok (week_spec y w).
   It is FALSE of the faithful model; the two deviations are known findings
   (known_findings.json: C18-week53-dec31-in-week1, C18-week-year-range). *)
Theorem C18_week_refuted : exists y w, validate_week y w = Ok true /\ week_spec y w = false.
Proof. exists 2019, 53. split; vm_compute; reflexivity. Qed.
Print Assumptions C18_week_refuted.

Theorem C18_week_year_range_refuted : exists y w, 1 <= y /\ validate_week y w = Raise ValueError.
Proof. exists 999, 1. split; [lia | vm_compute; reflexivity]. Qed.
Print Assumptions C18_week_year_range_refuted.

(* What IS proved: the code deviates from the specification in exactly one way for
   4-digit years, and raises exactly outside them. *)
Theorem C18_week_partial : forall y w b, 1 <= y ->
  validate_week y w = Ok b ->
  b = week_spec y w \/ (w = 53 /\ dec31_in_week1 y = true /\ iso_weeks y = 52 /\ b = true).
Proof. exact validate_week_deviation. Qed.
Print Assumptions C18_week_partial.

Theorem C18_week_raises_iff : forall y w, validate_week y w = Raise ValueError <-> ~ (1000 <= y <= 9999).
Proof.
  intros y w. split.
  - intros H Hy. rewrite validate_week_char in H by exact Hy. discriminate.
  - apply validate_week_raises.
Qed.
Print Assumptions C18_week_raises_iff.

(* Ordering: the lexicographic order on the parsed tuples IS calendar order. *)
Theorem C18_date_order : forall y m d y' m' d', valid_date y m d -> valid_date y' m' d' ->
  tuple_ltb [y; m; d] [y'; m'; d'] = (ordinal y m d <? ordinal y' m' d').
Proof. exact date_order. Qed.
Print Assumptions C18_date_order.

Theorem C18_week_order : forall y w y' w', 1 <= y -> 1 <= y' ->
  1 <= w <= iso_weeks y -> 1 <= w' <= iso_weeks y' ->
  tuple_ltb [y; w] [y'; w'] = (week_ordinal y w <? week_ordinal y' w').
Proof. exact week_order. Qed.
Print Assumptions C18_week_order.

Theorem C18_time_order : forall h m h' m', 0 <= m <= 59 -> 0 <= m' <= 59 ->
  tuple_ltb [h; m] [h'; m'] = (h * 60 + m <? h' * 60 + m').
Proof. exact time_order. Qed.
Print Assumptions C18_time_order.

(* the hypotheses are satisfiable by concrete non-trivial objects *)
Example C18_nonvacuous :
  valid_date 2024 2 29 /\ valid_date 1 1 1 /\ iso_weeks 2020 = 53 /\ iso_weeks 2019 = 52 /\
  validate_week 2020 53 = Ok true /\ validate_day 1900 2 29 = false /\ validate_day 2000 2 29 = true.
Proof. unfold valid_date. repeat split; vm_compute; try reflexivity; try discriminate. Qed.

(* ---- the shapes: the five anchored patterns REGENERATED from css_match.py are sequences of captured digit runs and
   literal separators; for such patterns the backtracking matcher finds exactly what a left-to-right split finds
   (RunFacts.ends_items, for every subject), so parse_value is, for EVERY string, "split, convert, validate" ---- *)
Theorem C18_patterns_are_run_sequences :
  cm_RE_DATE = Seq AtStart (to_re date_items) /\ cm_RE_MONTH = Seq AtStart (to_re month_items) /\
  cm_RE_WEEK = Seq AtStart (to_re week_items) /\ cm_RE_TIME = Seq AtStart (to_re time_items) /\
  cm_RE_DATETIME = Seq AtStart (to_re datetime_items).
Proof. exact shapes. Qed.
Print Assumptions C18_patterns_are_run_sequences.

Theorem C18_run_sequence_matching : forall p, wf p = true -> forall st c,
  ends (to_re p) st c = match scan_items p st c with Some x => [x] | None => [] end.
Proof. exact ends_items. Qed.
Print Assumptions C18_run_sequence_matching.

Theorem C18_parse_date : forall s,
  parse_value T_date s =
  match fields date_items s with
  | Some [ys; ms; ds] =>
    ok_if (validate_year (int10 ys) && validate_month (int10 ms) && validate_day (int10 ys) (int10 ms) (int10 ds))
          (PTuple [int10 ys; int10 ms; int10 ds])
  | _ => Ok None
  end.
Proof. exact parse_date. Qed.
Print Assumptions C18_parse_date.

Theorem C18_parse_month : forall s,
  parse_value T_month s =
  match fields month_items s with
  | Some [ys; ms] => ok_if (validate_year (int10 ys) && validate_month (int10 ms)) (PTuple [int10 ys; int10 ms])
  | _ => Ok None
  end.
Proof. exact parse_month. Qed.
Print Assumptions C18_parse_month.

Theorem C18_parse_week : forall s,
  parse_value T_week s =
  match fields week_items s with
  | Some [ys; ws] =>
    if validate_year (int10 ys) then (do b <- validate_week (int10 ys) (int10 ws) ;; ok_if b (PTuple [int10 ys; int10 ws])) else Ok None
  | _ => Ok None
  end.
Proof. exact parse_week. Qed.
Print Assumptions C18_parse_week.

Theorem C18_parse_time : forall s,
  parse_value T_time s =
  match fields time_items s with
  | Some [hs; ms] => ok_if (validate_hour (int10 hs) && validate_minutes (int10 ms)) (PTuple [int10 hs; int10 ms])
  | _ => Ok None
  end.
Proof. exact parse_time. Qed.
Print Assumptions C18_parse_time.

Theorem C18_parse_datetime : forall s,
  parse_value T_datetime s =
  match fields datetime_items s with
  | Some [ys; ms; ds; hs; mis] =>
    ok_if (validate_year (int10 ys) && validate_month (int10 ms) && validate_day (int10 ys) (int10 ms) (int10 ds) &&
           validate_hour (int10 hs) && validate_minutes (int10 mis))
          (PTuple [int10 ys; int10 ms; int10 ds; int10 hs; int10 mis])
  | _ => Ok None
  end.
Proof. exact parse_datetime. Qed.
Print Assumptions C18_parse_datetime.

(* END TO END for type=date, both directions, every string: accepted with fields (y, m, d)  <=>  a valid HTML date string *)
Theorem C18_date_sound : forall s y m d,
  parse_value T_date s = Ok (Some (PTuple [y; m; d])) ->
  exists ys ms ds, s = ys ++ [45%N] ++ ms ++ [45%N] ++ ds /\ digits ys /\ digits ms /\ digits ds /\
                   (4 <= length ys)%nat /\ length ms = 2%nat /\ length ds = 2%nat /\
                   y = int10 ys /\ m = int10 ms /\ d = int10 ds /\ valid_date y m d.
Proof. exact date_end_to_end. Qed.
Print Assumptions C18_date_sound.

Theorem C18_date_complete : forall ys ms ds, digits ys -> digits ms -> digits ds ->
  (4 <= length ys)%nat -> length ms = 2%nat -> length ds = 2%nat ->
  valid_date (int10 ys) (int10 ms) (int10 ds) ->
  parse_value T_date (ys ++ [45%N] ++ ms ++ [45%N] ++ ds) = Ok (Some (PTuple [int10 ys; int10 ms; int10 ds])).
Proof. exact date_complete. Qed.
Print Assumptions C18_date_complete.

(* The backtracking matcher of the model finds exactly the matches of the declarative language semantics L (for every
   expression without look-around and anchors, every subject, every position; captures aside) ... *)
Theorem C18_matcher_sound : forall r, plain r = true -> forall st c st' c', In (st', c') (ends r st c) -> exists w, via st w st' /\ L r w.
Proof. exact ends_sound. Qed.
Print Assumptions C18_matcher_sound.
Theorem C18_matcher_complete : forall r, plain r = true -> forall st w st' c, via st w st' -> L r w -> exists c', In (st', c') (ends r st c).
Proof. exact ends_complete. Qed.
Print Assumptions C18_matcher_complete.

(* ... hence the number pattern REGENERATED from css_match.RE_NUM accepts exactly the HTML "valid floating-point numbers":
   [-] (digits [. digits] | . digits) [(e|E) [+|-] digits], for EVERY string (nothing before, nothing after: \Z). *)
Theorem C18_number_shape : forall s, accepts RegexGen.cm_RE_NUM s = true <-> float_grammar s.
Proof. exact num_accepts. Qed.
Print Assumptions C18_number_shape.

(* every whole-string pattern ^X\Z with X free of look-around accepts exactly the language of X *)
Theorem C18_anchored_pattern_is_language : forall X s, plain X = true -> accepts (Seq AtStart (Seq X AtEndStrict)) s = true <-> L X s.
Proof. exact anchored_accepts. Qed.
Print Assumptions C18_anchored_pattern_is_language.
