(* C19 — Text pseudo-classes see exactly the character data CSS/HTML count as content.  Statements only. *)
From SV Require Import Base Regex Tree IR Lit Inputs Match TextFacts.

Theorem C19_kinds : forall n, is_content_string n = true <-> exists s, n = Str KText s.
Proof. exact content_string_kinds. Qed.
Print Assumptions C19_kinds.

Theorem C19_contains : forall cx p texts,
  match_contains cx p [SContains texts false]
  = existsb (fun tx => substrb tx (get_text cx p (c_is_html cx))) texts.
Proof. exact match_contains_single. Qed.
Print Assumptions C19_contains.

Theorem C19_contains_own : forall cx p texts,
  match_contains cx p [SContains texts true]
  = existsb (fun tx => existsb (fun o => substrb tx o) (get_own_text cx p (c_is_html cx))) texts.
Proof. exact match_contains_own_single. Qed.
Print Assumptions C19_contains_own.

(* Python's `in` on strings is substring containment *)
Theorem C19_substring : forall p s, substrb p s = true <-> exists l r, s = l ++ p ++ r.
Proof. exact substrb_spec. Qed.
Print Assumptions C19_substring.

Theorem C19_text_nodes_only : forall cx p b,
  get_text cx p b = concat (map (fun pn => str_of (snd pn))
                       (filter (fun pn => match snd pn with Str KText _ => true | _ => false end)
                               (get_descendants cx p b))).
Proof. exact get_text_only_text. Qed.
Print Assumptions C19_text_nodes_only.

(* in HTML documents nothing inside a nested iframe is visited: every visited node is a child of the
   start list or a child of a visited node that is not an iframe *)
Theorem C19_iframe : forall cx fuel kids q n,
  In (q, n) (desc_from cx fuel true kids) ->
  In (q, n) kids \/
  exists k kn, In (k, kn) (desc_from cx fuel true kids) /\ is_iframe cx k = false /\
               In (q, n) (children (c_tree cx) k).
Proof. exact desc_from_no_iframe. Qed.
Print Assumptions C19_iframe.

(* :empty, with the white-space class taken from the REGENERATED pattern RE_NOT_EMPTY *)
Theorem C19_empty : forall cx p,
  (forall q s, In (q, Str KText s) (children (c_tree cx) p) -> valid_str s) ->
  match_empty cx p = true <-> empty_spec cx p.
Proof. exact match_empty_spec. Qed.
Print Assumptions C19_empty.
