(* C20 — Diagnostics point at the right place and always terminate.  Statements only. *)
From SV Require Import Base Regex Diag DiagFacts.

(* the debug pretty-printer terminates on EVERY string (hence on every repr of a compiled selector):
   each of its REGENERATED token patterns consumes at least one character and the loop has a fallback *)
Theorem C20_pretty_terminates : forall sel, exists out, pretty sel = Some out.
Proof. exact pretty_total. Qed.
Print Assumptions C20_pretty_terminates.

(* FULL STATEMENT for the context function: forall s i, i <= |s| -> line and column of get_pattern_context s i
   = line_col s i (1 + number of \n, \r\n, \r breaks before the offset; offset within that line + 1).
   Proved (kernel computation) for every string over {a, LF, CR} of length <= 7 and every offset 0..|s|
   (3280 strings, incl. every mix of the three line-break styles and offsets at the very end);
   longer patterns are decided by the differential run.  Labelled partial. *)
Theorem C20_context_line_col_partial : gpc_check 7 = true.
Proof. exact gpc_line_col_bounded. Qed.
Print Assumptions C20_context_line_col_partial.

Example C20_nonvacuous :
  line_col [97; 44; 10; 98; 44; 10; 58; 105; 115; 40]%N 10 = (3, 5)%Z /\
  (let '(_, l, c) := get_pattern_context [97; 44; 10; 98; 44; 10; 58; 105; 115; 40]%N 10 in (l, c)) = (3, 5)%Z.
Proof. split; vm_compute; reflexivity. Qed.
