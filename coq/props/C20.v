(* C20 — Diagnostics point at the right place and always terminate.  Statements only. *)
From SV Require Import Base Regex Diag DiagFacts LineFacts PrettyFacts.

(* the debug pretty-printer terminates on EVERY string (hence on every repr of a compiled selector):
   each of its REGENERATED token patterns consumes at least one character and the loop has a fallback *)
Theorem C20_pretty_terminates : forall sel, exists out, pretty sel = Some out.
Proof. exact pretty_total. Qed.
Print Assumptions C20_pretty_terminates.

(* ... and only inserts / removes white space: for EVERY string, the output and the input are equal once the characters of
   the class \s (as it occurs in the REGENERATED separator patterns RE_SEP / RE_DSEP) are removed from both.  The proof
   reads off what those two patterns match (white space, the separator captured as group 1, white space); every other
   token is copied verbatim whatever it matches, and so is a character no token matches. *)
Theorem C20_pretty_content : forall sel out, pretty sel = Some out -> nows out = nows sel.
Proof. exact pretty_content. Qed.
Print Assumptions C20_pretty_content.

(* The context function: for EVERY string s and EVERY offset i <= |s| the line and column reported by
   get_pattern_context s i are those of the specification line_col (line = 1 + number of line breaks wholly before the
   offset, column = offset - start of that line + 1; CR LF, a lone CR and a lone LF are line breaks; an offset between
   CR and LF still belongs to the line they end).  The proof characterises what finditer yields for the REGENERATED
   pattern util.RE_PATTERN_LINE_SPLIT (one match per line break, then the empty match at the very end) and then follows
   the loop.  No bound on the length of s. *)
Theorem C20_context_line_col : forall s i, (i <= length s)%nat ->
  let '(_, line, col) := get_pattern_context s (Z.of_nat i) in (line, col) = line_col s i.
Proof. exact gpc_line_col. Qed.
Print Assumptions C20_context_line_col.

Theorem C20_line_split_matches : forall s, finditer RegexGen.util_RE_PATTERN_LINE_SPLIT s = map tag (brks s 0).
Proof. exact finditer_line_split. Qed.
Print Assumptions C20_line_split_matches.

Example C20_nonvacuous :
  line_col [97; 44; 10; 98; 44; 10; 58; 105; 115; 40]%N 10 = (3, 5)%Z /\
  (let '(_, l, c) := get_pattern_context [97; 44; 10; 98; 44; 10; 58; 105; 115; 40]%N 10 in (l, c)) = (3, 5)%Z.
Proof. split; vm_compute; reflexivity. Qed.
