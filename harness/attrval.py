"""Translation validation of coq/AttrPat.v: for generated (operator, value, flag, attribute name) the regex the REAL
parser compiled (translated by T1) must be the AST that the model's attr_template builds."""
import warnings
import soupsieve as sv
from soupsieve import css_types as ct
import lib, irdump
from lib import s_str
from gen_selectors import q

OPS = ['=', '~=', '|=', '^=', '$=', '*=', '!=']
VALUES = ['', 'x', 'abc', 'a b', ' ', 'val\n', 'x-y', 'a.b', 'a*b', '(x)', '[y]', '^$', 'a|b', 'a\\b', '\t', 'K', 'k', 'S', 's',
          'Text', 'submit', 'é', 'ſ', 'a"b', "a'b", '-', '0', 'x\ty', 'http://e/x?y=1&z', '{1,2}', '+', 'İ', 'I', 'i',
          '\x7f', 'a\rb', 'a\fb', 'z' * 40]


def cases(rnd, n):
    out = []
    for op in OPS:
        for v in VALUES:
            out.append((op, v, None, 'title'))
    for _ in range(n):
        op = rnd.choice(OPS)
        v = rnd.choice(VALUES) if rnd.random() < 0.5 else ''.join(rnd.choice('abXY z-_.*\\"\n\té1') for _ in range(rnd.randint(0, 6)))
        flag = rnd.choice([None, None, 'i', 's', 'I', 'S'])
        name = rnd.choice(['title', 'type', 'TYPE', 'Type', 'data-x', 'class'])
        out.append((op, v, flag, name))
    return out


def run(ck, rnd, n):
    drv = lib.Driver()
    cs = cases(rnd, n)
    reqs, metas = [], []
    for (op, v, flag, name) in cs:
        if flag in ('i', 'I') and not v.isascii():
            continue
        is_type = name.lower() == 'type' and flag is None
        if is_type and not v.isascii():
            continue
        pat = f'[{name}{op}{q(v)}{"" if flag is None else " " + flag}]'
        with warnings.catch_warnings():
            warnings.simplefilter('ignore')
            try:
                c = sv.compile(pat)
            except Exception as ex:
                ck.broken.append(f'attribute template validation: compile({pat!r}) raised {type(ex).__name__}')
                continue
        s0 = c.selectors[0]
        if op == '!=':
            a = s0.selectors[0][0].attributes[0]
        else:
            a = s0.attributes[0]
        mop = '=' if op == '!=' else op
        ic = (flag in ('i', 'I')) or is_type
        reqs.append(f'(attr_template {mop} {s_str(v)} {int(ic)} 1)')
        metas.append((pat, 'pattern', a.pattern))
        if is_type:
            reqs.append(f'(attr_template {mop} {s_str(v)} 0 0)')
            metas.append((pat, 'xml_type_pattern', a.xml_type_pattern))
        elif a.xml_type_pattern is not None:
            ck.broken.append(f'attribute template validation: {pat!r} has an unexpected xml_type_pattern')
    outs = drv.run(reqs)
    bad = 0
    for (pat, which, p), mo in zip(metas, outs):
        try:
            real = lib.parse_sexp(irdump.pat_sx(p)[6:-1]) if p is not None else None
        except Exception as ex:
            real = ['untranslatable', repr(ex)]
        ck.count(('attr_template', which, pat[:12], mo[0] if isinstance(mo, list) else mo))
        if real != mo:
            bad += 1
            if bad <= 3:
                ck.broken.append(f'attribute template validation: {pat!r} {which}: parser built {p.pattern if p is not None else None!r} '
                                 f'(flags {p.flags if p is not None else None}), model AttrPat.attr_template differs')
    ck.notes['attr_templates_validated'] = len(metas)
    if bad:
        directed_search(ck, [m[0] for (m, mo) in zip(metas, outs)][:400], cs)
    return bad


def directed_search(ck, pats, cs):
    """The tie broke: look for a concrete document on which an attribute operator now selects the wrong elements."""
    from bs4 import BeautifulSoup
    from oracles import selspec
    seen = set()
    for (op, v, flag, name) in cs:
        insensitive = flag in ('i', 'I') or (name.lower() == 'type' and flag not in ('s', 'S'))
        if (op, v, flag, name) in seen or (insensitive and not v.isascii()):
            continue          # case-insensitive comparison is judged on ASCII values only
        seen.add((op, v, flag, name))
        variants = [v, v + '\n', '\n' + v, v + 'x', 'x' + v, v.upper(), v.lower(), ' ' + v + ' ', v + '-z', 'a ' + v + ' b', '',
                    v + '\r', v + ' ', v[:-1], v[1:], v + v, 'x' + v + '\n', v.swapcase()]
        soup = BeautifulSoup('<html><body></body></html>', 'html.parser')
        for x in variants:
            t = soup.new_tag('p')
            t.attrs[name.lower() if name.lower() == 'type' else name] = x
            soup.body.append(t)
        pat = f'[{name}{op}{q(v)}{"" if flag is None else " " + flag}]'
        sl = [[{'attrs': [(None, name, op, v, flag)]}]]
        try:
            with warnings.catch_warnings():
                warnings.simplefilter('ignore')
                got = sv.select(pat, soup)
        except Exception as ex:
            ck.violation(f'select({pat!r}) raised {type(ex).__name__}', {'pattern': pat})
            return
        exp = selspec.select(selspec.Doc(soup), soup, sl)
        if [id(e) for e in got] != [id(e) for e in exp]:
            ck.violation(f'select({pat!r}) selects {[e.attrs for e in got]} but CSS designates {[e.attrs for e in exp]}',
                         {'pattern': pat, 'markup': str(soup), 'observed': [dict(e.attrs) for e in got],
                          'expected': [dict(e.attrs) for e in exp]})
            return
