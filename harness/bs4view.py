"""bs4view - what the matcher reads of a live Beautiful Soup tree, as the model's `tree` (S-expression),
plus path <-> node maps.  Fail-closed on node kinds it does not know."""
import bs4
from collections.abc import Sequence
from lib import s_str, s_opt

KIND = {'text': 0, 'comment': 1, 'cdata': 2, 'pi': 3, 'doctype': 4, 'decl': 5}


def kind_of(node):
    # most specific first (Doctype, Declaration, CData, PI, Comment are PreformattedString subclasses)
    if isinstance(node, bs4.Doctype):
        return 'doctype'
    if isinstance(node, bs4.Declaration):
        return 'decl'
    if isinstance(node, bs4.CData):
        return 'cdata'
    if isinstance(node, bs4.ProcessingInstruction):
        return 'pi'
    if isinstance(node, bs4.Comment):
        return 'comment'
    if isinstance(node, bs4.element.NavigableString):
        return 'text'
    raise TypeError(f'unknown node kind {type(node)}')


def pyval(v, nested=False):
    if v is None:
        return 'none'
    if isinstance(v, str):
        return '(str ' + s_str(v) + ')'
    if isinstance(v, bytes):
        # normalize_value decodes with errors="replace" (trusted: Python's UTF-8 decoder)
        return '(bytes (some ' + s_str(v.decode('utf8', 'replace')) + '))'
    if isinstance(v, Sequence):
        return '(list (' + ' '.join(pyval(x, True) for x in v) + ') ' + s_str(str(v)) + ')'
    return '(other ' + s_str(str(v)) + ')'


def view(top):
    """top: BeautifulSoup object or a detached Tag.  -> (sexp, path_of: id(node)->tuple, node_at: tuple->node)"""
    path_of, node_at = {}, {}

    def node(n, path):
        path_of[id(n)] = path
        node_at[path] = n
        if isinstance(n, bs4.Tag):
            attrs = []
            for k, v in n.attrs.items():
                attrs.append('(' + s_str(str(k)) + ' ' + s_opt(getattr(k, 'namespace', None)) + ' ' +
                             s_opt(getattr(k, 'name', None)) + ' ' + pyval(v) + ')')
            kids = ' '.join(node(c, path + (i,)) for i, c in enumerate(n.contents))
            return ('(e ' + s_str(n.name if n.name is not None else '') + ' ' + s_opt(n.prefix) + ' ' +
                    s_opt(n.namespace) + ' (' + ' '.join(attrs) + ') (' + kids + '))')
        return f'(s {KIND[kind_of(n)]} ' + s_str(str(n)) + ')'
    is_doc = isinstance(top, bs4.BeautifulSoup)
    sx = f'(tree {1 if top._is_xml else 0} {1 if is_doc else 0} ' + node(top, ()) + ')'
    return sx, path_of, node_at


def path_sx(p):
    return '(' + ' '.join(map(str, p)) + ')'
