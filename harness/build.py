"""Regenerate coq/gen/*.v from /repo, build the Coq development and the extracted driver."""
from __future__ import annotations
import fcntl, hashlib, os, subprocess, sys, time, json

VERIF = os.path.dirname(os.path.dirname(os.path.abspath(__file__)))
REPO = os.environ.get('VERIF_REPO', '/repo')
COQ = os.path.join(VERIF, 'coq')
GEN = os.path.join(COQ, 'gen')
OCAML = os.path.join(VERIF, 'ocaml')
PY = '/venv/bin/python'
JOBS = os.environ.get('VERIF_JOBS', '16')


def env():
    e = dict(os.environ)
    e['PYTHONPATH'] = REPO + os.pathsep + os.path.join(VERIF, 'harness')
    e['PYTHONHASHSEED'] = '0'
    e['PYTHONDONTWRITEBYTECODE'] = '1'
    return e


class Lock:
    def __enter__(self):
        self.f = open(os.path.join(VERIF, '.build.lock'), 'w')
        fcntl.flock(self.f, fcntl.LOCK_EX)
        return self

    def __exit__(self, *a):
        fcntl.flock(self.f, fcntl.LOCK_UN)
        self.f.close()


def write_if_changed(path, text):
    try:
        if open(path).read() == text:
            return False
    except FileNotFoundError:
        pass
    os.makedirs(os.path.dirname(path), exist_ok=True)
    with open(path, 'w') as f:
        f.write(text)
    return True


def regen():
    """Run every translator in a fresh interpreter against REPO; return status dict."""
    r = subprocess.run([PY, os.path.join(VERIF, 'harness', 'translate', 'run_all.py'), GEN],
                       env=env(), capture_output=True, text=True, timeout=600)
    if r.returncode != 0:
        return {'_error': (r.stdout + r.stderr)[-4000:]}
    return json.loads(r.stdout.strip().splitlines()[-1])


def make(targets=(), timeout=3000):
    """Full .vo build (never -vos).  Returns (ok, log)."""
    if not os.path.exists(os.path.join(COQ, 'Makefile')) or \
            os.path.getmtime(os.path.join(COQ, 'Makefile')) < os.path.getmtime(os.path.join(COQ, '_CoqProject')):
        subprocess.run(['coq_makefile', '-f', '_CoqProject', '-o', 'Makefile'], cwd=COQ, check=True,
                       capture_output=True)
    cmd = ['timeout', str(timeout), 'make', '-j', JOBS, '-k'] + list(targets)
    r = subprocess.run(cmd, cwd=COQ, capture_output=True, text=True)
    return r.returncode == 0, (r.stdout + r.stderr)


def build_driver(timeout=1500):
    """Extract the model and compile the OCaml driver.  Returns (ok, log)."""
    gen = os.path.join(OCAML, 'gen')
    os.makedirs(gen, exist_ok=True)
    exe = os.path.join(OCAML, 'driver.exe')
    srcs = [os.path.join(COQ, 'extract', 'Extract.v'), os.path.join(OCAML, 'driver.ml')]
    # the property files (props/*.vo, re-checked by every run) are not part of the extracted model
    vos = [os.path.join(dp, f) for dp, _, fs in os.walk(COQ) for f in fs if f.endswith('.vo')
           and os.path.basename(dp) not in ('props', 'extract')]
    newest = max([os.path.getmtime(p) for p in srcs + vos] or [0])
    if os.path.exists(exe) and os.path.getmtime(exe) >= newest:
        return True, 'driver up to date'
    log = ''
    r = subprocess.run(['timeout', str(timeout), 'coqc', '-Q', COQ, 'SV', '-o', os.path.join(gen, 'Extract.vo'),
                        os.path.join(COQ, 'extract', 'Extract.v')], cwd=gen, capture_output=True, text=True)
    log += r.stdout + r.stderr
    if r.returncode != 0:
        return False, log
    r = subprocess.run(['timeout', str(timeout), 'ocamlfind', 'ocamlopt', '-O2' if False else '-inline', '100',
                        '-w', '-a', '-I', gen, os.path.join(gen, 'sv.mli'), os.path.join(gen, 'sv.ml'),
                        os.path.join(OCAML, 'driver.ml'), '-o', exe], cwd=gen, capture_output=True, text=True)
    log += r.stdout + r.stderr
    return r.returncode == 0, log


def build_all(targets=()):
    t0 = time.time()
    with Lock():
        st = regen()
        ok, log = make(targets)
        dok, dlog = (False, 'skipped: coq build failed')
        if ok or not targets:
            dok, dlog = build_driver()
    return {'regen': st, 'make_ok': ok, 'make_log': log, 'driver_ok': dok, 'driver_log': dlog,
            'wall_s': time.time() - t0}


if __name__ == '__main__':
    res = build_all()
    print(json.dumps(res['regen'])[:2000])
    print('make_ok', res['make_ok'], 'driver_ok', res['driver_ok'], 'wall', round(res['wall_s'], 1))
    if not res['make_ok']:
        print(res['make_log'][-6000:])
    if not res['driver_ok']:
        print(res['driver_log'][-6000:])
    sys.exit(0 if res['make_ok'] and res['driver_ok'] else 1)
