"""Campaigns: seeded families of (tree, selector, namespaces) cases shared by the matcher properties."""
import warnings
import bs4
import e1, gen_trees, gen_selectors
from gen_trees import XHTML, SVG, XLINK, MATH

NSMAPS = [
    None, {}, {'a': 'urn:a'}, {'a': 'urn:a', 'b': 'urn:b'}, {'': 'urn:a'}, {'': XHTML, 'svg': SVG}, {'x': 'urn:b', 'a': 'urn:b'},
    {'svg': SVG, 'xlink': XLINK, 'h': XHTML}, {'': SVG}, {'q': XHTML, 'xml': 'http://www.w3.org/XML/1998/namespace'},
    {'a': 'urn:other', 'xlink': XLINK}, {'': ''}, {'m': MATH, 'svg': SVG, '': XHTML},
]


def make_tree(rnd, profile, modes=None):
    """-> (top, label).  The model and the oracles always read the LIVE tree, so parser quirks are inputs."""
    tg = gen_trees.XGen(rnd)
    if profile in ('core', 'contains', 'case', 'odd'):
        body = [tg.generic(1) for _ in range(rnd.choice([1, 1, 2]))]
        if profile == 'contains' and rnd.random() < 0.5:
            # nested iframes whose content must not count as text of the outer document (HTML)
            def ifr(n, depth=0):
                if n[0] != 'e':
                    return n
                kids = [ifr(c, depth + 1) for c in n[3]]
                if depth > 0 and rnd.random() < 0.2:
                    return ('e', 'iframe', {}, [('e', 'html', {}, [('e', 'body', {}, kids)])] if rnd.random() < 0.5 else kids)
                return ('e', n[1], n[2], kids)
            body = [ifr(b) for b in body] + [('t', rnd.choice(['tail', 'end', 'x']))]
            if rnd.random() < 0.5:
                # an iframe that ends its ancestors over several levels (each a last child, nothing after it), then text
                inner_doc = ('e', 'html', {}, [('e', 'body', {}, [('e', 'p', {}, [('t', 'hidden')])])])
                chain = ('e', 'iframe', {}, [inner_doc] if rnd.random() < 0.7 else [])
                for _ in range(rnd.choice([1, 2, 2, 3])):
                    chain = ('e', rnd.choice(['div', 'span', 'section']), {}, ([('t', 'lead')] if rnd.random() < 0.4 else []) + [chain])
                body = body + [('e', 'div', {'class': 'wrap'}, [chain, ('t', rnd.choice(['after', 'trail'])), ('e', 'b', {}, [('t', 'more')])])]
        if profile in ('core', 'contains') and rnd.random() < 0.3:
            # elements whose text bs4 keeps in string-container subclasses (Script, Stylesheet, TemplateString, RubyTextString):
            # it is character data like any other text
            special = [('e', 'script', {}, [('t', rnd.choice(['var x = 1;', ' ', 'x']))]), ('e', 'style', {}, [('t', 'p { }')]),
                       ('e', 'ruby', {}, [('t', 'kan'), ('e', 'rt', {}, [('t', rnd.choice(['ji', ' ']))]), ('e', 'rp', {}, [('t', ')')])]),
                       ('e', 'template', {}, [('t', 'tpl')]), ('e', 'script', {}, []), ('e', 'style', {}, [('t', '\n')]), ('e', 'rt', {}, [])]
            body += rnd.sample(special, rnd.randint(1, 3))
        if rnd.random() < 0.35:
            # the SAME subtree (equal markup: bs4 tags compare and hash equal) in two different ancestor contexts
            shared = tg.generic(2)
            body += [('e', 'section', {'class': 'main'}, [('e', 'ul', {}, [shared, ('e', 'li', {}, [('t', 'one')])])]),
                     ('e', 'div', {'class': 'side'}, [('e', 'ul', {}, [shared, ('e', 'li', {}, [('t', 'one')])])])]
        ab = ('e', 'html', {}, [('e', 'head', {}, []), ('e', 'body', {}, body)])
        mode = rnd.choice(['api', 'api', 'html.parser', 'lxml', 'html5lib', 'xml', 'frag', 'multi'])
        if profile == 'contains':
            mode = rnd.choice(['api', 'api', 'html.parser', 'html.parser', 'lxml', 'html5lib', 'xml', 'frag', 'multi', 'bodyfrag', 'bodyfrag'])
        if profile == 'odd':
            mode = rnd.choice(['api', 'apixml', 'frag'])
    elif profile == 'forms':
        ab = tg.forms_doc()
        mode = rnd.choice(['api', 'html.parser', 'lxml', 'html5lib', 'api', 'xhtml'])
    elif profile == 'radios':
        ab = tg.radios_doc()
        mode = rnd.choice(['xhtml', 'xhtml', 'api', 'apixml', 'html.parser'])
    elif profile == 'langdir':
        ab = tg.langdir_doc()
        mode = rnd.choice(['api', 'html.parser', 'lxml', 'html5lib', 'api', 'xhtml'])
    elif profile == 'ns':
        k = rnd.random()
        if k < 0.6:
            ab = tg.xml_doc()
            mode = 'xml'
        elif k < 0.8:
            ab = tg.html5_foreign()
            mode = 'html5lib'
        else:
            ab = tg.html5_foreign()
            mode = rnd.choice(['html.parser', 'lxml', 'xhtml'])
    else:
        raise ValueError(profile)
    if modes is not None and mode not in modes:
        mode = rnd.choice(modes)
    with warnings.catch_warnings():
        warnings.simplefilter('ignore')
        if mode == 'api':
            top = gen_trees.build_api([ab])
        elif mode == 'apixml':
            top = gen_trees.build_api([ab], xml=True)
        elif mode == 'frag':
            top = gen_trees.build_api([ab[3][1][3][0]] if ab[3][1][3] and ab[3][1][3][0][0] == 'e' else [ab], detached=True)
        elif mode == 'bodyfrag':
            # a fragment: the children of <body> directly below the document object (several top-level elements)
            kids = [k for k in ab[3][1][3]]
            if rnd.random() < 0.5:
                kids = [('e', 'p', {'id': 'intro'}, [('t', 'hello')])] + kids
            top = gen_trees.build_api(kids) if rnd.random() < 0.5 else \
                gen_trees.parse_with(''.join(gen_trees.to_markup(k) for k in kids), 'html.parser')
        elif mode == 'multi':
            extra = [tg.text_node(), tg.generic(2), ('t', rnd.choice(['', ' ', 'x']))]
            rnd.shuffle(extra)
            top = gen_trees.build_api([ab] + extra if rnd.random() < 0.5 else extra + [ab])
        elif mode == 'xml':
            top = gen_trees.parse_with('<?xml version="1.0" encoding="UTF-8"?>' + gen_trees.to_markup(ab, xml=True), 'xml')
        elif mode == 'xhtml':
            ab2 = ('e', ab[1], dict(ab[2], xmlns=XHTML), ab[3])
            top = gen_trees.parse_with('<?xml version="1.0" encoding="UTF-8"?>' + gen_trees.to_markup(ab2, xml=True), 'xml')
        else:
            top = gen_trees.parse_with(gen_trees.to_markup(ab), mode)
    if profile == 'odd':
        gen_trees.sprinkle_odd(top, rnd)
    return top, f'{profile}/{mode}'


def targets(rnd, sc, k):
    els = sc.elements
    if not els:
        return []
    return [sc.path_of[id(e)] for e in rnd.sample(els, min(k, len(els)))]


def std_ops(rnd, sc, light=False):
    ops = [('select', (), 0)]
    for p in targets(rnd, sc, 2 if light else 4):
        ops.append(('match', p))
        if not light:
            ops += [('closest', p), ('filter', p), ('select', p, rnd.choice([0, 0, 1, 2, 3]))]
    return ops


def build(rnd, profile, n_trees, sels_per_tree, feats=None, depth=2, ast=True, light=False, all_match=False, directed=0, modes=None):
    """-> list of scenarios; sc.meta[pattern] = ast (or None)"""
    out = []
    for _ in range(n_trees):
        top, label = make_tree(rnd, profile, modes)
        sc = e1.Scenario(top, label)
        sc.meta = {}
        pools = gen_selectors.pools_from_soup(top)
        nsmap = None
        prefixes = []
        if profile == 'ns':
            nsmap = rnd.choice(NSMAPS)
            used = sorted({e.namespace for e in top.find_all(True) if getattr(e, 'namespace', None)} |
                          {k.namespace for e in top.find_all(True) for k in e.attrs if getattr(k, 'namespace', None)})
            if used and rnd.random() < 0.5:
                # prefixes (of the caller's choosing) bound to namespaces that occur in this tree, elements' or attributes'
                nsmap = {rnd.choice(['n', 'p', 'q', 'xl', 'a']) + str(i): u for i, u in enumerate(rnd.sample(used, min(3, len(used))))}
                if rnd.random() < 0.2:
                    nsmap[''] = rnd.choice(used)
            prefixes = [k for k in (nsmap or {}) if k] or ['a']
        for i_sel in range(sels_per_tree):
            if ast:
                f = feats or {'core': ('core',), 'ns': ('core', 'ns'), 'case': ('core', 'case'),
                              'contains': ('core', 'contains'), 'langdir': ('core', 'lang')}.get(profile, ('core',))
                pl = dict(pools)
                ag = gen_selectors.AGen(rnd, prefixes=prefixes, feats=f, nsmap=nsmap, **pl)
                s, a = ag.directed(top) if i_sel < directed else ag.selector(depth)
            else:
                pl = dict(pools)
                f = feats or ('core', 'state', 'lang', 'dir', 'contains', 'misc')
                sg = gen_selectors.SGen(rnd, feats=f, prefixes=prefixes, **pl)
                s, a = sg.selector(depth), None
            ops = std_ops(rnd, sc, light)
            if all_match:
                ops = [('select', (), 0)] + [('match', sc.path_of[id(e)]) for e in sc.elements]
            c = sc.add(s, ops, namespaces=nsmap, custom={':--cust': 'p, div > span'} if not ast else None)
            sc.meta[s] = a
        if ast and sels_per_tree and ('lang' in (feats or ()) or profile == 'langdir'):
            # two ranges aimed at this document: any language at all, and the <meta> pragma's language (the fallback
            # must stay inside the element's own document)
            metas = [m.get('content') for m in top.find_all('meta') if isinstance(m.get('content'), str) and m.get('content')]
            for r_ in ['*', rnd.choice(metas) if metas else rnd.choice(pools.get('langs') or ['en'])]:
                cp = {'ids': [], 'classes': [], 'attrs': [], 'pseudos': [('lang', [r_.split('-')[0] if rnd.random() < 0.5 else r_])]}
                if rnd.random() < 0.3:
                    cp['type'] = (None, 'p')
                a = [[cp]]
                s = gen_selectors.show_list(a)
                ops = [('select', (), 0)] + [('match', sc.path_of[id(e)]) for e in sc.elements] if all_match else std_ops(rnd, sc, light)
                sc.add(s, ops, namespaces=nsmap)
                sc.meta[s] = a
        if ast and sels_per_tree and (profile == 'contains' or 'contains' in (feats or ())):
            # text that lives inside an embedded document, asked of every element: only the elements of that inner document see it
            import bs4 as _bs4
            inner_texts = []
            for fr in top.find_all('iframe')[:3]:
                ts = [str(t_).strip() for t_ in fr.descendants if isinstance(t_, _bs4.NavigableString) and type(t_) is _bs4.NavigableString and str(t_).strip()]
                if ts:
                    inner_texts.append(rnd.choice(ts)[:12])
            # both text pseudo-classes in one compound, in either order: each looks at its own text sequence
            tx_ = [t_ for t_ in (pools.get('texts') or []) if t_ and t_.strip()]
            for _k in range(2):
                if not tx_:
                    break
                t1, t2 = rnd.choice(tx_)[:10], rnd.choice(tx_)[:10]
                first_own = rnd.random() < 0.5
                a = [[{'ids': [], 'classes': [], 'attrs': [], 'pseudos': [('contains', first_own, [t1]), ('contains', not first_own, [rnd.choice([t1, t2])])]}]]
                s = gen_selectors.show_list(a)
                if s not in sc.meta:
                    ops = [('select', (), 0)] + [('match', sc.path_of[id(e)]) for e in sc.elements] if all_match else std_ops(rnd, sc, light)
                    sc.add(s, ops, namespaces=nsmap)
                    sc.meta[s] = a
            # the empty search string is contained in every text, the empty text included
            for own, vals in ((False, ['']), (True, ['']), (False, ['zzz-nowhere', ''])):
                a = [[{'ids': [], 'classes': [], 'attrs': [], 'pseudos': [('contains', own, vals)]}]]
                s = gen_selectors.show_list(a)
                if s not in sc.meta and rnd.random() < 0.5:
                    ops = [('select', (), 0)] + [('match', sc.path_of[id(e)]) for e in sc.elements] if all_match else std_ops(rnd, sc, light)
                    sc.add(s, ops, namespaces=nsmap)
                    sc.meta[s] = a
            for txt in inner_texts[:2]:
                for own in (False, True):
                    a = [[{'ids': [], 'classes': [], 'attrs': [], 'pseudos': [('contains', own, [txt])]}]]
                    s = gen_selectors.show_list(a)
                    ops = [('select', (), 0)] + [('match', sc.path_of[id(e)]) for e in sc.elements] if all_match else std_ops(rnd, sc, light)
                    sc.add(s, ops, namespaces=nsmap)
                    sc.meta[s] = a
        out.append(sc)
    return out
