"""./check <Cxx> [--tier quick|thorough] [--replay file]"""
import argparse, importlib, os, sys
sys.path.insert(0, os.path.dirname(os.path.abspath(__file__)))


def main():
    ap = argparse.ArgumentParser()
    ap.add_argument('pid')
    ap.add_argument('--tier', default=os.environ.get('VERIF_TIER', 'quick'), choices=['quick', 'thorough'])
    ap.add_argument('--replay')
    a = ap.parse_args()
    seed = int(os.environ.get('VERIF_SEED', '20261001'))
    mod = importlib.import_module('props.' + a.pid)
    if a.replay:
        sys.exit(mod.replay(a.replay))
    try:
        rc = mod.run(a.tier, seed)
    except Exception:
        import traceback, lib
        # the search could not run to the end (the implementation returned something the harness did not expect, or the
        # model no longer builds): the property is no longer shown to hold; say so instead of dying without a verdict
        tb = traceback.format_exc()
        sys.stderr.write(tb)
        ck = lib.Check(a.pid, a.tier, seed)
        ck.broken.append(('the model no longer builds (see the build log) and ' if not lib.DRIVER_OK else '') +
                         'the check aborted with an unexpected exception: ' + tb[-900:])
        rc = ck.finish(rule='search aborted')
    sys.exit(rc)


if __name__ == '__main__':
    main()
