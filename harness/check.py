"""./check <Cxx> [--tier quick|thorough] [--replay file]"""
import argparse, importlib, os, sys
sys.path.insert(0, os.path.dirname(os.path.abspath(__file__)))


def main():
    ap = argparse.ArgumentParser()
    ap.add_argument('pid')
    ap.add_argument('--tier', default=os.environ.get('VERIF_TIER', 'quick'), choices=['quick', 'thorough'])
    ap.add_argument('--replay')
    a = ap.parse_args()
    seed = int(os.environ.get('VERIF_SEED', '20261001'))
    mod = importlib.import_module('props.' + a.pid)
    if a.replay:
        sys.exit(mod.replay(a.replay))
    # watchdog on the CPU time of this process: a check that spins (an implementation call that never returns outside the
    # per-call watchdogs, a model that diverges) still ends with a verdict
    import signal

    class CheckTimeout(BaseException):
        pass

    def on_vt(signum, frame):
        import traceback
        where = ''.join(traceback.format_stack(frame)[-8:])
        seen = {}
        f = frame
        while f is not None and len(seen) < 6:
            for k in ('pattern', 'pat', 's', 'sel', 'mk', 'markup'):
                v = f.f_locals.get(k)
                if isinstance(v, str) and k not in seen:
                    seen[k] = v[:300]
            f = f.f_back
        raise CheckTimeout(f'no verdict after {limit} s of CPU time; interrupted at:\n{where}\nlocals on the stack: {seen!r}')
    limit = int(os.environ.get('VERIF_CPU_LIMIT', '900' if a.tier == 'quick' else '36000'))
    wall = int(os.environ.get('VERIF_WALL_LIMIT', '1500' if a.tier == 'quick' else '50000'))

    def on_wall():
        # threads that wait for each other use no CPU: a wall-clock limit, enforced from a helper thread
        import traceback, lib
        stacks = []
        for tid, fr in sys._current_frames().items():
            stacks.append(''.join(traceback.format_stack(fr)[-4:]))
        ck = lib.CURRENT or lib.Check(a.pid, a.tier, seed)
        ck.broken.append(f'the check did not finish within {wall} s (threads waiting for each other?); stacks:\n' + '\n--\n'.join(stacks)[-1800:])
        rc_ = ck.finish(rule='search aborted by the wall-clock watchdog')
        sys.stdout.flush()
        os._exit(rc_ or 1)
    import threading
    wt = threading.Timer(wall, on_wall)
    wt.daemon = True
    wt.start()
    signal.signal(signal.SIGVTALRM, on_vt)
    signal.setitimer(signal.ITIMER_VIRTUAL, limit)
    try:
        rc = mod.run(a.tier, seed)
        signal.setitimer(signal.ITIMER_VIRTUAL, 0)
    except CheckTimeout as ex:
        import lib
        signal.setitimer(signal.ITIMER_VIRTUAL, 0)
        sys.stderr.write(str(ex))
        ck = lib.CURRENT or lib.Check(a.pid, a.tier, seed)
        ck.broken.append('the check did not finish: ' + str(ex)[-1500:])
        rc = ck.finish(rule='search aborted by the CPU-time watchdog')
    except Exception:
        import traceback, lib
        # the search could not run to the end (the implementation returned something the harness did not expect, or the
        # model no longer builds): the property is no longer shown to hold; say so instead of dying without a verdict
        tb = traceback.format_exc()
        sys.stderr.write(tb)
        ck = lib.Check(a.pid, a.tier, seed)
        ck.broken.append(('the model no longer builds (see the build log) and ' if not lib.DRIVER_OK else '') +
                         'the check aborted with an unexpected exception: ' + tb[-900:])
        rc = ck.finish(rule='search aborted')
    sys.exit(rc)


if __name__ == '__main__':
    main()
