"""E1 - matcher correspondence: (tree, real compiled IR, target, API op) -> implementation result vs
the extracted Coq matcher.  Observable behaviour only: selected element paths in order, match booleans,
closest path, exception class."""
import os, signal
import warnings
import bs4
import soupsieve as sv
import lib, bs4view, irdump


def canon_exc(ex):
    return ['raise', type(ex).__name__]


class Scenario:
    """One tree with several compiled selectors and operations."""

    def __init__(self, top, label=''):
        self.top = top
        self.label = label
        self.sx, self.path_of, self.node_at = bs4view.view(top)
        self.items = []      # (pattern, namespaces, custom, compiled, [ops])
        self.elements = [n for p, n in sorted(self.node_at.items()) if isinstance(n, bs4.Tag)]

    def add(self, pattern, ops, namespaces=None, custom=None, flags=0):
        with warnings.catch_warnings():
            warnings.simplefilter('ignore')
            try:
                c = sv.compile(pattern, namespaces, flags, custom=custom)
            except Exception as ex:
                self.items.append((pattern, namespaces, custom, ex, []))
                return None
        self.items.append((pattern, namespaces, custom, c, ops))
        return c

    def paths(self, els):
        return [list(self.path_of[id(e)]) for e in els]


class OpTimeout(BaseException):
    pass


OP_TIMEOUT = int(os.environ.get('VERIF_OP_TIMEOUT', '30'))
TIMEOUTS = []          # (scenario, compiled, op): implementation calls that did not return within OP_TIMEOUT seconds


def _on_alarm(signum, frame):
    raise OpTimeout()


def real_op(sc, c, op):
    """One call on the implementation, under a watchdog: a call that does not return is an outcome too."""
    if any(t[1] is c and t[0] is sc for t in TIMEOUTS[-3:]):
        return ['error', 'timeout']          # this selector already hung on this tree: do not wait for every further call
    old = signal.signal(signal.SIGALRM, _on_alarm)
    signal.alarm(OP_TIMEOUT)
    try:
        return _real_op(sc, c, op)
    except OpTimeout:
        TIMEOUTS.append((sc, c, op))
        return ['error', 'timeout']
    finally:
        signal.alarm(0)
        signal.signal(signal.SIGALRM, old)


def _real_op(sc, c, op):
    kind = op[0]
    try:
        with warnings.catch_warnings():
            warnings.simplefilter('ignore')
            if kind == 'match':
                return ['ok', 'true' if c.match(sc.node_at[op[1]]) else 'false']
            if kind == 'select':
                return ['ok', sc.paths(c.select(sc.node_at[op[1]], limit=op[2]))]
            if kind == 'filter':
                return ['ok', sc.paths(c.filter(sc.node_at[op[1]]))]
            if kind == 'closest':
                r = c.closest(sc.node_at[op[1]])
                return ['ok', 'none' if r is None else ['some', list(sc.path_of[id(r)])]]
    except RecursionError:
        raise
    except Exception as ex:
        return canon_exc(ex)
    raise AssertionError(kind)


def op_sx(op):
    kind = op[0]
    p = bs4view.path_sx(op[1])
    if kind == 'select':
        return f'(select {p} {op[2]})'
    return f'({kind} {p})'


def canon_model(op, r):
    if r[0] != 'ok':
        return r if r[0] == 'raise' else ['error'] + r[1:]
    kind = op[0]
    if kind == 'match':
        return ['ok', r[1]]
    if kind in ('select', 'filter'):
        return ['ok', [[int(x) for x in p] for p in r[1]]]
    if kind == 'closest':
        return ['ok', 'none' if r[1] == 'none' else ['some', [int(x) for x in r[1][1]]]]


def run(scenarios, shards=16):
    """-> list of records dict(scenario, pattern, namespaces, op, real, model)"""
    if not lib.DRIVER_OK:
        return []
    drv = lib.Driver()
    blocks, index = [], []
    for si, sc in enumerate(scenarios):
        blk = [f'(settree {sc.sx})']
        idx = []
        for (pattern, ns, custom, c, ops) in sc.items:
            if not isinstance(c, sv.SoupSieve) or not ops:
                continue
            try:
                blk.append(f'(setsel {irdump.ns_sx(c.namespaces)} {irdump.sl_sx(c.selectors)})')
            except Exception as ex:
                idx.append(('irdump-failed', pattern, repr(ex)))
                blk.append('(noop)')
                continue
            idx.append(None)
            for op in ops:
                blk.append(op_sx(op))
                idx.append((pattern, ns, custom, c, op))
        blocks.append(blk)
        index.append(idx)
    results = lib.run_blocks(drv, blocks, shards=shards)
    records = []
    for sc, idx, res in zip(scenarios, index, results):
        for meta, r in zip(idx, res[1:]):
            if meta is None:
                continue
            if meta[0] == 'irdump-failed':
                records.append(dict(scenario=sc, pattern=meta[1], error='irdump: ' + meta[2]))
                continue
            pattern, ns, custom, c, op = meta
            real = real_op(sc, c, op)
            records.append(dict(scenario=sc, pattern=pattern, namespaces=ns, custom=custom, compiled=c, op=op,
                                real=real, model=canon_model(op, r)))
    return records


def describe(rec):
    sc = rec['scenario']
    top = sc.top
    try:
        mk = str(top)
    except Exception:
        mk = 'unserialisable tree; model view: ' + sc.sx
    return {'markup': mk if len(mk) < 1500 else mk[:1500] + '...', 'tree_label': sc.label, 'pattern': rec['pattern'],
            'namespaces': dict(rec['namespaces']) if rec.get('namespaces') else None, 'custom': rec.get('custom'),
            'op': [rec['op'][0], list(rec['op'][1])] + list(rec['op'][2:]), 'implementation': rec['real'],
            'model': rec['model']}
