"""E2 - parser correspondence: pattern (+ custom map) -> implementation outcome vs the extracted Coq parser.
Outcome = compiled structure (irdump S-expression) | exception class (+ line, column, context for SelectorSyntaxError)."""
import io, contextlib, warnings
import soupsieve as sv
from soupsieve import css_parser as cp, css_types as ct
import lib, irdump
from lib import s_str


def real_compile(pattern, custom=None, flags=0):
    sv.purge()
    try:
        with warnings.catch_warnings():
            warnings.simplefilter('ignore')
            with contextlib.redirect_stdout(io.StringIO()):
                c = sv.compile(pattern, None, flags, custom=custom)
        return ('ok', irdump.sl_sx(c.selectors), c)
    except sv.SelectorSyntaxError as ex:
        return ('sse', ex.line, ex.col, ex.context)
    except RecursionError:
        return ('raise', 'RecursionError')
    except Exception as ex:
        return ('raise', type(ex).__name__)


def custom_sx(custom):
    if custom is None:
        return 'none'
    return '(some (' + ' '.join(f'({s_str(k)} {s_str(v)})' for k, v in custom.items()) + '))'


def run(cases, shards=16):
    """cases: list of (pattern, custom|None).  -> list of dict(pattern, custom, real, model)"""
    drv = lib.Driver()
    outs = drv.run([f'(compile {s_str(p)} {custom_sx(cu)})' for p, cu in cases], shards=shards)
    recs = []
    ctx_req, ctx_idx = [], []
    for (p, cu), mo in zip(cases, outs):
        real = real_compile(p, cu)
        if mo[0] == 'ok':
            model = ('ok', mo[1])
        elif mo[0] == 'raise':
            e = mo[1]
            if isinstance(e, list) and e[0] == 'SelectorSyntaxError':
                model = ('sse', None if e[1] == 'none' else int(e[1]))
            else:
                model = ('raise', e)
        else:
            model = ('error', mo)
        recs.append(dict(pattern=p, custom=cu, real=real, model=model))
        if model[0] == 'sse' and model[1] is not None:
            ctx_req.append(f'(context {s_str(p.replace(chr(0), chr(0xfffd)))} {model[1]})')
            ctx_idx.append(len(recs) - 1)
    for i, mo in zip(ctx_idx, drv.run(ctx_req, shards=shards)):
        recs[i]['model_ctx'] = (lib.sx_to_str(mo[0]), int(mo[1]), int(mo[2]))
    return recs


def agree(rec):
    """None if implementation and model agree, else a description."""
    real, model = rec['real'], rec['model']
    if real[0] == 'ok':
        if model[0] != 'ok':
            return f'implementation compiles, model {model}'
        ms = model[1]
        if lib.parse_sexp(real[1]) != ms:
            return 'compiled structures differ'
        return None
    if real[0] == 'sse':
        if model[0] != 'sse':
            return f'implementation SelectorSyntaxError, model {model}'
        if model[1] is None or real[1] is None:
            return None if (model[1] is None) == (real[1] is None) else 'one of the two errors carries no position'
        nested = rec['custom'] is not None and ':--' in rec['pattern']
        if not nested and 'model_ctx' in rec:
            ctx, line, col = rec['model_ctx']
            if (line, col) != (real[1], real[2]):
                return f'error position differs: implementation line {real[1]} col {real[2]}, model line {line} col {col}'
            if ctx != real[3]:
                return 'error context differs'
        return None
    if real[0] == 'raise':
        if model[0] == 'raise' and model[1] == real[1]:
            return None
        return f'implementation raises {real[1]}, model {model}'
    return 'unexpected'
