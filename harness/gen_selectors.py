"""Seeded generator of selector strings over the whole supported grammar (mostly valid)."""
import soupsieve as sv

STATE = [':checked', ':default', ':indeterminate', ':disabled', ':enabled', ':required', ':optional', ':read-only',
         ':read-write', ':in-range', ':out-of-range', ':placeholder-shown', ':link', ':any-link', ':defined']
NOMATCH = [':hover', ':focus', ':visited', ':target', ':active', ':host', ':current']
STRUCT = [':root', ':empty', ':first-child', ':last-child', ':only-child', ':first-of-type', ':last-of-type',
          ':only-of-type']
LANGS = ['en', 'de', 'de-DE', '*', '*-DE', 'de-*', 'de-*-DE', 'en-US', '""', 'fr', 'de-Latn', 'de-*-1996', '*-x', 'de-x',
         '"en-*"', 'EN', 'zh-*-CN', 'en-a', 'de-DE-*', "'*-*'", 'fr, en', 'de, "*-US"']


class SGen:
    def __init__(self, rnd, names=None, classes=None, ids=None, attrs=None, values=None, texts=None, feats=('core',),
                 prefixes=None, langs=None):
        self.r = rnd
        self.names = names or ['div', 'p', 'span', 'a', 'li']
        self.classes = classes or ['x', 'y']
        self.ids = ids or ['a', 'b']
        self.attrs = attrs or ['title', 'href', 'class', 'id', 'type', 'name']
        self.values = values or ['x', 'y', '']
        self.texts = texts or ['hello', 'x']
        self.feats = set(feats)
        self.prefixes = prefixes or []

    def ident(self, s):
        return sv.escape(s) if s else 'x'

    def value(self):
        v = self.r.choice(self.values) if self.r.random() < 0.8 else self.r.choice(['', 'x', 'X', 'a b', 'é', 'zz'])
        q = self.r.random()
        if v and q < 0.3 and all(c.isalnum() or c in '-_' for c in v) and not v[0].isdigit() and v != '-' and not (v[0] == '-' and len(v) > 1 and v[1].isdigit()):
            return v
        if q < 0.65:
            return '"' + v.replace('\\', '\\\\').replace('"', '\\"').replace('\n', '\\a ').replace('\t', '\\9 ').replace('\r', '\\d ').replace('\x0c', '\\c ') + '"'
        return "'" + v.replace('\\', '\\\\').replace("'", "\\'").replace('\n', '\\a ').replace('\t', '\\9 ').replace('\r', '\\d ').replace('\x0c', '\\c ') + "'"

    def type_sel(self):
        r = self.r
        name = r.choice(self.names) if r.random() < 0.75 else '*'
        if name != '*' and r.random() < 0.12:
            name = name.upper() if r.random() < 0.5 else name.title()
        if name != '*':
            name = self.ident(name)
        if 'ns' in self.feats and r.random() < 0.55:
            pf = r.choice(self.prefixes + ['*', '', 'nope'])
            return pf + '|' + name
        return name

    def attr_sel(self):
        r = self.r
        name = self.ident(r.choice(self.attrs))
        if r.random() < 0.1:
            name = name.upper()
        if 'ns' in self.feats and r.random() < 0.5:
            name = r.choice(self.prefixes + ['*', '', 'nope']) + '|' + name
        if r.random() < 0.3:
            return f'[{name}]'
        op = r.choice(['=', '~=', '|=', '^=', '$=', '*=', '!=', '=', '='])
        flag = r.choice(['', '', '', ' i', ' s', ' I'])
        return f'[{name}{op}{self.value()}{flag}]'

    def nth(self):
        r = self.r
        kind = r.choice(['nth-child', 'nth-last-child', 'nth-of-type', 'nth-last-of-type'])
        a = r.choice([0, 1, 2, 3, -1, -2, -3, 4, 5, -5])
        b = r.choice([0, 1, 2, 3, -1, -2, 4, 5, 6, -4])
        k = r.random()
        if k < 0.1:
            arg = r.choice(['even', 'odd', 'EVEN', 'Odd'])
        elif k < 0.25:
            arg = str(r.choice([1, 2, 3, 4, 0, 7]))
        else:
            an = {1: 'n', -1: '-n'}.get(a, f'{a}n') if r.random() < 0.7 else f'{a}n'
            if r.random() < 0.2:
                an = '+' + an if not an.startswith('-') else an
            if b == 0 and r.random() < 0.5:
                arg = an
            else:
                sp = r.choice(['', ' ', '  '])
                arg = f'{an}{sp}{"+" if b >= 0 else "-"}{sp}{abs(b)}'
        if 'child' in kind and r.random() < 0.3:
            arg += ' of ' + self.slist(2, simple=True)
        return f':{kind}({arg})'

    def pseudo(self, depth):
        r = self.r
        pool = []
        pool += ['struct'] * 4 + ['logic'] * 5 + ['nth'] * 3
        if 'state' in self.feats:
            pool += ['state'] * 6
        if 'lang' in self.feats:
            pool += ['lang'] * 5
        if 'dir' in self.feats:
            pool += ['dir'] * 4
        if 'contains' in self.feats:
            pool += ['contains'] * 5
        if 'misc' in self.feats:
            pool += ['nomatch', 'scope', 'scope', 'custom']
        k = r.choice(pool)
        if k == 'struct':
            return r.choice(STRUCT)
        if k == 'nth':
            return self.nth()
        if k == 'state':
            return r.choice(STATE)
        if k == 'lang':
            return ':lang(' + r.choice(LANGS) + ')'
        if k == 'dir':
            return ':dir(' + r.choice(['ltr', 'rtl', 'LTR', 'Rtl']) + ')'
        if k == 'contains':
            name = r.choice([':-soup-contains', ':-soup-contains-own', ':-soup-contains'])
            vals = ', '.join(self.text_value() for _ in range(r.choice([1, 1, 2])))
            return f'{name}({vals})'
        if k == 'nomatch':
            return r.choice(NOMATCH)
        if k == 'scope':
            return r.choice([':scope', '&'])
        if k == 'custom':
            return ':--cust'
        # logic
        if depth <= 0:
            return r.choice(STRUCT)
        name = r.choice([':not', ':is', ':where', ':matches', ':has', ':not', ':is'])
        if name == ':has':
            parts = []
            for _ in range(r.choice([1, 1, 2])):
                lead = r.choice(['', '> ', '+ ', '~ ', ''])
                parts.append(lead + self.complex(depth - 1))
            return ':has(' + ', '.join(parts) + ')'
        return f'{name}({self.slist(depth - 1)})'

    def text_value(self):
        v = self.r.choice(self.texts)
        if self.r.random() < 0.3 and v and all(c.isalnum() for c in v) and not v[0].isdigit():
            return v
        return '"' + v.replace('\\', '\\\\').replace('"', '\\"').replace('\n', '\\a ') + '"'

    def compound(self, depth, simple=False):
        r = self.r
        parts = []
        if r.random() < 0.6:
            parts.append(self.type_sel())
        n = r.choice([0, 1, 1, 2]) if parts else r.choice([1, 1, 2])
        for _ in range(n):
            k = r.random()
            if k < 0.2:
                parts.append('.' + self.ident(r.choice(self.classes)))
            elif k < 0.32:
                parts.append('#' + self.ident(r.choice(self.ids)))
            elif k < 0.55:
                parts.append(self.attr_sel())
            elif simple:
                parts.append(r.choice(STRUCT))
            else:
                parts.append(self.pseudo(depth))
        return ''.join(parts)

    def complex(self, depth, simple=False):
        r = self.r
        s = self.compound(depth, simple)
        for _ in range(r.choice([0, 0, 0, 1, 1, 2])):
            comb = r.choice([' ', ' > ', ' + ', ' ~ ', ' ', '>', '+', '~'])
            s += comb + self.compound(depth, simple)
        return s

    def slist(self, depth, simple=False):
        r = self.r
        return ', '.join(self.complex(depth, simple) for _ in range(r.choice([1, 1, 1, 2, 3])))

    def selector(self, depth=2):
        return self.slist(depth)


def pools_from_soup(top):
    import bs4
    names, classes, ids, attrs, values, texts = set(), set(), set(), set(), set(), set()
    it = [top] if not isinstance(top, bs4.BeautifulSoup) else []
    for el in it + list(top.find_all(True)):
        names.add(el.name.split(':')[-1])
        for k, v in el.attrs.items():
            ks = str(k)
            attrs.add(getattr(k, 'name', None) or ks)
            vs = v if isinstance(v, list) else [v]
            for x in vs:
                if isinstance(x, str):
                    (classes if ks == 'class' else ids if ks == 'id' else values).add(x)
                    if ks == 'class':
                        for c in x.split():
                            classes.add(c)
                    if len(x) > 1:
                        values.add(x[:len(x) // 2])
                        values.add(x[len(x) // 2:])
    langs = set()
    for el in it + list(top.find_all(True)):
        for k, v in el.attrs.items():
            if str(k).lower() in ('lang', 'xml:lang') and isinstance(v, str):
                langs.add(v)
            if el.name.lower() == 'meta' and str(k).lower() == 'content' and isinstance(v, str):
                langs.add(v)
    for s in top.find_all(string=True):
        t = str(s)
        if t.strip():
            texts.add(t.strip()[:6])
            texts.add(t.strip()[-3:])
    f = lambda s, d: sorted(x for x in s if x) or d
    return dict(names=f(names, ['div']), classes=f(classes, ['x']), ids=f(ids, ['a']), attrs=f(attrs, ['title']),
                values=sorted(values) or ['x'], texts=f(texts, ['x']), langs=sorted(langs))


# ------------------------------------------------------------------ AST generator (for the reference oracle)
KEYWORDS = ['root', 'empty', 'first-child', 'last-child', 'only-child', 'first-of-type', 'last-of-type', 'only-of-type']


def q(v):
    """quote a string value"""
    out = '"'
    for c in v:
        if c in '"\\':
            out += '\\' + c
        elif c in '\n\r\f\t' or ord(c) < 0x20:
            out += '\\%x ' % ord(c)
        else:
            out += c
    return out + '"'


def show_compound(cp):
    s = ''
    t = cp.get('type')
    if t is not None:
        pf, name = t
        s += ('' if pf is None else pf + '|') + (name if name == '*' else sv.escape(name))
    for i in cp.get('ids', []):
        s += '#' + sv.escape(i)
    for c in cp.get('classes', []):
        s += '.' + sv.escape(c)
    for (pf, name, op, value, flag) in cp.get('attrs', []):
        s += '[' + ('' if pf is None else pf + '|') + sv.escape(name)
        if op is not None:
            s += op + q(value) + ('' if flag is None else ' ' + flag)
        s += ']'
    for ps in cp.get('pseudos', []):
        k = ps[0]
        if k == 'nth':
            _, kind, a, b, of = ps
            s += f':{kind}({a}n{"+" if b >= 0 else "-"}{abs(b)}' + ('' if of is None else ' of ' + show_list(of)) + ')'
        elif k in ('not', 'is'):
            s += f':{ps[2] if len(ps) > 2 else k}({show_list(ps[1])})'
        elif k == 'has':
            s += ':has(' + ', '.join(('' if comb == ' ' else comb + ' ') + show_complex(cx) for comb, cx in ps[1]) + ')'
        elif k == 'contains':
            s += (':-soup-contains-own(' if ps[1] else ':-soup-contains(') + ', '.join(q(t) for t in ps[2]) + ')'
        elif k == 'lang':
            s += ':lang(' + ', '.join(q(t) for t in ps[1]) + ')'
        else:
            s += ':' + k
    return s


def show_complex(cx):
    s = show_compound(cx[0])
    for comb, cp in cx[1:]:
        s += (' ' if comb == ' ' else f' {comb} ') + show_compound(cp)
    return s


def show_list(sl):
    return ', '.join(show_complex(cx) for cx in sl)


def uni_case(rnd, name):
    """A spelling that only a NON-ASCII case mapping relates to `name` (Kelvin sign for k, long s for s, upper-case of a
    non-ASCII letter): in HTML, names are compared ASCII case-insensitively, so these must not match."""
    opts = []
    if 'k' in name:
        opts.append(name.replace('k', '\u212a', 1))
    if 's' in name:
        opts.append(name.replace('s', '\u017f', 1))
    if any(ord(c) > 127 for c in name) and name.upper() != name:
        opts.append(''.join(c.upper() if ord(c) > 127 else c for c in name))
    return rnd.choice(opts) if opts else name.upper()


class AGen:
    def __init__(self, rnd, names, classes, ids, attrs, values, texts=None, prefixes=None, feats=('core',), ascii_ci=True, langs=None, nsmap=None):
        self.r = rnd
        self.langs = langs or []
        self.nsmap = nsmap or {}
        self.names, self.classes, self.ids, self.attrs, self.values = names, classes, ids, attrs, values
        self.texts = texts or ['x']
        self.prefixes = prefixes or []
        self.feats = set(feats)

    def type_sel(self):
        r = self.r
        name = r.choice(self.names) if r.random() < 0.75 else '*'
        if name != '*' and 'case' in self.feats and r.random() < 0.3:
            name = r.choice([name.upper(), name.title(), name.swapcase(), uni_case(r, name)])
        if name != '*' and 'k' in name and r.random() < 0.25:
            name = name.replace('k', '\u212a', 1)        # KELVIN SIGN: not an ASCII case variant of k, matches nothing
        pf = None
        if 'ns' in self.feats and r.random() < 0.55:
            pf = r.choice(self.prefixes + ['*', '', 'nope'])
        return (pf, name)

    def attr(self):
        r = self.r
        name = r.choice(self.attrs)
        if 'k' in name and r.random() < 0.2:
            name = name.replace('k', '\u212a', 1)        # KELVIN SIGN: only a non-ASCII case mapping relates it to k
        if 'case' in self.feats and r.random() < 0.3:
            name = r.choice([name.upper(), name.title(), uni_case(r, name)])
        pf = None
        if 'ns' in self.feats and r.random() < 0.5:
            pf = r.choice(self.prefixes + ['*', '', 'nope'])
        if r.random() < 0.25:
            return (pf, name, None, '', None)
        op = r.choice(['=', '~=', '|=', '^=', '$=', '*=', '!=', '=', '^=', '$=', '*='])
        v = r.choice(self.values) if r.random() < 0.85 else r.choice(['', 'zz', ' '])
        flag = r.choice([None, None, None, 'i', 's'])
        if 'case' in self.feats and v.isascii() and r.random() < 0.4:
            v = r.choice([v.upper(), v.lower(), v.swapcase()])
        if flag == 'i' and not v.isascii():
            flag = None
        return (pf, name, op, v, flag)

    def pseudo(self, depth):
        r = self.r
        pool = ['kw'] * 4 + ['nth'] * 3 + (['logic'] * 5 if depth > 0 else [])
        if 'contains' in self.feats:
            pool += ['contains'] * 5 + ['kw_empty'] * 2
        if 'lang' in self.feats:
            pool += ['lang'] * 10
        k = r.choice(pool)
        if k == 'lang':
            RANGES = ['en', 'de', 'de-DE', '*', '*-DE', 'de-*', 'de-*-DE', 'en-US', '', 'fr', 'de-Latn', 'de-*-1996', '*-x',
                      'de-x', 'en-*', 'EN', 'zh-*-CN', 'en-a', 'de-DE-*', '*-*', 'de-DE-1996', 'de-Latn-DE', 'en-a-bbb',
                      'fr-x-private', 'de-1996', '*-1996', 'en-bbb', 'de-x-mundart', 'de-mundart', 'es', 'zh-Hant', 'zh-CN',
                      '*-*-*', 'de-*-*', 'e', 'en-', '-en', 'en--US', 'fr-CH', 'en-GB', 'de-CH']
            def rng():
                if self.langs and r.random() < 0.4:
                    # a range derived from a language that occurs in the document (attribute or <meta> pragma)
                    l = r.choice(self.langs)
                    sub = l.split('-')
                    return r.choice([l, sub[0], sub[0] + '-*', '*-' + sub[-1], l.upper(), '*', sub[0] + '-*-' + sub[-1], l + '-x'])
                return r.choice(RANGES)
            return ('lang', [rng() for _ in range(r.choice([1, 1, 1, 2, 3]))])
        if k == 'kw':
            return (r.choice(KEYWORDS),)
        if k == 'kw_empty':
            return ('empty',)
        if k == 'contains':
            return ('contains', r.random() < 0.4, [r.choice(self.texts) for _ in range(r.choice([1, 1, 2]))])
        if k == 'nth':
            kind = r.choice(['nth-child', 'nth-last-child', 'nth-of-type', 'nth-last-of-type'])
            a = r.choice([0, 1, 2, 3, -1, -2, -3, 4, -4, 5])
            b = r.choice([0, 1, 2, 3, -1, -2, -3, 4, 5, -5, 6])
            of = None
            if 'child' in kind and depth > 0 and r.random() < 0.3:
                of = self.slist(0)
            return ('nth', kind, a, b, of)
        name = r.choice(['not', 'is', 'where', 'matches', 'has', 'not', 'is'])
        if name == 'has':
            return ('has', [(r.choice([' ', '>', '+', '~', ' ']), self.complex(depth - 1)) for _ in range(r.choice([1, 1, 2]))])
        if name == 'not':
            return ('not', self.slist(depth - 1))
        return ('is', self.slist(depth - 1), name)

    def compound(self, depth):
        r = self.r
        cp = {'ids': [], 'classes': [], 'attrs': [], 'pseudos': []}
        if r.random() < 0.6:
            cp['type'] = self.type_sel()
        n = r.choice([0, 1, 1, 2]) if 'type' in cp else r.choice([1, 1, 2])
        for _ in range(n):
            k = r.random()
            if k < 0.2:
                cp['classes'].append(r.choice(self.classes))
            elif k < 0.3:
                cp['ids'].append(r.choice(self.ids))
            elif k < 0.6:
                cp['attrs'].append(self.attr())
            else:
                cp['pseudos'].append(self.pseudo(depth))
        return cp

    def complex(self, depth):
        cx = [self.compound(depth)]
        for _ in range(self.r.choice([0, 0, 0, 1, 1, 2])):
            cx.append((self.r.choice([' ', '>', '+', '~']), self.compound(depth)))
        return cx

    def slist(self, depth):
        return [self.complex(depth) for _ in range(self.r.choice([1, 1, 1, 2, 3]))]

    def selector(self, depth=2):
        sl = self.slist(depth)
        return show_list(sl), sl

    # ---- selectors derived from relationships that really occur in the tree (so the positive case is exercised)
    def _compound_for(self, el):
        r = self.r
        cp = {'ids': [], 'classes': [], 'attrs': [], 'pseudos': []}
        if el.name in self.names and r.random() < 0.8:
            cp['type'] = (None, el.name)
        cls = el.attrs.get('class')
        if isinstance(cls, list) and cls and all(isinstance(c, str) and c in self.classes for c in cls) and r.random() < 0.3:
            cp['classes'].append(r.choice(cls))
        if 'type' not in cp and not cp['classes']:
            cp['type'] = (None, '*')
        return cp

    def directed(self, top):
        import bs4
        r = self.r
        els = [e for e in top.descendants if isinstance(e, bs4.Tag)]
        if not els:
            return self.selector(1)
        for _ in range(20):
            y = r.choice(els)
            rels = []
            prevs = [s_ for s_ in y.previous_siblings if isinstance(s_, bs4.Tag)]
            if prevs:
                rels.append(('+', prevs[0]))
                rels.append(('~', r.choice(prevs)))
            par = y.parent
            if isinstance(par, bs4.Tag) and not isinstance(par, bs4.BeautifulSoup):
                rels.append(('>', par))
                anc = [a for a in y.parents if isinstance(a, bs4.Tag) and not isinstance(a, bs4.BeautifulSoup)]
                rels.append((' ', r.choice(anc)))
            if rels:
                break
        else:
            return self.selector(1)
        if self.nsmap and r.random() < 0.45:
            # an attribute that really is in a namespace the caller mapped: [pf|name], [pf|name=value]; or an element in one
            rev = {}
            for pf_, u_ in self.nsmap.items():
                if pf_:
                    rev.setdefault(u_, []).append(pf_)
            cands = [(e, k, v) for e in els for k, v in e.attrs.items() if getattr(k, 'namespace', None) in rev and isinstance(v, str) and getattr(k, 'name', None)]
            if cands and r.random() < 0.7:
                e, k, v = r.choice(cands)
                c = self._compound_for(e) if r.random() < 0.5 else {'ids': [], 'classes': [], 'attrs': [], 'pseudos': []}
                c['attrs'] = [(r.choice(rev[k.namespace]), k.name, None, '', None) if r.random() < 0.5 else
                              (r.choice(rev[k.namespace]), k.name, '=', v, None)]
                return show_list([[c]]), [[c]]
            ecands = [e for e in els if getattr(e, 'namespace', None) in rev and e.name.split(':')[-1] in self.names]
            if ecands:
                e = r.choice(ecands)
                c = {'ids': [], 'classes': [], 'attrs': [], 'pseudos': [], 'type': (r.choice(rev[e.namespace]), e.name.split(':')[-1])}
                return show_list([[c]]), [[c]]
        if r.random() < 0.2:
            # a childless (no element child) element asked about :empty
            leaves = [e for e in els if not any(isinstance(c, bs4.Tag) for c in e.contents)]
            if leaves:
                c = self._compound_for(r.choice(leaves))
                c['pseudos'] = [('empty',)] if r.random() < 0.6 else [('not', [[{'ids': [], 'classes': [], 'attrs': [], 'pseudos': [('empty',)]}]])]
                return show_list([[c]]), [[c]]
        comb, x = r.choice(rels)
        cx, cy = self._compound_for(x), self._compound_for(y)
        form = r.choice(['plain', 'plain', 'not', 'is', 'has', 'nothas'])
        if form == 'plain':
            sl = [[cx, (comb, cy)]]
        elif form == 'not':
            c = dict(cy); c['pseudos'] = [('not', [[cx, (comb, self._compound_for(y))]])]
            sl = [[c]]
        elif form == 'is':
            c = {'ids': [], 'classes': [], 'attrs': [], 'pseudos': [('is', [[cx, (comb, cy)]] + self.slist(0), 'is')]}
            sl = [[c]]
        else:
            c = dict(cx); c['pseudos'] = [('has', [(comb, [cy])])]
            if form == 'nothas':
                c = {'ids': [], 'classes': [], 'attrs': [], 'pseudos': [('not', [[c]])]}
            sl = [[c]]
        return show_list(sl), sl
