"""Selector strings for the parser properties: a valid stream (generators of gen_selectors) and a malformed
stream (token-level mutations and raw strings over a lexically nasty alphabet)."""
ALPHABET = ['a', 'b', 'f', '1', '4', '9', '-', '_', '\\', ' ', '\n', '\t', '\r', '\f', '|', '*', '[', ']', '=', '"', "'", '(', ')', ':',
            ',', '>', '+', '~', '#', '.', '/', 'n', 'i', 's', '\x80', 'é', '^', '$', '!', '0', 'A', 'F', 'g', '\x00', '@', '&', '\U0001F600',
            '\ud800', 'ſ', 'K', '%', '{', '}', ';', '<']
FRAGS = ['\\41 ', '\\41b', '\\g', 'a|b', '[a=b]', '[a="x"]', ':is(', ':not(', ')', ':lang(', ':nth-child(', '2n+1', ' of ', '/* c */',
         ':-soup-contains(', '"a\\"b"', "'x'", '--', '-a', '*|*', '|a', '::', '@pa', '&', ':--c', ':has(', '> ', ':root', ':dir(ltr)',
         ':nth-last-of-type(', 'even', '-n+3', ':contains(', '\\110000', '\\0', '\\', '/*', '*/', '[a', '="', ' i]', ':hover', ':host(',
         ':current(', ':where(', ':matches(', '\\\n', ':--d', ':lang("', ':nth-child(9999999999999999999999n)', 'html|', ':checked',
         ':in-range', '[type=', ':only-child', ' , ', ':is()', ':not()', ':has()',
         # characters that mean something to str.format / % / re / repr when a name is interpolated into a message
         ':x\\{y\\}', ':hover\\{', ':--t\\{n\\}', ':nth\\7b 1\\7d ', ':a\\%s', ':x\\{0\\}', '\\{\\}', '\\%\\(a\\)s', ':\\\\N', '::x\\{', '@x\\{',
         ':is(a\\{)', '[a\\{=b]', '#\\{0\\}', '.\\%d']


def raw(rnd, maxlen=12):
    k = rnd.randint(0, maxlen)
    return ''.join(rnd.choice(FRAGS) if rnd.random() < 0.35 else rnd.choice(ALPHABET) for _ in range(k))


def mutate(rnd, s):
    if not s:
        return raw(rnd, 4)
    k = rnd.randrange(7)
    i = rnd.randrange(len(s))
    if k == 0:
        return s[:i]                                  # truncate
    if k == 1:
        return s[:i] + s[i + 1:]                      # delete
    if k == 2:
        return s[:i] + s[i] + s[i:]                   # duplicate
    if k == 3:
        return s[:i] + rnd.choice(ALPHABET) + s[i:]   # insert
    if k == 4:
        return s[:i] + rnd.choice(ALPHABET) + s[i + 1:]
    if k == 5:
        j = rnd.randrange(len(s))
        i, j = min(i, j), max(i, j)
        return s[:i] + s[j:] + s[i:j]                 # move
    return s[:i] + rnd.choice(FRAGS) + s[i:]


def custom_map(rnd):
    k = rnd.random()
    if k < 0.5:
        return {':--c': 'p', ':--d': 'div > :--c'}
    if k < 0.6:
        return {':--c': ':--d', ':--d': ':--c'}                      # cycle
    if k < 0.7:
        return {':--c': raw(rnd, 6), ':--D': 'p'}
    if k < 0.8:
        return {rnd.choice([':--c', '--c', ':-c', ':--', ':--c d', ':--\\63 ', '']): 'p', ':--d': raw(rnd, 5)}
    if k < 0.85:
        return {':--c': 'p', ':--C': 'div'}                          # differ only in case: KeyError
    if k < 0.9:
        return {}
    return {':--c': ':is(:--c, p)', ':--d': ':--c b'}
