"""Seeded generators of abstract trees and their materialisation as live bs4 trees
(directly through the bs4 API, or by serialising and parsing with an installed parser)."""
import bs4
from bs4 import BeautifulSoup
from bs4.element import NamespacedAttribute, NavigableString, Comment, CData, ProcessingInstruction, Doctype, Declaration

XHTML = 'http://www.w3.org/1999/xhtml'
SVG = 'http://www.w3.org/2000/svg'
XLINK = 'http://www.w3.org/1999/xlink'
XMLNS = 'http://www.w3.org/XML/1998/namespace'
MATH = 'http://www.w3.org/1998/Math/MathML'

NAMES = ['div', 'p', 'span', 'a', 'ul', 'li', 'b', 'em', 'x-y', 'section', 'dd', 'Section', 'DIV', 'kbd']     # case survives in API-built and XML trees
CLASSES = ['x', 'y', 'zed', 'X', 'a-b', 'é']
IDS = ['a', 'b', 'main', 'A', '1st', 'i d']
TEXTS = ['', ' ', '\n', ' \t\n', 'hello', 'hello world', 'x', 'a"b', "it's", 'אבג', 'مرحبا', '123', '  pad  ',
         '\xa0', 'line\nbreak', 'end', ' ', 'abc\x0bdef', '١٢٣ abc', 'ab', 'cd', 'abcd', 'Hello', 'say "hi"', "'q'", 'x"', "don'", 'b\\']
ATTR_VALUES = ['', 'x', 'x y', 'en', 'en-US', 'de-DE-1996', 'a-b', 'a b c', 'X', 'val', 'val\n', ' x', 'x-', 'true', 'TRUE',
               'é', 'http://e/x', '#frag', 'x\ty', '-', 'abc', 'ABC', 'ab', 'bc', 'say "hi"', "it's'", '"', "'", 'a\\']
GENERIC_ATTRS = ['title', 'href', 'data-x', 'lang', 'dir', 'TITLE', 'rel', 'name', 'hidden', 'contenteditable', 'kind']
INPUT_TYPES = ['text', 'checkbox', 'radio', 'submit', 'hidden', 'number', 'range', 'date', 'month', 'week', 'time',
               'datetime-local', 'tel', 'email', 'url', 'search', 'password', 'button', '', 'TEXT', 'Radio', 'bogus',
               'image', 'Image', 'reset', 'file', 'color']


class TGen:
    def __init__(self, rnd):
        self.r = rnd

    def pick(self, l):
        return self.r.choice(l)

    def text_node(self):
        k = self.r.random()
        if k < 0.72:
            return ('t', self.pick(TEXTS))
        if k < 0.86:
            return ('c', self.pick(TEXTS))
        if k < 0.91:
            return ('cdata', self.pick(TEXTS))
        if k < 0.95:
            return ('pi', 'php ' + self.pick(TEXTS))
        if k < 0.98:
            return ('decl', 'ELEMENT br EMPTY')
        return ('doctype', 'html')

    def attrs_generic(self, name):
        a = {}
        r = self.r
        if r.random() < 0.35:
            a['class'] = ' '.join(r.sample(CLASSES, r.randint(0, 3)))
        if r.random() < 0.3:
            a['id'] = self.pick(IDS)
        for _ in range(r.choice([0, 0, 1, 1, 2])):
            k = self.pick(GENERIC_ATTRS)
            if k == 'lang':
                a[k] = self.pick(['en', 'en-US', 'de', 'de-DE', 'de-Latn-DE-1996', '', 'fr-x-private', 'zh-Hant', 'EN', 'en-a-bbb'])
            elif k == 'dir':
                a[k] = self.pick(['ltr', 'rtl', 'auto', 'LTR', 'bogus', ''])
            else:
                a[k] = self.pick(ATTR_VALUES)
        if name == 'a' and r.random() < 0.6:
            a['href'] = self.pick(ATTR_VALUES)
        return a

    def generic(self, depth=0, maxdepth=4):
        r = self.r
        name = self.pick(NAMES)
        kids = []
        if depth < maxdepth:
            n = r.choice([0, 0, 1, 1, 2, 3, 4]) if depth else r.choice([1, 2, 3, 4, 5])
            gap = r.choice(['none'] * 5 + ['ws'] * 3 + ['mixed'] * 2)
            for i in range(n):
                if gap == 'ws':
                    kids.append(('t', self.pick(['\n', ' ', '\n  '])))
                elif gap == 'mixed' and r.random() < 0.7:
                    # any kind of non-element node between two element siblings
                    kids.append(self.pick([('c', 'note'), ('c', ''), ('t', 'txt'), ('t', ' '), ('cdata', 'cd'), ('pi', 'php x')]))
                if r.random() < 0.72:
                    kids.append(self.generic(depth + 1, maxdepth))
                    if r.random() < 0.12:
                        kids.append(kids[-1])          # an identical twin right after it
                else:
                    kids.append(self.text_node())
        if not kids and r.random() < 0.25:
            # childless elements with white-space-LIKE content: only [ \t\r\n\f] is CSS white space
            kids = [('t', self.pick(['', ' ', '\n', '\xa0', '\x0b', '\u2003', '\x1c', '\u3000', ' \t\r\n\f', '\u200b', ' \xa0']))
                    for _ in range(r.choice([1, 1, 2]))]
            if r.random() < 0.3:
                kids.insert(r.randrange(len(kids) + 1), self.pick([('c', 'x'), ('cdata', ' '), ('pi', 'php x')]))
        return ('e', name, self.attrs_generic(name), kids)

    # ---- forms / state pseudo-classes
    def control(self, depth):
        r = self.r
        kind = self.pick(['input', 'input', 'input', 'button', 'select', 'textarea', 'progress', 'fieldset', 'option',
                          'optgroup', 'a', 'area', 'div', 'label', 'radiogroup', 'radiogroup', 'submit'])
        a = {}
        kids = []
        if kind == 'radiogroup':
            radios = []
            for _ in range(r.randint(2, 5)):
                ra = {'type': self.pick(['radio', 'radio', 'RADIO', 'checkbox']), 'name': self.pick(['g', 'G', 'h', 'g', ''])}
                if r.random() < 0.25:
                    # case-preserving trees (bs4 API, XML parser) keep the spelling
                    ra[self.pick(['checked'] * 4 + ['CHECKED', 'Checked'])] = ''
                if r.random() < 0.1:
                    del ra['name']
                radios.append(('e', 'input', ra, []))
            if r.random() < 0.35:
                # other inputs among the radios: without a type, without a name, with odd spellings
                odd = self.pick([{'name': 'q'}, {}, {'name': 'g'}, {'type': '', 'name': 'g'}, {'TYPE': 'radio', 'name': 'g'}, {'type': 'radio'}])
                radios.insert(r.randrange(len(radios) + 1), ('e', 'input', dict(odd), []))
            return ('e', self.pick(['div', 'p', 'span']), {}, radios)
        if kind == 'submit':
            sub = ('e', self.pick(['input', 'button']), {'type': self.pick(['submit', 'SUBMIT', 'submit'])}, [])
            if r.random() < 0.3:
                # controls that look like submit buttons but are not the ones :default is defined by, before the real one
                decoy = ('e', 'input', {'type': self.pick(['image', 'IMAGE', 'reset', 'button', 'submit '])}, [])
                return ('e', self.pick(['span', 'p', 'div']), {}, [decoy, sub])
            return sub
        if kind == 'input':
            if r.random() < 0.9:
                a['type'] = self.pick(INPUT_TYPES)
            if r.random() < 0.5:
                a['name'] = self.pick(['g', 'h', 'G', ''])
            for k, p in (('checked', 0.3), ('disabled', 0.2), ('readonly', 0.2), ('required', 0.25), ('indeterminate', 0.15)):
                if r.random() < p:
                    a[k] = self.pick(['', k])
            if r.random() < 0.3:
                a['placeholder'] = self.pick(['', 'ph', ' '])
            if r.random() < 0.4:
                a['value'] = self.pick(['', 'v', '5', 'abc', 'אבג', '2020-01-01', '12:30', '١٢', '9999-12-31', '10000-01-01', '12345-06', '10000-01-01T00:00'])
            if r.random() < 0.3:
                a['min'] = self.pick(['0', '5', '2020-01-01', '10:00', '2020-W10', 'x', '', '10000-01-01', '9999-12', '10000-02-29T12:00'])
            if r.random() < 0.3:
                a['max'] = self.pick(['10', '3', '2021-01-01', '09:00', '2020-W20', 'x', '', '10001-01-01', '10000-01', '99999-12-31T23:59'])
            if r.random() < 0.2:
                a['dir'] = self.pick(['auto', 'ltr', 'rtl'])
        elif kind == 'button':
            if r.random() < 0.6:
                a['type'] = self.pick(['submit', 'button', 'reset', 'SUBMIT', ''])
            if r.random() < 0.2:
                a['disabled'] = ''
            kids = [('t', 'ok')]
        elif kind == 'textarea':
            for k, p in (('disabled', 0.2), ('readonly', 0.25), ('required', 0.25)):
                if r.random() < p:
                    a[k] = ''
            if r.random() < 0.5:
                a['placeholder'] = self.pick(['', 'ph'])
            if r.random() < 0.3:
                a['dir'] = 'auto'
            kids = [('t', self.pick(['', '\n', 'txt', 'אבג', '\n\n']))] if r.random() < 0.6 else []
            if r.random() < 0.25:
                # markup inside a textarea stays markup for html.parser and XML parsers: content only in child elements
                kids = self.pick([[('e', 'p', {}, [('t', 'Hello')])], [('e', 'b', {}, [])], [('t', '\n'), ('e', 'i', {}, [('t', 'אבג')])],
                                  [('e', 'p', {}, [('e', 'b', {}, [('t', 'deep')])])]])
        elif kind == 'select':
            for k, p in (('disabled', 0.2), ('required', 0.3)):
                if r.random() < p:
                    a[k] = ''
            kids = [('e', 'option', {'selected': ''} if r.random() < 0.4 else {}, [('t', 'o')]) for _ in range(r.randint(0, 2))]
        elif kind == 'progress':
            if r.random() < 0.5:
                a['value'] = '1'
        elif kind == 'fieldset':
            if r.random() < 0.5:
                a['disabled'] = ''
            if depth < 3:
                if r.random() < 0.6:
                    kids.append(('e', 'legend', {}, [self.control(depth + 1)] if r.random() < 0.7 else []))
                for _ in range(r.randint(0, 3)):
                    kids.append(self.control(depth + 1))
                if r.random() < 0.3:
                    kids.append(('e', 'legend', {}, [self.control(depth + 1)]))
        elif kind == 'optgroup':
            if r.random() < 0.5:
                a['disabled'] = ''
            kids = [('e', 'option', {}, [('t', 'o')]) for _ in range(r.randint(0, 2))]
        elif kind == 'option':
            if r.random() < 0.5:
                a['selected'] = ''
            if r.random() < 0.2:
                a['disabled'] = ''
        elif kind in ('a', 'area'):
            if r.random() < 0.7:
                a['href'] = '#'
        elif kind == 'div':
            if r.random() < 0.5:
                a['contenteditable'] = self.pick(['', 'true', 'TRUE', 'false', 'bogus'])
            if depth < 3:
                kids = [self.control(depth + 1) for _ in range(r.randint(0, 2))]
        return ('e', kind, a, kids)

    def form(self, depth=0):
        r = self.r
        kids = []
        for _ in range(r.randint(0, 5)):
            k = r.random()
            if k < 0.1 and depth < 2:
                kids.append(self.form(depth + 1))          # nested form (only constructible through the API)
            elif k < 0.25 and depth < 2:
                inner = [self.form(depth + 1) if r.random() < 0.5 else self.control(depth + 1) for _ in range(r.randint(1, 3))]
                ifr = ('e', 'iframe', {}, [('e', 'html', {}, [('e', 'body', {}, inner)])])
                # sometimes as the last child of a wrapper that is the last child of its own parent (no trailing nodes)
                for _ in range(r.choice([0, 0, 1, 2, 3])):
                    ifr = ('e', self.pick(['div', 'span', 'fieldset']), {}, [ifr])
                kids.append(ifr)
            elif k < 0.31:
                # a FOREIGN element called iframe (namespace-aware parsers keep it in the SVG namespace): not a document boundary
                kids.append(('e', 'svg', {}, [('e', 'iframe', {}, [('e', 'foreignObject', {}, [self.control(depth + 1), self.control(depth + 1)])])]))
            else:
                kids.append(self.control(depth))
        return ('e', 'form', {}, kids)

    def forms_doc(self):
        r = self.r
        body = []
        for _ in range(r.randint(1, 4)):
            body.append(self.form() if r.random() < 0.7 else self.control(0))
        if r.random() < 0.4:
            # radios outside any form, in the outer document and in a nested one
            inner = [self.control(1) for _ in range(r.randint(1, 3))] + [('e', 'div', {}, [
                ('e', 'input', {'type': 'radio', 'name': 'g', **({'checked': ''} if r.random() < 0.5 else {})}, []),
                ('e', 'input', {'type': 'radio', 'name': 'g'}, [])])]
            body.append(('e', 'iframe', {}, [('e', 'html', {}, [('e', 'body', {}, inner)])]))
            body.append(('e', 'input', {'type': 'radio', 'name': 'g', **({'checked': ''} if r.random() < 0.5 else {})}, []))
        if r.random() < 0.3:
            twins = [b for b in body if b[1] == 'form']
            if twins:
                body.insert(r.randrange(len(body) + 1), self.pick(twins))     # two forms with identical markup
        return ('e', 'html', {}, [('e', 'head', {}, []), ('e', 'body', {}, body)])

    # ---- language / direction
    def langdir(self, depth=0):
        r = self.r
        name = self.pick(['div', 'p', 'span', 'bdi', 'textarea', 'input', 'script', 'style', 'math', 'iframe', 'svg'])
        a = {}
        LANGS = ['en', 'en-US', 'de', 'de-DE', 'de-Latn-DE-1996', '', 'fr', 'de-x-mundart', 'EN-us', 'en-a-bbb', 'zh-Hant-CN']
        if name == 'svg' and depth < 4:
            # foreign content: namespace-aware parsers put these in the SVG namespace (xml:lang, not lang, counts there),
            # and the content of foreignObject back in the HTML namespace
            a['xmlns'] = SVG
            for key in ('lang', 'xml:lang'):
                if r.random() < 0.25:
                    a[key] = self.pick(LANGS)
            g = {}
            for key in ('lang', 'xml:lang'):
                if r.random() < 0.3:
                    g[key] = self.pick(LANGS)
            fo = ('e', 'foreignObject', {}, [('e', 'div', {'xmlns': XHTML}, [self.langdir(depth + 2)])])
            kids = [('e', 'g', g, [('e', 'circle', {}, []), ('e', 'text', {}, [('t', 'abc')])] + ([fo] if r.random() < 0.6 else []))]
            return ('e', 'svg', a, kids)
        if r.random() < 0.35:
            a['lang'] = self.pick(LANGS)
        if r.random() < 0.4:
            a['dir'] = self.pick(['ltr', 'rtl', 'auto', 'AUTO', 'bogus', ''])
        if name == 'input':
            a['type'] = self.pick(['text', 'tel', 'email', 'checkbox', 'search', 'url', 'TEL'])
            if r.random() < 0.6:
                a['value'] = self.pick(['', 'abc', 'אבג', '123', '123 אבג', 'مرحبا x'])
        kids = []
        if name == 'iframe':
            if depth < 3:
                kids = [('e', 'html', {'lang': self.pick(['fr', 'es'])} if r.random() < 0.5 else {},
                         [('e', 'head', {}, []), ('e', 'body', {}, [self.langdir(depth + 1)])])]
        elif name != 'input' and depth < 4:
            for _ in range(r.choice([0, 1, 1, 2, 3])):
                if r.random() < 0.55:
                    kids.append(self.langdir(depth + 1))
                else:
                    kids.append(('t', self.pick(['', ' ', '123', 'abc', 'אבג', 'مرحبا', '!? ', '123 abc', '٣ אבג'])) if r.random() < 0.85
                                else ('c', 'אבג'))
        return ('e', name, a, kids)

    def radios_doc(self):
        """Radio groups whose attribute NAMES vary in case (kept by the bs4 API and by XML parsers)."""
        r = self.r

        def radio():
            a = {self.pick(['type'] * 5 + ['TYPE']): self.pick(['radio', 'radio', 'radio', 'RADIO', 'checkbox'])}
            if r.random() < 0.92:
                a[self.pick(['name'] * 5 + ['NAME'])] = self.pick(['g', 'g', 'g', 'h', ''])
            k = r.random()
            if k < 0.22:
                a['checked'] = ''
            elif k < 0.5:
                a[self.pick(['CHECKED', 'Checked'])] = self.pick(['', 'x'])
            return ('e', 'input', a, [])

        def group():
            kids = [radio() for _ in range(r.randint(2, 4))]
            if r.random() < 0.3:
                kids.insert(r.randrange(len(kids) + 1), ('e', 'div', {}, [radio()]))
            return kids
        body = []
        for _ in range(r.choice([1, 1, 2])):
            body.append(('e', self.pick(['form', 'form', 'div']), {}, group()))
        if r.random() < 0.3:
            body += group()
        return ('e', 'html', {}, [('e', 'head', {}, []), ('e', 'body', {}, body)])

    def langdir_doc(self):
        r = self.r
        head = []
        if r.random() < 0.6:
            m = {'http-equiv': self.pick(['content-language', 'Content-Language', 'refresh']),
                 'content': self.pick(['fr', 'en-GB', '', 'de-CH'])}
            if r.random() < 0.2:
                m = {'content': m['content'], 'http-equiv': m['http-equiv']}
            head.append(('e', 'meta', m, []))
        if r.random() < 0.2:
            head.append(('e', 'meta', {'http-equiv': 'content-language', 'content': 'es'}, []))
        if r.random() < 0.45:
            # other <meta> elements around the pragma: each one is judged on its own attributes only
            decoys = [{'name': 'viewport', 'content': 'width=device-width'}, {'charset': 'utf-8'}, {'http-equiv': 'content-language'},
                      {'content': 'de'}, {'name': 'language', 'content': 'it'}, {'http-equiv': 'refresh', 'content': 'pt'},
                      {'http-equiv': 'Content-Language', 'name': 'x'}, {'content': 'nl', 'name': 'x'}]
            for _ in range(r.randint(1, 3)):
                head.insert(r.randrange(len(head) + 1), ('e', 'meta', dict(self.pick(decoys)), []))
        ha = {}
        if r.random() < 0.4:
            ha['lang'] = self.pick(['en', 'de', ''])
        if r.random() < 0.3:
            ha['dir'] = self.pick(['rtl', 'ltr', 'auto'])
        body = [self.langdir(1) for _ in range(r.randint(1, 3))]
        if r.random() < 0.4:
            # the SAME subtree (equal markup: bs4 tags then compare and hash equal) under different inherited languages
            shared = ('e', 'ul', {}, [('e', 'li', {}, [('e', 'span', {'class': 'icon'}, []), ('t', 'x')])])
            for lg in r.sample(['en', 'de', '', 'fr-CH', None], r.randint(2, 3)):
                body.append(('e', 'div', {} if lg is None else {'lang': lg}, [('e', 'div', {}, [shared])]))
        if r.random() < 0.45:
            # an isolate without a dir attribute (direction from its own text) below an ancestor of the other direction, with element children
            odir = self.pick(['rtl', 'ltr'])
            txt = self.pick(['abc ', 'אבג ', 'abc ', '123 ', ''])
            body.insert(r.randrange(len(body) + 1), ('e', 'div', {'dir': odir}, [
                ('e', 'bdi', {}, [('t', txt), ('e', 'span', {}, [('t', 'x')]), ('e', 'b', {}, [('e', 'i', {}, [('t', 'y')])])]),
                ('e', 'span', {}, [('t', 'after')])]))
        if r.random() < 0.35:
            # an embedded document (only case-preserving builders keep it): its elements must not see the outer
            # document's language, <meta> pragma or direction
            ih = {'lang': self.pick(['es', 'de'])} if r.random() < 0.3 else {}
            ihead = [('e', 'meta', {'http-equiv': 'content-language', 'content': self.pick(['it', 'en'])}, [])] if r.random() < 0.3 else []
            inner = ('e', 'html', ih, [('e', 'head', {}, ihead), ('e', 'body', {}, [('e', 'p', {}, [('t', 'inner')]), self.langdir(3)])])
            body.insert(r.randrange(len(body) + 1), ('e', 'div', {}, [('e', 'iframe', {}, [inner])]))
            body.append(('e', 'p', {}, [('t', 'after')]))
        return ('e', 'html', ha, [('e', 'head', {}, head), ('e', 'body', {}, body)])


# ---------------------------------------------------------------- materialisation

def _esc_text(s):
    return s.replace('&', '&amp;').replace('<', '&lt;').replace('>', '&gt;')


def _esc_attr(s):
    return s.replace('&', '&amp;').replace('"', '&quot;').replace('<', '&lt;')


def to_markup(n, xml=False):
    k = n[0]
    if k == 'e':
        _, name, attrs, kids = n
        a = ''.join(f' {key}="{_esc_attr(v)}"' for key, v in attrs.items() if isinstance(v, str))
        inner = ''.join(to_markup(c, xml) for c in kids)
        if not kids and xml:
            return f'<{name}{a}/>'
        if not xml and name in ('input', 'meta', 'br', 'area'):
            return f'<{name}{a}>'
        return f'<{name}{a}>{inner}</{name}>'
    if k == 't':
        return _esc_text(n[1])
    if k == 'c':
        return '<!--' + n[1].replace('--', '- -').rstrip('-') + '-->'
    if k == 'cdata':
        return '<![CDATA[' + n[1].replace(']]>', ']] >') + ']]>' if xml else ''
    if k == 'pi':
        return '<?' + n[1].replace('?>', '? >') + '?>' if xml else ''
    return ''


def build_api(top_nodes, xml=False, detached=False):
    """Build directly through the bs4 API.  top_nodes: list of abstract nodes placed under the document
    object (or, if detached, the first element is returned without any document object)."""
    soup = BeautifulSoup('', 'xml' if xml else 'html.parser')

    def mk(n, parent):
        k = n[0]
        if k == 'e':
            _, name, attrs, kids = n
            ns = prefix = None
            if len(n) > 4:
                ns, prefix = n[4], n[5]
            t = soup.new_tag(name, namespace=ns, prefix=prefix)
            t.attrs = dict(attrs)
            parent.append(t)
            for c in kids:
                mk(c, t)
            return t
        cls = {'t': NavigableString, 'c': Comment, 'cdata': CData, 'pi': ProcessingInstruction, 'doctype': Doctype,
               'decl': Declaration}[k]
        s = cls(n[1])
        parent.append(s)
        return s
    made = [mk(n, soup) for n in top_nodes]
    if detached:
        el = next(m for m in made if isinstance(m, bs4.Tag))
        el.extract()
        return el
    return soup


def parse_with(markup, parser):
    import warnings
    with warnings.catch_warnings():
        warnings.simplefilter('ignore')
        return BeautifulSoup(markup, parser)


# ---------------------------------------------------------------- XML / namespaces
NS_POOL = {'a': 'urn:a', 'b': 'urn:b', 'svg': SVG, 'xlink': XLINK, 'h': XHTML, 'm': MATH}


class XGen(TGen):
    """XML documents with default / prefixed / re-declared namespaces (markup, parsed by lxml-xml or html5lib)."""

    def xml_elem(self, depth, declared):
        r = self.r
        local = self.pick(['item', 'a', 'p', 'circle', 'svg', 'div', 'Item', 'x-y', 'input', 'html'])
        pf = self.pick(list(declared) + ['', '', '']) if declared else ''
        name = (pf + ':' + local) if pf else local
        attrs = {}
        decl = dict(declared)
        if r.random() < 0.25:
            k = self.pick(list(NS_POOL))
            attrs['xmlns:' + k] = NS_POOL[k] if r.random() < 0.8 else 'urn:other'
            decl[k] = attrs['xmlns:' + k]
        if r.random() < 0.2:
            attrs['xmlns'] = self.pick(['urn:a', XHTML, SVG, ''])
        for _ in range(r.choice([0, 1, 1, 2])):
            an = self.pick(['href', 'id', 'class', 'lang', 'title', 'type', 'Href', 'dir'])
            apf = self.pick(list(decl) + ['', '', 'xml']) if (decl or r.random() < 0.3) else ''
            if apf == 'xml':
                an = 'lang'
            attrs[(apf + ':' + an) if apf else an] = self.pick(ATTR_VALUES + ['en', 'de-DE'])
        if decl and r.random() < 0.25:
            # the same local name twice on one element: without a namespace and in one, or in two namespaces, in either order
            an = self.pick(['href', 'k', 'title', 'id'])
            pfs = r.sample(list(decl), min(2, len(decl)))
            pair = [an, pfs[0] + ':' + an] if (len(pfs) < 2 or r.random() < 0.5) else [pfs[0] + ':' + an, pfs[1] + ':' + an]
            r.shuffle(pair)
            for i, key in enumerate(pair):
                attrs.pop(key, None)
                attrs[key] = self.pick(['1', '2', 'x', '#n'])
        kids = []
        if depth < 4:
            for _ in range(r.choice([0, 1, 2, 2, 3])):
                if r.random() < 0.7:
                    kids.append(self.xml_elem(depth + 1, decl))
                else:
                    kids.append(self.text_node())
        return ('e', name, attrs, kids)

    def xml_doc(self):
        r = self.r
        declared = {}
        root = self.xml_elem(0, {})
        _, name, attrs, kids = root
        for k in r.sample(list(NS_POOL), r.randint(0, 3)):
            attrs['xmlns:' + k] = NS_POOL[k]
            declared[k] = NS_POOL[k]
        if r.random() < 0.4:
            attrs['xmlns'] = self.pick(['urn:a', XHTML, SVG])
        kids = [self.xml_elem(1, declared) for _ in range(r.randint(1, 4))] + kids
        if r.random() < 0.3:
            name = 'html'
            attrs['xmlns'] = XHTML
        return ('e', name, attrs, kids)

    def html5_foreign(self):
        """HTML5 document with inline SVG/MathML (html5lib assigns namespaces)."""
        r = self.r
        svg = ('e', 'svg', {'xlink:href': '#a', 'xml:lang': 'de'} if r.random() < 0.6 else {},
               [('e', 'circle', dict(r.sample([('xlink:href', self.pick(['#x', 'x'])), ('href', 'y')], 2)) if r.random() < 0.7 else {}, []),
                ('e', 'use', dict(r.sample([('href', '#n'), ('xlink:href', '#o')], 2)), []),
                ('e', 'a', {'href': '#'}, [('t', 'link')]),
                ('e', 'foreignObject', {}, [('e', 'p', {'lang': 'en'} if r.random() < 0.5 else {}, [('t', 'in svg')])])])
        math = ('e', 'math', {}, [('e', 'mi', {'class': 'x'}, [('t', 'x')])])
        body = [self.generic(2, 3), svg, self.generic(2, 3)] + ([math] if r.random() < 0.5 else [])
        r.shuffle(body)
        return ('e', 'html', {'lang': 'en'} if r.random() < 0.5 else {}, [('e', 'head', {}, []), ('e', 'body', {}, body)])


ODD_VALUES = [None, 5, 3.5, b'bytes', b'\xff\xfe', ['a', 'b'], ['a', 3], ['a', None], ['a', b'b'], ['a', ['b', 'c']], [],
              ('t', 'u'), True, {'k': 'v'}, [b'\xff'], 'plain']


def sprinkle_odd(top, rnd, names=('class', 'id', 'title', 'data-x', 'href', 'rel'), p=0.3):
    """Give some attributes the odd values the bs4 API permits (only attributes that attribute, class and id
    selectors read)."""
    import bs4 as _b
    for el in top.find_all(True):
        if rnd.random() < p:
            el.attrs[rnd.choice(names)] = rnd.choice(ODD_VALUES)
    return top
