"""irdump - a live soupsieve.css_types.SelectorList as the model's IR (S-expression).
Compiled attribute patterns are translated with T1 (the actual regex the code built)."""
import re
from soupsieve import css_types as ct
from lib import s_str, s_opt
from translate import t1_regex

_re_cache = {}


def re_sx(a):
    t = a[0]
    if t == 'Eps':
        return 'eps'
    if t in ('BehindStart', 'AtStart', 'AtEnd', 'AtEndStrict'):
        return t.lower()
    if t == 'Chr':
        return '(chr (' + ' '.join(f'({x} {y})' for x, y in a[1]) + '))'
    if t in ('Seq', 'Alt'):
        return f'({t.lower()} {re_sx(a[1])} {re_sx(a[2])})'
    if t == 'Rep':
        return f'(rep {int(a[1])} {a[2]} {"inf" if a[3] is None else a[3]} {re_sx(a[4])})'
    if t == 'Look':
        return f'(look {int(a[1])} {re_sx(a[2])})'
    if t == 'Behind':
        return f'(behind {int(a[1])} (' + ' '.join(f'({x} {y})' for x, y in a[2]) + '))'
    if t == 'Grp':
        return f'(grp {a[1]} {re_sx(a[2])})'
    raise AssertionError(t)


def pat_sx(p):
    if p is None:
        return 'none'
    key = (p.pattern, p.flags)
    if key not in _re_cache:
        a, _, _ = t1_regex.translate(p.pattern, p.flags)   # raises Untranslatable: fail closed
        _re_cache[key] = '(some ' + re_sx(a) + ')'
    return _re_cache[key]


def strs(l):
    return '(' + ' '.join(s_str(x) for x in l) + ')'


def sel_sx(s):
    if isinstance(s, ct.SelectorNull):
        return 'null'
    assert isinstance(s, ct.Selector), type(s)
    tag = 'none' if s.tag is None else f'(some (tag {s_str(s.tag.name)} {s_opt(s.tag.prefix)}))'
    attrs = ' '.join(f'(attr {s_str(a.attribute)} {s_str(a.prefix)} {pat_sx(a.pattern)} {pat_sx(a.xml_type_pattern)})'
                     for a in s.attributes)
    nths = ' '.join(f'(nth {n.a} {int(n.n)} {n.b} {int(n.of_type)} {int(n.last)} {sl_sx(n.selectors)})' for n in s.nth)
    subs = ' '.join(sl_sx(x) for x in s.selectors)
    contains = ' '.join(f'(contains {strs(c.text)} {int(c.own)})' for c in s.contains)
    langs = ' '.join(strs(l.languages) for l in s.lang)
    return (f'(sel {tag} {strs(s.ids)} {strs(s.classes)} ({attrs}) ({nths}) ({subs}) {sl_sx(s.relation)} '
            f'{s_opt(s.rel_type)} ({contains}) ({langs}) {s.flags})')


def sl_sx(l):
    assert isinstance(l, ct.SelectorList), type(l)
    return '(sl (' + ' '.join(sel_sx(s) for s in l.selectors) + f') {int(l.is_not)} {int(l.is_html)})'


def ns_sx(ns):
    if ns is None:
        return '()'
    return '(' + ' '.join(f'({s_str(k)} {s_str(v)})' for k, v in ns.items()) + ')'


# ---- the same structure as Coq terms (for gen/ConstGen.v)
def cq_str(x):
    return '[' + '; '.join(str(ord(c)) for c in x) + ']%N' if x else '(@nil N)'


def cq_opt(v, f):
    return 'None' if v is None else '(Some ' + f(v) + ')'


def cq_pat(p):
    if p is None:
        return 'None'
    a, _, _ = t1_regex.translate(p.pattern, p.flags)
    return '(Some ' + t1_regex.coq_re(a) + ')'


def cq_list(items):
    return '[' + '; '.join(items) + ']'


def cq_sel(s):
    if isinstance(s, ct.SelectorNull):
        return 'SNull'
    tag = 'None' if s.tag is None else f'(Some (STag {cq_str(s.tag.name)} {cq_opt(s.tag.prefix, cq_str)}))'
    attrs = cq_list([f'(SAttr {cq_str(a.attribute)} {cq_str(a.prefix)} {cq_pat(a.pattern)} {cq_pat(a.xml_type_pattern)})' for a in s.attributes])
    nths = cq_list([f'(SNth ({n.a})%Z {"true" if n.n else "false"} ({n.b})%Z {"true" if n.of_type else "false"} '
                    f'{"true" if n.last else "false"} {cq_sl(n.selectors)})' for n in s.nth])
    subs = cq_list([cq_sl(x) for x in s.selectors])
    contains = cq_list([f'(SContains {cq_list([cq_str(t) for t in c.text])} {"true" if c.own else "false"})' for c in s.contains])
    langs = cq_list([cq_list([cq_str(t) for t in l.languages]) for l in s.lang])
    return (f'(Sel {tag} {cq_list([cq_str(i) for i in s.ids])} {cq_list([cq_str(i) for i in s.classes])} {attrs} {nths} {subs} '
            f'{cq_sl(s.relation)} {cq_opt(s.rel_type, cq_str)} {contains} {langs} {s.flags}%N)')


def cq_sl(l):
    return f'(SL {cq_list([cq_sel(s) for s in l.selectors])} {"true" if l.is_not else "false"} {"true" if l.is_html else "false"})'
