"""Shared machinery of the checks: build, proof step, extracted-model driver, evidence, verdict."""
from __future__ import annotations
import hashlib, json, os, random, re, subprocess, sys, time

sys.path.insert(0, os.path.dirname(os.path.abspath(__file__)))
import build  # noqa: E402

VERIF = build.VERIF
REPO = build.REPO
COQ = build.COQ
EVID = os.path.join(VERIF, 'evidence')
REPLAYS = os.path.join(EVID, 'replays')
FORBIDDEN = re.compile(r'\b(Admitted|admit|Axiom|Axioms|Parameter|Parameters|Conjecture|Abort All|bypass_check)\b'
                       r'|Unset\s+Guard|Unset\s+Positivity|Unset\s+Universe|type-in-type|impredicative-set'
                       r'|Admit\s+Obligations')

TRUSTED_BASE = [
    'Coq 8.16.1 kernel (coqc; vm_compute used, native_compute not used)',
    'translators harness/translate/t1_regex.py (re._parser parse trees -> Regex.re) and t4_pure.py (Python ast -> Gallina)',
    'extraction: ExtrOcamlBasic only, no Extract Constant/Inductive of our own; OCaml 4.13.1; ocaml/driver.ml (S-expression glue)',
    'correspondence harness (generators, bs4view, irdump) and CPython/bs4 as the executed implementation',
]


# ------------------------------------------------------------------ S-expressions

def s_str(s):
    return '(' + ' '.join(str(ord(c)) for c in s) + ')'


def s_opt(v, f=s_str):
    return 'none' if v is None else '(some ' + f(v) + ')'


def parse_sexp(text):
    toks = re.findall(r'\(|\)|[^\s()]+', text)
    pos = 0

    def p():
        nonlocal pos
        t = toks[pos]
        pos += 1
        if t == '(':
            out = []
            while toks[pos] != ')':
                out.append(p())
            pos += 1
            return out
        return t
    return p()


def is_err(mo):
    """a driver output that is an error record (driver unavailable / died)"""
    return isinstance(mo, list) and len(mo) >= 1 and mo[0] == 'error'


def sx_to_str(x):
    """(99 100) -> 'cd'   (an error record gives a string no implementation output equals)"""
    try:
        return ''.join(chr(int(c)) for c in x)
    except (ValueError, TypeError):
        return '\ufffe<model-unavailable>'


DRIVER_OK = True     # set by proof_step; when False every model-side run is skipped (implementation-side search only)


class Driver:
    def __init__(self):
        self.exe = os.path.join(build.OCAML, 'driver.exe')

    def run(self, cases, timeout=3600, shards=None):
        """cases: list of S-expression strings; returns list of parsed results (or ('error', msg))."""
        if not cases:
            return []
        if not DRIVER_OK:
            return [['error', 'driver_unavailable'] for _ in cases]
        shards = shards or (min(16, max(1, len(cases) // 400)))
        chunks = [cases[i::shards] for i in range(shards)]
        procs = []
        for ch in chunks:
            p = subprocess.Popen(['bash', '-c', 'ulimit -s unlimited 2>/dev/null; exec ' + self.exe],
                                 stdin=subprocess.PIPE, stdout=subprocess.PIPE, text=True)
            procs.append((p, ch))
        outs = []
        import threading
        results = [None] * len(procs)

        def feed(i, p, ch):
            o, _ = p.communicate('\n'.join(ch) + '\n', timeout=timeout)
            results[i] = o.split('\n')
        ths = [threading.Thread(target=feed, args=(i, p, ch)) for i, (p, ch) in enumerate(procs)]
        [t.start() for t in ths]
        [t.join() for t in ths]
        merged = [None] * len(cases)
        for k, ch in enumerate(chunks):
            lines = [ln for ln in results[k] if ln != '']
            for j in range(len(ch)):
                idx = k + j * shards
                merged[idx] = parse_sexp(lines[j]) if j < len(lines) else ['error', 'driver_died']
        return merged


def run_blocks(drv, blocks, shards=16, timeout=3600):
    """blocks: list of lists of S-expression lines (each block is self-contained: sets its own state).
    Returns a list (per block) of lists of parsed results."""
    import threading
    if not blocks:
        return []
    if not DRIVER_OK:
        return [[['error', 'driver_unavailable'] for _ in b] for b in blocks]
    shards = max(1, min(shards, len(blocks)))
    assign = [[] for _ in range(shards)]
    for i, b in enumerate(blocks):
        assign[i % shards].append(i)
    results = [None] * len(blocks)

    def work(k):
        lines = []
        for i in assign[k]:
            lines += blocks[i]
        p = subprocess.Popen(['bash', '-c', 'ulimit -s unlimited 2>/dev/null; exec ' + drv.exe],
                             stdin=subprocess.PIPE, stdout=subprocess.PIPE, text=True)
        o, _ = p.communicate('\n'.join(lines) + '\n', timeout=timeout)
        out = [ln for ln in o.split('\n') if ln != '']
        pos = 0
        for i in assign[k]:
            n = len(blocks[i])
            chunk = out[pos:pos + n]
            pos += n
            results[i] = [parse_sexp(x) for x in chunk] + [['error', 'driver_died']] * (n - len(chunk))
    ths = [threading.Thread(target=work, args=(k,)) for k in range(shards)]
    [t.start() for t in ths]
    [t.join() for t in ths]
    return results


# ------------------------------------------------------------------ proof step

def grep_forbidden():
    bad = []
    for dp, _, fs in os.walk(COQ):
        for f in fs:
            if f.endswith('.v'):
                for i, line in enumerate(open(os.path.join(dp, f), errors='replace'), 1):
                    code = re.sub(r'\(\*.*?\*\)', '', line)
                    if FORBIDDEN.search(code):
                        bad.append(f'{os.path.relpath(os.path.join(dp, f), COQ)}:{i}: {line.strip()}')
    return bad


def count_statements(files):
    n = 0
    names = []
    for f in files:
        try:
            txt = open(os.path.join(COQ, f)).read()
        except FileNotFoundError:
            continue
        for m in re.finditer(r'^\s*(Theorem|Lemma|Corollary|Example|Fact|Proposition)\s+([A-Za-z0-9_\']+)', txt, re.M):
            n += 1
            names.append(m.group(2))
    return n, names


def proof_step(prop_file, cone_files):
    """Regenerate, build the development, re-check the property file and collect Print Assumptions.
    Returns dict(ok, obligations, discharged, assumptions, log, regen, broken=[...])."""
    res = build.build_all()
    out = {'regen': res['regen'], 'log': '', 'broken': [], 'assumptions': {}, 'build_wall_s': round(res['wall_s'], 1),
           'driver_ok': res['driver_ok']}
    bad = grep_forbidden()
    if bad:
        out['broken'].append('forbidden construct: ' + '; '.join(bad[:5]))
    nobl, names = count_statements(cone_files + [prop_file])
    out['obligations'] = nobl
    out['statement_names'] = names
    if '_error' in res['regen']:
        out['broken'].append('translators failed: ' + res['regen']['_error'][-500:])
    if not res['make_ok']:
        errs = re.findall(r'File "\./([^"]+)", line (\d+).*?\n(Error:.*?)(?:\n\n|\nmake)', res['make_log'], re.S)
        out['log'] = res['make_log'][-3000:]
        failed = sorted({e[0] for e in errs})
        out['failed_files'] = failed
        rel = [f for f in failed if f in cone_files + [prop_file]]
        # any failure in the cone (or anything it imports) breaks the property's obligations
        if rel or not failed:
            out['broken'].append('proof obligation no longer checks: ' +
                                 '; '.join(f'{e[0]}:{e[1]} {e[2].splitlines()[0][:160]}' for e in errs
                                           if e[0] in rel)[:1500])
        else:
            # a failure elsewhere: check whether our property file still compiles on its own
            pass
    # re-check the property file itself (prints Print Assumptions)
    r = subprocess.run(['timeout', '900', 'coqc', '-Q', COQ, 'SV', os.path.join(COQ, prop_file)],
                       cwd=COQ, capture_output=True, text=True)
    txt = r.stdout + r.stderr
    if r.returncode != 0:
        if not out['broken']:
            out['broken'].append('property file no longer checks: ' + txt.strip()[-800:])
        out['log'] += txt[-2000:]
        out['discharged'] = 0
    else:
        out['discharged'] = nobl
        closed = txt.count('Closed under the global context')
        axioms = re.findall(r'Axioms:\n((?:.+\n?)+?)(?:\n|$)', txt)
        out['assumptions'] = {'closed_under_global_context': closed,
                              'axioms': [a.strip() for a in axioms]}
    if os.environ.get('VERIF_FORCE_NO_DRIVER'):          # test switch: behave as if the model no longer builds
        res['driver_ok'] = out['driver_ok'] = False
        res['driver_log'] = 'VERIF_FORCE_NO_DRIVER'
    if not res['driver_ok']:
        out['broken'].append('extracted driver failed to build: ' + res['driver_log'][-400:])
    global DRIVER_OK
    DRIVER_OK = bool(res['driver_ok'])
    out['ok'] = not out['broken']
    return out


# ------------------------------------------------------------------ known findings, verdict

def load_known():
    try:
        return json.load(open(os.path.join(VERIF, 'known_findings.json')))['entries']
    except FileNotFoundError:
        return []


def write_replay(pid, data):
    os.makedirs(REPLAYS, exist_ok=True)
    h = hashlib.sha1(json.dumps(data, sort_keys=True, default=str).encode()).hexdigest()[:12]
    path = os.path.join(REPLAYS, f'{pid}-{h}.json')
    with open(path, 'w') as f:
        json.dump(data, f, indent=1, default=str, ensure_ascii=True)
    return path


CURRENT = None


class Check:
    """Collects what one run of one property's check did, then writes evidence and the verdict."""

    def __init__(self, pid, tier, seed):
        self.pid, self.tier, self.seed = pid, tier, seed
        self.t0 = time.time()
        self.evaluations = 0
        self.classes = set()       # distinct non-trivial classes
        self.samples = []
        self.violations = []       # dicts (already confirmed against the implementation)
        self.broken = []           # proof obligations / correspondences that no longer check
        self.known_hits = []
        self.notes = {}
        self.proof = None
        self.known = [e for e in load_known() if e.get('property') == pid and e.get('status') == 'known']
        self.rnd = random.Random(seed)
        global CURRENT
        CURRENT = self           # the watchdogs of check.py finish the check that is running, with what it has found so far

    def sample(self, x):
        if len(self.samples) < 6:
            self.samples.append(x)

    def count(self, cls=None, n=1):
        self.evaluations += n
        if cls is not None:
            self.classes.add(cls)

    def violation(self, what, replay, key=None):
        """A confirmed failing input.  If it is a listed known finding, record that instead."""
        for e in self.known:
            if key is not None and key == e.get('key'):
                if e['key'] not in [k['key'] for k in self.known_hits]:
                    self.known_hits.append(e)
                return
        self.violations.append({'what': what, 'replay': replay})

    def finish(self, level='proof', rule='', assumptions=None, extra=None):
        wall = time.time() - self.t0
        pr = self.proof or {}
        cov = {
            'obligations': pr.get('obligations', 0),
            'discharged': pr.get('discharged', 0),
            'checker_cmd': 'coq_makefile -f coq/_CoqProject && make (full .vo build) ; coqc props/%s.v with Print Assumptions' % self.pid,
            'trusted_base': TRUSTED_BASE,
            'evaluations': max(self.evaluations, 0),
            'distinct_nontrivial': len(self.classes),
            'rule': rule,
            'samples': self.samples or ['(none)'],
            'print_assumptions': pr.get('assumptions', {}),
            'translators': pr.get('regen', {}),
            'theorems': pr.get('statement_names', []),
        }
        cov.update(self.notes)
        if extra:
            cov.update(extra)
        lines = []
        for e in self.known_hits:
            lines.append(f"KNOWN-FINDING: property={self.pid} {e['what']}")
        exit_code = 0
        nviol = 0
        for v in self.violations[:5]:
            path = write_replay(self.pid, v)
            lines.append(f'VIOLATION property={self.pid} replay={path}')
            nviol += 1
            exit_code = 1
        if not self.violations and self.broken:
            path = write_replay(self.pid, {'no_failing_input_found': True, 'no_longer_checks': self.broken,
                                           'note': 'the search over model and implementation found no input on which the '
                                                   'property fails; the property is no longer SHOWN to hold'})
            lines.append(f'VIOLATION property={self.pid} replay={path} no-failing-input-found')
            nviol += 1
            exit_code = 1
        ev = {'property_id': self.pid, 'tier': self.tier, 'seed': self.seed, 'level': level,
              'coverage': cov, 'assumptions': assumptions or [], 'wall_s': round(wall, 2), 'violations': nviol,
              'known_findings_hit': [e['key'] for e in self.known_hits], 'broken': self.broken}
        os.makedirs(EVID, exist_ok=True)
        with open(os.path.join(EVID, f'{self.pid}.json'), 'w') as f:
            json.dump(ev, f, indent=1, default=str, ensure_ascii=True)
        for ln in lines:
            print(ln)
        print(f'[{self.pid}] tier={self.tier} seed={self.seed} evaluations={self.evaluations} '
              f'classes={len(self.classes)} obligations={cov["obligations"]}/{cov["discharged"]} '
              f'violations={nviol} known={len(self.known_hits)} wall={wall:.1f}s')
        return exit_code


class CallTimeout(BaseException):
    pass


def call_with_timeout(fn, secs=30):
    """fn() under a SIGALRM watchdog (main thread only): returns ('ok', value), ('raise', exception) or ('timeout', None)."""
    import signal

    def on_alarm(signum, frame):
        raise CallTimeout()
    old = signal.signal(signal.SIGALRM, on_alarm)
    signal.alarm(secs)
    try:
        return ('ok', fn())
    except CallTimeout:
        return ('timeout', None)
    except Exception as ex:
        return ('raise', ex)
    finally:
        signal.alarm(0)
        signal.signal(signal.SIGALRM, old)
