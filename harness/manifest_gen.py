"""Regenerate MANIFEST.json from the table below (kept in one place so it is always valid)."""
import json, os
V = os.path.dirname(os.path.dirname(os.path.abspath(__file__)))
CLAIMED = {
    'C18': dict(
        cat='proof', design='DESIGN.md §0, §7 C18',
        text='Theorems (Coq, closed under the global context) about the validators AND the patterns REGENERATED from css_match.py on every '
             'run: days per month incl. leap years for every year, ISO week count (52/53) from first principles, exact characterisation '
             'of validate_week (incl. the two known deviations), tuple order = calendar order; the date / month / week / time / '
             'datetime-local patterns are sequences of captured digit runs and literal separators, for which the backtracking matcher '
             'finds exactly what a left-to-right split finds (RunFacts.ends_items, every subject), hence parse_value = split + int + '
             'validators for EVERY string (DateShape.parse_*), and for type=date, in both directions, accepted with (y, m, d) <=> a valid '
             'HTML date string. The number pattern REGENERATED from RE_NUM accepts exactly the HTML valid floating-point numbers, for every '
             'string (NumShape.num_accepts), through a general theorem: the backtracking matcher of the model finds exactly the matches of the '
             'declarative language semantics (RegexLang.ends_sound / ends_complete). number/range arithmetic and match_range are an '
             'executable Gallina model run (extracted) against the implementation and an independent HTML spec on every case.',
        note='Trusted: Coq kernel, translators T1/T4, extraction (ExtrOcamlBasic), model of strptime/isocalendar (cross-checked '
             'every run), float(str) modelled as exact decimal (the conversion of an accepted number string to a value is executed, not proved).',
        technique='Coq proof over source-translated validators and regexes (end-to-end for date strings) + extracted-model/implementation/spec differential'),
}
CLAIMED.update({
    'C01': dict(cat='proof', design='DESIGN.md §7 C01',
        text='Executable Gallina model of the whole matcher (Match.v, one function per CSSMatch method) run, extracted, against the '
             'implementation on every entry point; theorems: document object / non-elements never match; the answer does not depend on the '
             'recursion fuel once it is produced (FuelFacts) nor on the memo (HistFacts); the patterns of the six attribute operators '
             'accept exactly what CSS says - equality, prefix, suffix, substring, dash-match, word - for every v and every value, an '
             'empty v designating nothing (AttrFacts, case-sensitive form); the seven attribute-operator '
             'regex templates are a Coq function (AttrPat.v) validated AST-for-AST against what the real parser compiles; an independent '
             'reference semantics on the source AST decides every selected set.',
        note='Trusted: Coq kernel, T1/T2 translators, bs4view/irdump, extraction, reference semantics (selspec.py). The Spec-equivalence '
             'theorem for the whole grammar is not proved yet: exactness is decided per case by model+oracle agreement (partial).',
        technique='Coq matcher model + translation validation of attribute templates + extracted-model/implementation/reference differential'),
    'C02': dict(cat='proof', design='DESIGN.md §0, §7 C02',
        text="Theorems, for ALL integers A, B and ALL sibling walks (no bound): match_nth's bound-adjustment loop, lowest-count loop and sibling walk (Match.nth_core, a faithful model incl. fuel) terminate within their fuel and answer exactly 'pos = A*n+B for some n >= 0' (resp. pos = A), where pos is the element's position among the counted siblings (NthProof.nth_core_exact); lifted to match_nth on an element with any `of S` list, forward/-last-, child/-of-type, from any consistent memo (NthElem.match_nth_one). Extracted model vs implementation vs closed form on generated sibling lists (every spelling, plain indices, `of S`).",
        note='The theorems are about the model; the tie to css_match.match_nth is the correspondence run. The An+B micro-syntax -> integers step is executed (parser model), not proved.',
        technique='Coq proof by induction (loop invariants, lia/nia) on the model of the loop + differential run'),
    'C13': dict(cat='proof', design='DESIGN.md §7 C13',
        text='Theorems: the language-range decision on subtag lists is exactly RFC 4647 3.3.2 (inductive relation), for all lists; the '
             'language attribute is the first `lang` (HTML namespace / namespace-unaware trees) resp. `xml:lang` attribute; the walk '
             'returns the language of the nearest ancestor-or-self inside the own document, uniquely; the <meta> memo never changes an '
             'answer. The string level (split, lower, RE_WILD_STRIP from the regenerated regex) and the <meta> scan are executed by the '
             'extracted model against the implementation and an independent RFC 4647 / language-of oracle.',
        note='str.lower modelled as ASCII; meta fallback not judged in XML / nested iframe documents.',
        technique='Coq proof of filter = RFC 4647 relation + extracted-model/implementation/oracle differential'),
})
CLAIMED.update({
    'C11': dict(cat='proof', design='DESIGN.md §7 C11',
        text='Theorems on the matcher model: in HTML tag and attribute names match up to ASCII case (for every name), in XML exactly; '
             'HTML-only lists never match when the document is XML and not XHTML; document-type detection; the regenerated re.I closure '
             'table makes every ASCII letter match both cases. Value rules: for EVERY selector value and EVERY attribute value, with or without '
             'the i flag, each of the six operator patterns accepts exactly the values CSS designates, character by character up to the '
             'pattern character relation - identity without the flag, the case closure regenerated from re with it (AttrFactsIC); '
             'AttrPat.attr_template is validated AST-for-AST against the live parser. Same logical tree as HTML x3 parsers / XHTML / XML, implementation vs model vs reference semantics.',
        note='Non-ASCII case folding is observed, not judged.',
        technique='Coq proofs on matcher model + translation validation of attribute templates + differential'),
    'C12': dict(cat='proof', design='DESIGN.md §7 C12',
        text='Theorems: element namespace test = decision table of the property text (for all maps/prefixes/elements); unmapped prefix '
             'matches nothing (elements and attributes); the attribute lookup is `find` with the table attr_pred ([ns|a], [*|a], [|a], [a]). '
             'XML/XHTML/HTML5 documents x 13 prefix maps: implementation vs extracted model vs reference semantics.',
        note='attribute theorem assumes string-valued attributes whose namespaced keys have a local name (what parsers store).',
        technique='Coq decision-table proofs + differential'),
    'C19': dict(cat='proof', design='DESIGN.md §7 C19',
        text='Theorems: only plain text nodes are content; :-soup-contains = substring of the concatenated text nodes, -own = substring of '
             'one own text node; nothing below an iframe is visited under the iframe restriction; :empty = no element child and no text '
             'child with a non-white-space character, with the class read from the regenerated RE_NOT_EMPTY. Differential on trees '
             'with every node kind and nested iframes.',
        note='the linear next_good skipping loop of get_descendants is modelled by its recursive meaning and tied by correspondence only.',
        technique='Coq proofs on matcher model (incl. a regex fact on a regenerated pattern) + differential'),
})
CLAIMED.update({
    'C03': dict(cat='proof', design='DESIGN.md §7 C03',
        text='Theorems: the six module-level wrappers forward pattern, namespaces, flags and custom to compile() and call the same-named '
             'method (a finite statement about the wrapper bodies regenerated from soupsieve/__init__.py by T3); select() yields a '
             'sub-sequence of the descendant walk, at most k items under limit k; the document object and non-elements never match; '
             'select / filter / closest are exactly the per-element match() answers in document order up to the limit (HistFacts). '
             '~25 relational facts between all entry points checked on the implementation, every entry point through the extracted model.',
        note='select = filter-by-match pointwise is the C04 theorem (HistFacts); the relational facts are checked per case on the implementation.',
        technique='Coq proof over source-translated API table + matcher-model lemmas + relational differential'),
    'C04': dict(cat='proof', design='DESIGN.md §0, §7 C04',
        text="Theorem (HistFacts.det_matcher): from ANY consistent memo - whatever earlier questions put into the three tables - every function of the matcher's mutual recursion returns the value, or raises the exception, it returns from the empty memo, and leaves a consistent memo; hence select / filter / closest equal the per-element fresh answers in document order up to the limit (api_select_history_free ...), and match is the fresh answer. History runs on the implementation: shared matcher vs one matcher per element vs module-level function vs a pristine structural copy asked in reverse order; tree compared before/after (serialisation, identities, attributes, parent links).",
        note="non-mutation of the bs4 tree is monitored at run time, not proved (the model's trees are immutable values); the theorem is about the model, tied by the history runs.",
        technique='Coq proof of history-freedom of the whole matcher model (logical relation over the memo monad) + history differential + mutation monitor'),
    'C05': dict(cat='proof', design='DESIGN.md §7 C05',
        text='Theorems for ARBITRARY structures A, B (any flags, any nested content), as equalities of the whole monadic computation: '
             'list A++B = A or-else B; a non-empty negated list = negation of the positive list; adding an alternative is monotone; '
             'sub-lists of a compound are a conjunction. Nine source-level laws evaluated on the implementation over the whole grammar, '
             'namespaces and custom aliases on every document family; composed patterns also through the extracted model.',
        note=':where/:matches = :is is an IR-equality fact about the parser, checked per case.',
        technique='Coq proof of IR-level Boolean laws + law-based differential'),
    'C08': dict(cat='proof', design='DESIGN.md §7 C08',
        text='Every Python raising site of the matcher is explicit in the model (Raise TypeError/ValueError/AttributeError/...), so the '
             'extracted model predicts the exception class for every case; theorems: TypeError for a non-Tag target, value '
             'normalisation is total. Nasty attribute contents, odd attribute values, degenerate documents, every entry point; the '
             'implementation must not raise and must agree with the model.',
        note='the full totality theorem is false of the faithful model because of the recorded finding C18-week-year-range; partial.',
        technique='Coq model with explicit exceptions + differential on exception class'),
    'C17': dict(cat='proof', design='DESIGN.md §0, §7 C17',
        text='Theorems: partition laws as instances of the proved complement law (C05) and of the single range decision; HTML-only lists evaluated in a fixed environment (own document, html namespace); every HTML element of a rooted document is exactly one of :dir(ltr) / :dir(rtl) (DirFacts.dir_partition, any fuel / tree / bidi classifier); :default and :indeterminate are functions of (form) resp. (form, group name) only (HistFacts). Ten laws and the definitions of :default, :indeterminate, :placeholder-shown evaluated on the implementation for every element of generated form documents; all state pseudo-classes through the extracted model.',
        note='the definitional readings of :default / :indeterminate / :placeholder-shown are decided per case by the oracle (partial); nested forms are not judged.',
        technique='Coq theorems on the matcher model + definitional oracle + differential'),
})
CLAIMED.update({
    'C14': dict(cat='proof', design='DESIGN.md §7 C14',
        text='Theorem (for every interleaving, any number of threads): threads that touch shared state only by reading it or through '
             'atomic, value-deterministic memo cells observe exactly what they observe alone. Its premise for the code as it is now is '
             'the access summary regenerated from the sources by T6 (stores on import-time instances, stores to module-level objects, '
             'memoised functions returning mutable objects): proved empty. Schedules chosen over every source-line preemption point '
             'are forced on the real threads (sys.settrace) and compared with the serial results; free-running stress in addition.',
        note='assumes atomic lru_cache/dict/list primitives under the GIL and re-entrant re/bs4/unicodedata; T6 is a conservative static summary; preemption at line granularity.',
        technique='Coq serializability theorem over a source-derived access summary + deterministic schedule replay'),
    'C15': dict(cat='proof', design='DESIGN.md §7 C15',
        text='Theorems: for any key type, compile function and bound, after ANY history of compile/purge calls the LRU model returns a '
             'fresh parse and never exceeds its bound (invariant by induction over operations); purge empties; the real cache is keyed '
             'on all four arguments / bounded by _MAXCACHE / cleared by purge, compile(compiled) passes through, and every value class '
             'compares, hashes and pickles exactly its constructor fields - all on tables regenerated from the sources (T3). Histories '
             'of up to 3000 calls over >500 keys: hit/miss/size vs the Coq model, values vs fresh parses, eq/hash/pickle/copy/immutability.',
        note='functools.lru_cache is trusted to behave like the model (checked by correspondence).',
        technique='Coq invariant proof over an LRU model + source-translated tables + history correspondence'),
    'C16': dict(cat='proof', design='DESIGN.md §7 C16',
        text='Theorem (finite, decided in the kernel): all 1463 programs of up to three import statements over eleven import forms run to '
             'completion on an abstract import machine (partial modules, from-import fallback, try/except ImportError) fed with the '
             'import-time action lists regenerated by T5 from soupsieve/*.py and the installed bs4, with no swallowed ImportError and '
             'no dynamic attribute access on a partially initialised module. 47 (thorough: 200) programs are run in fresh interpreters: '
             'silent import, bs4.css.soupsieve is the real module, a battery of 52 selections (incl. default / empty / absent namespace maps) identical across orders and between '
             'BeautifulSoup.select and soupsieve.select.',
        note='the machine abstracts the import protocol; the behavioural half (equal results, no output) is observed, not proved.',
        technique='Coq finite proof over source-derived import actions + fresh-interpreter enumeration'),
})
CLAIMED.update({
    'C06': dict(cat='proof', design='DESIGN.md §7 C06',
        text='The whole parser (tokenizer over the regenerated token regexes, parse_selectors with every handler, css_unescape, '
             'process_custom, freeze) is a Gallina function with every Python raising site explicit; the extracted model predicts, '
             'for every input, the compiled structure or the exception class, line, column and context. Theorems: every token pattern '
             'consumes at least one character (tokenizer cannot stall); every named group a handler reads unconditionally is set on '
             'every match (general soundness lemma + computation on the regenerated ASTs); escapes decode to valid code points; '
             'process_custom raises only SelectorSyntaxError or KeyError. Malformed-input stream compared case by case.',
        note='the end-to-end totality theorem is not proved (partial): decided per input by model/implementation agreement plus the exception-class oracle.',
        technique='Coq parser model with explicit exceptions + regex capture/progress lemmas + differential on a malformed stream'),
    'C07': dict(cat='proof', design='DESIGN.md §7 C07',
        text='Theorems: (DetCost) an expression in which every unbounded repetition is deterministic from one iteration to the next with one '
             'character of look-ahead (sef, decided syntactically and proved sound against the reference semantics) has a number of ends '
             '(with multiplicity: the size of the backtracking search) bounded by the polynomial (n+2)^deg for EVERY subject; the certificate '
             'holds for ALL 50 patterns regenerated from the sources (vm_compute), so a source change that makes an iteration ambiguous breaks '
             'the proof. (AttrCost) the attribute patterns built at run time are certified for every value, degree 8 whatever the value. (RegexSem) the matcher whose search is bounded finds exactly the matches of a declarative semantics of the whole expression language (ends_iff_M). (RegexCost) the older single-ended certificate for 28 patterns. For all 50 and for the attribute patterns '
             'built at run time: translation validated against the live re objects, an ambiguity search in the model (pump strings, '
             'capped search-tree size, constant growth ratio = exponential) confirmed by timing the live engine, and compile() timed on '
             'truncated-construct families.',
        note='time itself is measured, never proved: the theorem bounds the search size of the reference semantics, the link to seconds is measured.',
        technique='Coq polynomial bound on backtracking search of source-translated regexes + model-driven ambiguity search + timing'),
})
CLAIMED.update({
    'C09': dict(cat='proof', design='DESIGN.md §7 C09',
        text='Theorems (unbounded, UnescFacts): for EVERY string css_unescape over the REGENERATED pattern RE_CSS_ESC equals the CSS escape '
             'specification U (finditer of that pattern is characterised, then the substitution loop is followed); hence every spelling of an '
             'identifier (literal characters, backslash-character, 1-6 hex digits of either case with any legal terminator) unescapes to it and '
             'two spellings are one name to the parser. Theorem (unbounded, StrUnescFacts.css_unescape_str_spec): the same for STRING mode over the REGENERATED RE_CSS_STR_ESC - '
             'for EVERY string css_unescape(s, True) equals the specification US (hex and character escapes, line continuations contribute nothing, a backslash is U+FFFD only at the very end), '
             'with corollaries for every tail (a continuation at the head or right before the end of a value vanishes). Also: names and keywords are compared after ASCII lower-casing; every escape form of every code point below U+0800 '
             'decodes to that code point (kernel computation on the model\'s css_unescape over the regenerated escape regexes); a '
             'committed corpus of 24 selectors x 3 respellings compiles to equal structures in the model; line continuations of every kind contribute nothing to a '
             'quoted value in twelve contexts (finite kernel check on the regenerated RE_CSS_STR_ESC, StrContFacts). Differential: 4 respellings '
             'of each generated AST (white space/comments everywhere allowed, every escape form, line continuations inside quoted values, quote styles, bare identifiers, '
             'case) must compile to the structure of the canonical spelling, also through the model parser.',
        note='the escape layer is proved for all strings in identifier and in string mode; the unbounded print/parse theorem for whole selectors (white space, comments, quote tokens) is not proved (partial).',
        technique='Coq parser model + kernel-checked escape/corpus facts + respelling differential'),
    'C10': dict(cat='proof', design='DESIGN.md §7 C10',
        text='Theorem (unbounded, UnescFacts.unescape_escape): for EVERY string s, css_unescape(escape(s)) = s with NUL replaced by U+FFFD, over the '
             'REGENERATED pattern RE_CSS_ESC. Theorem (unbounded, IdentFacts.escape_is_ident): for EVERY non-empty s, escape(s) is an <ident-token> of the CSS Syntax grammar '
             '(only name characters and well-formed escapes, never a leading digit or lone dash), so it holds no delimiter that could alter the surrounding selector. '
             'Theorem (kernel computation on the model parser and model escape): for ten shapes of every code point below U+0800 and of '
             'samples up to U+10FFFF incl. lone surrogates, "#"+escape(s), "."+escape(s)+">b" and "[a="+escape(s)+"]" compile to '
             'exactly the identifier s (NUL -> U+FFFD) and nothing after it is swallowed; escape is total and non-empty. '
             'Differential: escape() vs the model on every interesting code point class in every position (thorough: all 0x110000 '
             'code points), compiled structures with 9 follow contexts, selection on documents with near-miss values.',
        note='unescape(escape(s)) and "escape(s) is a CSS ident-token" are proved for all strings; that the library\'s IDENTIFIER pattern consumes exactly that token is proved only for the sampled shapes (partial).',
        technique='Coq model of escape + parser, bounded kernel proof + exhaustive differential'),
    'C20': dict(cat='proof', design='DESIGN.md §0, §7 C20',
        text='Theorems: pretty() terminates on every string (each regenerated token pattern is non-nullable, fallback branch, progress '
             'lemma) and its output equals its input up to white space, for EVERY string (PrettyFacts.pretty_content, reading the two '
             'separator patterns REGENERATED from pretty.py); for EVERY string and EVERY offset in it, get_pattern_context reports the line and column of the specification '
             '(LineFacts.gpc_line_col: the matches finditer yields for the REGENERATED line-split pattern are characterised - one per CR LF / CR / '
             'LF, then the empty match at the end - and the loop is followed; no bound). Differential: context function vs model vs '
             'specification incl. caret placement; every SelectorSyntaxError of a mutated multi-line selector, and of a malformed custom '
             'definition, must point inside the text it belongs to and agree with the model parser; DEBUG vs no flag (structure and '
             'selection, with default-namespace maps); pretty() under an alarm vs model output.',
        note='the caret text of the context is checked, not proved; "white space" in the pretty theorem is the \\s class of the patterns, the run-time comparison uses str.split().',
        technique='Coq termination proof + unbounded line/column theorem over the regenerated regex + diagnostics differential'),
})
NOT_YET = {}
props = [json.loads(l) for l in open(os.path.join(V, 'properties.jsonl'))]
checks, na = [], []
for p in props:
    pid = p['id']
    if pid in CLAIMED:
        c = CLAIMED[pid]
        checks.append({
            'property_id': pid,
            'quick_cmd': f'./check {pid} --tier quick',
            'thorough_cmd': f'./check {pid} --tier thorough',
            'evidence_file': f'/verif/evidence/{pid}.json',
            'replay_cmd_template': f'./check {pid} --replay {{path}}',
            'engine': 'coq-proof+correspondence',
            'level_claimed': {'category': c['cat'], 'text': c['text'], 'design_ref': c['design']},
            'level_note': c['note'],
            'technique': c['technique'],
        })
    else:
        na.append({'property_id': pid, 'reason': NOT_YET.get(pid, 'check not built yet (work in progress in this session); the technique applies, see DESIGN.md §7')})
m = {
    'version': 1,
    'setup_cmd': '/venv/bin/python harness/build.py',
    'hooks': {'guard': 'SOUPSIEVE_VERIF', 'enable': 'no source hooks: all instrumentation is applied from outside (run-time wrapping, subprocesses)',
              'baseline_off_cmd': 'cd /repo && /venv/bin/python -m pytest -ra -q -p no:cacheprovider --timeout=900 --continue-on-collection-errors',
              'source_commits': [], 'add_only': True},
    'engines': [
        {'name': 'coq-proof+correspondence', 'path': 'check', 'serves_properties': sorted(CLAIMED),
         'kind_free_text': 'regenerate coq/gen from /repo, full make, Print Assumptions, extracted OCaml model vs implementation vs spec'}],
    'checks': checks,
    'not_applicable': na,
    'notes': 'Genuine defects repaired by fix: commits in /repo and the two recorded ones are listed in known_findings.json; see DESIGN.md.',
}
json.dump(m, open(os.path.join(V, 'MANIFEST.json'), 'w'), indent=1)
print('claimed', sorted(CLAIMED), 'not claimed', len(na))
