"""Regenerate MANIFEST.json from the table below (kept in one place so it is always valid)."""
import json, os
V = os.path.dirname(os.path.dirname(os.path.abspath(__file__)))
CLAIMED = {
    'C18': dict(
        cat='proof', design='DESIGN.md §7 C18',
        text='Theorems (Coq, closed under the global context) about the validators REGENERATED from css_match.py on every run: '
             'days per month incl. leap years for every year, ISO week count (52/53) derived from first principles, exact '
             'characterisation of validate_week (incl. the two known deviations), tuple order = calendar order for dates, weeks, '
             'times. parse_value/match_range are an executable Gallina model over the regenerated regexes, run (extracted) against '
             'the implementation and an independent HTML spec on every case.',
        note='Trusted: Coq kernel, translators T1/T4, extraction (ExtrOcamlBasic), model of strptime/isocalendar (cross-checked '
             'every run), float(str) modelled as exact decimal. The regex shapes are executed, not proved equivalent to the HTML grammar.',
        technique='Coq proof over source-translated validators + extracted-model/implementation/spec differential'),
}
NOT_YET = {}
props = [json.loads(l) for l in open(os.path.join(V, 'properties.jsonl'))]
checks, na = [], []
for p in props:
    pid = p['id']
    if pid in CLAIMED:
        c = CLAIMED[pid]
        checks.append({
            'property_id': pid,
            'quick_cmd': f'./check {pid} --tier quick',
            'thorough_cmd': f'./check {pid} --tier thorough',
            'evidence_file': f'/verif/evidence/{pid}.json',
            'replay_cmd_template': f'./check {pid} --replay {{path}}',
            'engine': 'coq-proof+correspondence',
            'level_claimed': {'category': c['cat'], 'text': c['text'], 'design_ref': c['design']},
            'level_note': c['note'],
            'technique': c['technique'],
        })
    else:
        na.append({'property_id': pid, 'reason': NOT_YET.get(pid, 'check not built yet (work in progress in this session); the technique applies, see DESIGN.md §7')})
m = {
    'version': 1,
    'setup_cmd': '/venv/bin/python harness/build.py',
    'hooks': {'guard': 'SOUPSIEVE_VERIF', 'enable': 'no source hooks: all instrumentation is applied from outside (run-time wrapping, subprocesses)',
              'baseline_off_cmd': 'cd /repo && /venv/bin/python -m pytest -ra -q -p no:cacheprovider --timeout=900 --continue-on-collection-errors',
              'source_commits': [], 'add_only': True},
    'engines': [
        {'name': 'coq-proof+correspondence', 'path': 'check', 'serves_properties': sorted(CLAIMED),
         'kind_free_text': 'regenerate coq/gen from /repo, full make, Print Assumptions, extracted OCaml model vs implementation vs spec'}],
    'checks': checks,
    'not_applicable': na,
    'notes': 'Genuine defects repaired by fix: commits in /repo and the two recorded ones are listed in known_findings.json; see DESIGN.md.',
}
json.dump(m, open(os.path.join(V, 'MANIFEST.json'), 'w'), indent=1)
print('claimed', sorted(CLAIMED), 'not claimed', len(na))
