"""Shared driver for the matcher properties: proof step + E1 campaign + a property oracle."""
import json, warnings
import bs4
import lib, e1, campaign
from lib import Check

MATCH_CONE = ['Base.v', 'Regex.v', 'Tree.v', 'IR.v', 'Lit.v', 'Inputs.v', 'Match.v', 'MatchFacts.v', 'ConstCheck.v',
              'gen/RegexGen.v', 'gen/ConstGen.v', 'gen/PureGen.v']


def feature_class(rec):
    """A coarse (feature-set, outcome) class of a record, for distinct_nontrivial."""
    pat = rec['pattern']
    feats = []
    for tok in (':not(', ':is(', ':where(', ':matches(', ':has(', ':nth-', ':root', ':empty', 'first-', 'last-', 'only-',
                '[', '#', '.', ' > ', ' + ', ' ~ ', ',', '|', ':lang', ':dir', 'contains', ':checked', ':default',
                ':indeterminate', 'abled', ':read-', 'range', 'placeholder', ':required', ':optional', ':link', ':defined',
                ':scope', '&', ':--'):
        if tok in pat:
            feats.append(tok)
    real = rec['real']
    out = real[0] if real[0] != 'ok' else ('empty' if real[1] in ([], 'false', 'none') else 'nonempty')
    return (rec['scenario'].label, tuple(feats), rec['op'][0], out)


def run_corr(ck, scenarios, max_broken=8):
    """Run E1 on the scenarios; record correspondence failures; return the records."""
    recs = e1.run(scenarios)
    for r in recs:
        if 'error' in r:
            ck.broken.append('correspondence: ' + r['error'])
            continue
        ck.count(feature_class(r))
        if r['real'] != r['model']:
            if len([b for b in ck.broken if b.startswith('correspondence')]) < max_broken:
                ck.broken.append('correspondence (matcher model vs implementation): ' + json.dumps(e1.describe(r), ensure_ascii=True)[:1500])
            ck.notes.setdefault('correspondence_mismatches', 0)
            ck.notes['correspondence_mismatches'] += 1
    ck.notes['e1_records'] = ck.notes.get('e1_records', 0) + len(recs)
    hung = getattr(ck, 'hung', None)
    if hung is None:
        hung = ck.hung = set()
    while e1.TIMEOUTS:
        sc, c, op = e1.TIMEOUTS.pop()
        hung.add((id(sc), c.pattern))
        ck.violation(f'{op[0]}({c.pattern!r}) did not return within {e1.OP_TIMEOUT} s (the extracted model answers at once)',
                     {'pattern': c.pattern, 'namespaces': None if c.namespaces is None else dict(c.namespaces), 'op': list(op),
                      'markup': markup_of(sc), 'tree': sc.label})
    return recs


def paths_of(sc, els):
    return [list(sc.path_of[id(e)]) for e in els]


def markup_of(sc):
    try:
        s = str(sc.top)
    except Exception:
        s = 'unserialisable tree; model view: ' + sc.sx
    return s if len(s) < 3000 else s[:3000] + '...'
