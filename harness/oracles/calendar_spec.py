"""Independent executable specification of HTML's date/time/number microsyntaxes (what C18 states).
Shares no code with soupsieve or with the Coq model.  Years are unbounded: the Gregorian calendar
repeats every 400 years (146097 days = 20871 weeks), so year y behaves like 2000 + (y mod 400)."""
import datetime, re
from fractions import Fraction

DIG = '0123456789'


def _digits(s):
    return len(s) > 0 and all(c in DIG for c in s)


def _ref_year(y):
    return 2000 + (y % 400)


def is_leap(y):
    return datetime.date(_ref_year(y), 3, 1) - datetime.date(_ref_year(y), 2, 28) == datetime.timedelta(2)


def days_in_month(y, m):
    ry = _ref_year(y)
    nxt = datetime.date(ry + (m == 12), (m % 12) + 1, 1)
    return (nxt - datetime.date(ry, m, 1)).days


def iso_weeks(y):
    return datetime.date(_ref_year(y), 12, 28).isocalendar()[1]


class KnownRaise(Exception):
    pass


def parse(itype, s, quirks=()):
    """-> comparable key (tuple / Fraction) if s is a valid HTML string of that type, else None.
    quirks: names of KNOWN deviations of the implementation to reproduce (known_findings.json):
      'week53'    - week 53 is accepted when 31 December falls into ISO week 1 of the next year
      'weekrange' - a week string whose year is outside 1000..9999 raises ValueError"""
    if s is None:
        return None
    if itype == 'date':
        p = s.split('-')
        if len(p) == 3 and all(map(_digits, p)) and len(p[0]) >= 4 and len(p[1]) == 2 and len(p[2]) == 2:
            y, m, d = map(int, p)
            if y >= 1 and 1 <= m <= 12 and 1 <= d <= days_in_month(y, m):
                return (y, m, d)
        return None
    if itype == 'month':
        p = s.split('-')
        if len(p) == 2 and all(map(_digits, p)) and len(p[0]) >= 4 and len(p[1]) == 2:
            y, m = map(int, p)
            if y >= 1 and 1 <= m <= 12:
                return (y, m)
        return None
    if itype == 'week':
        p = s.split('-W')
        if len(p) == 2 and all(map(_digits, p)) and len(p[0]) >= 4 and len(p[1]) == 2:
            y, w = map(int, p)
            if y >= 1 and 'weekrange' in quirks and not (1000 <= y <= 9999):
                raise KnownRaise('ValueError')
            mw = iso_weeks(y) if y >= 1 else 0
            if y >= 1 and 'week53' in quirks and datetime.date(_ref_year(y), 12, 31).isocalendar()[1] == 1:
                mw = 53
            if y >= 1 and 1 <= w <= mw:
                return (y, w)
        return None
    if itype == 'time':
        p = s.split(':')
        if len(p) == 2 and all(map(_digits, p)) and len(p[0]) == 2 and len(p[1]) == 2:
            h, mi = map(int, p)
            if h <= 23 and mi <= 59:
                return (h, mi)
        return None
    if itype == 'datetime-local':
        p = s.split('T')
        if len(p) == 2:
            d = parse('date', p[0])
            t = parse('time', p[1])
            if d is not None and t is not None:
                return d + t
        return None
    if itype in ('number', 'range'):
        m = re.fullmatch(r'(-?)([0-9]+(?:\.[0-9]+)?|\.[0-9]+)(?:[eE]([-+]?[0-9]+))?', s, re.A)
        if m and '\n' not in s:
            return Fraction(m.group(1) + ('0' + m.group(2) if m.group(2).startswith('.') else m.group(2))) * \
                Fraction(10) ** int(m.group(3) or 0)
        return None
    return None


RANGE_TYPES = ('date', 'month', 'week', 'time', 'datetime-local', 'number', 'range')


def out_of_range(itype, mn, mx, value, quirks=()):
    """HTML: suffering from an underflow/overflow; None if the element has no valid bound (neither state)."""
    a, b = parse(itype, mn, quirks), parse(itype, mx, quirks)
    if itype not in RANGE_TYPES or (a is None and b is None):
        return None
    v = parse(itype, value, quirks)
    if v is None:
        return False
    if itype == 'time' and a is not None and b is not None and a > b:
        return b < v < a
    return (a is not None and v < a) or (b is not None and v > b)
