"""Reference semantics of selectors (CSS Selectors 3/4 + the soupsieve documentation) on a SOURCE-LEVEL
AST, evaluated directly on a bs4 tree.  Independent of soupsieve and of the Coq model: it is the oracle
for C01, C02, C11, C12, C13, C19.  It quantifies over ELEMENTS only: the document object is never an
element, parent_elem(top element) is None.

AST
  slist    := [complex, ...]
  complex  := [compound, (comb, compound), ...]            comb in ' ', '>', '+', '~'
  compound := dict(type=(prefix|None, name)|None, ids=[...], classes=[...], attrs=[attr...], pseudos=[...])
  attr     := (prefix|None, name, op|None, value, flag|None)    op in = ~= |= ^= $= *= !=
  pseudo   := ('root',) ('empty',) ('first-child',) ... ('nth', kind, a, b, of|None)
              ('not', slist) ('is', slist) ('has', [(comb, complex), ...])
              ('lang', [range, ...]) ('contains', own, [text, ...])
"""
import bs4

XHTML = 'http://www.w3.org/1999/xhtml'
XMLNS = 'http://www.w3.org/XML/1998/namespace'
WS = ' \t\r\n\f'


def ascii_lower(s):
    return ''.join(chr(ord(c) + 32) if 'A' <= c <= 'Z' else c for c in s)


class Doc:
    """Document-level facts the selectors depend on."""

    def __init__(self, top, namespaces=None):
        self.top = top
        d = top
        while d.parent is not None:
            d = d.parent
        self.doc = d
        self.is_docobj = isinstance(d, bs4.BeautifulSoup)
        self.is_xml = bool(d._is_xml)
        if self.is_docobj:
            self.root = next((c for c in d.contents if isinstance(c, bs4.Tag)), None)
        else:
            self.root = d
        self.has_html_ns = bool(self.root is not None and self.root.namespace == XHTML)
        self.is_html = (not self.is_xml) or self.has_html_ns
        self.ns_aware = self.is_xml or self.has_html_ns
        self.namespaces = dict(namespaces or {})

    # navigation over elements only
    def parent_elem(self, el):
        p = el.parent
        if p is None or isinstance(p, bs4.BeautifulSoup):
            return None
        return p

    def elem_children(self, el):
        return [c for c in el.contents if isinstance(c, bs4.Tag)]

    def siblings(self, el):
        p = el.parent
        if p is None:
            return [el]
        return [c for c in p.contents if isinstance(c, bs4.Tag)]

    def el_ns(self, el):
        if not self.ns_aware:
            return XHTML
        return el.namespace or ''

    def local_name(self, el):
        return el.name if self.is_xml else ascii_lower(el.name)


class NotJudged(Exception):
    pass


def is_text(n):
    return isinstance(n, bs4.element.NavigableString) and not isinstance(
        n, (bs4.Comment, bs4.Declaration, bs4.CData, bs4.ProcessingInstruction, bs4.Doctype))


def attr_items(el):
    """[(namespace|None, localname|None, fullname, value)]"""
    return [(getattr(k, 'namespace', None), getattr(k, 'name', None), str(k), v) for k, v in el.attrs.items()]


def norm_value(v):
    if v is None:
        return ''
    if isinstance(v, str):
        return v
    if isinstance(v, bytes):
        return v.decode('utf8')
    if isinstance(v, (list, tuple)):
        return ' '.join(x if isinstance(x, str) else str(x) if not isinstance(x, bytes) else x.decode('utf8')
                        if x is not None else '' for x in v)
    return str(v)


def find_attr(D, el, prefix, name):
    """The value (normalised to a str) of the attribute designated by [prefix|name], or None."""
    eq = (lambda a, b: a == b) if D.is_xml else (lambda a, b: ascii_lower(a) == ascii_lower(b))
    if not D.ns_aware:
        for ns, ln, full, v in attr_items(el):
            if ascii_lower(full) == ascii_lower(name):
                return norm_value(v)
        return None
    if prefix is None or prefix == '':
        # [a] and [|a]: the attribute without a namespace (matched by its whole name)
        for ns, ln, full, v in attr_items(el):
            if eq(name, full):
                return norm_value(v)
        return None
    if prefix == '*':
        for ns, ln, full, v in attr_items(el):
            cand = full if ns is None else ln
            if cand is not None and eq(name, cand):
                return norm_value(v)
        return None
    uri = D.namespaces.get(prefix)
    if uri is None:
        return None
    for ns, ln, full, v in attr_items(el):
        if ns is not None and ns == uri and ln is not None and eq(name, ln):
            return norm_value(v)
    return None


def attr_matches(D, el, a):
    prefix, name, op, value, flag = a
    v = find_attr(D, el, prefix, name)
    if op == '!=':
        return not (v is not None and cmp_value('=', v, value, flag, D, name))
    if v is None:
        return False
    if op is None:
        return True
    return cmp_value(op, v, value, flag, D, name)


def cmp_value(op, v, value, flag, D, name):
    insensitive = False
    if flag in ('i', 'I'):
        insensitive = True
    elif flag in ('s', 'S'):
        insensitive = False
    elif ascii_lower(name) == 'type' and not D.is_xml:
        insensitive = True
    if insensitive:
        v, value = v.lower(), value.lower()      # values in the oracle's pools are ASCII when this matters
    if op == '=':
        return v == value
    if op == '~=':
        if value == '' or any(c in WS for c in value):
            return False
        return value in [w for w in split_ws(v)]
    if op == '|=':
        return v == value or v.startswith(value + '-')
    if value == '':
        return False
    if op == '^=':
        return v.startswith(value)
    if op == '$=':
        return v.endswith(value)
    if op == '*=':
        return value in v
    raise ValueError(op)


def split_ws(s):
    out, cur = [], ''
    for c in s:
        if c in WS:
            if cur:
                out.append(cur)
            cur = ''
        else:
            cur += c
    if cur:
        out.append(cur)
    return out


def type_matches(D, el, t, implied):
    """t = (prefix|None, name) or None.  implied: the compound is the subject of a top-level complex
    selector and has no type selector, so the parser adds an implied `*` (default namespace applies)."""
    if t is None:
        if implied:
            d = D.namespaces.get('')
            return d is None or D.el_ns(el) == d
        return True
    prefix, name = t
    if name != '*':
        n = name if D.is_xml else ascii_lower(name)
        if n != (el.name if D.is_xml else ascii_lower(el.name)):
            return False
    ens = D.el_ns(el)
    if prefix is None:
        d = D.namespaces.get('')
        return d is None or ens == d
    if prefix == '*':
        return True
    if prefix == '':
        return ens == ''
    uri = D.namespaces.get(prefix)
    return uri is not None and ens == uri


def nth_ok(a, b, pos):
    if a == 0:
        return pos == b
    return (pos - b) % a == 0 and (pos - b) // a >= 0


def same_type(D, x, y):
    nx = x.name if D.is_xml else ascii_lower(x.name)
    ny = y.name if D.is_xml else ascii_lower(y.name)
    return nx == ny and D.el_ns(x) == D.el_ns(y)


def get_plain_attr(D, el, name):
    """id / class lookup: by whole name, case rule of the document."""
    for k, v in el.attrs.items():
        ks = str(k)
        if (ks == name) if D.is_xml else (ascii_lower(ks) == name):
            return v
    return None


def content_text(D, el):
    """Concatenated text-node descendants; in HTML documents the content of a nested iframe is excluded."""
    out = []

    def is_iframe(e):
        nm = e.name if D.is_xml else ascii_lower(e.name)
        return nm == 'iframe' and D.el_ns(e) == XHTML

    def walk(e):
        for c in e.contents:
            if isinstance(c, bs4.Tag):
                if D.is_html and is_iframe(c):
                    continue
                walk(c)
            elif is_text(c):
                out.append(str(c))
    if not (D.is_html and is_iframe(el)):
        walk(el)
    return ''.join(out)


def own_texts(D, el):
    nm = el.name if D.is_xml else ascii_lower(el.name)
    if D.is_html and nm == 'iframe' and D.el_ns(el) == XHTML:
        return []
    return [str(c) for c in el.contents if is_text(c)]


def pseudo_matches(D, el, ps, scope):
    k = ps[0]
    if k == 'root':
        if D.root is None or el is not D.root:
            # the root element of a document nested in an iframe also counts (soupsieve documentation)
            p = el.parent
            if not (p is not None and isinstance(p, bs4.Tag) and not isinstance(p, bs4.BeautifulSoup) and D.is_html and
                    (p.name if D.is_xml else ascii_lower(p.name)) == 'iframe' and D.el_ns(p) == XHTML):
                return False
        par = el.parent
        if par is None:
            return True
        for s in par.contents:
            if s is el:
                continue
            if isinstance(s, bs4.Tag) or isinstance(s, bs4.CData) or (is_text(s) and str(s).strip()):
                return False
        return True
    if k == 'empty':
        for c in el.contents:
            if isinstance(c, bs4.Tag):
                return False
            if is_text(c) and any(ch not in WS for ch in str(c)):
                return False
        return True
    if k == 'scope':
        return el is scope
    if k in ('first-child', 'last-child', 'only-child', 'first-of-type', 'last-of-type', 'only-of-type'):
        sib = D.siblings(el)
        if k.endswith('of-type'):
            sib = [s for s in sib if same_type(D, s, el)]
        i = [id(s) for s in sib].index(id(el))
        first, last = i == 0, i == len(sib) - 1
        return {'first': first, 'last': last, 'only': first and last}[k.split('-')[0]]
    if k == 'nth':
        _, kind, a, b, of = ps
        sib = D.siblings(el)
        if 'of-type' in kind:
            sib = [s for s in sib if same_type(D, s, el)]
        elif of is not None:
            if not list_matches(D, el, of, scope, False):
                return False
            sib = [s for s in sib if list_matches(D, s, of, scope, False)]
        if 'last' in kind:
            sib = sib[::-1]
        pos = [id(s) for s in sib].index(id(el)) + 1
        return nth_ok(a, b, pos)
    if k == 'not':
        return not list_matches(D, el, ps[1], scope, False)
    if k == 'is':
        return list_matches(D, el, ps[1], scope, False)
    if k == 'has':
        for comb, cx in ps[1]:
            # the relative selector is anchored at el: its FIRST compound must be reached from el by `comb`
            cands = D.doc.find_all(True) if isinstance(D.doc, bs4.Tag) else []
            if not D.is_docobj:
                cands = [D.doc] + list(cands)
            for c in cands:
                if complex_matches_anchored(D, c, cx, scope, el, comb):
                    return True
        return False
    if k == 'lang':
        lang, judged = language_of(D, el)
        if not judged:
            raise NotJudged()
        if lang is None:
            return False
        rs = [rfc4647_extended(r, lang) for r in ps[1]]
        if any(x is None for x in rs):
            raise NotJudged()
        return any(rs)
    if k == 'contains':
        _, own, texts = ps
        if own:
            return any(any(t in s for s in own_texts(D, el)) for t in texts)
        full = content_text(D, el)
        return any(t in full for t in texts)
    raise ValueError(k)


def compound_matches(D, el, cp, scope, implied):
    if not type_matches(D, el, cp.get('type'), implied):
        return False
    for i in cp.get('ids', []):
        v = get_plain_attr(D, el, 'id')
        if not (isinstance(v, str) and v == i):
            return False
    if cp.get('classes'):
        v = get_plain_attr(D, el, 'class')
        cl = split_ws(v) if isinstance(v, str) else list(v) if isinstance(v, (list, tuple)) else []
        for c in cp['classes']:
            if c not in cl:
                return False
    for a in cp.get('attrs', []):
        if not attr_matches(D, el, a):
            return False
    for ps in cp.get('pseudos', []):
        if not pseudo_matches(D, el, ps, scope):
            return False
    return True


def complex_matches(D, el, cx, scope, top_level):
    """cx = [compound, (comb, compound), ...]; el must match the LAST compound."""
    return _match_from(D, el, cx, len(cx) - 1, scope, top_level)


def _comp(cx, i):
    return cx[0] if i == 0 else cx[i][1]


def _match_from(D, el, cx, i, scope, top_level):
    if not compound_matches(D, el, _comp(cx, i), scope, top_level and i == len(cx) - 1):
        return False
    if i == 0:
        return True
    comb = cx[i][0]
    if comb == '>':
        p = D.parent_elem(el)
        return p is not None and _match_from(D, p, cx, i - 1, scope, top_level)
    if comb == ' ':
        p = D.parent_elem(el)
        while p is not None:
            if _match_from(D, p, cx, i - 1, scope, top_level):
                return True
            p = D.parent_elem(p)
        return False
    sib = D.siblings(el)
    k = [id(s) for s in sib].index(id(el))
    if comb == '+':
        return k > 0 and _match_from(D, sib[k - 1], cx, i - 1, scope, top_level)
    if comb == '~':
        return any(_match_from(D, s, cx, i - 1, scope, top_level) for s in sib[:k])
    raise ValueError(comb)


def complex_matches_anchored(D, el, cx, scope, anchor, lead):
    """:has(): el matches the last compound of cx and the chain's FIRST compound is related to anchor by lead."""
    n = len(cx)

    def rec(e, i):
        if not compound_matches(D, e, _comp(cx, i), scope, False):
            return False
        if i == 0:
            # e must be reached from anchor by `lead`
            if lead == '>':
                return D.parent_elem(e) is anchor or e.parent is anchor
            if lead == ' ':
                p = e.parent
                while p is not None:
                    if p is anchor:
                        return True
                    p = p.parent
                return False
            sib = D.siblings(anchor)
            k = [id(s) for s in sib].index(id(anchor))
            if lead == '+':
                return k + 1 < len(sib) and sib[k + 1] is e
            return any(s is e for s in sib[k + 1:])
        comb = cx[i][0]
        if comb == '>':
            p = D.parent_elem(e)
            return p is not None and rec(p, i - 1)
        if comb == ' ':
            p = D.parent_elem(e)
            while p is not None:
                if rec(p, i - 1):
                    return True
                p = D.parent_elem(p)
            return False
        sib = D.siblings(e)
        k = [id(s) for s in sib].index(id(e))
        if comb == '+':
            return k > 0 and rec(sib[k - 1], i - 1)
        return any(rec(s, i - 1) for s in sib[:k])
    return rec(el, n - 1)


def list_matches(D, el, sl, scope, top_level):
    return any(complex_matches(D, el, cx, scope, top_level) for cx in sl)


def select(D, target, sl):
    """All element descendants of target (document order) matching sl; scope = target (root when document)."""
    scope = D.root if isinstance(target, bs4.BeautifulSoup) else target
    return [e for e in target.find_all(True) if list_matches(D, e, sl, scope, True)]


# ------------------------------------------------------------------ language (C13)
def _is_iframe(D, e):
    nm = e.name if D.is_xml else ascii_lower(e.name)
    return nm == 'iframe' and D.el_ns(e) == XHTML


def own_lang(D, el):
    """The language attribute value carried by el itself (None if it has none)."""
    html_like = (not D.ns_aware) or el.namespace == XHTML
    for ns, ln, full, v in attr_items(el):
        if html_like:
            if (full if D.is_xml else ascii_lower(full)) == 'lang':
                return norm_value(v)
        else:
            if ns == XMLNS and ln is not None and (ln if D.is_xml else ascii_lower(ln)) == 'lang':
                return norm_value(v)
    return None


def language_of(D, el):
    """-> (language or None, judged: bool).  judged=False where the property text leaves the answer open
    (meta fallback inside a nested iframe document or in an XML document)."""
    e = el
    top = None
    while e is not None and isinstance(e, bs4.Tag) and not isinstance(e, bs4.BeautifulSoup):
        v = own_lang(D, e)
        if v is not None:
            return v, True
        p = e.parent
        top = e
        if p is not None and isinstance(p, bs4.Tag) and not isinstance(p, bs4.BeautifulSoup) and D.is_html and _is_iframe(D, p):
            # document nested in an iframe: its own <meta> would be the fallback; not judged
            return None, not any(True for m in e.find_all('meta'))
        e = p
    if D.is_xml:
        has_meta = any(ascii_lower(m.name) == 'meta' for m in D.doc.find_all(True))
        return None, not has_meta
    if not D.is_docobj:
        return None, not any(True for m in D.doc.find_all('meta'))
    # HTML: <meta http-equiv="content-language" content="..."> in <head> of <html>
    html = next((c for c in D.doc.contents if isinstance(c, bs4.Tag) and ascii_lower(c.name) == 'html' and D.el_ns(c) == XHTML), None)
    if html is None:
        return None, True
    head = next((c for c in html.contents if isinstance(c, bs4.Tag) and ascii_lower(c.name) == 'head' and D.el_ns(c) == XHTML), None)
    if head is None:
        return None, True
    for m in head.contents:
        if isinstance(m, bs4.Tag) and ascii_lower(m.name) == 'meta':
            he = content = None
            for k, v in m.attrs.items():
                if ascii_lower(str(k)) == 'http-equiv':
                    he = norm_value(v)
                if ascii_lower(str(k)) == 'content':
                    content = norm_value(v)
            if he is not None and ascii_lower(he) == 'content-language' and content:
                return content, True
    return None, True


def rfc4647_extended(rng, tag):
    """RFC 4647 section 3.3.2, with the two conventions of the property text for '' and '*'."""
    r = [x.lower() for x in rng.split('-')]
    t = [x.lower() for x in tag.split('-')]
    if (rng != '' and '' in r) or (tag != '' and '' in t):
        return None                      # malformed range or tag (an empty subtag): not judged
    if rng == '' or tag == '':
        return rng == '' and tag == ''
    if r[0] != '*' and r[0] != t[0]:
        return False
    ri, ti = 1, 1
    while ri < len(r):
        if r[ri] == '*':
            ri += 1
            continue
        if ti >= len(t):
            return False
        if t[ti] == r[ri]:
            ri += 1
            ti += 1
        elif len(t[ti]) == 1:
            return False
        else:
            ti += 1
    return True
