"""C01 - select() returns exactly the elements CSS semantics designate."""
import json, warnings
import lib, e1, campaign, matchcheck, attrval
from lib import Check
from oracles import selspec

PID = 'C01'


def oracle(ck, scenarios, recs, what='CSS designates'):
    """Implementation vs the independent reference semantics (selspec) on the source AST."""
    import soupsieve as sv
    for sc in scenarios:
        D = None
        for (pattern, ns, custom, c, ops) in sc.items:
            a = sc.meta.get(pattern)
            if a is None or not isinstance(c, sv.SoupSieve):
                if a is not None:
                    ck.violation(f'compile({pattern!r}) raised {type(c).__name__} on a valid selector of the C01 grammar',
                                 {'pattern': pattern, 'observed': repr(c)[:300]})
                continue
            D = selspec.Doc(sc.top, ns)
            try:
                exp = selspec.select(D, sc.top, a)
            except selspec.NotJudged:
                ck.notes['not_judged'] = ck.notes.get('not_judged', 0) + 1
                continue
            with warnings.catch_warnings():
                warnings.simplefilter('ignore')
                try:
                    got = c.select(sc.top)
                except Exception as ex:
                    ck.violation(f'select({pattern!r}) raised {type(ex).__name__}', {'pattern': pattern, 'markup': matchcheck.markup_of(sc)})
                    continue
            ck.count(('oracle', sc.label, len(exp) > 0))
            if [id(x) for x in got] != [id(x) for x in exp]:
                ck.violation(
                    f'select({pattern!r}) returns {matchcheck.paths_of(sc, got)} but CSS designates {matchcheck.paths_of(sc, exp)}',
                    {'pattern': pattern, 'namespaces': ns, 'markup': matchcheck.markup_of(sc), 'tree': sc.label,
                     'observed_paths': matchcheck.paths_of(sc, got), 'expected_paths': matchcheck.paths_of(sc, exp),
                     'how': 'soupsieve.select(pattern, tree) vs harness/oracles/selspec.py'})
            if len(ck.samples) < 5:
                ck.sample({'pattern': pattern, 'tree': sc.label, 'selected': matchcheck.paths_of(sc, got)})


def run(tier, seed):
    ck = Check(PID, tier, seed)
    ck.proof = lib.proof_step('props/C01.v', matchcheck.MATCH_CONE + ['FuelFacts.v', 'AttrPat.v', 'RunFacts.v', 'AttrFacts.v'])
    ck.broken += ck.proof['broken']
    if not ck.proof['driver_ok']:
        ck.notes['driver'] = 'unavailable: model-side runs skipped, searching with the implementation-side oracles only'
    n = 220 if tier == 'quick' else 2500
    scs = campaign.build(ck.rnd, 'core', n, 8, depth=2, all_match=True, directed=3)
    scs += campaign.build(ck.rnd, 'core', n // 4, 4, depth=3, all_match=True)
    attrval.run(ck, ck.rnd, 300 if tier == 'quick' else 5000)
    recs = matchcheck.run_corr(ck, scs)
    oracle(ck, scs, recs)
    return ck.finish(
        level='proof',
        rule='trees: generic documents built through the bs4 API / html.parser / lxml / html5lib / lxml-xml, detached fragments, '
             'several top-level nodes; selectors: AST generator over the C01 grammar (depth 2-3) with names and values drawn '
             'from the tree, 3 of 8 per tree derived from a sibling / parent / ancestor relationship that occurs in it. Each case: implementation vs extracted Coq matcher (E1, every API entry point) and '
             'implementation vs independent reference semantics. class = (tree kind, selector features, op, outcome).',
        assumptions=['reference semantics harness/oracles/selspec.py is my reading of Selectors 3/4 + soupsieve docs for :root',
                     'case-insensitive comparison is judged on ASCII values only'])


def replay(path):
    print(open(path).read())
    return 0
