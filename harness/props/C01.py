"""C01 - select() returns exactly the elements CSS semantics designate."""
import json, warnings
import lib, e1, campaign, matchcheck, attrval
from lib import Check
from oracles import selspec

PID = 'C01'


def oracle(ck, scenarios, recs, what='CSS designates'):
    """Implementation vs the independent reference semantics (selspec) on the source AST."""
    import soupsieve as sv
    for sc in scenarios:
        D = None
        for (pattern, ns, custom, c, ops) in sc.items:
            a = sc.meta.get(pattern)
            if a is None or not isinstance(c, sv.SoupSieve):
                if a is not None:
                    ck.violation(f'compile({pattern!r}) raised {type(c).__name__} on a valid selector of the C01 grammar',
                                 {'pattern': pattern, 'observed': repr(c)[:300]})
                continue
            D = selspec.Doc(sc.top, ns)
            try:
                exp = selspec.select(D, sc.top, a)
            except selspec.NotJudged:
                ck.notes['not_judged'] = ck.notes.get('not_judged', 0) + 1
                continue
            if (id(sc), pattern) in getattr(ck, 'hung', ()):
                continue                   # already reported: this call does not return
            with warnings.catch_warnings():
                warnings.simplefilter('ignore')
                try:
                    st_, got = lib.call_with_timeout(lambda: c.select(sc.top), 30)
                    if st_ == 'timeout':
                        ck.violation(f'select({pattern!r}) did not return within 30 s', {'pattern': pattern, 'namespaces': ns, 'markup': matchcheck.markup_of(sc)})
                        continue
                    if st_ == 'raise':
                        raise got
                except Exception as ex:
                    ck.violation(f'select({pattern!r}) raised {type(ex).__name__}', {'pattern': pattern, 'markup': matchcheck.markup_of(sc)})
                    continue
            ck.count(('oracle', sc.label, len(exp) > 0))
            if [id(x) for x in got] != [id(x) for x in exp]:
                ck.violation(
                    f'select({pattern!r}) returns {matchcheck.paths_of(sc, got)} but CSS designates {matchcheck.paths_of(sc, exp)}',
                    {'pattern': pattern, 'namespaces': ns, 'markup': matchcheck.markup_of(sc), 'tree': sc.label,
                     'observed_paths': matchcheck.paths_of(sc, got), 'expected_paths': matchcheck.paths_of(sc, exp),
                     'how': 'soupsieve.select(pattern, tree) vs harness/oracles/selspec.py'})
            if len(ck.samples) < 5:
                ck.sample({'pattern': pattern, 'tree': sc.label, 'selected': matchcheck.paths_of(sc, got)})


def deep_documents(ck, tier):
    """Very deep (and very wide) documents built through the bs4 API: the answers are known in closed form."""
    import warnings
    import bs4
    import soupsieve as sv
    for depth in ((1200, 2500) if tier == 'quick' else (1200, 2500, 6000)):
        soup = bs4.BeautifulSoup('', 'html.parser')
        cur = soup
        chain = []
        for k in range(depth):
            t = soup.new_tag('div' if k % 2 == 0 else 'section')
            cur.append(t)
            chain.append(t)
            cur = t
        leaf = soup.new_tag('p', id='leaf')
        cur.append(leaf)
        cur.append(bs4.NavigableString('end'))
        n_div, n_sec = (depth + 1) // 2, depth // 2
        expect = [('p', [leaf]), ('div', chain[0::2]), ('section > div', chain[2::2]), ('div p', [leaf]), (':has(> p)', [chain[-1]]),
                  ('div:has(p)', chain[0::2]), (':root', [chain[0]]), ('section:not(:has(#leaf))', []), ('*', chain + [leaf]),
                  ('p:last-child, section:only-child', chain[1::2] + [leaf]), (':-soup-contains("end")', chain + []), ('div ~ p', [])]
        for sel, want in expect:
            for scope, lab in ((soup, 'document'), (chain[depth // 2], 'a middle element')):
                below = {id(x) for x in scope.find_all(True)}
                w = [x for x in want if id(x) in below]
                if sel == ':root' and lab != 'document':
                    w = []
                try:
                    with warnings.catch_warnings():
                        warnings.simplefilter('ignore')
                        got = sv.select(sel, scope)
                    ok = [id(x) for x in got] == [id(x) for x in w]
                    what = f'returns {len(got)} element(s), {len(w)} are designated'
                except Exception as ex:
                    ok, what = False, f'raised {type(ex).__name__}'
                ck.count(('deep', depth, sel, lab))
                if not ok:
                    ck.violation(f'select({sel!r}) on {lab} of a document nested {depth} levels deep {what}',
                                 {'pattern': sel, 'depth': depth, 'scope': lab,
                                  'replay': f'chain of {depth} alternating div/section elements built with new_tag/append, a <p id=leaf> and the text "end" '
                                            'in the innermost one'})
        for sel, want in (('p', True), ('section p', True), ('div > p', depth % 2 == 1), (':has(p)', False)):
            try:
                got = sv.match(sel, leaf)
                cl = sv.closest('div', leaf)
                ok = got == want and cl is (chain[-1] if depth % 2 == 1 else chain[-2])
                what = f'match gives {got}, closest("div") the wrong ancestor: {cl is not (chain[-1] if depth % 2 == 1 else chain[-2])}'
            except Exception as ex:
                ok, what = False, f'raised {type(ex).__name__}'
            ck.count(('deep-match', depth, sel))
            if not ok:
                ck.violation(f'match({sel!r}) / closest on the innermost element of a document nested {depth} levels deep: {what}',
                             {'pattern': sel, 'depth': depth})
    # very wide: 20000 siblings
    soup = bs4.BeautifulSoup('', 'html.parser')
    ul = soup.new_tag('ul')
    soup.append(ul)
    items = []
    for k in range(20000 if tier != 'quick' else 6000):
        li = soup.new_tag('li')
        ul.append(li)
        items.append(li)
    for sel, want in (('li', items), ('li + li', items[1:]), ('li:last-child', items[-1:]), ('li ~ li:first-child', []), ('ul:has(> li + li)', [ul])):
        try:
            got = sv.select(sel, soup)
            ok = [id(x) for x in got] == [id(x) for x in want]
            what = f'returns {len(got)} element(s), {len(want)} are designated'
        except Exception as ex:
            ok, what = False, f'raised {type(ex).__name__}'
        ck.count(('wide', sel))
        if not ok:
            ck.violation(f'select({sel!r}) on a list of {len(items)} siblings {what}', {'pattern': sel, 'siblings': len(items)})


EMPTY_SPELLINGS = ['""', "''", '"\\\n"', '"\\\r\n"', "'\\\f'", '"\\\r"', '"\\\n\\\r\n"', "'\\\r\n\\\f'"]


def empty_values(ck):
    """Directed: every spelling of the EMPTY quoted value (nothing between the quotes, or only CSS line continuations, which
    contribute nothing to a string).  ^=, $= and *= with it designate nothing, = with it designates exactly the elements whose
    attribute is the empty string, :not() of each the complement.  Expected sets are read off the property text."""
    import soupsieve as sv
    from bs4 import BeautifulSoup
    docs = [('html.parser', '<div id="r"><p id="1" a=""></p><p id="2" a="x"></p><p id="3"></p><p id="4" a=" "></p><p id="5" a="&#10;"></p><p id="6" a="\ufffd&#10;"></p></div>'),
            ('lxml-xml', '<r id="r"><p id="1" a=""/><p id="2" a="x"/><p id="3"/><p id="4" a=" "/><q id="5" a="-"/></r>')]
    for parser, markup in docs:
        soup = BeautifulSoup(markup, parser)
        allids = [e['id'] for e in soup.find_all(True)]
        empt = [e['id'] for e in soup.find_all(True) if e.get('a') == '']
        for sp in EMPTY_SPELLINGS:
            for op in ('^=', '$=', '*=', '='):
                for tail in ('', ' i', ' s'):
                    for neg in (False, True):
                        core = f'[a{op}{sp}{tail}]'
                        pattern = f':not({core})' if neg else core
                        pos = empt if op == '=' else []
                        exp = [i for i in allids if i not in pos] if neg else pos
                        ck.count(('empty-value', parser, op, neg))
                        try:
                            got = [e['id'] for e in sv.select(pattern, soup)]
                        except Exception as ex:
                            ck.violation(f'select({pattern!r}) raised {type(ex).__name__} on a valid selector of the C01 grammar',
                                         {'pattern': pattern, 'markup': markup, 'parser': parser, 'message': str(ex).splitlines()[0][:200]})
                            continue
                        if got != exp:
                            ck.violation(f'select({pattern!r}) returns ids {got} but CSS designates {exp} (the value is the empty string)',
                                         {'pattern': pattern, 'markup': markup, 'parser': parser, 'observed_ids': got, 'expected_ids': exp,
                                          'how': 'soupsieve.select(pattern, BeautifulSoup(markup, parser)); ids of the result'})


def run(tier, seed):
    ck = Check(PID, tier, seed)
    ck.proof = lib.proof_step('props/C01.v', matchcheck.MATCH_CONE + ['FuelFacts.v', 'AttrPat.v', 'RunFacts.v', 'AttrFacts.v'])
    ck.broken += ck.proof['broken']
    if not ck.proof['driver_ok']:
        ck.notes['driver'] = 'unavailable: model-side runs skipped, searching with the implementation-side oracles only'
    n = 220 if tier == 'quick' else 2500
    scs = campaign.build(ck.rnd, 'core', n, 8, depth=2, all_match=True, directed=3)
    scs += campaign.build(ck.rnd, 'core', n // 4, 4, depth=3, all_match=True)
    attrval.run(ck, ck.rnd, 300 if tier == 'quick' else 5000)
    # sibling lists whose names differ only in ASCII case (one type in HTML, several in XML) with the type-counting pseudo-classes
    from props import C02 as _C02
    import gen_selectors as _gs
    for _ in range(40 if tier == 'quick' else 600):
        top_, label_ = _C02.sibling_doc(ck.rnd, force_mixed=True, modes=['api', 'api', 'frag', 'toplevel', 'xml', 'html.parser'])
        sc_ = e1.Scenario(top_, label_)
        sc_.meta = {}
        for _k in range(3):
            a_ = [[{'ids': [], 'classes': [], 'attrs': [], 'pseudos': [('nth', ck.rnd.choice(['nth-of-type', 'nth-last-of-type']), 0, ck.rnd.choice([1, 1, 2]), None)]}]]
            nm_ = ck.rnd.choice([None, 'li', 'LI', 'Li', 'dd'])
            if nm_:
                a_[0][0]['type'] = (None, nm_)
            kind_, idx_ = a_[0][0]['pseudos'][0][1], a_[0][0]['pseudos'][0][3]
            # written as a plain index or as the keyword form (the same positions as 0n+idx)
            s_ = (nm_ or '') + (f':{kind_}({idx_})' if idx_ != 1 or ck.rnd.random() < 0.5 else {'nth-of-type': ':first-of-type', 'nth-last-of-type': ':last-of-type'}[kind_])
            if s_ not in sc_.meta:
                sc_.add(s_, [('select', (), 0)] + [('match', sc_.path_of[id(e)]) for e in sc_.elements[:12]])
                sc_.meta[s_] = a_
        scs.append(sc_)
    deep_documents(ck, tier)
    empty_values(ck)
    recs = matchcheck.run_corr(ck, scs)
    oracle(ck, scs, recs)
    return ck.finish(
        level='proof',
        rule='trees: generic documents built through the bs4 API / html.parser / lxml / html5lib / lxml-xml, detached fragments, '
             'several top-level nodes; selectors: AST generator over the C01 grammar (depth 2-3) with names and values drawn '
             'from the tree, 3 of 8 per tree derived from a sibling / parent / ancestor relationship that occurs in it. Each case: implementation vs extracted Coq matcher (E1, every API entry point) and '
             'implementation vs independent reference semantics. class = (tree kind, selector features, op, outcome).',
        assumptions=['reference semantics harness/oracles/selspec.py is my reading of Selectors 3/4 + soupsieve docs for :root',
                     'case-insensitive comparison is judged on ASCII values only'])


def replay(path):
    print(open(path).read())
    return 0
