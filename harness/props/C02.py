"""C02 - positional pseudo-classes implement An+B exactly."""
import warnings
import bs4
from bs4 import BeautifulSoup
import lib, e1, campaign, matchcheck, gen_trees
from lib import Check
from oracles import selspec

PID = 'C02'
KINDS = ['nth-child', 'nth-last-child', 'nth-of-type', 'nth-last-of-type']


def spell(rnd, a, b):
    """An accepted spelling of An+B and the (a, b) it denotes."""
    k = rnd.random()
    if (a, b) == (2, 0) and k < 0.3:
        return rnd.choice(['even', 'EVEN', 'Even'])
    if (a, b) == (2, 1) and k < 0.3:
        return rnd.choice(['odd', 'ODD'])
    n = rnd.choice(['n', 'N'])
    if a == 1:
        an = rnd.choice([n, '+' + n, '1' + n, '+1' + n])
    elif a == -1:
        an = rnd.choice(['-' + n, '-1' + n])
    else:
        an = (rnd.choice(['', '+']) if a >= 0 else '') + str(a) + n
    if b == 0 and rnd.random() < 0.5:
        return an
    ws = rnd.choice(['', ' ', '  ', '\t', '/**/', ' /* c */ ', '\n'])
    ws2 = rnd.choice(['', ' ', '/**/', ws])
    return f'{an}{ws}{"+" if b >= 0 else "-"}{ws2}{abs(b)}'


def sibling_doc(rnd, force_mixed=False, modes=None):
    """A parent with 0-10 element children of 1-3 types, with or without interleaved non-element nodes."""
    n = rnd.choice([0, 1, 1, 2, 2, 3, 4, 5, 6, 8, 10])
    style = rnd.choice(['tight', 'spaced', 'mixed', 'tight'])
    kids = []
    mixed_case = force_mixed or rnd.random() < 0.3
    for i in range(n):
        if style == 'spaced' or (style == 'mixed' and rnd.random() < 0.5):
            kids.append(rnd.choice([('t', '\n'), ('c', 'x'), ('t', 'txt'), ('t', ' ')]))
        nm = rnd.choice(['li', 'li', 'dd', 'p'])
        if mixed_case and rnd.random() < 0.5:
            nm = rnd.choice(['li', 'Li', 'LI', 'dd', 'DD'])          # one type in HTML, different types in XML
        a = {'class': rnd.choice(['x', 'y', 'x y', ''])} if rnd.random() < 0.6 else {}
        kids.append(('e', nm, a, [('e', 'b', {}, [])] if rnd.random() < 0.2 else []))
    if style != 'tight' and rnd.random() < 0.5:
        kids.append(('t', '\n'))
    mode = rnd.choice(['api', 'html.parser', 'lxml', 'html5lib', 'frag', 'toplevel', 'xml', 'xmlns', 'xmlns'])
    if modes:
        mode = rnd.choice(modes)
    if mode == 'xmlns':
        # same-named siblings in different namespaces are different element types
        kids = [(k[0], k[1], dict(k[2], xmlns=rnd.choice(['urn:one', 'urn:two', 'urn:one'])) if rnd.random() < 0.7 else k[2], k[3])
                if k[0] == 'e' else k for k in kids]
        mode = 'xml'
    # the parent's own kind never matters: an <iframe> that kept element children (html.parser, API, XHTML) numbers them like any parent
    pname = rnd.choice(['ul', 'ul', 'ul', 'iframe', 'iframe', 'div'])
    ul = ('e', pname, {}, kids)
    with warnings.catch_warnings():
        warnings.simplefilter('ignore')
        if mode == 'api':
            top = gen_trees.build_api([('e', 'html', {}, [('e', 'body', {}, [ul])])])
        elif mode == 'frag':
            top = gen_trees.build_api([ul], detached=True)           # parentless element: fake parent
        elif mode == 'toplevel':
            top = gen_trees.build_api(kids or [ul])                   # siblings directly under the document object
        elif mode == 'xml':
            root = ('e', 'root', {}, [ul]) if rnd.random() < 0.6 else ('e', 'html', {'xmlns': 'http://www.w3.org/1999/xhtml'}, [('e', 'body', {}, [ul])])
            top = gen_trees.parse_with('<?xml version="1.0"?>' + gen_trees.to_markup(root, xml=True), 'xml')
        else:
            top = gen_trees.parse_with(gen_trees.to_markup(('e', 'html', {}, [('e', 'body', {}, [ul])])), mode)
    return top, 'nth/' + mode + '/' + style + ('/iframe' if pname == 'iframe' else '')


def run(tier, seed):
    ck = Check(PID, tier, seed)
    rnd = ck.rnd
    ck.proof = lib.proof_step('props/C02.v', matchcheck.MATCH_CONE + ['NthFacts.v', 'NthProof.v', 'MemoFacts.v', 'HistFacts.v', 'NthElem.v'])
    ck.broken += ck.proof['broken']
    if not ck.proof['driver_ok']:
        ck.notes['driver'] = 'unavailable: model-side runs skipped, searching with the implementation-side oracles only'
    import soupsieve as sv
    n_docs = 150 if tier == 'quick' else 3000
    R = 8 if tier == 'quick' else 12
    scs = []
    for _ in range(n_docs):
        top, label = sibling_doc(rnd)
        sc = e1.Scenario(top, label)
        sc.meta = {}
        for _ in range(8):
            a, b = rnd.randint(-R, R), rnd.randint(-R, R)
            if rnd.random() < 0.15:
                a, b = rnd.choice([(2, 0), (2, 1), (1, 0), (0, 1), (-1, 3), (1, 2), (2, -2), (0, 0), (3, -3)])
            kind = rnd.choice(KINDS)
            of = None
            ofs = ''
            if 'child' in kind and rnd.random() < 0.4:
                of = rnd.choice([[[{'classes': ['x']}]], [[{'type': (None, 'li')}]], [[{'type': (None, 'li')}], [{'classes': ['y']}]],
                                 [[{'pseudos': [('not', [[{'classes': ['x']}]])]}]]])
                from gen_selectors import show_list
                ofs = rnd.choice([' of ', '  of  ', ' OF ', '/**/ of /**/ ']) + show_list(of)
            if rnd.random() < 0.22:
                a_ = rnd.choice([0, 1, 1, 1, 1, 2, 2, 3, 4, 5, 11])           # plain index (no n)
                arg = rnd.choice(['', '', '+']) + str(a_)
                ast_p = ('nth', kind, 0, a_, of)
            else:
                arg = spell(rnd, a, b)
                ast_p = ('nth', kind, a, b, of)
            pre = rnd.choice(['', 'li', '*', '.x'])
            kname = rnd.choice([kind, kind.upper()]) if rnd.random() < 0.1 else kind
            if rnd.random() < 0.15:
                # the name of the pseudo-class is an identifier: any of its letters may be written as an escape
                j_ = rnd.choice([i_ for i_, ch_ in enumerate(kname) if ch_ != '-'])
                kname = kname[:j_] + ('\\%x ' % ord(kname[j_])) + kname[j_ + 1:]
            pat = f'{pre}:{kname}({arg}{ofs})'
            cp = {'pseudos': [ast_p]}
            if rnd.random() < 0.3:
                # two (or three) positional pseudo-classes in one compound: a conjunction, each counted from its own start
                for _k in range(rnd.choice([1, 1, 2])):
                    a2, b2 = rnd.choice([(2, 1), (3, 0), (-1, rnd.randint(2, 8)), (1, rnd.randint(0, 4)), (2, 0), (rnd.randint(-4, 4), rnd.randint(-4, 8))])
                    kind2 = rnd.choice(KINDS)
                    pat += f':{kind2}({spell(rnd, a2, b2)})'
                    cp['pseudos'].append(('nth', kind2, a2, b2, None))
            if pre == 'li':
                cp['type'] = (None, 'li')
            elif pre == '*':
                cp['type'] = (None, '*')
            elif pre == '.x':
                cp['classes'] = ['x']
            ops = [('select', (), 0)] + [('match', sc.path_of[id(e)]) for e in sc.elements[:12]]
            # a caller-supplied default namespace must not change which siblings are COUNTED (only what a type selector means)
            nsm = None
            if ('/xml/' in label or '/html5lib/' in label) and rnd.random() < 0.55:
                nsm = rnd.choice([{'': 'urn:one'}, {'': 'urn:two', 'o': 'urn:one'}, {'': 'http://www.w3.org/1999/xhtml'}, {'': 'urn:none'}])
            sc.add(pat, ops, namespaces=nsm)
            sc.meta[pat] = [[cp]]
        # directed: the first / last element AMONG THOSE THAT MATCH S, written as a plain index
        for kind, idx_, ofl in (('nth-child', 1, [[{'classes': ['x']}]]), ('nth-last-child', 1, [[{'type': (None, 'li')}]]),
                                ('nth-child', rnd.choice([1, 2]), [[{'pseudos': [('not', [[{'classes': ['x']}]])]}]])):
            from gen_selectors import show_list
            pat = f':{kind}({idx_} of {show_list(ofl)})'
            if pat not in sc.meta:
                sc.add(pat, [('select', (), 0)] + [('match', sc.path_of[id(e)]) for e in sc.elements[:12]])
                sc.meta[pat] = [[{'pseudos': [('nth', kind, 0, idx_, ofl)]}]]
        if '/xml/' in label or '/html5lib/' in label:
            # directed: the implicit `of *|*` counts EVERY sibling, whatever default namespace the caller supplies
            used = sorted({e.namespace for e in sc.elements if getattr(e, 'namespace', None)}) or ['urn:one']
            for kind, a, b in (('nth-child', 0, rnd.randint(1, 4)), ('nth-last-child', 2, 1), ('nth-child', rnd.choice([1, 2, -1]), rnd.randint(0, 3))):
                pat = f'*|*:{kind}({a}n+{b})'
                nsm = {'': rnd.choice(used + ['urn:none'])}
                ops = [('select', (), 0)] + [('match', sc.path_of[id(e)]) for e in sc.elements[:12]]
                if pat not in sc.meta:
                    sc.add(pat, ops, namespaces=nsm)
                    sc.meta[pat] = [[{'type': ('*', '*'), 'pseudos': [('nth', kind, a, b, None)]}]]
        # keyword forms coincide with their An+B instances
        for kw, eq in ((':first-child', ':nth-child(1)'), (':last-child', ':nth-last-child(1)'),
                       (':first-of-type', ':nth-of-type(1)'), (':last-of-type', ':nth-last-of-type(1)'),
                       (':only-child', ':nth-child(1):nth-last-child(1)'), (':only-of-type', ':nth-of-type(1):nth-last-of-type(1)')):
            with warnings.catch_warnings():
                warnings.simplefilter('ignore')
                st_, val_ = lib.call_with_timeout(lambda: (sv.select(kw, top), sv.select(eq, top)), 20)
            if st_ != 'ok':
                ck.violation(f'select({kw!r}) / select({eq!r}) ' + ('did not return within 20 s' if st_ == 'timeout' else f'raised {type(val_).__name__}'),
                             {'markup': str(top), 'a': kw, 'b': eq})
                continue
            x, y = val_
            ck.count(('kw', kw, len(x) > 0))
            if [id(e) for e in x] != [id(e) for e in y]:
                ck.violation(f'{kw} and {eq} select different elements', {'markup': str(top), 'a': kw, 'b': eq,
                             'a_selected': len(x), 'b_selected': len(y)})
        scs.append(sc)
    recs = matchcheck.run_corr(ck, scs)
    # oracle: closed form on positions computed from the live tree
    from props import C01
    C01.oracle(ck, scs, recs)
    return ck.finish(
        level='proof',
        rule=f'sibling lists of 0-10 elements (1-3 types; tight / text-separated / mixed; under a parsed body, a detached '
             f'parent-less element, or directly under the document object), A,B in [-{R},{R}] in every accepted spelling '
             '(sign, n, -n, even/odd, inner whitespace/comments, case), all four pseudo-classes, `of S` filters, keyword forms. '
             'Every element is asked individually and via select(). class = (tree shape, features, op, outcome).',
        assumptions=['the theorems are about Match.nth_core / match_nth (the model); this run ties them to css_match.match_nth'])


def replay(path):
    print(open(path).read())
    return 0
