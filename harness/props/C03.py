"""C03 - all query entry points are views of one match relation."""
import warnings
import bs4
import lib, e1, campaign, matchcheck, gen_selectors
from lib import Check

PID = 'C03'


def ids(l):
    return [id(x) for x in l]


def run(tier, seed):
    ck = Check(PID, tier, seed)
    rnd = ck.rnd
    ck.proof = lib.proof_step('props/C03.v', matchcheck.MATCH_CONE + ['ApiFacts.v', 'gen/ApiGen.v'] + ['MemoFacts.v', 'HistFacts.v'])
    ck.broken += ck.proof['broken']
    if not ck.proof['driver_ok']:
        ck.notes['driver'] = 'unavailable: model-side runs skipped, searching with the implementation-side oracles only'
    import soupsieve as sv
    n = 140 if tier == 'quick' else 2000
    custom = {':--cust': 'p, div > span', ':--h': 'li, b'}
    scs = []
    for profile in ('core', 'forms', 'ns', 'langdir'):
        for sc in campaign.build(rnd, profile, n // 4 + 1, 0):
            top = sc.top
            pools = gen_selectors.pools_from_soup(top)
            nsmap = rnd.choice(campaign.NSMAPS) if profile == 'ns' else rnd.choice([None, None, {'x': 'urn:a'}])
            prefixes = [k for k in (nsmap or {}) if k]
            sg = gen_selectors.SGen(rnd, feats=('core', 'state', 'lang', 'contains', 'misc') + (('ns',) if prefixes else ()),
                                    prefixes=prefixes, **pools)
            elements = list(top.find_all(True))
            targets = [top] + rnd.sample(elements, min(4, len(elements)))
            for _ in range(5):
                s = sg.selector(1)
                if rnd.random() < 0.25:
                    # plain type selectors for names that occur in the tree, in any ASCII case (every alternative ends in a type)
                    nm_ = [n_ for n_ in pools['names'] if n_.replace('-', '').isalnum() and n_.isascii()]
                    if nm_:
                        s = ', '.join(rnd.choice([n_, n_.lower(), n_.upper()]) if rnd.random() < 0.7 else 'div > ' + n_
                                      for n_ in rnd.sample(nm_, min(len(nm_), rnd.choice([1, 1, 2]))))
                elif rnd.random() < 0.2:
                    s = rnd.choice([':scope', ':not(:scope)', ':is(:scope, p)', '&', ':scope > *', '* > :scope', ':not(&)', 'div:scope, p',
                                    ':scope:not(.x)', ':where(:scope) ~ *'])
                uris_ = sorted({e.namespace for e in elements if getattr(e, 'namespace', None)})
                if uris_ and rnd.random() < 0.3:
                    # an HTML-only pseudo-class (evaluated with an internal namespace map) next to a selector that needs the caller's map
                    from props.C11 import HTML_ONLY
                    nsmap = dict(nsmap or {})
                    nsmap['zz'] = rnd.choice(uris_)
                    parts = [rnd.choice(HTML_ONLY + [':dir(ltr)', ':link', ':enabled']), 'zz|' + rnd.choice(['*', '*'] + [sv.escape(n_) for n_ in pools['names']])]
                    if rnd.random() < 0.3:
                        parts.append('[zz|' + sv.escape(rnd.choice(pools['attrs'])).split('|')[-1] + ']')
                    rnd.shuffle(parts)
                    s = ', '.join(parts) if rnd.random() < 0.7 else f'{parts[1]}:not({parts[0]})' if not parts[0].startswith('zz|') and not parts[1].startswith(':') else ', '.join(parts)
                use_custom = ':--' in s or rnd.random() < 0.3
                flags = rnd.choice([0, 0, sv.DEBUG]) if False else 0
                kw = {}
                if nsmap is not None and rnd.random() < 0.9:
                    kw['namespaces'] = nsmap
                if use_custom:
                    kw['custom'] = custom
                with warnings.catch_warnings():
                    warnings.simplefilter('ignore')
                    try:
                        c = sv.compile(s, kw.get('namespaces'), 0, custom=kw.get('custom'))
                    except Exception:
                        continue
                    has_scope = ':scope' in s or '&' in s
                    for tgt in targets:
                        try:
                            full = c.select(tgt)
                            desc = [d for d in tgt.descendants if isinstance(d, bs4.Tag)]
                            order = {id(d): i for i, d in enumerate(desc)}
                            facts = []
                            facts.append(('select: only element descendants, document order, no duplicates',
                                          all(id(x) in order for x in full) and [order[id(x)] for x in full] == sorted(set(order[id(x)] for x in full))))
                            facts.append(('iselect = select', ids(list(c.iselect(tgt))) == ids(full)))
                            one = c.select_one(tgt)
                            facts.append(('select_one = first or None', (one is None and not full) or (full and one is full[0])))
                            for k in (1, 2, 5):
                                facts.append((f'limit={k} = first {k}', ids(c.select(tgt, limit=k)) == ids(full[:k])))
                            for k in (0, -1, -7):
                                facts.append((f'limit={k} = all', ids(c.select(tgt, limit=k)) == ids(full)))
                            # the same limit rules through every entry point that takes a limit (iselect is lazy: its own code path)
                            for k in (1, 3):
                                facts.append((f'iselect limit={k} = first {k}', ids(list(c.iselect(tgt, limit=k))) == ids(full[:k])))
                                facts.append((f'sv.iselect limit={k} = first {k}', ids(list(sv.iselect(s, tgt, limit=k, **kw))) == ids(full[:k])))
                            for k in (0, -1, -3):
                                facts.append((f'iselect limit={k} = all', ids(list(c.iselect(tgt, limit=k))) == ids(full)))
                                facts.append((f'sv.iselect limit={k} = all', ids(list(sv.iselect(s, tgt, limit=k, **kw))) == ids(full)))
                                facts.append((f'sv.select limit={k} = all', ids(sv.select(s, tgt, limit=k, **kw)) == ids(full)))
                            # module-level functions = compile(...).method
                            facts.append(('sv.select = compile().select', ids(sv.select(s, tgt, **kw)) == ids(full)))
                            facts.append(('sv.select limit', ids(sv.select(s, tgt, limit=2, **kw)) == ids(full[:2])))
                            facts.append(('sv.iselect', ids(list(sv.iselect(s, tgt, **kw))) == ids(full)))
                            facts.append(('sv.select_one', sv.select_one(s, tgt, **kw) is one))
                            facts.append(('sv.filter(tag)', ids(sv.filter(s, tgt, **kw)) == ids(c.filter(tgt))))
                            if not isinstance(tgt, bs4.BeautifulSoup):
                                facts.append(('sv.match', sv.match(s, tgt, **kw) == c.match(tgt)))
                                facts.append(('sv.closest', sv.closest(s, tgt, **kw) is c.closest(tgt)))
                                cl = c.closest(tgt)
                                facts.append(('closest is an element ancestor-or-self, never the document',
                                              cl is None or (isinstance(cl, bs4.Tag) and not isinstance(cl, bs4.BeautifulSoup) and
                                                             (cl is tgt or any(cl is a for a in tgt.parents)))))
                                if not has_scope:
                                    chain = [tgt] + [a for a in tgt.parents if not isinstance(a, bs4.BeautifulSoup)]
                                    # `closest` evaluates every ancestor with the call target as scope
                                    expc = next((a for a in chain if c.match(a)), None)
                                    facts.append(('closest = nearest matching ancestor-or-self', cl is expc))
                                names = sorted({a.name for a in [tgt] + list(tgt.parents) if not isinstance(a, bs4.BeautifulSoup)})
                                nobody = ':not(' + ', '.join('*|' + sv.escape(nm) for nm in names) + ')'
                                facts.append(('closest with a selector no ancestor-or-self element matches is None (' + nobody + ')',
                                              sv.closest(nobody, tgt) is None))
                                facts.append((':scope is the call target', sv.match(':scope', tgt) and sv.select(':scope', tgt) == [] and
                                              sv.closest(':scope', tgt) is tgt and sv.match('&', tgt)))
                                # in closest() too, :scope stays the call target while the ancestors are examined
                                par = tgt.parent if isinstance(tgt.parent, bs4.Tag) and not isinstance(tgt.parent, bs4.BeautifulSoup) else None
                                facts.append(('closest(":not(:scope)") is the parent element (or None)', sv.closest(':not(:scope)', tgt) is par and
                                              sv.closest(':not(&)', tgt) is par))
                                facts.append(('closest(":has(> :scope)") is the parent element (or None)', sv.closest(':has(> :scope)', tgt) is par))
                                facts.append(('closest("*|*:scope") is the call target', sv.closest('*|*:scope', tgt) is tgt))
                                other = next((a for a in tgt.parents if isinstance(a, bs4.Tag) and not isinstance(a, bs4.BeautifulSoup)
                                              and a.name.lower() != tgt.name.lower()), None)
                                if other is not None:
                                    facts.append(('closest("E:scope") with E the type of an ancestor but not of the call target is None',
                                                  sv.closest('*|' + sv.escape(other.name) + ':scope', tgt) is None and
                                                  sv.closest('*|' + sv.escape(other.name) + '&', tgt) is None))
                                facts.append((':scope denotes only the call target (not an equal-looking sibling)',
                                              not sv.match(':scope ~ *', tgt) and not sv.match(':scope *', tgt) and
                                              not sv.match('* ~ :scope ~ *', tgt)))
                                ch = [k_ for k_ in tgt.contents if isinstance(k_, bs4.Tag)]
                                facts.append((':scope > * selects the element children', ids(sv.select(':scope > *', tgt)) == ids(ch)))
                            else:
                                facts.append(('closest on the document object is None (the document is not an element)',
                                              c.closest(tgt) is None and sv.closest('*|*', tgt) is None and sv.closest(':not(a)', tgt) is None))
                                facts.append(('match on the document object is False', c.match(tgt) is False and sv.match('*|*', tgt) is False))
                                root = next((k_ for k_ in tgt.contents if isinstance(k_, bs4.Tag)), None)
                                if root is not None:
                                    facts.append((':scope is the root element when called on the document',
                                                  ids(sv.select(':scope', tgt)) == [id(root)]))
                            ch0 = [k_ for k_ in tgt.contents if isinstance(k_, bs4.Tag)]
                            mixed = ch0[:4] + [bs4.element.NavigableString('nav'), bs4.element.Comment('c')] + elements[:3] + ch0[:2][::-1]
                            # each item of an iterable is matched on its own (it is its own :scope)
                            facts.append(('filter(iterable) = matching Tag items in order, each matched on its own',
                                          ids(c.filter(mixed)) == ids([x for x in mixed if isinstance(x, bs4.Tag) and c.match(x)])))
                            facts.append(('filter(generator) = filter(list)', ids(c.filter(x for x in mixed)) == ids(c.filter(mixed))))
                            if not has_scope:
                                ch = [k_ for k_ in tgt.contents if isinstance(k_, bs4.Tag)]
                                facts.append(('filter(tag) = matching element children', ids(c.filter(tgt)) == ids([k_ for k_ in ch if c.match(k_)])))
                                facts.append(('select = filter of descendants by match', ids(full) == ids([d for d in desc if c.match(d)])))
                        except Exception as ex:
                            ck.notes['skipped_' + type(ex).__name__] = ck.notes.get('skipped_' + type(ex).__name__, 0) + 1
                            continue
                        for name, ok in facts:
                            ck.count(('fact', name, profile))
                            if not ok:
                                ck.violation(f'"{name}" fails for {s!r} (kwargs {sorted(kw)})',
                                             {'fact': name, 'pattern': s, 'kwargs': {k: (v if k != 'custom' else v) for k, v in kw.items()},
                                              'markup': matchcheck.markup_of(sc), 'tree': sc.label,
                                              'target': 'document' if isinstance(tgt, bs4.BeautifulSoup) else str(tgt)[:300]})
                    ops = []
                    for tgt in targets:
                        p = sc.path_of[id(tgt)]
                        ops += [('select', p, 0), ('select', p, rnd.choice([1, 2])), ('filter', p), ('closest', p), ('match', p)]
                    sc.add(s, ops, namespaces=kw.get('namespaces'), custom=kw.get('custom'))
            if len(ck.samples) < 3:
                ck.sample({'tree': sc.label, 'patterns': [i[0] for i in sc.items][:3]})
            scs.append(sc)
    # TypeError only when the call target is not a Tag
    from bs4 import BeautifulSoup
    soup = BeautifulSoup('<p>x</p>', 'html.parser')
    for bad in (None, 'str', soup.p.string, 5):
        for fn in (lambda b: sv.select('p', b), lambda b: sv.match('p', b), lambda b: sv.closest('p', b), lambda b: sv.select_one('p', b)):
            try:
                fn(bad)
                ck.violation(f'a call with target {bad!r} did not raise TypeError', {'target': repr(bad)})
            except TypeError:
                ck.count(('typeerror', type(bad).__name__))
            except Exception as ex:
                ck.violation(f'a call with target {bad!r} raised {type(ex).__name__}, not TypeError', {'target': repr(bad)})
    matchcheck.run_corr(ck, scs)
    return ck.finish(
        level='proof',
        rule='selectors of the whole grammar (incl. :scope, &, custom aliases) x documents (generic, forms, XML with prefix maps, '
             'lang/iframe) x call targets (the document object and 4 random elements) x every entry point, module-level and compiled, '
             'with random subsets of namespaces/custom; ~25 relational facts per case on the implementation; every entry point also '
             'through the extracted model. class = (fact, document family).',
        assumptions=['filter() on iterables containing objects that are neither Tag nor str is not demanded'])


def replay(path):
    print(open(path).read())
    return 0
