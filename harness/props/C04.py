"""C04 - answers do not depend on query history; matching never mutates the tree."""
import copy, warnings
import bs4
import lib, e1, campaign, matchcheck, gen_selectors
from lib import Check

PID = 'C04'


def snapshot(top):
    nodes = [top] + list(top.descendants)
    return (str(top), [id(n) for n in nodes],
            [repr(sorted((str(k), repr(v)) for k, v in n.attrs.items())) if isinstance(n, bs4.Tag) else None for n in nodes],
            [id(n.parent) for n in nodes])


def clone(top):
    """A structurally identical, independent copy (bs4's own deepcopy of a BeautifulSoup object re-parses)."""
    import bs4view
    from bs4 import BeautifulSoup
    with warnings.catch_warnings():
        warnings.simplefilter('ignore')
        if isinstance(top, BeautifulSoup):
            new = BeautifulSoup('', 'xml' if top.is_xml else 'html.parser')
            for c in top.contents:
                new.append(copy.copy(c))
        else:
            new = copy.copy(top)
    try:
        if bs4view.view(new)[0] != bs4view.view(top)[0]:
            return None
    except Exception:
        return None
    return new


def run(tier, seed):
    ck = Check(PID, tier, seed)
    rnd = ck.rnd
    ck.proof = lib.proof_step('props/C04.v', matchcheck.MATCH_CONE + ['MemoFacts.v', 'HistFacts.v'])
    ck.broken += ck.proof['broken']
    if not ck.proof['driver_ok']:
        ck.notes['driver'] = 'unavailable: model-side runs skipped, searching with the implementation-side oracles only'
    import soupsieve as sv
    n = 160 if tier == 'quick' else 2500
    custom = {':--cust': 'p, div > span'}
    scs = []
    for profile in ('forms', 'langdir', 'core', 'ns', 'forms', 'langdir', 'radios', 'ns'):
        for sc in campaign.build(rnd, profile, n // 6 + 1 if profile != 'radios' else n // 3, 0):
            top = sc.top
            pools = gen_selectors.pools_from_soup(top)
            nsmap = rnd.choice(campaign.NSMAPS) if profile == 'ns' else None
            prefixes = [k for k in (nsmap or {}) if k]
            sg = gen_selectors.SGen(rnd, feats=('core', 'state', 'lang', 'dir', 'contains') + (('ns',) if prefixes else ()),
                                    prefixes=prefixes, **pools)
            elements = [e for e in top.find_all(True)]
            before = snapshot(top)
            pristine = clone(top)
            if pristine is None:
                ck.notes['clone_failed'] = ck.notes.get('clone_failed', 0) + 1
                continue
            p_elems = [e for e in pristine.find_all(True)]
            history = []
            for it in range(8):
                s = sg.selector(1)
                if it % 4 == 0 or (profile == 'radios' and it % 2 == 0):
                    s = rnd.choice({'forms': [':indeterminate', ':default', 'input:indeterminate, :default',
                                              ':is(:default, :indeterminate)', ':not(:indeterminate)'],
                                    'radios': [':indeterminate', 'input:indeterminate', ':not(:indeterminate)', ':is(:indeterminate, p)'],
                                    'langdir': [':dir(ltr)', ':dir(rtl)', ':not(:dir(ltr))', 'span:dir(rtl), b:dir(ltr)', ':dir(rtl) > :dir(ltr)', ':has(> :dir(rtl))',
                                                ':lang("")', ':lang(en)', ':not(:lang(de))', ':lang("*")', ':lang("*")', 'p:lang("*")', ':lang(fr), :lang(es)',
                                                ':lang(fr)', ':lang("en-*")']}.get(profile, [':lang("")', ':default', ':indeterminate']))
                if it % 2 == 1 and profile == 'ns':
                    from props.C11 import HTML_ONLY
                    uris = sorted({e.namespace for e in elements if e.namespace})
                    m2 = dict(nsmap or {})
                    if uris:
                        m2['zz'] = rnd.choice(uris)
                        nsmap_q = m2
                        s = 'zz|' + rnd.choice(['*', '*'] + pools['names']) + ':not(' + rnd.choice(HTML_ONLY) + ')'
                        if rnd.random() < 0.5:
                            s = rnd.choice(HTML_ONLY) + ', ' + s
                        nsmap = m2
                with warnings.catch_warnings():
                    warnings.simplefilter('ignore')
                    try:
                        c = sv.compile(s, nsmap, custom=custom)
                        got = c.select(top)
                        per = [e for e in elements if c.match(e)]
                        per2 = [e for e in elements if sv.match(s, e, namespaces=nsmap, custom=custom)][::-1][::-1]
                        # on a pristine copy, in reverse order, one element at a time
                        fresh = [i for i in reversed(range(len(p_elems))) if c.match(p_elems[i])][::-1]
                    except Exception as ex:
                        k = 'skipped_' + type(ex).__name__
                        ck.notes[k] = ck.notes.get(k, 0) + 1
                        continue
                history.append(s)
                ck.count(('history', profile, any(k in s for k in (':lang', ':default', ':indeterminate')), len(got) > 0))
                idx = {id(e): i for i, e in enumerate(elements)}
                a = [idx[id(e)] for e in got]
                b = [idx[id(e)] for e in per]
                if a != b or b != fresh or [idx[id(e)] for e in per2] != b:
                    ck.violation(f'select({s!r}) returns elements {a}, asking each element alone gives {b}, on a pristine copy {fresh}',
                                 {'pattern': s, 'namespaces': nsmap, 'markup': matchcheck.markup_of(sc), 'tree': sc.label,
                                  'select_indices': a, 'match_each_indices': b, 'pristine_copy_indices': fresh,
                                  'history': history})
                # filter(iterable): every item is asked on its own (it is its own :scope), whatever else is in the list and in
                # whatever order; also with a selector that mentions the scope
                s_keep, c_keep = s, c
                if it % 2 == 0:
                    s = rnd.choice([':scope', ':not(:scope)', ':scope > *', '* > :scope', ':is(:scope, p)', ':scope:has(> *)', '&'])
                    c = sv.compile(s)
                lst = rnd.sample(elements, min(6, len(elements)))
                lst = lst + [x for e_ in lst[:2] for x in e_.find_all(True, recursive=False)][:4]
                with warnings.catch_warnings():
                    warnings.simplefilter('ignore')
                    try:
                        want = [id(e) for e in lst if c.match(e)]
                        g1 = [id(e) for e in c.filter(lst)]
                        g2 = [id(e) for e in c.filter(list(reversed(lst)))][::-1]
                        g3 = [id(e) for e in c.filter(iter(lst))]
                    except Exception:
                        want = g1 = g2 = g3 = None
                if want is not None:
                    ck.count(('filter-iterable', profile, ':scope' in s or '&' in s))
                    if not (want == g1 == g2 == g3):
                        ck.violation(f'filter({s!r}, [elements]) differs from asking each element alone (or depends on the order of the list)',
                                     {'pattern': s, 'markup': matchcheck.markup_of(sc), 'tree': sc.label, 'list': [str(e)[:60] for e in lst],
                                      'match_each': [idx[i] for i in want], 'filter_list': [idx[i] for i in g1],
                                      'filter_reversed_list': [idx[i] for i in g2], 'filter_iterator': [idx[i] for i in g3]})
                s, c = s_keep, c_keep
                # filter(tag) shares one matcher over the children
                for tag in rnd.sample(elements, min(2, len(elements))):
                    with warnings.catch_warnings():
                        warnings.simplefilter('ignore')
                        try:
                            f1 = c.filter(tag)
                            f2 = [k for k in tag.contents if isinstance(k, bs4.Tag) and c.match(k)]
                        except Exception:
                            continue
                    if ':scope' not in s and '&' not in s and [id(x) for x in f1] != [id(x) for x in f2]:
                        ck.violation(f'filter({s!r}) on a tag differs from matching its children one at a time',
                                     {'pattern': s, 'markup': matchcheck.markup_of(sc), 'tag': str(tag)[:200]})
                ops = [('select', (), 0)] + [('match', sc.path_of[id(e)]) for e in elements[:25]]
                sc.add(s, ops, namespaces=nsmap, custom=custom)
            after = snapshot(top)
            if before != after:
                which = [i for i, (x, y) in enumerate(zip(before, after)) if x != y]
                ck.violation('the document changed while it was being queried',
                             {'markup_before': before[0][:1500], 'markup_after': after[0][:1500], 'changed_parts': which,
                              'history': history})
            if len(ck.samples) < 4:
                ck.sample({'tree': sc.label, 'history': history[:4]})
            scs.append(sc)
    # positional selectors over sibling lists (same-named siblings in different namespaces included): the answer for one element
    # must not depend on which of its siblings were asked before
    from props import C02
    OFT = [':first-of-type', ':last-of-type', ':only-of-type', ':nth-of-type(2)', ':nth-last-of-type(2)', ':nth-of-type(odd)',
           ':not(:only-of-type)', 'li:nth-of-type(2n)', ':nth-child(2)', ':nth-last-child(odd)', ':nth-child(2 of .x)', ':first-child',
           ':only-child', ':nth-of-type(-n+2)', ':nth-of-type(n+2):nth-last-of-type(n+2)']
    for _ in range(n // 3):
        top, label = C02.sibling_doc(rnd)
        sc = e1.Scenario(top, label)
        elements = sc.elements
        pristine = clone(top)
        p_elems = [e for e in pristine.find_all(True)] if pristine is not None else None
        before = snapshot(top)
        for s in rnd.sample(OFT, 5):
            with warnings.catch_warnings():
                warnings.simplefilter('ignore')
                c = sv.compile(s)
                got = [id(e) for e in c.select(top)]
                per = [id(e) for e in elements if c.match(e)]
                rev = [id(e) for e in reversed(elements) if c.match(e)][::-1]
                mod = [id(e) for e in elements if sv.match(s, e)]
                fresh = None
                if p_elems is not None and len(p_elems) == len(elements):
                    fresh = [id(elements[i]) for i in reversed(range(len(p_elems))) if c.match(p_elems[i])][::-1]
            ck.count(('history-nth', label.split('/')[1], 'type' in s, len(got) > 0))
            below = {id(e) for e in top.find_all(True)}                # select() answers for the descendants of its argument only
            got_all = per
            got = [i for i in got]
            per_b = [i for i in per if i in below]
            if not (per == rev == mod) or got != per_b or (fresh is not None and fresh != per):
                idx = {id(e): i for i, e in enumerate(elements)}
                ck.violation(f'select({s!r}) and asking each sibling alone (in document order, in reverse, with a fresh matcher, on a pristine copy) disagree',
                             {'pattern': s, 'markup': matchcheck.markup_of(sc), 'tree': label, 'select_indices': [idx[i] for i in got],
                              'match_each_indices': [idx[i] for i in per], 'match_each_reversed': [idx[i] for i in rev],
                              'module_match_indices': [idx[i] for i in mod], 'pristine_copy_indices': None if fresh is None else [idx[i] for i in fresh]})
            sc.add(s, [('select', (), 0)] + [('match', sc.path_of[id(e)]) for e in elements[:12]])
        if snapshot(top) != before:
            ck.violation('the document changed while it was being queried', {'markup_before': before[0][:1500], 'markup_after': str(top)[:1500]})
        scs.append(sc)
    matchcheck.run_corr(ck, scs)
    return ck.finish(
        level='proof',
        rule='histories of 8 queries per document (forms with nested forms and radio groups, radio groups with mixed-case attribute names in XHTML / API-built documents, lang/meta/iframe documents, XML with '
             'prefix maps, generic) from the whole grammar, every fourth one a memoising selector (:lang via <meta>, :default, '
             ':indeterminate); each answer is compared with (a) one matcher per element, (b) module-level match per element, '
             '(c) a pristine deep copy asked in reverse order; filter(tag) vs per-child; serialisation, node identities, attribute '
             'values and parent links are compared before/after. The same queries run through the extracted model (fresh memo per call).',
        assumptions=['non-mutation is monitored at run time, not proved (the model\'s trees are immutable values)'])


def replay(path):
    print(open(path).read())
    return 0
