"""C05 - selector lists and logical pseudo-classes form a Boolean algebra."""
import warnings
import bs4
import lib, e1, campaign, matchcheck, gen_selectors
from lib import Check

PID = 'C05'


def ids(l):
    return [id(x) for x in l]


def run(tier, seed):
    ck = Check(PID, tier, seed)
    rnd = ck.rnd
    ck.proof = lib.proof_step('props/C05.v', matchcheck.MATCH_CONE)
    ck.broken += ck.proof['broken']
    if not ck.proof['driver_ok']:
        ck.notes['driver'] = 'unavailable: model-side runs skipped, searching with the implementation-side oracles only'
    import soupsieve as sv
    n = 160 if tier == 'quick' else 2500
    custom = {':--cust': 'p, div > span', ':--c2': ':is(a, :--cust):not(.x)'}
    scs = []
    for profile in ('core', 'forms', 'langdir', 'ns', 'contains'):
        for sc in campaign.build(rnd, profile, (n // 5 + 1) * (2 if profile in ('ns', 'forms') else 1), 0):
            top = sc.top
            pools = gen_selectors.pools_from_soup(top)
            # the alias map differs from document to document while the TEXT of :--c2 stays the same: an alias means its body
            # under the map it is used with
            cust_body = rnd.choice(['p, div > span', 'p, div > span', 'span', 'div, i', 'input, p', ':not(p)', 'p:first-child, a'])
            custom = {':--cust': cust_body, ':--c2': ':is(a, :--cust):not(.x)'}
            nsmap = rnd.choice(campaign.NSMAPS) if profile == 'ns' else rnd.choice([None, None, {'': gen_selectors.sv.css_match.NS_XHTML}])
            used_ns = sorted({e.namespace for e in top.find_all(True) if getattr(e, 'namespace', None)})
            if profile == 'ns' and used_ns and rnd.random() < 0.6:
                # prefixes bound to namespaces that occur in this tree, so prefixed alternatives do match something
                nsmap = {f'n{i}': u for i, u in enumerate(rnd.sample(used_ns, min(2, len(used_ns))))}
            prefixes = [k for k in (nsmap or {}) if k]
            sg = gen_selectors.SGen(rnd, feats=('core', 'state', 'lang', 'dir', 'contains', 'misc') + (('ns',) if prefixes else ()),
                                    prefixes=prefixes, **pools)

            def sel(s):
                with warnings.catch_warnings():
                    warnings.simplefilter('ignore')
                    return sv.select(s, top, namespaces=nsmap, custom=custom)
            try:
                universe = sel('*|*')
            except Exception:
                continue
            order = {id(e): i for i, e in enumerate(universe)}
            elements_all = list(top.find_all(True))
            try:
                al = [('*|*:--cust', f'*|*:is({cust_body})'), ('*|*:--c2', f'*|*:is(a, {cust_body}):not(.x)'),
                      ('*|*:not(:--c2)', f'*|*:not(:is(a, {cust_body}):not(.x))'), ('*|*:is(:--c2, :--cust)', f'*|*:is(:is(a, {cust_body}):not(.x), {cust_body})')]
                for a_s, b_s in al:
                    ga, gb = ids(sel(a_s)), ids(sel(b_s))
                    ck.count(('law', 'alias = its body', profile, len(ga) > 0))
                    if ga != gb:
                        ck.violation(f'law "a custom alias means its body" fails: {a_s!r} and {b_s!r} select different elements',
                                     {'law': 'alias = body', 'A': a_s, 'B': b_s, 'namespaces': nsmap, 'custom': custom,
                                      'markup': matchcheck.markup_of(sc), 'tree': sc.label,
                                      'selected': {'alias': matchcheck.paths_of(sc, sel(a_s)), 'body': matchcheck.paths_of(sc, sel(b_s))}})
            except Exception:
                ck.notes['skipped_alias_raise'] = ck.notes.get('skipped_alias_raise', 0) + 1
            for it in range(6):
                A, B = sg.complex(1), sg.complex(1)
                if profile == 'ns' and it < 3 and prefixes:
                    # an HTML-only alternative next to a namespaced one (XML documents)
                    from props.C11 import HTML_ONLY
                    A = rnd.choice(['*|*', '*|' + rnd.choice(pools['names']), '']) + rnd.choice(HTML_ONLY)
                    B = rnd.choice(prefixes) + '|' + rnd.choice(['*'] + pools['names'])
                    if rnd.random() < 0.5:
                        A, B = B, A
                if profile in ('forms', 'langdir') and it >= 2:
                    # an HTML-only alternative (evaluated under the own-document restriction, walking ancestors / forms)
                    # next to a descendant combinator whose ancestor lies OUTSIDE the iframe the element is in
                    from props.C11 import HTML_ONLY
                    inner = [e for f_ in top.find_all('iframe') for e in f_.find_all(True)]
                    ctrl = [e for e in inner if e.name in ('input', 'button', 'select', 'textarea', 'option', 'fieldset', 'optgroup')]
                    el_ = rnd.choice(ctrl) if ctrl and rnd.random() < 0.7 else rnd.choice(inner) if inner and rnd.random() < 0.7 else \
                        rnd.choice(elements_all) if elements_all else None
                    if el_ is not None:
                        ancs = [a_ for a_ in el_.parents if isinstance(a_, bs4.Tag) and not isinstance(a_, bs4.BeautifulSoup)]
                        fr = next((a_ for a_ in ancs if a_.name == 'iframe'), None)
                        outside = [a_ for a_ in (fr.parents if fr is not None else []) if isinstance(a_, bs4.Tag) and not isinstance(a_, bs4.BeautifulSoup)]
                        if ancs:
                            A = rnd.choice([':disabled', ':enabled', ':read-write', ':read-only', ':default', ':checked', ':required', ':optional',
                                            ':indeterminate', ':dir(ltr)', ':lang(en)'] + HTML_ONLY[:4])
                            anc_ = rnd.choice(outside) if outside and rnd.random() < 0.8 else rnd.choice(ancs)
                            B = f'{anc_.name} {el_.name}'
                            if rnd.random() < 0.5:
                                A, B = B, A
                if it == 4:
                    # alternatives that can never match (pseudo-classes about user interaction / shadow trees)
                    NEVER = [':hover', ':focus', ':visited', ':active', ':target', ':paused', ':playing', ':current', ':past', ':future',
                             ':focus-within', ':focus-visible', ':local-link', ':target-within', ':user-invalid', ':host', ':host(p)', ':host-context(div)']
                    nm0 = sv.escape(rnd.choice(pools['names'])) if pools['names'] else 'p'
                    A = rnd.choice(['', '', nm0]) + rnd.choice(NEVER)
                    B = rnd.choice(['', nm0, '*']) + rnd.choice(NEVER) if rnd.random() < 0.6 else B
                if it == 5 and len(pools['names']) >= 2:
                    # an alternative whose rightmost compound is nothing but a nested list (or an alias): the combinator in front of it counts
                    n1, n2 = [sv.escape(n_) for n_ in rnd.sample(pools['names'], 2)]
                    inner = rnd.choice([f':is({n2}, {sv.escape(rnd.choice(pools["names"]))})', ':--cust', f':where({n2})', f':is({n2})', ':--c2',
                                        f':not({n2})', f':matches({n2}, .x)'])
                    A = f'{n1}{rnd.choice([" > ", " ", " ~ ", " + "])}{inner}'
                    if rnd.random() < 0.4:
                        A = f'{sv.escape(rnd.choice(pools["names"]))} {A}'
                if it == 1 and len(pools['names']) >= 2:
                    # two plain type selectors for names that occur in the tree, as spelled there or in another ASCII case
                    A, B = [sv.escape(rnd.choice([n_, n_, n_.lower(), n_.upper()])) for n_ in rnd.sample(pools['names'], 2)]
                X = rnd.choice(['*|*', 'p', 'div', '.x', 'input', '*'])
                pats = {'A': A, 'B': B, 'A,B': f'{A}, {B}', 'isA': f':is({A})', 'isB': f':is({B})', 'isAB': f':is({A}, {B})',
                        'notA': f':not({A})', 'notAB': f':not({A}, {B})', 'whereAB': f':where({A}, {B})',
                        'matchesAB': f':matches({A}, {B})', 'X': X, 'XisA': f'{X}:is({A})', 'starisA': f'*|*:is({A})',
                        'starnotA': f'*|*:not({A})', 'starnotAB': f'*|*:not({A}, {B})', 'starisAB': f'*|*:is({A}, {B})',
                        'stariswB': f'*|*:where({A}, {B})', 'starismB': f'*|*:matches({A}, {B})'}
                R = {}
                try:
                    for k, s in pats.items():
                        R[k] = sel(s)
                except Exception as ex:
                    ck.notes['skipped_raise'] = ck.notes.get('skipped_raise', 0) + 1
                    continue
                S = {k: set(ids(v)) for k, v in R.items()}
                default_ns = bool(nsmap) and '' in nsmap
                laws = [
                    ('A, B = A u B', S['A,B'] == S['A'] | S['B'], 'A,B'),
                    (':is(A, B) = :is(A) u :is(B)', S['starisAB'] == (S['starisA'] | set(ids(sel(f'*|*:is({B})')))), 'starisAB'),
                    (':not(A) = complement of :is(A)', S['starnotA'] == set(order) - S['starisA'], 'starnotA'),
                    (':not(A, B) = complement of :is(A, B)', S['starnotAB'] == set(order) - S['starisAB'], 'starnotAB'),
                    ('X:is(A) = X n :is(A)', S['XisA'] == S['X'] & S['starisA'], 'XisA'),
                    (':where = :is', S['stariswB'] == S['starisAB'], 'stariswB'),
                    (':matches = :is', S['starismB'] == S['starisAB'], 'starismB'),
                    ('A subset of A, B', S['A'] <= S['A,B'], 'A,B'),
                    ('results are in document order', [order[i] for i in ids(R['A,B'])] == sorted(order[i] for i in ids(R['A,B'])), 'A,B'),
                ]
                # forgiving lists: an empty alternative, or one that ends in a dangling combinator, designates nothing and changes nothing else
                try:
                    comb = rnd.choice(['>', '+', '~', ' >', '> ', ' ~ '])
                    fk = rnd.choice([':is', ':where'])
                    forg = {'dangling-first': f'*|*{fk}({A} {comb}, {B})', 'empty-first': f'*|*{fk}(, {B})',
                            'empty-middle': f'*|*{fk}({B}, , {A})', 'dangling-middle': f'*|*{fk}({B}, {A}{comb}, {A})'}
                    base_b, base_ab = set(ids(sel(f'*|*:is({B})'))), S['starisAB']
                    for fname, fs in forg.items():
                        try:
                            got_f = set(ids(sel(fs)))
                        except Exception:
                            ck.notes['skipped_forgiving_raise_' + fname] = ck.notes.get('skipped_forgiving_raise_' + fname, 0) + 1
                            continue
                        want_f = base_ab if fname in ('empty-middle', 'dangling-middle') else base_b
                        ck.count(('law', 'forgiven alternative adds nothing', fname, len(got_f) > 0))
                        if got_f != want_f:
                            ck.violation(f'law "a forgiven alternative designates nothing" fails: {fs!r} selects {len(got_f)} element(s), the list without the '
                                         f'forgiven alternative {len(want_f)}',
                                         {'law': 'forgiving list', 'pattern': fs, 'A': A, 'B': B, 'namespaces': nsmap, 'custom': custom,
                                          'markup': matchcheck.markup_of(sc), 'tree': sc.label})
                except Exception:
                    ck.notes['skipped_forgiving_raise'] = ck.notes.get('skipped_forgiving_raise', 0) + 1
                if not default_ns:
                    laws.append((':is(A, B) = A, B (no default namespace)', S['isAB'] == S['A,B'], 'isAB'))
                    laws.append((':not(A) = complement (implied universal)', S['notA'] == set(order) - S['isA'], 'notA'))
                for name, ok, key in laws:
                    ck.count(('law', name, profile, len(S[key]) > 0))
                    if not ok:
                        ck.violation(f'law "{name}" fails for A={A!r}, B={B!r}, X={X!r}',
                                     {'law': name, 'A': A, 'B': B, 'X': X, 'namespaces': nsmap, 'custom': custom,
                                      'markup': matchcheck.markup_of(sc), 'tree': sc.label,
                                      'selected': {k: matchcheck.paths_of(sc, v) for k, v in R.items() if k in (key, 'A', 'B', 'starisA', 'X')}})
                if len(ck.samples) < 4:
                    ck.sample({'A': A, 'B': B, 'tree': sc.label, '|A,B|': len(R['A,B'])})
                # the same patterns through the model
                ops = [('select', (), 0)]
                for k in ('A,B', 'starisAB', 'starnotAB', 'XisA'):
                    sc.add(pats[k], ops, namespaces=nsmap, custom=custom)
            scs.append(sc)
    matchcheck.run_corr(ck, scs)
    return ck.finish(
        level='proof',
        rule='pairs (A, B) of complex selectors from the WHOLE grammar (state pseudo-classes, :lang, :dir, contains, namespaces, custom '
             'aliases, no-match pseudo-classes, nth) on HTML (each parser) / XHTML / XML / forms / iframe documents; nine laws evaluated '
             'on the implementation, the composed patterns also through the extracted model. class = (law, document family, non-empty?).',
        assumptions=['laws are evaluated with explicit `*|*` where the implied universal of a top-level compound would add a '
                     'default-namespace constraint (that difference is C12\'s subject)'])


def replay(path):
    print(open(path).read())
    return 0
