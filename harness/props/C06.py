"""C06 - compile() accepts or rejects every string with a documented error only."""
import lib, e2, gen_strings, gen_selectors
from lib import Check

PID = 'C06'
CONE = ['Regex.v', 'IR.v', 'AttrPat.v', 'Parser.v', 'ParserFacts.v', 'gen/RegexGen.v', 'gen/ConstGen.v']


def cases(rnd, n):
    sg = gen_selectors.SGen(rnd, feats=('core', 'state', 'lang', 'dir', 'contains', 'misc', 'ns'), prefixes=['a', 'svg'])
    out = []
    fixed = ['\\110000', '\\0', '\\', 'a\\', ':-soup-contains(\\41/**/, b)', ':nth-child(' + '9' * 5000 + ')', 'a:', ':', '::', '@x',
             '[a=b ſ]', '[a=b K]', '[type=text İ]', ':nth-child(2n+' + '1' * 4400 + ')', '"', "'", '/*', '*/', '[', ']', '(', ')',
             ':is(', ':not(:has(', 'a >', '> a', 'a,,b', ',', '', ' ', '\x00', 'a\x00b', '\ud800', '#', '.', '#1', '.-', '--', '-',
             ':--c', ':--', ':lang(', ':lang()', ':lang(,)', ':dir(x)', ':nth-child()', ':nth-child(n n)', ':nth-child(2n+ of a)',
             ':nth-child(odd of', 'a|', '|', '*|', 'a||b', '[a|=]', '[a~=\'x]', ':not()', ':is()', ':has()', ':where(,)',
             ':has(> )', ':has(a >)', ':host(a', ':current(a,)', 'a /* x', 'a */', ':-soup-contains("a', ":-soup-contains('a\\')",
             'p:foo\\{bar\\}', 'a:hover\\{', 'p:--tpl\\{name\\}', 'div:nth\\7b 1\\7d ', 'p:x\\%s', 'p:x\\{0\\}', ':\\{\\}(', '::\\{', '@\\{x']
    # attribute values are literals: whatever characters they hold (regular-expression metacharacters included), with every operator / flag
    for v_ in ('a(', 'x)', '[en', '*', '+1', '\\\\', '.', '^$', 'a|b', '{2}', '?', '(?i)', '\\d', 'a[', '(?P<x>', '$', '\\Z', '(', ')', '+', 'a\\'):
        for op_ in ('=', '|=', '~=', '^=', '$=', '*=', '!='):
            fixed.append(f'[a{op_}"{v_}"' + rnd.choice([']', ' i]', ' s]', ']']))
    for f in fixed:
        out.append((f, None))
        out.append((f, {':--c': f}))
    import respell
    ag = gen_selectors.AGen(rnd, names=['div', 'p', 'x-y', 'li'], classes=['x', 'a-b'], ids=['a', 'i d'], attrs=['title', 'data-x', 'type'],
                            values=['x', 'a b', "it's", ''], texts=['hello', 'a"b'], feats=('core', 'contains', 'lang'))
    for _ in range(n):
        k = rnd.random()
        if k < 0.08:
            # a VALID selector in an unusual spelling (escapes in every identifier incl. pseudo-class names, comments, case)
            _, ast = ag.selector(2)
            s = respell.spell(ast, respell.Sp(rnd, rnd.choice([0.3, 0.6, 0.9])))
        elif k < 0.2:
            s = sg.selector(2)
        elif k < 0.65:
            s = gen_strings.mutate(rnd, sg.selector(1))
            if rnd.random() < 0.3:
                s = gen_strings.mutate(rnd, s)
        else:
            s = gen_strings.raw(rnd)
        if rnd.random() < 0.12:
            # multi-line patterns whose error (if any) is reported at the very end, after a line break
            s = rnd.choice(['', 'h1,\n', 'a\r\n'] ) + s + rnd.choice(['\n', ',\n', ' >\n', ':is(\n', '\r\n', '\n\n', ',\r', '[a\n', ' +\f\n'])
        cu = gen_strings.custom_map(rnd) if rnd.random() < 0.4 else None
        if cu and rnd.random() < 0.15:
            k0 = sorted(cu)[0]
            cu[k0] = cu[k0] + rnd.choice([',\n', '\n', ' >\n'])
        out.append((s, cu))
    return out


def run(tier, seed):
    ck = Check(PID, tier, seed)
    ck.proof = lib.proof_step('props/C06.v', CONE)
    ck.broken += ck.proof['broken']
    if not ck.proof['driver_ok']:
        ck.notes['driver'] = 'unavailable: model-side runs skipped, searching with the implementation-side oracles only'
    cs = cases(ck.rnd, 2500 if tier == 'quick' else 80000)
    recs = e2.run(cs)
    nb = 0
    for r in recs:
        real = r['real']
        kind = real[0] if real[0] != 'raise' else real[1]
        ck.count((kind, r['custom'] is not None, min(len(r['pattern']), 12)))
        why = e2.agree(r)
        if why:
            nb += 1
            if nb <= 6:
                ck.broken.append(f'correspondence compile({r["pattern"]!r}, custom={r["custom"]!r}): {why}')
        if real[0] == 'raise':
            ok = real[1] == 'NotImplementedError' or (real[1] == 'KeyError' and r['custom'] is not None and
                                                      len({k.lower() for k in r['custom']}) < len(r['custom']))
            if real[1] == 'RecursionError':
                ok = True     # outside the property (nesting beyond the interpreter's recursion budget)
            if not ok:
                ck.violation(f'compile({r["pattern"]!r}, custom={r["custom"]!r}) raised {real[1]}',
                             {'pattern': r['pattern'], 'custom': r['custom'], 'exception': real[1],
                              'replay': f'soupsieve.compile({r["pattern"]!r}, custom={r["custom"]!r})'})
        if len(ck.samples) < 5 and real[0] != 'ok':
            ck.sample({'pattern': r['pattern'], 'custom': r['custom'], 'outcome': list(real[:3])})
    ck.notes['correspondence_mismatches'] = nb
    return ck.finish(
        level='proof',
        rule='a fixed list of 120 historically nasty inputs (with and without a custom map) + generated: 20% valid selectors of the '
             'whole grammar, 45% token-level mutations of valid ones (truncate/delete/duplicate/insert/replace/move/splice), 35% raw '
             'strings over a 55-character lexical alphabet (NUL, backslash, CR, FF, C1, astral, lone surrogate, quotes, brackets) and '
             '60 fragments; 40% with a custom map (valid, cyclic, malformed names/definitions, case-colliding keys). Every outcome is '
             'compared with the extracted Coq parser (structure or exception class, line, column, context). '
             'class = (outcome, custom?, length).',
        assumptions=['RecursionError for deeply nested input is outside the property'])


def replay(path):
    print(open(path).read())
    return 0
