"""C07 - selector parsing time is polynomially bounded in the input length."""
import itertools, re, subprocess, sys, time, os, json
import lib, build
from lib import Check, s_str
from translate import t1_regex

PID = 'C07'
CONE = ['Regex.v', 'RegexFacts.v', 'RegexCost.v', 'RunFacts.v', 'DetCost.v', 'RegexSem.v', 'AttrPat.v', 'AttrCost.v', 'gen/RegexGen.v']
BASE_CHARS = ['\\', '"', "'", ' ', '\r', '\n', '\f', '\t', '/', '*', 'a', 'f', '0', '9', '-', ',', '(', ')', 'n', '|', ']', '=', ':', 'z', '.', '+',
              '\xe9', '\u0434', '\u65e5', '\u0663', '_', '\x80', '\U0001F600']      # non-ASCII letters / digits / symbols, underscore
PREFIXES = ['', '[a="', "[a='", ':lang(', ':lang("', ':nth-child(', ':nth-child(2n', '/*', '"', "'", '[a', '[a=', ':x(', '\\', ':-soup-contains(',
            ':-soup-contains("', '#', 'a', ':', '[', 'a ', ':--', ':is(', '2n', 'x', '5']


def subjects(rnd, n):
    out = []
    frags = ['\\41 ', '\\41b', '\\g', 'a|b', '[a=b]', '[a="x"]', ':is(', ')', ':lang(', ':nth-child(', '2n+1', ' of ', '/* c */', '"a\\"b"',
             "'x'", '--', '-a', '*|*', '2020-01-01', '12:30', '2020-W05', '1.5e3', '-.5', 'de-*-DE', '-*', '\r\n', 'a\n', '   ', 'x y',
             'Sel(a=1, b=[2])', "'s\\'q'", '{}', '()', ' , ', ' : ']
    for _ in range(n):
        k = rnd.randint(0, 10)
        out.append(''.join(rnd.choice(frags) if rnd.random() < 0.4 else rnd.choice(BASE_CHARS + ['é', '\x80', 'K', 'ſ', 'E', 'T', 'W'])
                           for _ in range(k)))
    return out


TIMER = r'''
import sys, time, re, json
sys.path.insert(0, sys.argv[1])
import soupsieve
from soupsieve import css_parser as cp, css_match as cm, util, pretty
name, subject, mode = sys.argv[2], json.loads(sys.argv[3]), sys.argv[4]
if mode == 'dyn':
    pat, fl = json.loads(name)
    p = re.compile(pat, fl)
    t = time.time()
    p.match(subject)
    print(time.time() - t)
elif mode == 'compile':
    t = time.time()
    try:
        soupsieve.compile(subject)
    except Exception:
        pass
    print(time.time() - t)
elif mode == 'custom':
    pat, cm = subject
    t = time.time()
    try:
        soupsieve.compile(pat, custom=cm)
    except Exception:
        pass
    print(time.time() - t)
else:
    import importlib
    sys.path.insert(0, sys.argv[5])
    from translate import t1_regex
    pats, _ = t1_regex.collect()
    p = pats[name]
    t = time.time()
    p.match(subject)
    print(time.time() - t)
'''


def timed(args, timeout):
    t0 = time.time()
    try:
        r = subprocess.run(args, capture_output=True, text=True, timeout=timeout, env=build.env())
        return float(r.stdout.strip().splitlines()[-1]) if r.returncode == 0 and r.stdout.strip() else None
    except subprocess.TimeoutExpired:
        return float('inf')


def run(tier, seed):
    ck = Check(PID, tier, seed)
    rnd = ck.rnd
    ck.proof = lib.proof_step('props/C07.v', CONE)
    ck.broken += ck.proof['broken']
    if not ck.proof['driver_ok']:
        ck.notes['driver'] = 'unavailable: model-side runs skipped, searching with the implementation-side oracles only'
    pats, _ = t1_regex.collect()
    drv = lib.Driver()
    # ---- E3: the translated regexes (T1 + Regex.ends) agree with the live `re` objects
    subs = subjects(rnd, 60 if tier == 'quick' else 1500)
    reqs, meta = [], []
    for name, p in pats.items():
        for s in subs:
            for i in sorted({0, rnd.randint(0, max(0, len(s)))}):
                reqs.append(f'(rematch {name} {i} {s_str(s)})')
                meta.append((name, p, s, i))
    outs = drv.run(reqs)
    nb = 0
    for (name, p, s, i), mo in zip(meta, outs):
        m = p.match(s, i)
        real = None if m is None else (m.end(), sorted((g, m.start(g), m.end(g)) for g in range(1, p.groups + 1) if m.start(g) >= 0))
        if lib.is_err(mo):
            nb += 1
            if nb <= 2:
                ck.broken.append('regex model unavailable')
            continue
        if mo == 'none':
            model = None
        else:
            caps = {}
            for g, a, b in reversed(mo[2]):
                caps[int(g)] = (int(a), int(b))
            model = (int(mo[1]), sorted((g, a, b) for g, (a, b) in caps.items()))
        ck.count(('e3', name, real is not None))
        if real != model:
            nb += 1
            if nb <= 4:
                ck.broken.append(f'correspondence regex {name} on {s!r} at {i}: re gives {real}, model {model}')
    ck.notes['e3_cases'] = len(meta)
    ck.sample({'regex': meta[0][0], 'subject': meta[0][2], 'model': str(outs[0])[:80]})
    # ---- ambiguity search in the model: pumps with exponentially growing numbers of ends
    import tempfile
    tdir = tempfile.mkdtemp(prefix='c07_')
    timer = os.path.join(tdir, 'timer.py')
    open(timer, 'w').write(TIMER)
    maxlen = 2 if tier == 'quick' else 3
    pumps = [''.join(p) for L in range(1, maxlen + 1) for p in itertools.product(BASE_CHARS, repeat=L)]
    if tier == 'quick':
        wsch = [' ', '\t', '\r', '\n', '\f']
        core2 = [a_ + b_ for a_ in wsch for b_ in wsch] + [a_ + b_ for a_ in ['\\', '/', '*', 'a', '-', ','] for b_ in wsch + ['\\', '*', '/', 'a']]
        pumps = [p for p in pumps if len(p) == 1] + core2 + rnd.sample([p for p in pumps if len(p) == 2 and p not in core2], 120)
    # token-level pumps: an item of a list / a compound part followed by a separator (an escape's optional trailing blank next
    # to optional white space, a comment next to white space, an escaped separator ...)
    ITEMS = ['\\61 ', '\\a ', '\\41', '\\g', 'a', 'a ', '"a"', '"a" ', "'a'", '\\ ', '\\\n', 'a/**/', '/**/', '2n', '\\31 ', 'é', '-a', '--', '*|a', '.a', '#a',
             '[a]', ':a', '\\000061', '\\00061 ', 'a\\ ']
    SEPS = [',', ' ,', ', ', ' ', '', '/**/', ' /**/ ', '\t', '\r\n', '+', '>', '|']
    tpumps = [i_ + s_ for i_ in ITEMS for s_ in SEPS]
    pumps += tpumps if tier == 'thorough' else rnd.sample(tpumps, 100) + ['\\61 ,', '\\a , ', 'a ,'] + ['a' + s_ for s_ in SEPS] + ['\\61 ' + s_ for s_ in SEPS]
    names = list(pats)
    # runtime-built attribute patterns (applied to document attribute values): analysed as the parser builds them NOW
    import soupsieve as sv, irdump, attrval
    attrval.run(ck, rnd, 60 if tier == 'quick' else 1000)
    dyn = {}
    for op in ('=', '~=', '|=', '^=', '$=', '*='):
        for val, fl in (('x', ''), ('ab', ' i'), ('a-b', '')):
            pat = f'[title{op}"{val}"{fl}]'
            try:
                a = sv.compile(pat).selectors[0].attributes[0]
                dyn[f'attr{op}{val}{fl.strip()}'] = (a.pattern, irdump.pat_sx(a.pattern)[6:-1])
            except Exception as ex:
                ck.broken.append(f'cannot analyse the pattern built for {pat}: {ex!r}')

    CAP = 400000

    def req(name, subj):
        if name in dyn:
            return f'(work_re {dyn[name][1]} 0 {s_str(subj)} {CAP})'
        return f'(work {name} 0 {s_str(subj)} {CAP})'
    cands = []
    for name in names + list(dyn):
        prefs = PREFIXES if tier == 'thorough' else rnd.sample(PREFIXES, 9) + ['[a="', ':lang(', '/*']
        if name in dyn:
            prefs = ['', 'x', ' ', 'ab ', 'a-b']
        for pre in prefs:
            for w in pumps:
                cands.append((name, pre, w))
    suspects = []
    if lib.DRIVER_OK:
        # the search aid must agree with the extracted model where both are cheap: #ends <= work on small subjects
        chk = rnd.sample(cands, 300)
        e_ = drv.run([(f'(endscount_re {dyn[n][1]} 0 {s_str(p + w * 2)})' if n in dyn else f'(endscount {n} 0 {s_str(p + w * 2)})') for n, p, w in chk])
        w_ = drv.run([req(n, p + w * 2) for n, p, w in chk])
        if any(int(a) > int(b) for a, b in zip(e_, w_) if not isinstance(a, list) and not isinstance(b, list)):
            ck.broken.append('search aid work_count disagrees with Regex.ends (more ends than search steps)')
        # staged: work (size of the full backtracking tree) after 6, 12, 18 pumps; constant growth ratio = exponential
        w6 = [int(x) for x in drv.run([req(n, p + w * 6) for n, p, w in cands], shards=16)]
        stage2 = [i for i, c in enumerate(w6) if c >= 40]
        w12 = dict(zip(stage2, [int(x) for x in drv.run([req(cands[i][0], cands[i][1] + cands[i][2] * 12) for i in stage2], shards=16)]))
        stage3 = [i for i in stage2 if w12[i] < CAP and w12[i] >= 3 * w6[i]]
        w18 = dict(zip(stage3, [int(x) for x in drv.run([req(cands[i][0], cands[i][1] + cands[i][2] * 18) for i in stage3], shards=16)]))
        suspects = []
        for i, (name, pre, w) in enumerate(cands):
            ck.count(('amb', name, w6[i] > 200))
            if w6[i] >= CAP or (i in w12 and w12[i] >= CAP):
                suspects.append((10 ** 9, name, pre, w))
            elif i in w18:
                r1, r2 = w12[i] / max(w6[i], 1), w18[i] / max(w12[i], 1)
                if w18[i] >= CAP or (r2 >= 3.2 and r2 >= 0.75 * r1 and w18[i] >= 3000):
                    suspects.append((w18[i], name, pre, w))
        ck.notes['ambiguity_candidates'] = len(cands)
        suspects.sort(reverse=True)
        ck.notes['model_suspects'] = [[n, p, w, c] for c, n, p, w in suspects[:5]]
    else:
        # the model is unavailable: probe the LIVE pattern objects directly (the regex engine polls for signals, so a runaway match
        # is cut off by an alarm); the slowest candidates are then confirmed by the growth test below like the model's suspects
        import signal

        class _Slow(Exception):
            pass

        def _alarm(*_a):
            raise _Slow()
        old_h = signal.signal(signal.SIGALRM, _alarm)
        slow = []
        for name, pre, w in cands:
            pobj = dyn[name][0] if name in dyn else pats[name]
            for subj in (pre + w * 22 + '\x00', w * 22 + '\x00'):
                t0 = time.time()
                signal.setitimer(signal.ITIMER_REAL, 0.5)
                try:
                    pobj.match(subj)
                except _Slow:
                    pass
                finally:
                    signal.setitimer(signal.ITIMER_REAL, 0)
                dt = time.time() - t0
                if dt > 0.05:
                    slow.append((dt, name, pre, w))
                    break
        signal.signal(signal.SIGALRM, old_h)
        slow.sort(reverse=True)
        suspects = [(int(dt * 1e6), name, pre, w) for dt, name, pre, w in slow[:12]]
        ck.notes['live_probe_suspects'] = [[n_, p_, w_, round(dt, 3)] for dt, n_, p_, w_ in slow[:5]]
    # ---- confirm on the real engine: time grows exponentially with the number of pumps
    seen = set()
    for cnt, name, pre, w in suspects[:6]:
        if (name, w) in seen:
            continue
        seen.add((name, w))
        times = []
        for k in (14, 18, 22, 26, 40):
            # the live engine stops at the first success: time variants that are likely to fail as a whole
            variants = [pre + w * k, pre + w * k + '\x00', w * k + '\x00']
            t = 0.0
            for subj in variants:
                if name in dyn:
                    tv = timed([build.PY, timer, build.REPO, json.dumps([dyn[name][0].pattern, dyn[name][0].flags]), json.dumps(subj), 'dyn'], 20)
                else:
                    tv = timed([build.PY, timer, build.REPO, name, json.dumps(subj), 're', os.path.join(lib.VERIF, 'harness')], 20)
                if tv is not None and tv > t:
                    t, worst = tv, subj
                if t == float('inf'):
                    break
            times.append(t)
            if t is None or t == float('inf') or t > 5:
                break
        grow = [b / a for a, b in zip(times, times[1:]) if a and b and a > 0.002]
        if (times and times[-1] is not None and (times[-1] == float('inf') or times[-1] > 1.0)) and (not grow or max(grow) >= 3):
            ck.violation(f'regex {name}: subject {pre!r} + {w!r}*k takes {times} s for k = 14, 18, 22, 26, 40 (model: search tree of {cnt} steps at k = 18)',
                         {'regex': name, 'prefix': pre, 'pump': w, 'seconds_for_k_14_18_22_26': [None if t is None else (t if t != float("inf") else 'timeout>20s') for t in times],
                          'model_search_steps': cnt, 'replay': f'the live pattern object {name} .match({worst!r})'})
    # ---- end to end: compile() on truncated constructs repeated n times
    fams = [('div', '\r\n'), ('a,', '\r\n'), (':is(a', '\r\n'), ('[a', '\r\n'), ('a', '\r'), ('a', ' \n'), ('a', '\f\r'),
            (':lang(', '\\61 ,'), (':-soup-contains(', '\\a ,'), (':lang(', 'a ,'), (':is(', '\\61 ,'), ('[', '\\61 |'), (':lang(', '"a" ,'), ('', '\\61 >'),
            ('', '\\61 '), ('.', '\\61 .'), (':nth-child(2n+1 of ', '\\61 ,'),
            ('[a="', 'a'), ('[a="', '\\\r'), (':lang(', 'aa,'), ('', '\\41b'), (':-soup-contains(', '"a",'), ('/*', '*a'), ('a', ' /**/'),
            (':nth-child(', '2n +'), ('[a=', "'\\'"), (':is(', 'a,'), ('', 'a>'), ('[', 'a|'), (':lang("', '\\\n'), ('#', '\\\\'),
            ('', ':not('), ('a', '\t\n\r\f '), ('[a="', '\\\f'), (":lang('", "\\'"), ('', '\\g')]
    for pre, w in fams:
        ts = []
        for n in (12, 24, 48):
            t = timed([build.PY, timer, build.REPO, '-', json.dumps(pre + w * n), 'compile'], 20)
            ts.append(t)
            if t is None or t == float('inf'):
                break
        ck.count(('family', pre, w))
        bad = any(t == float('inf') for t in ts if t is not None) or (len(ts) == 3 and ts[2] and ts[1] and ts[2] > 2.0 and ts[2] > 8 * max(ts[1], 0.01))
        if bad:
            ck.violation(f'compile({pre!r} + {w!r}*n) takes {ts} s for n = 12, 24, 48',
                         {'prefix': pre, 'pump': w, 'seconds_for_n_12_24_48': [t if t != float("inf") else 'timeout>20s' for t in ts],
                          'replay': f'soupsieve.compile({pre!r} + {w!r} * 48)'})
    # custom alias maps whose definitions refer to each other: compile time must stay polynomial in the size of the map
    def fib(n):
        cm = {f':--c{i}': f':is(:--c{i + 1}, :--c{i + 2})' for i in range(n)}
        cm[f':--c{n}'], cm[f':--c{n + 1}'] = 'a', 'b'
        return ':--c0', cm

    def diamond(n):
        cm = {f':--c{i}': f':--c{i + 1} > p, div :--c{i + 1}' for i in range(n)}
        cm[f':--c{n}'] = 'a'
        return ':--c0', cm

    def linear(n):
        cm = {f':--c{i}': f':--c{i + 1} > p' for i in range(n)}
        cm[f':--c{n}'] = 'a'
        return ':--c0, :--c1', cm

    def wide(n):
        cm = {f':--c{i}': f'p.k{i}' for i in range(n * 4)}
        return ', '.join(cm), cm

    def reuse(n):
        return ':--a' * n + ', ' + ', '.join([':--b:--a'] * n), {':--a': ':is(p, :--b)', ':--b': 'div > span'}
    for fname, mk_ in (('fibonacci', fib), ('diamond', diamond), ('linear', linear), ('wide', wide), ('reuse', reuse)):
        ts = []
        for n in (8, 16, 24):
            t = timed([build.PY, timer, build.REPO, '-', json.dumps(mk_(n)), 'custom'], 20)
            ts.append(t)
            if t is None or t == float('inf'):
                break
        ck.count(('custom-family', fname))
        bad = any(t == float('inf') for t in ts if t is not None) or (len(ts) == 3 and ts[2] and ts[1] and ts[2] > 2.0 and ts[2] > 8 * max(ts[1], 0.01))
        if bad:
            pat_, cm_ = mk_(24)
            ck.violation(f'compile with the {fname} custom map of n aliases takes {ts} s for n = 8, 16, 24',
                         {'family': fname, 'seconds_for_n_8_16_24': [t if t != float("inf") else 'timeout>20s' for t in ts],
                          'pattern': pat_, 'custom': cm_, 'replay': 'soupsieve.compile(pattern, custom=custom)'})
    ck.notes['compile_families'] = len(fams) + 5
    import shutil
    shutil.rmtree(tdir, ignore_errors=True)
    return ck.finish(
        level='proof',
        rule='(1) all 50 translated regexes vs the live re objects on generated subjects (match end and every group span); '
             '(2) ambiguity search in the extracted model: for every pattern, prefixes x pump strings (all 1-2 character strings over a '
             '26-character lexical alphabet; thorough: length 3) repeated 3/6/9 times - the number of ends must not grow '
             'exponentially; suspects are confirmed by timing the live pattern on 14..26 repetitions in a subprocess; '
             '(3) compile() on 19 families of truncated constructs repeated 12/24/48 times. Decisions use growth rates, seconds only '
             'with generous thresholds. class = (stage, pattern, grew?).',
        assumptions=['CPython\'s re cost is proportional to the size of the backtracking search of the reference semantics (measured, not proved)',
                     'all 50 regenerated patterns carry the DetCost certificate (polynomial number of ends for every subject), and so do the attribute '
                     'patterns built at run time, for every value (AttrCost, on the template model that is validated AST-for-AST against the parser)',
                     'the bound counts complete ends of each (sub)expression; the work inside a failing branch is covered by the same bound applied to '
                     'that sub-expression, not by a separate theorem about the total number of steps'])


def replay(path):
    print(open(path).read())
    return 0
