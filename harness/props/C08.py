"""C08 - matching never raises on any tree."""
import warnings
import bs4
import lib, e1, campaign, matchcheck, gen_selectors, gen_trees
from lib import Check

PID = 'C08'
NASTY = ['', ' ', 'x', '0999-W01', '10000-W01', '2019-W53', '2020-W54', '24:00', '.5', '5.', '-', '9' * 40, '1e400', '-0',
         '2020-02-30', '0000-01-01', '99999-12-31', '2020-13-01T25:61', 'auto', 'AUTO', 'ltr', 'rtl', 'é', '\x00', 'a\nb',
         'en--US', '-', '*', '١٢', '12:60', '0001-W01', '2020-W00', 'NaN', 'inf', '1_000', '+5', 'date', 'radio']
ATTRS = ['type', 'min', 'max', 'value', 'dir', 'lang', 'name', 'placeholder', 'checked', 'disabled', 'http-equiv', 'content',
         'href', 'contenteditable', 'required', 'readonly']


def nastify(top, rnd):
    """Arbitrary (string) content for the attributes the pseudo-classes read."""
    for el in top.find_all(True):
        if rnd.random() < 0.5:
            for _ in range(rnd.choice([1, 1, 2, 3])):
                el.attrs[rnd.choice(ATTRS)] = rnd.choice(NASTY)
    return top


def safe(t):
    try:
        return str(t)[:200]
    except Exception:
        return f'<{t.name} {t.attrs!r}>'[:200]


def is_known(ex, top):
    """the recorded finding: ValueError from a type=week input whose min/max/value year is outside 1000..9999"""
    import re
    if not isinstance(ex, ValueError):
        return False
    for el in top.find_all(True):
        if str(el.attrs.get('type', '')).lower() == 'week':
            for k in ('min', 'max', 'value'):
                m = re.fullmatch(r'([0-9]{4,})-W([0-9]{2})', str(el.attrs.get(k, '')))
                if m and not (1000 <= int(m.group(1)) <= 9999) and int(m.group(1)) >= 1:
                    return True
    return False


def run(tier, seed):
    ck = Check(PID, tier, seed)
    rnd = ck.rnd
    ck.proof = lib.proof_step('props/C08.v', matchcheck.MATCH_CONE)
    ck.broken += ck.proof['broken']
    if not ck.proof['driver_ok']:
        ck.notes['driver'] = 'unavailable: model-side runs skipped, searching with the implementation-side oracles only'
    import soupsieve as sv
    n = 150 if tier == 'quick' else 2500
    custom = {':--cust': 'p, div > span'}
    scs = []
    plan = [('forms', 'nasty', ('core', 'state', 'lang', 'dir', 'contains', 'misc')),
            ('langdir', 'nasty', ('core', 'state', 'lang', 'dir', 'contains')),
            ('core', 'nasty', ('core', 'state', 'lang', 'dir', 'contains', 'misc')),
            ('ns', 'nasty', ('core', 'state', 'lang', 'dir', 'ns')),
            ('odd', 'odd', ('core',))]
    for profile, style, feats in plan:
        for sc0 in campaign.build(rnd, profile, n // 5 + 1, 0):
            top = sc0.top
            if style == 'nasty':
                nastify(top, rnd)
            sc = e1.Scenario(top, sc0.label + '/' + style)     # re-view after the edits
            pools = gen_selectors.pools_from_soup(top)
            nsmap = rnd.choice(campaign.NSMAPS) if profile == 'ns' else None
            prefixes = [k for k in (nsmap or {}) if k]
            sg = gen_selectors.SGen(rnd, feats=feats, prefixes=prefixes, **pools)
            elements = list(top.find_all(True))
            for it in range(6):
                s = sg.selector(1)
                if style == 'nasty' and it < 2:
                    s = rnd.choice([':in-range', ':out-of-range', ':dir(ltr)', ':dir(rtl)', ':lang(en)', ':default', ':indeterminate',
                                    ':placeholder-shown', ':read-write', ':checked', ':root', ':enabled', ':required',
                                    'input:not(:in-range)', ':is(:dir(rtl), :out-of-range)'])
                if style == 'odd' and it < 3:
                    a = rnd.choice(['class', 'id', 'title', 'data-x', 'href', 'rel'])
                    s = rnd.choice([f'[{a}]', f'[{a}~=a]', f'[{a}="a b"]', f'[{a}*=b]', '.a', '#a', f'[{a}|=a]', f'[{a}$="3"]',
                                    f'[{a}^=a i]', f':not([{a}])', '.a.b', '#plain'])
                with warnings.catch_warnings():
                    warnings.simplefilter('ignore')
                    try:
                        c = sv.compile(s, nsmap, custom=custom)
                    except Exception:
                        continue
                    tg = [top] + rnd.sample(elements, min(3, len(elements)))
                    for tgt in tg:
                        for opname, fn in (('select', lambda: c.select(tgt)), ('select_one', lambda: c.select_one(tgt)),
                                           ('iselect', lambda: list(c.iselect(tgt))), ('filter', lambda: c.filter(tgt)),
                                           ('match', lambda: c.match(tgt)), ('closest', lambda: c.closest(tgt))):
                            try:
                                fn()
                                ck.count(('ok', opname, profile, style))
                            except RecursionError:
                                raise
                            except Exception as ex:
                                key = 'C18-week-year-range' if is_known(ex, top) else None
                                ck.count(('raise', opname, type(ex).__name__))
                                ck.violation(f'{opname}({s!r}) raised {type(ex).__name__}: {str(ex)[:100]}',
                                             {'pattern': s, 'op': opname, 'namespaces': nsmap, 'markup': matchcheck.markup_of(sc),
                                              'tree': sc.label, 'exception': type(ex).__name__,
                                              'target': 'document' if isinstance(tgt, bs4.BeautifulSoup) else safe(tgt),
                                              'attrs_repr': [repr(e.attrs)[:120] for e in elements[:12]] if style == 'odd' else None},
                                             key=key)
                ops = [('select', (), 0)] + [('match', sc.path_of[id(e)]) for e in elements[:15]]
                sc.add(s, ops, namespaces=nsmap, custom=custom)
            if style in ('nasty', 'odd'):
                # every state pseudo-class once on the whole document (all of them walk forms / ancestors / attributes)
                for s in (':in-range', ':out-of-range', ':dir(ltr)', ':dir(rtl)', ':lang(en)', ':default', ':indeterminate',
                          ':placeholder-shown', ':read-write', ':read-only', ':checked', ':enabled', ':disabled', ':required',
                          ':optional', ':link', ':defined', ':root', ':empty'):
                    try:
                        with warnings.catch_warnings():
                            warnings.simplefilter('ignore')
                            sv.select(s, top, namespaces=nsmap)
                        ck.count(('ok', 'battery', s, profile))
                    except RecursionError:
                        raise
                    except Exception as ex:
                        key = 'C18-week-year-range' if is_known(ex, top) else None
                        ck.violation(f'select({s!r}) raised {type(ex).__name__}: {str(ex)[:100]}',
                                     {'pattern': s, 'op': 'select', 'namespaces': nsmap, 'markup': matchcheck.markup_of(sc),
                                      'tree': sc.label, 'exception': type(ex).__name__, 'target': 'document'}, key=key)
            if len(ck.samples) < 3:
                ck.sample({'tree': sc.label, 'patterns': [i[0] for i in sc.items][:3]})
            scs.append(sc)
    # structured range inputs: min / max / value of one type, equal or adjacent, one of them with a seconds or fraction suffix,
    # a trailing blank, a sign - whatever the strings are, the range pseudo-classes answer and never raise
    from props import C18 as _C18
    from bs4 import BeautifulSoup as _BS
    for _ in range(40 if tier == 'quick' else 600):
        soup = _BS('<html><body><form></form></body></html>', 'html.parser')
        for _k in range(8):
            itype = rnd.choice(['time', 'datetime-local', 'date', 'month', 'week', 'number', 'range', 'time', 'datetime-local'])
            v = _C18.gen_value(rnd, itype)
            vals = [v, v, _C18.gen_value(rnd, itype, near=v), _C18.gen_value(rnd, itype, near=v)]
            sfx = rnd.choice([':00', ':15', ':59.5', ':00.000', '.5', ' ', 'Z', ':60', ''])
            j_ = rnd.randrange(len(vals))
            vals[j_] = vals[j_] + sfx
            rnd.shuffle(vals)
            t = soup.new_tag('input')
            t.attrs['type'] = itype
            for nm_, vv in zip(rnd.sample(['min', 'max', 'value'], rnd.choice([2, 3, 3])), vals):
                t.attrs[nm_] = vv
            soup.form.append(t)
        for s in (':in-range', ':out-of-range', 'input:not(:in-range):not(:out-of-range)'):
            try:
                with warnings.catch_warnings():
                    warnings.simplefilter('ignore')
                    sv.select(s, soup)
                ck.count(('ok', 'range-battery', s))
            except RecursionError:
                raise
            except Exception as ex:
                key = 'C18-week-year-range' if is_known(ex, soup) else None
                ck.violation(f'select({s!r}) raised {type(ex).__name__}: {str(ex)[:100]}',
                             {'pattern': s, 'op': 'select', 'markup': str(soup)[:2500], 'exception': type(ex).__name__}, key=key)
    # empty / element-less documents, detached fragments, several top-level nodes
    from bs4 import BeautifulSoup
    for mk, parser in (('', 'html.parser'), ('text only', 'html.parser'), ('<!-- c -->', 'html.parser'), ('<!DOCTYPE html>', 'html.parser'),
                       ('<a></a><b></b>text<c></c>', 'html.parser'), ('', 'lxml'), ('<?xml version="1.0"?><r/>', 'xml')):
        soup = BeautifulSoup(mk, parser)
        for s in ('*', ':root', 'a ~ c', ':nth-child(1)', ':lang(en)', ':dir(ltr)', ':empty', ':scope', ':has(*)', ':default',
                  ':indeterminate', ':in-range', 'p:not(.x)'):
            for opname, fn in (('select', lambda: sv.select(s, soup)), ('select_one', lambda: sv.select_one(s, soup)),
                               ('filter', lambda: sv.filter(s, soup)), ('closest', lambda: sv.closest(s, soup)),
                               ('match', lambda: sv.match(s, soup))):
                try:
                    with warnings.catch_warnings():
                        warnings.simplefilter('ignore')
                        fn()
                    ck.count(('ok-small', opname, mk[:8]))
                except Exception as ex:
                    ck.violation(f'{opname}({s!r}) on BeautifulSoup({mk!r}, {parser!r}) raised {type(ex).__name__}',
                                 {'pattern': s, 'op': opname, 'markup': mk, 'parser': parser, 'exception': type(ex).__name__})
    # detached fragments (an extract()ed element, a tree made with new_tag): no document object above, whatever comes last
    DET = ['<div id="d"><p>x</p><iframe></iframe></div>', '<div id="d"><p>x</p><iframe><html><body><p>in</p></body></html></iframe></div>',
           '<form id="d"><input type="radio" name="a"><input type="submit"><span><iframe></iframe></span></form>',
           '<form id="d"><input type="radio" name="a"><div><div><iframe><html><body><input type="radio" name="a" checked></body></html></iframe></div></div></form>',
           '<ul id="d"><li>1</li><li>2<!-- c --></li></ul>', '<p id="d" lang="en" dir="auto">text<b></b></p>', '<div id="d"><textarea dir="auto"></textarea><input type="week" min="x"></div>',
           '<div id="d"></div>', '<div id="d">only text</div>', '<section id="d"><iframe></iframe>tail</section>',
           # an element with no parent at all / directly below an iframe, for every walk that climbs to a form, a root or a language
           '<input id="d" type="radio" name="a">', '<input id="d" type="submit">', '<p id="d" dir="auto"></p>', '<textarea id="d" placeholder="x"></textarea>',
           '<div><iframe id="d"><input type="radio" name="a"><input type="submit"><p lang="en">x</p></iframe></div>',
           '<iframe id="d"><input type="radio" name="a" checked><option selected>o</option></iframe>']
    DET_W = []
    DSEL_W = [':disabled', ':enabled', ':read-write', ':read-only', ':default', ':checked', ':required', ':indeterminate', ':nth-child(1)',
              ':only-of-type', ':root', ':has(> input)', ':dir(ltr)', ':lang(en)', ':placeholder-shown', 'input:not(:disabled)']
    # every kind of wrapper the HTML-only definitions mention (or not), parentless or directly below an iframe, holding controls
    for w_ in ('legend', 'fieldset', 'optgroup', 'select', 'label', 'datalist', 'details', 'summary', 'object', 'template', 'map', 'table',
               'td', 'svg', 'math', 'button', 'a', 'option', 'textarea', 'ul', 'html', 'body', 'head'):
        DET_W.append(f'<{w_} id="d"><input id="a"><button>x</button><option>o</option><legend><input></legend></{w_}>')
        DET_W.append(f'<iframe id="d"><{w_}><input><textarea></textarea><option selected>o</option></{w_}><{w_}><select><option>o</option></select></{w_}></iframe>')
        DET_W.append(f'<fieldset id="d" disabled><{w_}><input></{w_}><{w_}><button>b</button></{w_}></fieldset>')
    DSEL = ['*', ':root', 'p', ':-soup-contains(x)', ':-soup-contains-own(in)', ':indeterminate', ':default', ':empty', ':has(iframe)', 'iframe ~ *',
            ':nth-child(1)', ':nth-last-child(1)', ':only-of-type', ':lang(en)', ':dir(ltr)', ':scope', ':not(p)', ':in-range', ':checked', 'div p, form input',
            ':enabled', ':disabled', ':required', ':placeholder-shown', ':read-write', ':link', ':defined', 'input ~ *', ':has(> input)']
    for mk in DET + DET_W:
        for parser in (('html.parser', 'lxml', 'html5lib') if mk in DET or tier != 'quick' else ('html.parser',)):
            with warnings.catch_warnings():
                warnings.simplefilter('ignore')
                frag = BeautifulSoup(mk, parser).find(id='d')
                if frag is None:
                    continue
                frag = frag.extract()
                targets_ = [frag] + list(frag.find_all(True))[:4]
                for s in (DSEL if mk in DET else DSEL_W):
                    for tgt in targets_:
                        for opname, fn in (('select', lambda: sv.select(s, tgt)), ('match', lambda: sv.match(s, tgt)),
                                           ('closest', lambda: sv.closest(s, tgt)), ('filter', lambda: sv.filter(s, tgt))):
                            try:
                                fn()
                                ck.count(('ok-detached', opname, parser))
                            except Exception as ex:
                                ck.violation(f'{opname}({s!r}) on a detached <{tgt.name}> of {mk!r} ({parser}) raised {type(ex).__name__}',
                                             {'pattern': s, 'op': opname, 'markup': mk, 'parser': parser, 'detached': True,
                                              'target': str(tgt)[:200], 'exception': type(ex).__name__})
    matchcheck.run_corr(ck, scs)
    return ck.finish(
        level='proof',
        rule='(1) documents of every family whose type/min/max/value/dir/lang/name/placeholder/http-equiv/content/... attributes '
             'carry nasty strings (malformed dates, year 0/99999, week 00/53/54, 24:00, huge digit strings, NUL, non-ASCII digits), '
             'every pseudo-class, every entry point, the document and random elements as target; (2) attributes read only by '
             'attribute/class/id selectors carrying None, numbers, bytes (valid and invalid UTF-8), lists, nested lists, tuples, dicts; '
             '(3) empty, text-only, comment-only, doctype-only documents, several top-level nodes. The same cases through the '
             'extracted model (exception class must agree).',
        assumptions=['invalid UTF-8 bytes as an attribute value are outside "the odd values the bs4 API permits" only if they raise '
                     'UnicodeDecodeError in normalize_value; this is reported if it happens'])


def replay(path):
    print(open(path).read())
    return 0
