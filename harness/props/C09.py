"""C09 - compiled meaning depends only on the token sequence, not on its spelling."""
import warnings
import lib, e2, gen_selectors, respell, campaign
from lib import Check

PID = 'C09'
CONE = ['Regex.v', 'IR.v', 'AttrPat.v', 'Parser.v', 'RespellCorpus.v', 'RespellFacts.v', 'UnescFacts.v', 'StrContFacts.v', 'StrUnescFacts.v', 'RunFacts.v', 'AttrFacts.v', 'gen/RegexGen.v', 'gen/ConstGen.v']


def run(tier, seed):
    ck = Check(PID, tier, seed)
    rnd = ck.rnd
    ck.proof = lib.proof_step('props/C09.v', CONE)
    ck.broken += ck.proof['broken']
    if not ck.proof['driver_ok']:
        ck.notes['driver'] = 'unavailable: model-side runs skipped, searching with the implementation-side oracles only'
    import soupsieve as sv
    n = 350 if tier == 'quick' else 12000
    ag = gen_selectors.AGen(rnd, names=['div', 'p', 'x-y', 'é', 'a1', 'LI'], classes=['x', 'a-b', 'é', '1st', '-', 'end ', '\xa0', 'z\x85'],
                            ids=['a', 'i d', '-x', 'ü', '9', 'main ', ' lead', 'nb\xa0', '\u3000x', 'tab\t', 'e\u2003'], attrs=['title', 'data-x', 'type', 'xlink:href', 'A'],
                            values=['x', 'a b', "it's", 'q"q', '', 'é', 'line\nbreak', '-', 'a-b', '1', ' ', 'tab\there', 'back\\slash', '\U0001F600',
                                    'say "hi"', "it's'", 'x"', "'", '"', 'end\\'],
                            texts=['hello', 'a"b', "c'd", ' ', 'x,y', '(z)', 'hi"', "q'", '"', 'b\\'], feats=('core', 'contains', 'lang'))
    docs = campaign.build(rnd, 'core', 6, 0)
    model_cases = []
    for _ in range(n):
        _, ast = ag.selector(2)
        if rnd.random() < 0.15:
            # :dir() and the i/s flags
            ast[0][0].setdefault('pseudos', []).append(('dir', rnd.choice(['ltr', 'rtl'])))
        canon = respell.spell(ast, respell.Sp(rnd, 0))
        try:
            with warnings.catch_warnings():
                warnings.simplefilter('ignore')
                sv.purge()
                c0 = sv.compile(canon)
        except Exception as ex:
            ck.violation(f'the canonical spelling {canon!r} of a valid selector does not compile: {type(ex).__name__}', {'pattern': canon})
            continue
        model_cases.append((canon, None))
        for j in range(4):
            sp = respell.spell(ast, respell.Sp(rnd, rnd.choice([0.15, 0.35, 0.6])))
            feat = ('/*' in sp, '\\' in sp, "'" in sp, any(c in sp for c in '\n\r\f\t'), sp.lower() != sp)
            ck.count(('respell', feat))
            if any('\\' + nl in sp for nl in ('\n', '\r', '\f')):
                ck.notes['respellings_with_line_continuation'] = ck.notes.get('respellings_with_line_continuation', 0) + 1
            try:
                with warnings.catch_warnings():
                    warnings.simplefilter('ignore')
                    c = sv.compile(sp)
            except Exception as ex:
                ck.violation(f'respelling {sp!r} of {canon!r} raises {type(ex).__name__}',
                             {'canonical': canon, 'respelling': sp, 'exception': type(ex).__name__, 'message': str(ex).splitlines()[0][:200]})
                continue
            if c.selectors != c0.selectors:
                ck.violation(f'respelling {sp!r} compiles to a different structure than {canon!r}', {'canonical': canon, 'respelling': sp})
            elif rnd.random() < 0.1:
                d = rnd.choice(docs).top
                with warnings.catch_warnings():
                    warnings.simplefilter('ignore')
                    if [id(e) for e in c.select(d)] != [id(e) for e in c0.select(d)]:
                        ck.violation(f'respelling {sp!r} selects differently from {canon!r}', {'canonical': canon, 'respelling': sp})
            if j == 0:
                model_cases.append((sp, None))
            if len(ck.samples) < 4:
                ck.sample({'canonical': canon, 'respelling': sp})
    # the deprecated alias :contains compiles to the same structure as :-soup-contains
    for t in ('"x"', 'x, "y z"', "'a\\'b'"):
        with warnings.catch_warnings():
            warnings.simplefilter('ignore')
            if sv.compile(f'p:contains({t})').selectors != sv.compile(f'p:-soup-contains({t})').selectors:
                ck.violation(':contains and :-soup-contains compile differently', {'value': t})
    nb = 0
    for r in e2.run(model_cases):
        why = e2.agree(r)
        if why:
            nb += 1
            if nb <= 4:
                ck.broken.append(f'correspondence compile({r["pattern"]!r}): {why}')
    return ck.finish(
        level='proof',
        rule='valid selector ASTs (core grammar + :lang, :-soup-contains, :dir, nth with `of S`) with identifiers and values containing '
             'quotes, backslashes, blanks, line breaks, non-ASCII and astral characters; for each, 4 respellings drawn from the '
             'rewrite rules (white space / comments around combinators, commas, inside brackets and parentheses and at both ends; '
             'each character literal, backslash-escaped, or hex-escaped with 1-6 digits in either case; single / double quotes / '
             'bare identifier; line continuations (backslash + LF / CR LF / CR / FF) anywhere inside a quoted value, also right before the closing quote; case of pseudo-class names, even/odd/n/of, ltr/rtl, i/s): structures must be equal to the canonical '
             'spelling\'s; canonical and respelled patterns also go through the model parser. class = which rewrite kinds occur.',
        assumptions=['white space where CSS forbids it (between ":" and a name, inside An+B before n) is not generated'])


def replay(path):
    print(open(path).read())
    return 0
