"""C10 - escape() output always parses back to the original identifier."""
import warnings
import lib, e2
from lib import Check, s_str

PID = 'C10'
CONE = ['Regex.v', 'IR.v', 'AttrPat.v', 'Parser.v', 'EscapeFacts.v', 'UnescFacts.v', 'IdentFacts.v', 'RunFacts.v', 'AttrFacts.v', 'gen/RegexGen.v', 'gen/ConstGen.v']
INTERESTING = [0, 1, 9, 10, 12, 13, 31, 32, 33, 34, 35, 39, 40, 41, 44, 45, 46, 47, 48, 57, 58, 64, 65, 70, 71, 90, 91, 92, 93, 95, 96, 97, 102,
               103, 122, 123, 126, 127, 128, 133, 159, 160, 173, 255, 256, 0x17f, 0x212a, 0x2028, 0x3000, 0xd7ff, 0xd800, 0xdbff, 0xdc00,
               0xdfff, 0xe000, 0xfeff, 0xfffd, 0xfffe, 0xffff, 0x10000, 0x1f600, 0xe0001, 0x10ffff]


def gen_strings(rnd, n, tier):
    out = []
    pts = list(INTERESTING)
    if tier == 'thorough':
        pts = list(range(0x110000))
    else:
        pts += [rnd.randrange(0x110000) for _ in range(300)]
    for c in pts:
        ch = chr(c)
        out += [ch, '-' + ch, 'a' + ch + 'b', 'a' + ch, '-a_' + ch]
        if tier == 'quick' or c < 0x3000:
            out += [ch + ch, '--' + ch, ch + '-', '1' + ch, ch + '1']
    for _ in range(n):
        k = rnd.randint(1, 8)
        out.append(''.join(chr(rnd.choice(INTERESTING)) if rnd.random() < 0.7 else chr(rnd.randrange(0x110000)) for _ in range(k)))
    return out


def run(tier, seed):
    ck = Check(PID, tier, seed)
    rnd = ck.rnd
    ck.proof = lib.proof_step('props/C10.v', CONE)
    ck.broken += ck.proof['broken']
    if not ck.proof['driver_ok']:
        ck.notes['driver'] = 'unavailable: model-side runs skipped, searching with the implementation-side oracles only'
    import soupsieve as sv
    from bs4 import BeautifulSoup
    strs = gen_strings(rnd, 1500 if tier == 'quick' else 30000, tier)
    drv = lib.Driver()
    # escape(): implementation vs model
    outs = drv.run([f'(escape {s_str(s)})' for s in strs])
    esc = {}
    nb = 0
    for s, mo in zip(strs, outs):
        try:
            e = sv.escape(s)
        except Exception as ex:
            ck.violation(f'escape({s!r}) raised {type(ex).__name__}', {'string': [ord(c) for c in s]})
            continue
        esc[s] = e
        if lib.sx_to_str(mo) != e:
            nb += 1
            if nb <= 3:
                ck.broken.append(f'correspondence escape({[hex(ord(c)) for c in s]}): implementation {e!r} model {lib.sx_to_str(mo)!r}')
    # the escaped text inside selectors: structure and selection
    soup = BeautifulSoup('<html><body></body></html>', 'html.parser')
    follow = ['', ' > b', '.x', ', b', ':root', '[x]', ' b', '\n', '/**/']
    cases = []
    for s in strs:
        if s not in esc:
            continue
        e = esc[s]
        exp = s.replace('\x00', '�')
        f = rnd.choice(follow)
        variants = [('#' + e + f, 'ids'), ('.' + e + f, 'classes'), ('[a=' + e + ']' + (f if f.strip() != '' or f == '' else ''), 'attr')]
        for pat, kind in variants:
            try:
                with warnings.catch_warnings():
                    warnings.simplefilter('ignore')
                    sv.purge()
                    c = sv.compile(pat)
            except Exception as ex:
                ck.violation(f'{pat[:1]!r} + escape(s) + {f!r} does not compile for s = {[hex(ord(ch)) for ch in s]}: {type(ex).__name__}',
                             {'string_codepoints': [ord(ch) for ch in s], 'pattern': pat, 'exception': type(ex).__name__})
                continue
            first = c.selectors[0]
            while first.relation and len(first.relation):
                first = first.relation[0]         # left-most compound carries the identifier
            got = None
            import re as _re
            n_ids, n_cls, n_att = (kind == 'ids'), (kind == 'classes') + (f == '.x'), (kind == 'attr') + (f == '[x]')
            shape_ok = (len(first.ids), len(first.classes), len(first.attributes)) == (n_ids, n_cls, n_att)
            if kind == 'ids' and shape_ok:
                got = first.ids[0]
            elif kind == 'classes' and shape_ok:
                got = first.classes[0]
            elif kind == 'attr' and shape_ok:
                a = first.attributes[0]
                got = exp if (a.attribute == 'a' and a.pattern.pattern == '^%s\\Z' % _re.escape(exp)) else None
            ck.count((kind, f, min(len(s), 3), 'nul' if '\x00' in s else ''))
            nsel = len(c.selectors) if f != ', b' else len(c.selectors) - 1
            if got != exp or nsel != 1:
                ck.violation(f'{pat[:1]!r} + escape(s) + {f!r} is not parsed as the identifier s = {[hex(ord(ch)) for ch in s]}',
                             {'string_codepoints': [ord(ch) for ch in s], 'pattern': pat, 'parsed_as': got, 'expected': exp,
                              'replay': f'soupsieve.compile({pat!r})'})
            cases.append((pat, None))
        if len(ck.samples) < 4:
            ck.sample({'s': [hex(ord(ch)) for ch in s], 'escaped': e})
    # selection on a document
    nul_strs = [x for x in ('\x00', 'a\x00', '\x00b', '-\x00', 'a\x00b\x00c', '\x00\x00', '1\x00') if x in esc or not esc.update({x: sv.escape(x)})]
    # code points that Unicode normalisation forms / case foldings would rewrite: identifiers are compared code point by code point
    norm_strs = [x for x in ('cafe\u0301', 'e\u0301', '\u212a', '\u212b', '\u2126', '\u1fef', '\u037e', '\uf900', 'A\u030a', '\u1e9b\u0323', '\ufb01',
                             '\u00e9', 'x\u00c5', '\u0130', '\u017f', '\u2160', '\uff21') if x in esc or not esc.update({x: sv.escape(x)})]
    for s in rnd.sample([x for x in strs if x in esc], 200 if tier == 'quick' else 3000) + nul_strs + norm_strs:
        exp = s.replace('\x00', '�')
        soup.body.clear()
        near = [exp, exp + 'x', 'x' + exp, exp[:-1] if len(exp) > 1 else 'q', exp.swapcase() if exp.swapcase() != exp else 'zz']
        if '\x00' in s:
            near += [s, s.replace('\x00', '', 1) or 'q2']           # the raw NUL is another character than U+FFFD in a document value
        if '�' in exp:
            near.append(exp.replace('�', '\x00', 1))
        import unicodedata
        for form in ('NFC', 'NFD', 'NFKC', 'NFKD'):
            nv = unicodedata.normalize(form, exp)
            if nv != exp and nv:
                near.append(nv)
        if exp.casefold() != exp and exp.casefold():
            near.append(exp.casefold())
        near = list(dict.fromkeys(near))
        for v in near:
            t = soup.new_tag('p')
            t.attrs['id'] = v
            # a plain-string class attribute (XML parsers, API) is split at CSS white space only
            t.attrs['class'] = v if (rnd.random() < 0.5 and v and not any(ch in v for ch in ' \t\r\n\f')) else [v]
            t.attrs['a'] = v
            soup.body.append(t)
        e = esc[s]
        for pat in ('#' + e, '.' + e, '[a=' + e + ']'):
            try:
                with warnings.catch_warnings():
                    warnings.simplefilter('ignore')
                    got = sv.select(pat, soup)
            except Exception as ex:
                continue
            ck.count(('select', pat[0]))
            if [g.attrs['id'] for g in got] != [exp]:
                ck.violation(f'{pat[:1]!r} + escape(s) selects {[g.attrs["id"] for g in got]} instead of the element whose value is s',
                             {'string_codepoints': [ord(ch) for ch in s], 'pattern': pat})
    # the same patterns through the model parser
    sub = cases if tier == 'thorough' and len(cases) < 200000 else rnd.sample(cases, min(len(cases), 4000 if tier == 'quick' else 200000))
    nb2 = 0
    for r in e2.run(sub):
        why = e2.agree(r)
        if why:
            nb2 += 1
            if nb2 <= 3:
                ck.broken.append(f'correspondence compile({r["pattern"]!r}): {why}')
    return ck.finish(
        level='proof',
        rule='strings: every interesting code point class (C0, DEL, C1, digits, hyphen, ASCII punctuation, NUL, NBSP, line/paragraph '
             'separators, lone surrogates, non-characters, astral; thorough: ALL 0x110000 code points) in first position, after "-", '
             'interior, doubled, after "--", before "-", after/before a digit, plus random strings of 1-8 such characters; '
             'escape() vs the Coq model; "#", "." and "[a=" + escape(s) with 9 follow contexts: compiled structure must carry exactly '
             's (NUL -> U+FFFD); selection on a document with near-miss values; patterns also through the model parser.',
        assumptions=['escape("") = "" is outside the property (there is no empty identifier)'])


def replay(path):
    print(open(path).read())
    return 0
