"""C11 - name and value case rules follow the document type."""
import warnings
import lib, e1, campaign, matchcheck, gen_trees, gen_selectors, attrval
from lib import Check
from props import C01
from oracles import selspec

PID = 'C11'
HTML_ONLY = [':checked', ':default', ':indeterminate', ':disabled', ':enabled', ':required', ':optional', ':read-only',
             ':read-write', ':in-range', ':out-of-range', ':placeholder-shown', ':link', ':any-link', ':defined', ':dir(ltr)',
             ':dir(rtl)']


def run(tier, seed):
    ck = Check(PID, tier, seed)
    rnd = ck.rnd
    ck.proof = lib.proof_step('props/C11.v', matchcheck.MATCH_CONE + ['NsFacts.v', 'AttrPat.v', 'RunFacts.v', 'AttrFacts.v', 'AttrFactsIC.v'])
    ck.broken += ck.proof['broken']
    if not ck.proof['driver_ok']:
        ck.notes['driver'] = 'unavailable: model-side runs skipped, searching with the implementation-side oracles only'
    import soupsieve as sv
    n = 90 if tier == 'quick' else 1200
    scs = []
    for _ in range(n):
        tg = gen_trees.TGen(rnd)
        body = [tg.generic(1), tg.control(0), tg.control(0)]
        # names that use every ASCII letter (both ends of the alphabet), so that every letter's case folding is observable
        body.append(('e', 'quiz', {'size': '1', 'data-zoom': 'x', 'abcdefghijklmnopqrstuvwxyz': 'v', 'az': 'AZ'},
                     [('e', 'jkqvwxyz', {'title': 'z'}, [])]))
        body.append(('e', 'k', {'data-é': 'v', 'sk': 'x'}, [('e', 'xé', {'class': 'é'}, []), ('e', 'task', {}, [])]))
        if rnd.random() < 0.6:
            # foreign content with mixed-case names (html5lib gives these elements the SVG / MathML namespace and its own
            # spelling of the names): in an HTML document they still match regardless of ASCII case
            body.insert(rnd.randrange(len(body) + 1), ('e', 'svg', {'viewBox': '0 0 1 1', 'width': '1'}, [
                ('e', 'linearGradient', {'gradientUnits': 'userSpaceOnUse', 'id': 'g1'}, []),
                ('e', 'clipPath', {'class': 'x'}, [('e', 'circle', {'r': '1', 'title': 'x'}, [])]),
                ('e', 'foreignObject', {}, [('e', 'p', {'title': 'X'}, [('t', 'in svg')])])]))
            if rnd.random() < 0.5:
                body.append(('e', 'math', {'display': 'block'}, [('e', 'mi', {'mathvariant': 'bold'}, [('t', 'x')])]))
        # siblings whose names differ only in ASCII case: one element type in HTML, three in XML (also for the -of-type counts)
        body.append(('e', 'ul', {}, [('e', nm_, {'class': 'c%d' % i_}, []) for i_, nm_ in
                                     enumerate(rnd.sample(['Item', 'item', 'ITEM', 'item', 'Item', 'other'], rnd.randint(3, 6)))]))
        # mixed-case names and a type attribute, so that case rules are observable
        ab = ('e', 'html', {}, [('e', 'head', {}, []), ('e', 'body', {}, body)])
        mk_html = gen_trees.to_markup(ab)
        mk_xml = '<?xml version="1.0" encoding="UTF-8"?>' + gen_trees.to_markup(ab, xml=True)
        ab_x = ('e', 'html', {'xmlns': gen_trees.XHTML}, ab[3])
        mk_xhtml = '<?xml version="1.0" encoding="UTF-8"?>' + gen_trees.to_markup(ab_x, xml=True)
        tops = [(gen_trees.parse_with(mk_html, 'html.parser'), 'case/html.parser'), (gen_trees.parse_with(mk_html, 'lxml'), 'case/lxml'),
                (gen_trees.parse_with(mk_html, 'html5lib'), 'case/html5lib'), (gen_trees.parse_with(mk_xhtml, 'xml'), 'case/xhtml'),
                (gen_trees.parse_with(mk_xml, 'xml'), 'case/xml'), (gen_trees.build_api([ab]), 'case/api')]
        pools = gen_selectors.pools_from_soup(tops[0][0])
        pools.pop('texts', None)
        pools['attrs'] = sorted(set(pools['attrs']) | {'type'})
        ag = gen_selectors.AGen(rnd, feats=('core', 'case', 'ns'), prefixes=[], **pools)      # prefixes *| and | (no map): no effect on case rules
        sels = [ag.selector(1) for _ in range(6)]
        # every element / attribute name of the tree once in upper case (HTML: must still match; XML: must not, unless equal)
        els_ = tops[0][0].find_all(True)
        for _ in range(3):
            e_ = rnd.choice(els_)
            if e_.name.isascii() and e_.name.replace('-', '').isalnum():
                a_ = [[{'ids': [], 'classes': [], 'attrs': [], 'pseudos': [], 'type': (None, rnd.choice([e_.name.upper(), e_.name.title()]))}]]
                sels.append((gen_selectors.show_list(a_), a_))
            ks = [k for k in e_.attrs if isinstance(k, str) and k.isascii() and k.replace('-', '').isalnum()]
            if ks:
                k_ = rnd.choice(ks)
                a_ = [[{'ids': [], 'classes': [], 'attrs': [(None, rnd.choice([k_.upper(), k_.title()]), None, '', None)], 'pseudos': []}]]
                sels.append((gen_selectors.show_list(a_), a_))
        for _ in range(3):
            a_ = [[{'ids': [], 'classes': [], 'attrs': [], 'type': rnd.choice([(None, 'item'), (None, 'ITEM'), (None, 'Item'), None]),
                    'pseudos': [('nth', rnd.choice(['nth-of-type', 'nth-last-of-type']), rnd.choice([0, 0, 1, 2]), rnd.choice([1, 1, 2]), None)]}]]
            if a_[0][0]['type'] is None:
                del a_[0][0]['type']
            sels.append((gen_selectors.show_list(a_), a_))
        # the type attribute's value, spelled in another case, with and without a namespace prefix and the i / s flags
        typed = [e for e in tops[0][0].find_all(True) if isinstance(e.attrs.get('type'), str) and e.attrs['type']]
        for _ in range(3):
            if not typed:
                break
            v = rnd.choice(typed).attrs['type']
            v2 = rnd.choice([v.upper(), v.lower(), v.swapcase(), v.title(), v])
            at = (rnd.choice([None, '*', '', None]), rnd.choice(['type', 'TYPE', 'Type']), rnd.choice(['=', '=', '^=', '$=', '*=', '~=', '|=']), v2,
                  rnd.choice([None, None, 'i', 's']))
            a_ = [[{'ids': [], 'classes': [], 'attrs': [at], 'pseudos': []}]]
            sels.append((gen_selectors.show_list(a_), a_))
        for top, label in tops:
            sc = e1.Scenario(top, label)
            sc.meta = {}
            for s, a in sels:
                ops = [('select', (), 0)] + [('match', sc.path_of[id(e)]) for e in sc.elements[:20]]
                sc.add(s, ops)
                sc.meta[s] = a
            scs.append(sc)
            # HTML-only pseudo-classes never match in XML that is not XHTML
            if label == 'case/xml':
                for ps in HTML_ONLY:
                    with warnings.catch_warnings():
                        warnings.simplefilter('ignore')
                        got = sv.select(ps, top)
                    ck.count(('html_only', ps))
                    if got:
                        ck.violation(f'{ps} matched {len(got)} element(s) of a document that is XML but not XHTML',
                                     {'pattern': ps, 'markup': str(top)[:2000], 'observed': [str(e)[:80] for e in got[:5]]})
    # filter() over a list that mixes elements of documents of different kinds (parentless ones included): the case rules are
    # those of the document each element came from, whatever stands next to it in the list
    from bs4 import BeautifulSoup as _BS
    for _ in range(12 if tier == 'quick' else 200):
        hdoc = _BS('<div><p data-k="v" type="text" class="C">h</p><P2 Data-K="v">x</P2></div>', rnd.choice(['html.parser', 'lxml', 'html5lib']))
        xdoc = _BS('<?xml version="1.0"?><r><P Data-K="v" type="TEXT" class="C">x</P><p data-k="v" type="text">y</p></r>', 'xml')
        items = [hdoc.p, xdoc.find('P'), xdoc.find('p'), hdoc.find('p2')]
        if rnd.random() < 0.7:
            items = [it.extract() for it in items if it is not None]
        items = [it for it in items if it is not None]
        rnd.shuffle(items)
        for sel_ in ('p', 'P', '[data-k]', '[Data-K]', '[type=text]', '[type=TEXT]', 'p[type="text" s]', '.C', '.c', 'p2', ':not(p)'):
            try:
                c_ = sv.compile(sel_)
                want = [id(x) for x in items if c_.match(x)]
                got = [id(x) for x in c_.filter(items)]
                got_r = [id(x) for x in c_.filter(list(reversed(items)))][::-1]
                got_g = [id(x) for x in c_.filter(x for x in items)]
            except Exception as ex:
                ck.violation(f'filter({sel_!r}, [elements of an HTML and an XML document]) raised {type(ex).__name__}', {'pattern': sel_})
                continue
            ck.count(('mixed-filter', sel_, len(want)))
            if not (want == got == got_r == got_g):
                ck.violation(f'filter({sel_!r}) over a list mixing elements of an HTML and an XML document differs from matching each element on its own',
                             {'pattern': sel_, 'items': [str(x)[:80] + (' [xml]' if x in (xdoc.find_all(True) or []) else '') for x in items],
                              'match_each': want, 'filter_list': got, 'filter_reversed': got_r, 'filter_generator': got_g})
    # XML documents (root not XHTML) that embed XHTML-namespace elements: HTML-only pseudo-classes still match nothing
    for sc in campaign.build(rnd, 'ns', n, 0):
        top = sc.top
        if not selspec.Doc(top).is_html:
            for ps in HTML_ONLY:
                with warnings.catch_warnings():
                    warnings.simplefilter('ignore')
                    got = sv.select(ps, top)
                ck.count(('html_only_ns', ps))
                if got:
                    ck.violation(f'{ps} matched {len(got)} element(s) of a document that is XML but not XHTML',
                                 {'pattern': ps, 'markup': str(top)[:2000], 'observed': [str(e)[:80] for e in got[:5]]})
    # the type attribute's case rule is decided when the pattern is compiled: validate the compiled regexes
    attrval.run(ck, rnd, 300 if tier == 'quick' else 5000)
    recs = matchcheck.run_corr(ck, scs)
    C01.oracle(ck, scs, recs)
    return ck.finish(
        level='proof',
        rule='the same logical tree (generic content + form controls with type attributes) materialised as HTML (html.parser, lxml, '
             'html5lib, bs4 API), XHTML and XML; selectors of the core grammar with random case variants of tag names, attribute '
             'names and ASCII values, i/s flags, [type=...]; plus every HTML-only pseudo-class on the XML materialisation. '
             'Implementation vs extracted Coq matcher vs reference semantics (which encodes the case rules per document type).',
        assumptions=['"regardless of case" is judged on ASCII values; non-ASCII case folding of re.I is observed, not judged'])


def replay(path):
    print(open(path).read())
    return 0
