"""C12 - namespace selectors compare namespace URIs through the supplied prefix map."""
import bs4
import lib, campaign, matchcheck
from lib import Check
from props import C01
from oracles import selspec

PID = 'C12'


def run(tier, seed):
    ck = Check(PID, tier, seed)
    ck.proof = lib.proof_step('props/C12.v', matchcheck.MATCH_CONE + ['NsFacts.v'])
    ck.broken += ck.proof['broken']
    if not ck.proof['driver_ok']:
        ck.notes['driver'] = 'unavailable: model-side runs skipped, searching with the implementation-side oracles only'
    n = 200 if tier == 'quick' else 4000
    scs = campaign.build(ck.rnd, 'ns', n, 8, depth=1, all_match=True, directed=3)
    scs += campaign.build(ck.rnd, 'ns', n // 4, 4, depth=2, all_match=True)
    # HTML-only pseudo-classes next to namespaced selectors: in XML that is not XHTML they match nothing, so
    # `<state>, S` designates what S does and `S:not(<state>)` too (oracle: reference semantics of S alone)
    import gen_selectors, e1
    from props.C11 import HTML_ONLY
    rnd = ck.rnd
    scs2 = campaign.build(rnd, 'ns', n // 2, 0, depth=1)
    for sc in scs2:
        if not selspec.Doc(sc.top).is_html:
            pools = gen_selectors.pools_from_soup(sc.top)
            pools.pop('texts', None)
            nsmap = rnd.choice(campaign.NSMAPS)
            ag = gen_selectors.AGen(rnd, prefixes=[k for k in (nsmap or {}) if k] or ['a'], feats=('core', 'ns'), **pools)
            for _ in range(6):
                s, a = ag.selector(1)
                st = rnd.choice(HTML_ONLY)
                if rnd.random() < 0.5:
                    pat = f'{st}, {s}' if rnd.random() < 0.7 else f'{s}, {st}'
                    sc.meta[pat] = a
                else:
                    last = a[-1]
                    pat = f'{gen_selectors.show_list(a)}:not({st})'
                    sc.meta[pat] = a
                ops = [('select', (), 0)] + [('match', sc.path_of[id(e)]) for e in sc.elements[:20]]
                sc.add(pat, ops, namespaces=nsmap)
    scs += [sc for sc in scs2 if sc.items]
    # a custom pseudo-class is an alias: `X:--c` with custom {':--c': BODY} designates what `X:is(BODY)` does, under every
    # namespace map (a body without a type selector must not acquire the caller's default namespace)
    import warnings, soupsieve as sv
    for sc in campaign.build(rnd, 'ns', n // 3, 0, depth=1):
        top = sc.top
        pools = gen_selectors.pools_from_soup(top)
        used = sorted({e.namespace for e in top.find_all(True) if getattr(e, 'namespace', None)})
        maps = [None, {}, rnd.choice(campaign.NSMAPS)]
        if used:
            maps += [{'': rnd.choice(used)}, {'': rnd.choice(used), 'q': rnd.choice(used)}, {'': 'urn:nowhere', 'q': rnd.choice(used)}]
        for _ in range(4):
            nsmap = rnd.choice(maps)
            prefixes = [k for k in (nsmap or {}) if k]
            body = rnd.choice(['.' + sv.escape(rnd.choice(pools['classes'])), '[' + sv.escape(rnd.choice(pools['attrs'])) + ']', ':first-child',
                               ':not(' + sv.escape(rnd.choice(pools['names'])) + ')', '*', sv.escape(rnd.choice(pools['names'])),
                               ':empty, [' + sv.escape(rnd.choice(pools['attrs'])) + ']', ':nth-child(odd)', ':root'])
            X = rnd.choice(['', '*|*', '*', sv.escape(rnd.choice(pools['names']))] + [pf + '|*' for pf in prefixes])
            with warnings.catch_warnings():
                warnings.simplefilter('ignore')
                try:
                    a_ = sv.select(f'{X}:--c', top, namespaces=nsmap, custom={':--c': body})
                    b_ = sv.select(f'{X}:is({body})', top, namespaces=nsmap)
                    c_ = sv.select(f'{X}:--d', top, namespaces=nsmap, custom={':--d': ':--c', ':--c': body})
                except Exception as ex:
                    ck.notes['alias_skipped'] = ck.notes.get('alias_skipped', 0) + 1
                    continue
            ck.count(('alias', nsmap is None, bool(nsmap) and '' in nsmap, len(b_) > 0))
            if [id(e) for e in a_] != [id(e) for e in b_] or [id(e) for e in c_] != [id(e) for e in b_]:
                ck.violation(f'{X}:--c with custom {{":--c": {body!r}}} selects {len(a_)} element(s) (through a second alias: {len(c_)}), '
                             f'{X}:is({body}) selects {len(b_)} (namespaces {nsmap!r})',
                             {'pattern_alias': f'{X}:--c', 'custom': {':--c': body}, 'pattern_is': f'{X}:is({body})', 'namespaces': nsmap,
                              'markup': matchcheck.markup_of(sc), 'alias_selected': matchcheck.paths_of(sc, a_),
                              'is_selected': matchcheck.paths_of(sc, b_)})
    # a default namespace constrains only unprefixed type selectors and the implied universal of a top-level compound:
    # with an explicit *| the answer does not depend on the default entry - also for pseudo-classes whose definitions are
    # internal selector lists with bare type selectors (:link, :checked, :disabled, ...)
    STATES = [':link', ':any-link', ':checked', ':disabled', ':enabled', ':required', ':optional', ':read-write', ':read-only', ':default',
              ':indeterminate', ':placeholder-shown', ':dir(ltr)', ':root', ':empty', ':first-child', ':lang(en)', ':in-range']
    hdocs = campaign.build(rnd, 'forms', n // 8, 0, modes=['html5lib', 'xhtml', 'html5lib']) + \
        [sc for sc in campaign.build(rnd, 'ns', n // 4, 0) if selspec.Doc(sc.top).is_html]
    for sc in hdocs:
        top = sc.top
        used = sorted({e.namespace for e in top.find_all(True) if getattr(e, 'namespace', None)}) or ['urn:x']
        for st in rnd.sample(STATES, 6):
            pat = rnd.choice(['*|*', '*|a', '*|input', 'q|*']) + st
            base = {'q': rnd.choice(used)}
            with warnings.catch_warnings():
                warnings.simplefilter('ignore')
                try:
                    r0 = [id(e) for e in sv.select(pat, top, namespaces=base)]
                    variants = {d: [id(e) for e in sv.select(pat, top, namespaces=dict(base, **{'': d}))]
                                for d in ('http://www.w3.org/2000/svg', 'urn:nowhere', 'http://www.w3.org/1999/xhtml')}
                except Exception:
                    continue
            ck.count(('default-irrelevant', st, len(r0) > 0))
            for d, rv in variants.items():
                if rv != r0:
                    ck.violation(f'{pat!r} selects {len(r0)} element(s) with namespaces {base!r} but {len(rv)} once a default namespace {d!r} is '
                                 'added, although every compound has an explicit prefix',
                                 {'pattern': pat, 'namespaces': base, 'default_added': d, 'markup': matchcheck.markup_of(sc), 'tree': sc.label})
                    break
    # elements without a namespace inside a namespace-aware HTML tree (added through the bs4 API): their namespace URI is
    # absent, so |E and a default '' entry designate them, ns|E with ns bound to XHTML does not
    XH = 'http://www.w3.org/1999/xhtml'
    for sc0 in campaign.build(rnd, 'ns', n // 3, 0, modes=['html5lib']):
        top = sc0.top
        hosts = [e for e in top.find_all(True) if e.name in ('body', 'div', 'p', 'span', 'section', 'ul')] or top.find_all(True)
        if not hosts or not isinstance(top, bs4.BeautifulSoup):
            continue
        added = []
        for k_ in range(rnd.randint(1, 3)):
            t_ = top.new_tag(rnd.choice(['span', 'added', 'p']), id='added%d' % k_)
            rnd.choice(hosts).append(t_)
            added.append(t_)
        if any(t_.namespace for t_ in added):
            continue
        sc = e1.Scenario(top, sc0.label + '/api-added')
        sc.meta = {}
        for pat, ast_, nsm in (('|*', [[{'type': ('', '*')}]], None), ('h|*', [[{'type': ('h', '*')}]], {'h': XH}),
                               ('*', [[{'type': (None, '*')}]], {'': XH}), ('span, added, p', [[{'type': (None, 'span')}], [{'type': (None, 'added')}], [{'type': (None, 'p')}]], {'': ''}),
                               ('|span, |added, |p', [[{'type': ('', 'span')}], [{'type': ('', 'added')}], [{'type': ('', 'p')}]], {'h': XH}),
                               ('*|*:not(h|*)', [[{'type': ('*', '*'), 'pseudos': [('not', [[{'type': ('h', '*')}]])]}]], {'h': XH})):
            ops = [('select', (), 0)] + [('match', sc.path_of[id(e)]) for e in added]
            sc.add(pat, ops, namespaces=nsm)
            sc.meta[pat] = ast_
            with warnings.catch_warnings():
                warnings.simplefilter('ignore')
                got = {id(e) for e in sv.select(pat, top, namespaces=nsm)}
            want_added = pat in ('|*', 'span, added, p', '|span, |added, |p', '*|*:not(h|*)')
            ck.count(('api-added', pat, want_added))
            bad = [t_ for t_ in added if (id(t_) in got) != want_added]
            if bad:
                ck.violation(f'{pat!r} with namespaces {nsm!r} {"does not select" if want_added else "selects"} an element that has no namespace '
                             '(added with new_tag to an html5lib tree)',
                             {'pattern': pat, 'namespaces': nsm, 'markup': matchcheck.markup_of(sc), 'added': [str(t_) for t_ in bad],
                              'element_namespace': None})
        scs.append(sc)
    # prefixes are compared exactly: a prefix that differs from a mapped one only in letter case is unmapped (matches nothing), and two
    # keys that differ only in case are two prefixes - in every kind of document
    for sc0 in campaign.build(rnd, 'ns', n // 4, 0):
        top = sc0.top
        used = sorted({e.namespace for e in top.find_all(True) if getattr(e, 'namespace', None)})
        if not used:
            continue
        u1, u2 = rnd.choice(used), rnd.choice(used + ['urn:nowhere'])
        for nsm, pat, same_as in (({'ns': u1}, 'NS|*', None), ({'ns': u1}, 'Ns|*, nS|*', None), ({'ns': u1, 'NS': u2}, 'NS|*', ('z|*', {'z': u2})),
                                  ({'ns': u1, 'NS': u2}, 'ns|*', ('z|*', {'z': u1})), ({'xl': u1}, '[XL|href], [Xl|*]' if False else '[XL|href]', None),
                                  ({'Pf': u1}, 'pf|*', None), ({'Pf': u1}, 'Pf|*', ('z|*', {'z': u1}))):
            try:
                with warnings.catch_warnings():
                    warnings.simplefilter('ignore')
                    got = [id(e) for e in sv.select(pat, top, namespaces=nsm)]
                    want = [] if same_as is None else [id(e) for e in sv.select(same_as[0], top, namespaces=same_as[1])]
            except Exception:
                ck.notes['skipped_prefix_case_raise'] = ck.notes.get('skipped_prefix_case_raise', 0) + 1
                continue
            ck.count(('prefix-case', pat, len(want) > 0))
            if got != want:
                ck.violation(f'{pat!r} with namespaces {nsm!r} selects {len(got)} element(s); prefixes are compared exactly, so it designates '
                             f'{"nothing (the prefix is not in the map)" if same_as is None else "what " + repr(same_as[0]) + " with " + repr(same_as[1]) + " does: " + str(len(want))}',
                             {'pattern': pat, 'namespaces': nsm, 'markup': matchcheck.markup_of(sc0), 'tree': sc0.label})
    # the prefix map is read when the selector is compiled: what the caller does to its own dictionary afterwards changes nothing
    for sc in campaign.build(rnd, 'ns', n // 3, 0, depth=1):
        top = sc.top
        pools = gen_selectors.pools_from_soup(top)
        pools.pop('texts', None)
        used = sorted({e.namespace for e in top.find_all(True) if getattr(e, 'namespace', None)}) or ['urn:x']
        orig = {'n': rnd.choice(used), 'k': rnd.choice(used + ['http://www.w3.org/1999/xlink', 'http://www.w3.org/XML/1998/namespace'])}
        if rnd.random() < 0.3:
            orig[''] = rnd.choice(used)
        ag = gen_selectors.AGen(rnd, prefixes=['n', 'k'], feats=('core', 'ns'), **pools)
        for _ in range(3):
            pat = rnd.choice(['n|*', 'k|*', '[k|' + sv.escape(rnd.choice(pools['attrs'])).split('|')[-1] + ']', sv.escape(rnd.choice(pools['names'])),
                              'n|' + sv.escape(rnd.choice(pools['names'])), '*', ag.selector(1)[0], ag.selector(1)[0]])
            mine = dict(orig)
            with warnings.catch_warnings():
                warnings.simplefilter('ignore')
                try:
                    c = sv.compile(pat, mine)
                    r0 = [id(e) for e in c.select(top)]
                    mine['n'] = rnd.choice(used + ['urn:nowhere'])
                    mine.pop('k', None)
                    if '' in mine:
                        del mine['']
                    else:
                        mine[''] = rnd.choice(used)
                    r1 = [id(e) for e in c.select(top)]
                    m1 = [id(e) for e in sc.elements if c.match(e)]
                    r2 = [id(e) for e in sv.select(pat, top, namespaces=dict(orig))]
                    kept = dict(c.namespaces) if c.namespaces is not None else None
                    sv.purge()
                except Exception:
                    ck.notes['skipped_mutation_raise'] = ck.notes.get('skipped_mutation_raise', 0) + 1
                    continue
            ck.count(('map-read-at-compile-time', len(r0) > 0, '|' in pat))
            if not (r0 == r1 == r2) or kept != orig or [i for i in m1 if i in set(r0)] != [i for i in r0 if i in set(m1)]:
                ck.violation(f'{pat!r} compiled with namespaces {orig!r} selects {len(r0)} element(s), but {len(r1)} after the caller changed its own '
                             f'dictionary to {mine!r} (a fresh compile with the original map: {len(r2)}; the compiled object now reports {kept!r})',
                             {'pattern': pat, 'namespaces_at_compile_time': orig, 'callers_dict_afterwards': mine,
                              'compiled_namespaces_now': kept, 'markup': matchcheck.markup_of(sc), 'tree': sc.label})
    recs = matchcheck.run_corr(ck, scs)
    C01.oracle(ck, scs, recs)
    return ck.finish(
        level='proof',
        rule='XML documents with default / prefixed / re-declared / foreign namespaces (lxml-xml), XHTML, HTML5 with inline SVG and '
             'MathML (html5lib), the same markup through html.parser and lxml (no namespace support); 13 prefix maps incl. default '
             'entries, prefixes that differ from or collide with the document\'s; selectors ns|E, *|E, |E, E, [ns|a], [*|a], [|a], [a] '
             'combined with the core grammar. Implementation vs extracted Coq matcher vs reference semantics. '
             'class = (document kind, selector features, op, outcome).',
        assumptions=['bs4view reads NamespacedAttribute.namespace/.name exactly as split_namespace does'])


def replay(path):
    print(open(path).read())
    return 0
