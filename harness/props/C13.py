"""C13 - :lang() is RFC 4647 extended filtering over the inherited language."""
import itertools, warnings
import lib, e1, campaign, matchcheck
from lib import Check, s_str
from oracles import selspec
from props import C01

PID = 'C13'
SUBTAGS = ['*', '', 'a', 'de', 'x', 'DE', '1996', 'latn']


def run(tier, seed):
    ck = Check(PID, tier, seed)
    rnd = ck.rnd
    ck.proof = lib.proof_step('props/C13.v', matchcheck.MATCH_CONE + ['LangFacts.v'] + ['LangWalk.v', 'MemoFacts.v', 'HistFacts.v'])
    ck.broken += ck.proof['broken']
    if not ck.proof['driver_ok']:
        ck.notes['driver'] = 'unavailable: model-side runs skipped, searching with the implementation-side oracles only'
    import soupsieve as sv
    from soupsieve import css_match as cm, css_types as ct
    # (1) the pure filter function: model vs implementation vs RFC 4647, over subtag sequences
    maxlen = 3 if tier == 'quick' else 4
    seqs = ['-'.join(p) for n in range(1, maxlen + 1) for p in itertools.product(SUBTAGS, repeat=n)]
    pairs = [(r, t) for r in seqs for t in seqs]
    if tier == 'quick':
        pairs = rnd.sample(pairs, 12000)
    elif len(pairs) > 400000:
        pairs = rnd.sample(pairs, 400000)
    drv = lib.Driver()
    outs = drv.run([f'(langfilter {s_str(r)} {s_str(t)})' for r, t in pairs])
    m = cm.CSSMatch(ct.SelectorList(), __import__('bs4').BeautifulSoup('<p></p>', 'html.parser').p, None, 0)
    for (r, t), mo in zip(pairs, outs):
        real = 'true' if m.extended_language_filter(r, t) else 'false'
        sp = selspec.rfc4647_extended(r, t)
        ck.count(('filter', real, r.count('-'), t.count('-'), '*' in r, r == '', t == ''))
        if real != mo:
            ck.broken.append(f'correspondence extended_language_filter({r!r},{t!r}): implementation {real} model {mo}')
        if sp is not None and (real == 'true') != sp:
            ck.violation(f'language range {r!r} vs tag {t!r}: implementation {real}, RFC 4647 extended filtering says {sp}',
                         {'call': 'CSSMatch.extended_language_filter', 'range': r, 'tag': t, 'observed': real, 'expected': sp,
                          'replay': f'soupsieve.select(\':lang("{r}")\', BeautifulSoup(\'<p lang="{t}">x</p>\', "html.parser"))'})
    ck.sample({'range': pairs[0][0], 'tag': pairs[0][1], 'model': outs[0]})
    # (2) :lang() on trees: language determination + filtering, through the API
    n = 220 if tier == 'quick' else 3000
    scs = campaign.build(rnd, 'langdir', n, 8, depth=1, all_match=True)
    scs += campaign.build(rnd, 'ns', n // 3, 6, feats=('core', 'lang', 'ns'), depth=1, all_match=True)
    recs = matchcheck.run_corr(ck, scs)
    C01.oracle(ck, scs, recs)
    ck.broken = ck.broken[:10]
    return ck.finish(
        level='proof',
        rule='(1) extended_language_filter on all (range, tag) pairs over subtags {*, "", a, de, x, DE, 1996, latn} up to length '
             f'{maxlen} (sampled in the quick tier); (2) documents with lang / xml:lang at every depth, "" values, <meta '
             'http-equiv=content-language> present/absent/duplicated, iframes, HTML parsers + XHTML + XML + HTML5 foreign '
             'content; :lang() with 1-3 ranges. class = (function, outcome, shape).',
        assumptions=['str.lower() is modelled as ASCII lower-casing (language tags are ASCII)',
                     'the <meta> fallback is not judged inside nested iframe documents nor in XML documents (property text is silent)'])


def replay(path):
    print(open(path).read())
    return 0
