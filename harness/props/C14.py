"""C14 - concurrent compilation and matching behave as if run one at a time."""
import os, threading, warnings
import lib, sched
from lib import Check

PID = 'C14'
CONE = ['Threads.v', 'gen/ThreadGen.v']


def run(tier, seed):
    ck = Check(PID, tier, seed)
    rnd = ck.rnd
    ck.proof = lib.proof_step('props/C14.v', CONE)
    ck.broken += ck.proof['broken']
    findings = (ck.proof.get('regen', {}).get('ThreadGen') or {}).get('findings')
    ck.notes['shared_write_summary'] = findings
    import soupsieve as sv
    from soupsieve import css_parser as cp
    from bs4 import BeautifulSoup
    pkg = os.path.dirname(sv.__file__)
    warnings.simplefilter('ignore')
    soup = BeautifulSoup('<html><body><ul><li class="a">1</li><li>2</li><li class="a">3</li></ul><p lang="en">hello</p>'
                         '<form><input type="radio" name="g"><input type="submit"></form></body></html>', 'html.parser')
    other = BeautifulSoup('<div><p>x</p><p class="a">y</p><span>z</span></div>', 'html.parser')
    detached1 = BeautifulSoup('<li>1</li>', 'html.parser').li.extract()
    detached2 = BeautifulSoup('<dd>2</dd>', 'html.parser').dd.extract()
    cust = {':--h': 'li:nth-child(2), p', ':--k': ':--h:not(.a)'}

    def ir(c):
        return repr(c.selectors)

    def ids(l):
        return [str(e)[:40] for e in l]
    # (name, factory of a zero-argument operation returning a canonical value)
    OPS = [
        ('compile nth', lambda: ir(sv.compile('li:nth-child(2n+1 of .a)'))),
        ('compile contains', lambda: ir(sv.compile('p:-soup-contains("hello", x)'))),
        ('compile lang', lambda: ir(sv.compile(':lang(en, "de-*")'))),
        ('compile dir', lambda: ir(sv.compile('p:dir(ltr) > :nth-last-of-type(2)'))),
        ('compile plain', lambda: ir(sv.compile('ul > li.a + li, p[lang|=en]'))),
        ('compile custom', lambda: ir(sv.compile('ul :--k, :--h', custom=cust))),
        ('compile custom2', lambda: ir(sv.compile(':--h > b', custom=dict(cust)))),
        ('select nth', lambda: ids(sv.select('li:nth-child(odd)', soup))),
        ('select state', lambda: ids(sv.select(':default, :indeterminate, :lang(en)', soup))),
        ('select other doc', lambda: ids(sv.select('p:last-of-type, :root', other))),
        ('match detached 1', lambda: [sv.match(':nth-child(1)', detached1), sv.match(':only-child', detached1), sv.match(':first-of-type:last-of-type', detached1)]),
        ('match detached 2', lambda: [sv.match(':nth-child(1)', detached2), sv.match('dd:only-of-type', detached2)]),
        ('closest/filter', lambda: [str(sv.closest('ul', soup.li))[:20], ids(sv.filter('.a', soup.ul))]),
        ('escape+compile', lambda: ir(sv.compile('#' + sv.escape('1a b')))),
        # the same pattern with different namespace maps / custom maps in different threads
        ('compile ns-a', lambda: [ir(c_ := sv.compile('p|i, [p|k]', namespaces={'p': 'urn:a'})), dict(c_.namespaces)]),
        ('compile ns-b', lambda: [ir(c_ := sv.compile('p|i, [p|k]', namespaces={'p': 'urn:b'})), dict(c_.namespaces)]),
        ('select ns-a', lambda: ids(sv.select('p|i', xdoc, namespaces={'p': 'urn:a'}))),
        ('select ns-b', lambda: ids(sv.select('p|i', xdoc, namespaces={'p': 'urn:b'}))),
        ('select ns-default', lambda: ids(sv.select('i', xdoc, namespaces={'': 'urn:b', 'q': 'urn:a'}))),
        # deep nesting in both threads at once (anything that counts or stacks per process rather than per call)
        ('compile nested-a', lambda: ir(sv.compile(':is(' * 150 + 'a' + ')' * 150))[-60:]),
        ('compile nested-b', lambda: ir(sv.compile(':not(' * 130 + 'b' + ')' * 130))[-60:]),
        ('compile custom-x', lambda: ir(sv.compile(':--t', custom={':--t': ':--h.t', ':--h': 'h1'}))),
        ('compile custom-y', lambda: ir(sv.compile(':--t', custom={':--t': ':--h.t', ':--h': 'h2, h3'}))),
    ]
    # compiling something invalid: every thread gets the error itself, nobody a half-made or absent result

    def invalid(pat):
        def f():
            try:
                r = sv.compile(pat)
                return 'returned ' + type(r).__name__
            except sv.SelectorSyntaxError:
                return 'SelectorSyntaxError'
        return f
    OPS.append(('compile invalid-1', invalid('div > > p[')))
    OPS.append(('compile invalid-2', invalid('div > > p[')))
    OPS.append(('compile invalid-3', invalid(':nth-child(2n+ ) , :is(a, b) x |')))
    # nesting beyond what the interpreter's recursion limit allows: whatever a call does about it, it does the same alone and next to
    # another such call, and it leaves the process-wide limit as it found it

    def deep(pat):
        def f():
            import sys as _s
            lim0 = _s.getrecursionlimit()
            try:
                r = sv.compile(pat)
                out = 'compiled ' + str(len(repr(r.selectors)) > 0)
            except RecursionError:
                out = 'RecursionError'
            except sv.SelectorSyntaxError:
                out = 'SelectorSyntaxError'
            return [out, _s.getrecursionlimit() == lim0]
        return f
    OPS.append(('compile deep-a', deep(':is(' * 420 + 'a' + ')' * 420)))
    OPS.append(('compile deep-b', deep(':not(' * 460 + 'b' + ')' * 460)))
    # an operation that pushes many names nobody has seen before through every shared helper: whatever bounded memo
    # a helper keeps is driven over its bound while the other thread is suspended inside that helper
    fresh_counter = [0]

    def many_names():
        fresh_counter[0] += 1
        k0 = fresh_counter[0] * 1000
        pat = ', '.join((f'Tag{k0 + j}' if j % 25 else f'Tag{k0 + j}.C{k0 + j}[Attr{k0 + j}=V{k0 + j}]') for j in range(200))
        # 600 new custom names (each is lower-cased when the map is processed) and 200 new tag / 8 new attribute names
        cm = {f':--New{k0 + j}': 'p' for j in range(600)}
        return len(sv.compile(pat, custom=cm).selectors)
    OPS.append(('flood of new names', many_names))
    xdoc = BeautifulSoup('<?xml version="1.0"?><r xmlns:a="urn:a" xmlns:b="urn:b"><a:i id="1"/><b:i id="2"/><a:i id="3"/><i/></r>', 'xml')
    serial = {}
    for name, op in OPS:
        sv.purge()
        serial[name] = op()
    pairs = [(a, b) for a in OPS for b in OPS]
    if tier == 'quick':
        pairs = [(a, b) for a, b in pairs if a[0].startswith('compile') or a[0].startswith('match')]
        forced = [(a, b) for a, b in pairs if a is not b and (('ns-' in a[0] and 'ns-' in b[0]) or ('custom-' in a[0] and 'custom-' in b[0]) or ('nested-' in a[0] and 'nested-' in b[0])
                                                               or ('invalid-' in a[0] and 'invalid-' in b[0])
                                                               or ('detached' in a[0] and 'detached' in b[0])
                                                               or ('deep-' in a[0] and 'deep-' in b[0]))]
        must = [pq for pq in forced if 'detached' in pq[0][0] or 'deep-' in pq[0][0]]
        pairs = rnd.sample([pq for pq in pairs if pq[1][0] != 'flood of new names' and pq[0][0] != 'flood of new names'], 30) + \
            rnd.sample(forced, min(14, len(forced))) + must
        flood = next(o for o in OPS if o[0] == 'flood of new names')
        exhaustive = [(a, flood) for a in OPS if a[0] in ('select nth', 'compile plain', 'match detached 1')]
        pairs += exhaustive
    else:
        # every pair of operations would take many hours at 100+ preemption points each: all pairs that share state by
        # construction plus a large sample of the rest
        special = [(a, b) for a, b in pairs if a is not b and any(t in a[0] and t in b[0] for t in ('ns-', 'custom-', 'nested-', 'invalid-', 'detached', 'deep-'))]
        flood = next(o for o in OPS if o[0] == 'flood of new names')
        pairs = special + [(a, flood) for a in OPS if a is not flood][:12] + rnd.sample(pairs, 160)
    nk = 25 if tier == 'quick' else 80
    total = 0
    for (na, opa), (nb, opb) in pairs:
        # number of line events of A alone
        sv.purge()
        _, _, _, n_lines = sched.run_pair(opa, lambda: None, 10 ** 9, pkg)
        ks = sorted(set(rnd.sample(range(1, n_lines + 1), min(nk, n_lines)))) if n_lines else []
        if nb == 'flood of new names':
            ks = list(range(1, n_lines + 1))          # every preemption point of A
            if tier == 'quick' and len(ks) > 120:
                ks = sorted(rnd.sample(ks, 120))
        n_blocked = 0
        for k in ks:
            if n_blocked >= 2:
                ck.notes['pairs_cut_short_because_B_waits_for_A'] = ck.notes.get('pairs_cut_short_because_B_waits_for_A', 0) + 1
                break
            sv.purge()
            ra, rb, reached, _ = sched.run_pair(opa, opb, k, pkg)
            n_blocked += 1 if sched.LAST.get('blocked') else 0
            total += 1
            ck.count(('pair', na.split()[0], nb.split()[0], reached))
            for who, name, r in (('A', na, ra), ('B', nb, rb)):
                if r is None or r[0] != 'ok' or r[1] != serial[name]:
                    ck.violation(f'schedule: "{na}" suspended before its line {k}, "{nb}" run to completion, then resumed: '
                                 f'thread {who} ({name}) {"raised " + r[1] if r and r[0] == "exc" else "returned a different result"}',
                                 {'thread_A': na, 'thread_B': nb, 'suspend_before_line_event': k, 'failing_thread': who,
                                  'observed': repr(r)[:400], 'alone': repr(serial[name])[:400],
                                  'replay': 'harness/sched.py run_pair(opA, opB, k, soupsieve package dir) with the operations of harness/props/C14.py'})
            # nothing wrong left in the cache
            for name, op in ((na, opa), (nb, opb)):
                try:
                    v = op()
                except Exception as ex:
                    v = ('exc', type(ex).__name__)
                if v != serial[name]:
                    ck.violation(f'after the schedule ({na} | {nb}, k={k}) "{name}" no longer gives its serial result (cache poisoned)',
                                 {'thread_A': na, 'thread_B': nb, 'suspend_before_line_event': k, 'observed': repr(v)[:300],
                                  'alone': repr(serial[name])[:300]})
            if len(ck.violations) >= 5:
                break
        if len(ck.violations) >= 5:
            break
    ck.sample({'pairs': len(pairs), 'schedules': total, 'example': [pairs[0][0][0], pairs[0][1][0]]})
    # free-running stress as supporting exploration
    errs = []
    sw = __import__('sys').getswitchinterval()
    __import__('sys').setswitchinterval(1e-6)

    def worker(i):
        r = __import__('random').Random(i)
        for _ in range(150 if tier == 'quick' else 3000):
            name, op = r.choice(OPS)
            if r.random() < 0.3:
                sv.purge()
            try:
                v = op()
                if v != serial[name]:
                    errs.append((name, 'different result'))
            except Exception as ex:
                errs.append((name, type(ex).__name__))
    ths = [threading.Thread(target=worker, args=(i,)) for i in range(8)]
    [t.start() for t in ths]
    [t.join() for t in ths]
    __import__('sys').setswitchinterval(sw)
    ck.count(('stress', len(errs) == 0), n=8 * (150 if tier == 'quick' else 3000))
    if errs:
        ck.violation(f'free-running 8 threads: {len(errs)} calls misbehaved, e.g. {errs[0]}', {'errors': errs[:10]})
    sv.purge()
    return ck.finish(
        level='proof',
        rule='two-thread schedules forced on the real code by sys.settrace: thread A is suspended before its k-th source line '
             'inside the soupsieve package, thread B runs a whole operation, A resumes; operations: compile of uncached patterns '
             '(every special pseudo-class token, custom tables), select/match/filter/closest on shared and distinct documents and on '
             'parent-less elements; k sampled over all line events (thorough: 400 per pair, all 196 pairs); both results must equal the '
             'serial results and the cache must still give serial results afterwards; plus an 8-thread free-running stress. '
             'class = (A kind, B kind, reached).',
        assumptions=['CPython executes lru_cache lookups/inserts and dict/list primitives atomically; re, bs4, unicodedata are re-entrant',
                     'T6 is a conservative static summary (an unknown store target counts as shared); preemption is modelled at source-line granularity'])


def replay(path):
    print(open(path).read())
    return 0
