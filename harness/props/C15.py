"""C15 - compiled selectors are immutable values; the pattern cache is transparent."""
import copy, pickle, warnings
import lib, campaign, gen_selectors, gen_trees
from lib import Check

PID = 'C15'
CONE = ['Cache.v', 'CacheFacts.v', 'ApiFacts.v', 'gen/ApiGen.v', 'gen/ConstGen.v']


def walk_ir(obj, seen=None):
    """every node of a compiled structure"""
    from soupsieve import css_types as ct
    seen = seen if seen is not None else []
    if isinstance(obj, (ct.Immutable, ct.ImmutableDict)):
        seen.append(obj)
        if isinstance(obj, ct.Immutable):
            for s in obj.__slots__:
                if s != '_hash':
                    walk_ir(getattr(obj, s), seen)
    elif isinstance(obj, (tuple, list)):
        for x in obj:
            walk_ir(x, seen)
    return seen


def run(tier, seed):
    ck = Check(PID, tier, seed)
    rnd = ck.rnd
    ck.proof = lib.proof_step('props/C15.v', CONE)
    ck.broken += ck.proof['broken']
    if not ck.proof['driver_ok']:
        ck.notes['driver'] = 'unavailable: model-side runs skipped, searching with the implementation-side oracles only'
    import soupsieve as sv
    from soupsieve import css_parser as cp, css_types as ct
    from bs4 import BeautifulSoup
    maxc = cp._MAXCACHE
    sg = gen_selectors.SGen(rnd, feats=('core', 'state', 'lang', 'dir', 'contains', 'misc'))
    soup = BeautifulSoup('<html><body><div class="x"><p id="a" title="t">hello</p><span>x</span><a href="#">l</a></div><p>2</p></body></html>', 'html.parser')
    # ---- key pool: more distinct keys than the bound, keys that differ only in map ordering / argument type
    pats = []
    while len(pats) < (maxc + 150 if tier == 'quick' else 3 * maxc):
        s = sg.selector(1)
        try:
            with warnings.catch_warnings():
                warnings.simplefilter('ignore')
                cp.CSSParser(s, custom={':--cust': 'p'}).process_selectors()
            pats.append(s)
        except Exception:
            pass
    nsvariants = [None, {}, {'a': 'urn:a', 'b': 'urn:b'}, {'b': 'urn:b', 'a': 'urn:a'}, ct.Namespaces({'a': 'urn:a', 'b': 'urn:b'}),
                  {'a': 'urn:a'}, {'': 'urn:a', 'a': 'urn:a'}]
    cvariants = [None, {':--cust': 'p'}, {':--cust': 'p', ':--d': 'div'}, {':--d': 'div', ':--cust': 'p'}, {':--cust': 'div'},
                 # the same outer definition over different inner ones (aliases that refer to aliases)
                 {':--cust': ':--in.x', ':--in': 'p'}, {':--cust': ':--in.x', ':--in': 'div, span'},
                 {':--cust': ':--in.x', ':--in': ':--deep > a', ':--deep': 'div'}]

    def keyof(p, ns, cu, fl):
        return (p, None if ns is None else frozenset(dict(ns).items()), None if cu is None else frozenset(cu.items()), fl)
    keys = []
    for p in pats:
        keys.append((p, None, {':--cust': 'p'}, 0))
    for p in pats[:60]:
        for ns in nsvariants:
            for cu in cvariants[:2] + [cvariants[rnd.randrange(len(cvariants))]]:
                if ':--' in p and cu is None:
                    cu = cvariants[1]
                keys.append((p, ns, cu, rnd.choice([0, 0, sv.DEBUG])))
    for p in pats[:40]:
        for cu in cvariants[5:]:
            keys.append((':--cust ' + p if rnd.random() < 0.5 else ':--cust', None, cu, 0))
    # patterns that the parser's input preprocessing maps to the same text are still different keys (and report their own text)
    for p1, p2 in (('p.a\x00b', 'p.a\ufffdb'), ('#x\x00', '#x\ufffd'), ('p\r\nq', 'p\nq'), ('a\x0cb', 'a\nb'), ('p .x', 'p  .x'), ('P', 'p')):
        keys.append((p1, None, None, 0))
        keys.append((p2, None, None, 0))
    # what each key must compile to: a parse from a purged state, before any history
    expected = {}
    for (p, ns, cu, fl) in keys:
        k = keyof(p, ns, cu, fl)
        if k in expected:
            continue
        sv.purge()
        with warnings.catch_warnings():
            warnings.simplefilter('ignore')
            import io, contextlib
            with contextlib.redirect_stdout(io.StringIO()):
                try:
                    expected[k] = cp.CSSParser(p, custom=cp.process_custom(ct.CustomSelectors(cu) if cu is not None else None), flags=fl).process_selectors()
                except Exception as ex:
                    expected[k] = ('exc', type(ex).__name__)
    # ---- histories of compile / purge: implementation vs the LRU model, and every result vs a fresh parse
    nhist = 6 if tier == 'quick' else 40
    for h in range(nhist):
        sv.purge()
        ops = []
        L = rnd.choice([50, 700, 1500]) if tier == 'quick' else rnd.choice([50, 700, 3000])
        hot = rnd.sample(keys, 20)
        for _ in range(L):
            r = rnd.random()
            if r < 0.01:
                ops.append(None)
            elif r < 0.5:
                ops.append(rnd.choice(hot))
            else:
                ops.append(rnd.choice(keys))
        knum = {}
        model_ops = []
        info0 = cp._cached_css_compile.cache_info()
        real = []
        held = {}
        for o in ops:
            if o is None:
                sv.purge()
                model_ops.append('p')
                real.append(2)
                held.clear()
                continue
            p, ns, cu, fl = o
            k = keyof(p, ns, cu, fl)
            knum.setdefault(k, len(knum))
            model_ops.append(str(knum[k]))
            before = cp._cached_css_compile.cache_info().hits
            with warnings.catch_warnings():
                warnings.simplefilter('ignore')
                import io, contextlib
                with contextlib.redirect_stdout(io.StringIO()):
                    c = sv.compile(p, ns, fl, custom=cu)
            hit = cp._cached_css_compile.cache_info().hits > before
            real.append(1 if hit else 0)
            ck.count(('hist', hit, ns is None, cu is None))
            # value checks
            with warnings.catch_warnings():
                warnings.simplefilter('ignore')
                with contextlib.redirect_stdout(io.StringIO()):
                    fresh = cp.CSSParser(p, custom=cp.process_custom(ct.CustomSelectors(cu) if cu is not None else None), flags=fl).process_selectors()
            if not (c.selectors == fresh and c.selectors == expected[k] and c.pattern == p and c.flags == fl and hash(c.selectors) == hash(fresh)):
                ck.violation(f'compile({p!r}) returned a structure different from a fresh parse after {len(real)} calls',
                             {'pattern': p, 'namespaces': repr(ns), 'custom': cu, 'flags': fl, 'history_length': len(real)})
            if hit and k in held and held[k] is not c:
                ck.violation('a cache hit returned a different object', {'pattern': p})
            held[k] = c
        size = cp._cached_css_compile.cache_info().currsize
        mo = lib.Driver().run([f'(lru {maxc} ({" ".join(model_ops)}))'])[0]
        if lib.is_err(mo):
            model, mo = [], [[], -1]
        else:
            model = [int(x) for x in mo[0]]
        if model != real or int(mo[1]) != size:
            i = next((i for i, (a, b) in enumerate(zip(model, real)) if a != b), None)
            ck.broken.append(f'correspondence lru_cache vs Cache.v: first difference at call {i} (model {model[i] if i is not None else None}, '
                             f'implementation {real[i] if i is not None else None}); sizes model {mo[1]} implementation {size}')
        if size > maxc:
            ck.violation(f'the cache holds {size} entries, more than its bound {maxc}', {'size': size, 'bound': maxc})
        sv.purge()
        if cp._cached_css_compile.cache_info().currsize != 0:
            ck.violation('purge() did not empty the cache', {})
    ck.sample({'history_ops': len(ops), 'distinct_keys': len(knum), 'final_size': size})
    # ---- pickles cross process boundaries: another interpreter (another string-hash seed) loads them
    import os, subprocess, sys, tempfile, base64, build
    xkeys = [k_ for k_ in keys if k_[1] is not None or k_[2] is not None][:25] + keys[:15]
    blob = []
    for (p, ns, cu, fl) in xkeys:
        with warnings.catch_warnings():
            warnings.simplefilter('ignore')
            import io, contextlib
            with contextlib.redirect_stdout(io.StringIO()):
                c = sv.compile(p, ns, fl, custom=cu)
        blob.append((p, None if ns is None else dict(ns), cu, fl, base64.b64encode(pickle.dumps(c)).decode()))
    child = r'''
import sys, json, pickle, base64, io, contextlib, warnings
import soupsieve as sv
warnings.simplefilter('ignore')
out = []
for p, ns, cu, fl, b in json.load(open(sys.argv[1])):
    try:
        with contextlib.redirect_stdout(io.StringIO()):
            a = pickle.loads(base64.b64decode(b))
            f = sv.compile(p, ns, fl, custom=cu)
        out.append([a == f, hash(a) == hash(f), a in {f}, f in {a}, repr(a.selectors) == repr(f.selectors)])
    except Exception as ex:
        out.append(['EXC ' + type(ex).__name__])
print(json.dumps(out))
'''
    tmpd = tempfile.mkdtemp(prefix='c15_')
    json_path, child_path = os.path.join(tmpd, 'blob.json'), os.path.join(tmpd, 'child.py')
    __import__('json').dump(blob, open(json_path, 'w'))
    open(child_path, 'w').write(child)
    for hs in ('1', '12345'):
        env = build.env()
        env['PYTHONPATH'] = build.REPO
        env['PYTHONHASHSEED'] = hs
        r = subprocess.run([build.PY, child_path, json_path], env=env, capture_output=True, text=True, timeout=300)
        try:
            res = __import__('json').loads(r.stdout.strip().splitlines()[-1])
        except Exception:
            ck.violation('loading pickled selectors in another interpreter failed', {'stderr': r.stderr[-500:]})
            continue
        for (p, ns, cu, fl, _), o in zip(blob, res):
            ck.count(('xprocess', ns is None, cu is None, str(o[0])[:3]))
            if o != [True, True, True, True, True]:
                ck.violation(f'a selector pickled in one interpreter and loaded in another (PYTHONHASHSEED={hs}) is not interchangeable with a '
                             f'fresh compile of the same arguments: equal={o[0]}, hash equal={o[1:2]}, set lookups={o[2:4]}',
                             {'pattern': p, 'namespaces': ns, 'custom': cu, 'flags': fl, 'observed': o,
                              'replay': 'pickle.dumps(compile(...)) in one process; in another process with a different PYTHONHASHSEED '
                                        'compare pickle.loads(...) with compile(...) of the same arguments: ==, hash(), set membership'})
                break
    import shutil
    shutil.rmtree(tmpd, ignore_errors=True)
    # ---- values: equality / hash / pickle / copy / immutability
    sv.purge()
    sample = rnd.sample(keys, 150 if tier == 'quick' else 1500)
    comp = []
    for (p, ns, cu, fl) in sample:
        with warnings.catch_warnings():
            warnings.simplefilter('ignore')
            with contextlib.redirect_stdout(io.StringIO()):
                comp.append((keyof(p, ns, cu, fl), sv.compile(p, ns, fl, custom=cu), (p, ns, cu, fl)))
    for i in range(len(comp)):
        ka, a, ra = comp[i]
        for j in rnd.sample(range(len(comp)), 12):
            kb, b, rb = comp[j]
            ck.count(('eq', ka == kb))
            if (a == b) != (ka == kb) or (a != b) == (ka == kb):
                ck.violation(f'compiled selectors compare {"equal" if a == b else "unequal"} but their (pattern, namespaces, custom, flags) are '
                             f'{"equal" if ka == kb else "different"}', {'a': repr(ra), 'b': repr(rb)})
            if a == b and hash(a) != hash(b):
                ck.violation('equal compiled selectors have different hashes', {'a': repr(ra), 'b': repr(rb)})
        # same key spelled with another map ordering / argument type
        p, ns, cu, fl = ra
        if ns is not None and len(dict(ns)) > 1:
            ns2 = dict(reversed(list(dict(ns).items())))
            with warnings.catch_warnings():
                warnings.simplefilter('ignore')
                with contextlib.redirect_stdout(io.StringIO()):
                    a_now = sv.compile(p, ns, fl, custom=cu)      # the object the cache holds NOW (the sampled one may have been evicted)
                    b = sv.compile(p, ns2, fl, custom=cu)
                    b2 = sv.compile(p, ct.Namespaces(ns2), fl, custom=cu)
            ck.count(('reorder',))
            if not (a == b and hash(a) == hash(b) and a == b2 and hash(a) == hash(b2) and hash(a.namespaces) == hash(b.namespaces)):
                ck.violation('the same namespaces in another order (or as a Namespaces object) give an unequal object or another hash',
                             {'pattern': p, 'namespaces': repr(ns), 'reordered': repr(ns2),
                              'equal': a == b, 'hash_equal': hash(a) == hash(b)})
            if b is not a_now or b2 is not a_now:
                ck.violation('the same key in another map ordering missed the cache', {'pattern': p, 'namespaces': repr(ns)})
        # the caller's maps are copied
        if ns is not None and isinstance(ns, dict) and cu is not None:
            ns3, cu3 = dict(ns), dict(cu)
            with warnings.catch_warnings():
                warnings.simplefilter('ignore')
                with contextlib.redirect_stdout(io.StringIO()):
                    c3 = sv.compile(p + ' ', ns3, fl, custom=cu3)
            if c3.namespaces is None or c3.custom is None:
                ck.violation('compile() with namespaces and custom maps returned an object without them', {'pattern': p, 'namespaces': repr(ns), 'custom': cu})
                continue
            h3, n3 = hash(c3), dict(c3.namespaces)
            ns3['zz'] = 'urn:zz'
            cu3[':--zz'] = 'b'
            if dict(c3.namespaces) != n3 or hash(c3) != h3 or ':--zz' in c3.custom:
                ck.violation('mutating the dict passed to compile() changed the compiled selector', {'pattern': p})
        for name, f in (('pickle', lambda x: pickle.loads(pickle.dumps(x))), ('copy', copy.copy), ('deepcopy', copy.deepcopy)):
            try:
                b = f(a)
            except Exception as ex:
                ck.violation(f'{name} of a compiled selector raised {type(ex).__name__}', {'key': repr(ra)})
                continue
            ck.count((name,))
            with warnings.catch_warnings():
                warnings.simplefilter('ignore')
                same = [id(e) for e in b.select(soup)] == [id(e) for e in a.select(soup)]
            if not (a == b and hash(a) == hash(b) and same):
                ck.violation(f'{name} of a compiled selector is not an equal object selecting the same elements', {'key': repr(ra)})
        if i < 40:
            for node in walk_ir(a):
                try:
                    hash(node)
                except Exception as ex:
                    ck.violation(f'{type(node).__name__} is not hashable', {'key': repr(ra)})
                if isinstance(node, ct.Immutable):
                    for s in node.__slots__:
                        for act, f in (('setattr', lambda: setattr(node, s, None)), ('delattr', lambda: delattr(node, s))):
                            try:
                                f()
                                ck.violation(f'{act} {type(node).__name__}.{s} succeeded on a compiled selector', {'key': repr(ra)})
                            except AttributeError:
                                ck.count(('immutable', act))
                            except Exception as ex:
                                ck.violation(f'{act} {type(node).__name__}.{s} raised {type(ex).__name__}', {'key': repr(ra)})
                else:
                    for act, f in (('setitem', lambda: node.__setitem__('k', 'v')), ('delitem', lambda: node.__delitem__('k'))):
                        try:
                            f()
                            ck.violation(f'{act} on {type(node).__name__} succeeded', {'key': repr(ra)})
                        except (TypeError, AttributeError):
                            ck.count(('immutable', act))
    # ---- compile(compiled)
    c = sv.compile('p.x')
    if sv.compile(c) is not c:
        ck.violation('compile(compiled) did not return the same object', {})
    for kw in ({'flags': 1}, {'namespaces': {}}, {'custom': {}}, {'namespaces': {'a': 'b'}}):
        try:
            sv.compile(c, **kw)
            ck.violation(f'compile(compiled, {kw}) did not raise ValueError', {'kwargs': repr(kw)})
        except ValueError:
            ck.count(('passthrough', tuple(kw)))
    # the key is the CONTENT of the maps at the time of the call: the same dict object, edited in place between two calls
    sv.purge()
    for kind in ('namespaces', 'custom'):
        for steps in (1, 2, 3):
            d = {'x': 'urn:a'} if kind == 'namespaces' else {':--k': 'p.a'}
            pat = 'x|p, [x|t]' if kind == 'namespaces' else 'div :--k'
            seen = []
            for i in range(steps + 1):
                c_ = sv.compile(pat, namespaces=d) if kind == 'namespaces' else sv.compile(pat, custom=d)
                have = dict(c_.namespaces) if kind == 'namespaces' else dict(c_.custom)
                fresh_ = cp.CSSParser(pat, custom=cp.process_custom(ct.CustomSelectors(d) if kind == 'custom' else None)).process_selectors()
                ok = have == d and (kind == 'namespaces' or c_.selectors == fresh_)
                ck.count(('same-dict-edited', kind, i))
                if not ok:
                    ck.violation(f'compile({pat!r}, {kind}=d) after d was edited in place returns a selector built from the earlier contents '
                                 f'({have!r} instead of {d!r})', {'pattern': pat, 'kind': kind, 'dict_now': dict(d), 'compiled_reports': have,
                                                                   'history': seen + [dict(d)]})
                    break
                seen.append(dict(d))
                if kind == 'namespaces':
                    d['x'] = 'urn:b%d' % i
                    if i == 1:
                        d['y'] = 'urn:y'
                else:
                    d[':--k'] = 'span.b%d' % i
    sv.purge()
    for p1, p2 in (('p.a\x00b', 'p.a\ufffdb'), ('#x\x00', '#x\ufffd'), ('p\r\nq', 'p\nq'), ('a\x0cb', 'a\nb'), ('p .x', 'p  .x'), ('P', 'p')):
        sv.purge()
        a_, b_ = sv.compile(p1), sv.compile(p2)
        fa_ = cp.CSSParser(p1).process_selectors()
        ck.count(('preprocessing-twins', p1))
        if a_.pattern != p1 or b_.pattern != p2 or a_ is b_ or a_ == b_ or a_.selectors != fa_ or sv.compile(p1) is not a_:
            ck.violation(f'compile({p1!r}) and compile({p2!r}) are different keys: each must report its own pattern text, be a distinct, '
                         'unequal object and equal a fresh parse of its own arguments',
                         {'pattern_1': p1, 'pattern_2': p2, 'reported_1': a_.pattern, 'reported_2': b_.pattern, 'same_object': a_ is b_,
                          'equal': a_ == b_})
    sv.purge()
    # ... also when the extra argument only restates what the selector was compiled with
    for ns_, cu_, fl_ in (({'a': 'urn:a'}, None, 0), (None, {':--x': 'p'}, 0), ({'': 'urn:d', 'b': 'urn:b'}, {':--x': 'p', ':--y': 'div'}, 0),
                          (None, None, sv.DEBUG), ({}, {}, 0), ({'a': 'urn:a'}, {':--x': 'p'}, sv.DEBUG)):
        import io, contextlib
        with contextlib.redirect_stdout(io.StringIO()):
            c2 = sv.compile('p.x, a|b' if ns_ and 'a' in ns_ else 'p.x', ns_, fl_, custom=cu_)
        if sv.compile(c2) is not c2:
            ck.violation('compile(compiled) did not return the same object', {'namespaces': ns_, 'custom': cu_, 'flags': fl_})
        for kw in ({'namespaces': ns_}, {'namespaces': c2.namespaces}, {'custom': cu_}, {'custom': c2.custom}, {'flags': fl_},
                   {'namespaces': ns_, 'custom': cu_, 'flags': fl_}):
            kw = {k: v for k, v in kw.items() if v is not None and not (k == 'flags' and v == 0)}
            if not kw:
                continue
            try:
                sv.compile(c2, **kw)
                ck.violation(f'compile(compiled, {kw!r}) did not raise ValueError although extra arguments were given (they restate the '
                             'selector\'s own settings)', {'compiled_with': {'namespaces': ns_, 'custom': cu_, 'flags': fl_}, 'kwargs': repr(kw)})
            except ValueError:
                ck.count(('passthrough-restated', tuple(sorted(kw))))
    sv.purge()
    return ck.finish(
        level='proof',
        rule=f'histories of 50-3000 compile/purge calls over {len(keys)} keys (> bound {maxc}; keys that differ only in map ordering, '
             'dict vs Namespaces argument, flags 0/DEBUG, custom maps): hit/miss sequence and final size compared with the Coq LRU '
             'model, every returned structure with a fresh parse, identity on hits; pairs of compiled selectors for ==/hash vs key '
             'equality; pickle/copy/deepcopy round trips; setattr/delattr/item assignment on every node; compile(compiled).',
        assumptions=['functools.lru_cache behaves as Cache.v (checked by the hit/miss correspondence)',
                     'CSSParser(...).process_selectors() called directly is the "fresh parse"'])


def replay(path):
    print(open(path).read())
    return 0
