"""C16 - importing works in either order and Beautiful Soup can always select."""
import itertools, json, os, subprocess, sys, tempfile
import lib, build
from lib import Check

PID = 'C16'
CONE = ['Imports.v', 'ImportFacts.v', 'gen/ImportGen.v']
FORMS = ['import bs4', 'from bs4 import BeautifulSoup', 'import soupsieve', 'import soupsieve.css_match',
         'import soupsieve.css_parser', 'import soupsieve.css_types', 'import soupsieve.util', 'import soupsieve.pretty',
         'from soupsieve import select, SoupSieve', 'import bs4.element', 'import bs4.css',
         'from soupsieve import *', 'from bs4 import *', 'import soupsieve as sv, bs4.css as bc', 'from soupsieve import __meta__, util, css_types',
         'import importlib; importlib.import_module("soupsieve"); importlib.reload(importlib.import_module("soupsieve"))']

BATTERY = [
    ('<html><body><p id="a">x<!-- c --></p><p><!-- only comment --></p><div class="x y"><b>b</b></div></body></html>', 'html.parser',
     ['p:empty', 'p', 'div.x > b', ':root', 'p:-soup-contains("c")', 'p:-soup-contains(x)', 'p:nth-child(2)', ':has(> b)', '[class~=y]']),
    ('<!DOCTYPE html><html lang="en"><head><meta http-equiv="content-language" content="fr"></head><body><input type="radio" name="g">'
     '<input type="checkbox" checked><form><input type="submit"></form><p dir="rtl">x</p></body></html>', 'html.parser',
     [':root', ':lang(en)', ':checked', ':default', ':indeterminate', ':dir(rtl)', ':enabled', 'input:not(:checked)']),
    ('<html><body><svg xmlns:xlink="http://www.w3.org/1999/xlink"><a xlink:href="#x" href="y">l</a></svg><p>t</p></body></html>', 'html5lib',
     ['[xlink|href]', '[*|href]', 'svg|a', 'p', '[href]', ':link']),
    ('<?xml version="1.0"?><r xmlns:a="urn:a" xmlns:xlink="http://www.w3.org/1999/xlink"><a:i xlink:href="#1" xml:lang="de"/><i>'
     '<![CDATA[cd]]></i><?pi x?><i/></r>', 'xml',
     ['a|i', '[xlink|href]', '[*|href]', 'i:empty', ':lang(de)', 'i', ':root', 'i:-soup-contains(cd)']),
    ('<div><p>a</p>b<!--c--><p></p></div>', 'lxml', ['p:empty', 'div > p', ':root', 'p:first-child', 'div:-soup-contains(b)']),
    # text held by bs4's special string containers (Script, Stylesheet, TemplateString, ...): classes looked up in bs4
    ('<div id="d"><script>var token = 1;</script><style>p{color:red}</style><template><b>tt</b></template><ruby>k<rt>rt</rt></ruby></div><p></p>',
     'html.parser', ['div:-soup-contains(token)', 'div:-soup-contains("color")', 'script:-soup-contains-own(token)', 'style:empty',
                     'template:-soup-contains(tt)', 'div:-soup-contains(rt)', 'script:empty', ':-soup-contains-own(tt)']),
    ('<div id="d"><script>var token = 1;</script><style>p{color:red}</style><textarea>ta</textarea></div>', 'lxml',
     ['div:-soup-contains(token)', 'div:-soup-contains("color")', 'style:empty', 'textarea:-soup-contains(ta)', ':-soup-contains-own(ta)']),
    # a default ('') namespace in the caller's map, a None-valued entry, an empty map, no map at all
    ('<?xml version="1.0"?><feed xmlns="http://www.w3.org/2005/Atom" xmlns:media="urn:media"><entry><title id="t1">a</title>'
     '<media:title id="t2">b</media:title></entry><x xmlns=""><title id="t3">c</title></x></feed>', 'xml',
     ['title', 'm|title', '*|title', '|title', 'entry > title', ':not(title)', 'entry :is(title, m|title)'],
     {'': 'http://www.w3.org/2005/Atom', 'm': 'urn:media'}),
    ('<?xml version="1.0"?><feed xmlns="http://www.w3.org/2005/Atom"><title id="t1">a</title><x xmlns=""><title id="t3">c</title></x></feed>',
     'xml', ['title', '*|title', '|title', '[id]', '[|id]'], {}),
    ('<?xml version="1.0"?><r xmlns:a="urn:a"><a:i/><i/></r>', 'xml', ['i', '*|i', '|i', ':root > i'], None),
]
NSMAP = {'a': 'urn:a', 'xlink': 'http://www.w3.org/1999/xlink', 'svg': 'http://www.w3.org/2000/svg'}

CHILD = r'''
import sys, json, warnings, io, contextlib
prog = sys.argv[1]
out = io.StringIO(); err = io.StringIO()
with warnings.catch_warnings(record=True) as w:
    warnings.simplefilter('always')
    with contextlib.redirect_stdout(out), contextlib.redirect_stderr(err):
        exec(prog, {})
res = {'stdout': out.getvalue(), 'stderr': err.getvalue(), 'warnings': [str(x.message)[:200] for x in w]}
import bs4, soupsieve
with open(sys.argv[2]) as _f:
    battery = json.load(_f)
vals = []
for case in battery['cases']:
    markup, parser, sels = case[:3]
    ns = case[3] if len(case) > 3 else battery['ns']
    soup = bs4.BeautifulSoup(markup, parser)
    for s in sels:
        try:
            a = [str(e)[:60] for e in soup.select(s, namespaces=ns)]
        except Exception as ex:
            a = 'EXC ' + type(ex).__name__
        try:
            b = [str(e)[:60] for e in soupsieve.select(s, soup, namespaces=ns)]
        except Exception as ex:
            b = 'EXC ' + type(ex).__name__
        vals.append([a, b])
        # the limit travels through Beautiful Soup's CSS proxy positionally
        for lim in (1, 2):
            try:
                a2 = [str(e)[:60] for e in soup.select(s, namespaces=ns, limit=lim)]
                a3 = [str(e)[:60] for e in soup.css.iselect(s, namespaces=ns, limit=lim)]
                one = soup.select_one(s, namespaces=ns)
                a4 = None if one is None else str(one)[:60]
            except Exception as ex:
                a2 = a3 = a4 = 'EXC ' + type(ex).__name__
            try:
                b2 = [str(e)[:60] for e in soupsieve.select(s, soup, namespaces=ns, limit=lim)]
                one = soupsieve.select_one(s, soup, namespaces=ns)
                b4 = None if one is None else str(one)[:60]
            except Exception as ex:
                b2 = b4 = 'EXC ' + type(ex).__name__
            full = a if isinstance(a, list) else None
            ok = (a2 == b2 == a3) and a4 == b4 and (full is None or (a2 == full[:lim] and a4 == (full[0] if full else None)))
            vals.append([[a2, a3, a4] if ok else ['LIMIT-MISMATCH', a2, a3, a4], [b2, b2, b4] if ok else ['LIMIT-MISMATCH', b2, b4, full]])
res['results'] = vals
res['bs4_css_soupsieve'] = bs4.css.soupsieve is soupsieve
print(json.dumps(res))
'''


def run(tier, seed):
    ck = Check(PID, tier, seed)
    ck.proof = lib.proof_step('props/C16.v', CONE)
    ck.broken += ck.proof['broken']
    progs = [[f] for f in FORMS] + [list(p) for p in itertools.product(FORMS[:5] + FORMS[8:9], repeat=2)]
    if tier == 'thorough':
        progs = [[f] for f in FORMS] + [list(p) for p in itertools.product(FORMS, repeat=2)] + \
                [list(p) for p in itertools.product(FORMS[:4], repeat=3)]
    tmp = tempfile.mkdtemp(prefix='c16_')
    bat = os.path.join(tmp, 'battery.json')
    json.dump({'cases': BATTERY, 'ns': NSMAP}, open(bat, 'w'))
    child = os.path.join(tmp, 'child.py')
    open(child, 'w').write(CHILD)
    env = build.env()
    env['PYTHONPATH'] = build.REPO
    env['PYTHONWARNINGS'] = 'default'
    procs = []
    import concurrent.futures as cf

    def one(pf):
        p, fl = pf
        src = '\n'.join(p)
        r = subprocess.run([build.PY] + fl + [child, src, bat], env=env, capture_output=True, text=True, timeout=120, cwd=tmp)
        return (p if not fl else p + ['# interpreter flags: ' + ' '.join(fl)]), r
    # the same programs under other interpreter configurations: assertions / docstrings stripped, warnings as errors
    cfgs = [(p, []) for p in progs] + [(p, fl) for p in progs if len(p) == 1 for fl in (['-O'], ['-OO'], ['-W', 'error'], ['-X', 'dev'])]
    with cf.ThreadPoolExecutor(16) as ex:
        outs = list(ex.map(one, cfgs))
    ref = None
    for p, r in outs:
        ck.count(('program', len(p), p[0]))
        label = '; '.join(p)
        if r.returncode != 0:
            ck.violation(f'fresh interpreter: "{label}" fails: {r.stderr.strip().splitlines()[-1][:200] if r.stderr.strip() else r.returncode}',
                         {'program': p, 'stderr_tail': r.stderr[-600:], 'replay': f"PYTHONPATH=/repo python -c {label!r}"})
            continue
        try:
            res = json.loads(r.stdout.strip().splitlines()[-1])
        except Exception:
            ck.violation(f'"{label}": unexpected output', {'program': p, 'stdout': r.stdout[-400:], 'stderr': r.stderr[-400:]})
            continue
        if res['stdout'] or res['stderr'] or res['warnings']:
            ck.violation(f'"{label}" produces output or warnings at import time',
                         {'program': p, 'stdout': res['stdout'][:300], 'stderr': res['stderr'][:300], 'warnings': res['warnings']})
        if not res['bs4_css_soupsieve']:
            ck.violation(f'after "{label}" bs4.css.soupsieve is not the soupsieve module (silent degradation)', {'program': p})
        for i, (a, b) in enumerate(res['results']):
            if a != b:
                ck.violation(f'after "{label}" BeautifulSoup.select and soupsieve.select disagree', {'program': p, 'case': i, 'bs4': a, 'soupsieve': b})
                break
        if ref is None:
            ref = (p, res['results'])
        elif res['results'] != ref[1]:
            i = next(i for i, (x, y) in enumerate(zip(res['results'], ref[1])) if x != y)
            flat = [(c_[0], c_[1], s + sfx) for c_ in BATTERY for s in c_[2] for sfx in ('', ' (limit=1)', ' (limit=2)')]
            ck.violation(f'results depend on the import order: "{label}" vs "{"; ".join(ref[0])}" differ on {flat[i][2]!r}',
                         {'program': p, 'reference_program': ref[0], 'selector': flat[i][2], 'markup': flat[i][0], 'parser': flat[i][1],
                          'this': res['results'][i], 'reference': ref[1][i]})
    ck.sample({'program': progs[0], 'cases': sum(len(c_[2]) for c_ in BATTERY)})
    import shutil
    shutil.rmtree(tmp, ignore_errors=True)
    return ck.finish(
        level='proof',
        rule=f'{len(progs)} import programs (every form alone, every ordered pair of the main forms; thorough: all pairs and triples of '
             'the first four), each in a fresh interpreter: must succeed silently (stdout, stderr, warnings with -W default), '
             'bs4.css.soupsieve must be the real module, and a battery of 52 (markup, parser, selector, namespace map) cases - comments, doctype, '
             'CDATA, namespaced attributes, default / empty / absent namespace maps, state pseudo-classes - must give identical results for BeautifulSoup.select and '
             'soupsieve.select and across all import orders. The Coq import machine covers all 1463 programs of length <= 3.',
        assumptions=['the import machine abstracts Python\'s import protocol (partial modules, from-import fallback to submodules, '
                     'try/except ImportError); stdlib and third-party parsers are assumed importable',
                     'T5 is a static scan: import-time effects hidden behind dynamic attribute access are reported as DynUse'])


def replay(path):
    print(open(path).read())
    return 0
